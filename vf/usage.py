"""API-usage patterns shared by the checks (metamorphic relations over HOW a result is consumed, not over the input).

The library hands out generators that read from streams shared with every other object of the file.  A caller may consume such a
generator step by step and do anything else in between: move the stream, start a second walk of the same table, ask other questions.
The items must not depend on that."""


def stepwise(make_iter, disturb, limit=1000000):
    """consume make_iter() one item at a time, calling disturb(i) after every item -> list of items"""
    out = []
    it = iter(make_iter())
    i = 0
    while i < limit:
        try:
            x = next(it)
        except StopIteration:
            break
        out.append(x)
        disturb(i)
        i += 1
    return out


def disturber(stream, make_iter=None, others=()):
    """-> disturb(i): moves `stream`, every third step starts a nested walk of the same table and abandons it after two items (kept alive),
    and calls the extra zero-argument callables in turn.  Exceptions of the disturbing calls are ignored (they are judged elsewhere)."""
    keep = []

    def disturb(i):
        try:
            stream.seek(0, 2)
            end = stream.tell()
            stream.seek((i * 7919 + 13) % (end + 1))
        except Exception:  # noqa
            pass
        if make_iter is not None and i % 3 == 0:
            try:
                it = iter(make_iter())
                next(it, None)
                next(it, None)
                keep.append(it)
            except Exception:  # noqa
                pass
        if others:
            try:
                others[i % len(others)]()
            except Exception:  # noqa
                pass
    return disturb

"""A tiny 'chooser' abstraction so that one model-building function serves both the deterministic
sweeps (seeded PRNG, fixed seed -> deterministic) and Hypothesis (`draw`)."""
import random

from hypothesis import strategies as st


class RndChooser:
    def __init__(self, seed):
        self.r = random.Random(seed)

    def int(self, lo, hi):
        return self.r.randint(lo, hi)

    def choice(self, seq):
        return seq[self.r.randrange(len(seq))]

    def bool(self, p=0.5):
        return self.r.random() < p

    def bytes(self, lo, hi=None):
        n = lo if hi is None else self.r.randint(lo, hi)
        return bytes(self.r.getrandbits(8) for _ in range(n))

    def perm(self, seq):
        seq = list(seq)
        self.r.shuffle(seq)
        return seq

    def word(self, bits):
        """boundary-biased unsigned integer of the given width"""
        k = self.r.randrange(6)
        if k == 0:
            return self.choice([0, 1, (1 << bits) - 1, 1 << (bits - 1), (1 << (bits - 1)) - 1])
        if k == 1:
            return self.r.getrandbits(min(8, bits))
        if k == 2:
            return self.r.getrandbits(min(16, bits))
        return self.r.getrandbits(bits)


class HypChooser:
    def __init__(self, draw):
        self.draw = draw

    def int(self, lo, hi):
        return self.draw(st.integers(lo, hi))

    def choice(self, seq):
        return self.draw(st.sampled_from(list(seq)))

    def bool(self, p=0.5):
        if p == 0.5:
            return self.draw(st.booleans())
        return self.draw(st.integers(0, 999)) < p * 1000

    def bytes(self, lo, hi=None):
        hi = lo if hi is None else hi
        return self.draw(st.binary(min_size=lo, max_size=hi))

    def perm(self, seq):
        return list(self.draw(st.permutations(list(seq))))

    def word(self, bits):
        return self.draw(st.one_of(
            st.sampled_from([0, 1, (1 << bits) - 1, 1 << (bits - 1), (1 << (bits - 1)) - 1]),
            st.integers(0, min(255, (1 << bits) - 1)), st.integers(0, min(0xffff, (1 << bits) - 1)), st.integers(0, (1 << bits) - 1)))


def composite_from(fn):
    """Turn build(ch, tier) into a Hypothesis strategy factory."""
    def strategy(tier):
        @st.composite
        def s(draw):
            return fn(HypChooser(draw), tier)
        return s()
    return strategy

"""Development helper: keep a confirmed seeded change as /verif/seeded/<id>/{patch.diff,demo.py,meta.json}.

    python -m vf.seedkeep <id> <round> <srcdir> <seedeval.json> '<breaks>' '<needs>' '<author note>' ['Cxx=verdict text' ...]

<seedeval.json> is the output of `python -m vf.seedeval` (its last JSON object); the change is kept only if that run confirmed it
(demo 0 on the clean tree, non-zero with the change, no pinned test lost).  Verdict texts given on the command line replace the
automatic ones ("CAUGHT (quick) as the check stood: <first bucket>" / "MISSED").
"""
import os
import sys
import json
import shutil


def main():
    sid, rnd, src, evj, breaks, needs, author = sys.argv[1:8]
    over = dict(a.split('=', 1) for a in sys.argv[8:])
    txt = open(evj).read()
    ev = json.loads(txt[txt.index('{\n "property"'):]) if '{\n "property"' in txt else json.loads(txt[txt.rindex('{"property"'):])
    ok = ev.get('demo_clean_rc') == 0 and ev.get('apply_rc') == 0 and ev.get('demo_changed_rc') not in (0, None) and not ev.get('tests_missing_with_change')
    if not ok:
        print('NOT CONFIRMED: %s' % json.dumps({k: ev.get(k) for k in ('demo_clean_rc', 'apply_rc', 'demo_changed_rc', 'tests_missing_with_change')}))
        return 1
    dst = os.path.join('/verif/seeded', sid)
    os.makedirs(dst, exist_ok=True)
    shutil.copy(os.path.join(src, 'patch.diff'), os.path.join(dst, 'patch.diff'))
    shutil.copy(os.path.join(src, 'demo.py'), os.path.join(dst, 'demo.py'))
    checks = {}
    for c, r in ev['checks'].items():
        if c in over:
            checks[c] = over[c]
        elif r['verdict'] == 'CAUGHT':
            b = r['buckets'][0].split(' count=')[0].replace('bucket=', '') if r['buckets'] else ''
            checks[c] = 'CAUGHT (quick) as the check stood: %s' % b
        else:
            checks[c] = r['verdict']
    head = os.popen('git -C /repo rev-parse --short HEAD').read().strip()
    meta = {'id': sid, 'property': sid.split('-')[0], 'round': int(rnd), 'breaks': breaks, 'needs_to_manifest': needs, 'author': author,
            'confirmed': {'how': 'python -m vf.seedeval %s patch.diff demo.py (scratch worktree of /repo HEAD %s): demo exits 0 on the clean tree and %s '
                                 'with the change; all 111 pinned tests still pass with the change' % (sid.split('-')[0], head, ev['demo_changed_rc']),
                          'checks': checks}}
    json.dump(meta, open(os.path.join(dst, 'meta.json'), 'w'), indent=1)
    print('kept', dst, json.dumps(checks)[:300])
    return 0


if __name__ == '__main__':
    sys.exit(main())

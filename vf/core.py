"""Common machinery: seeds, sharding, collectors, evidence, known findings, exit codes.

Every check module (vf/checks/cXX.py) exposes

    ID        = 'Cxx'
    RULE      = text: how cases are generated and what makes one non-trivial
    N         = {'quick': n_random_cases, 'thorough': n_random_cases}
    strategy(tier)            -> Hypothesis strategy producing a JSON-able *case*
    run_case(ctx, case)       -> executes one case against the library, never raises
                                 for a property violation: calls ctx.fail(bucket, ...)
    sweep(tier)               -> (optional) deterministic list/iterator of cases
    bulk(ctx, tier, shard, nshards) -> (optional) custom deterministic enumeration
    floors(ctx)               -> (optional) list of 'vacuous run' complaints
    ASSUMPTIONS               -> (optional) list of strings

A *case* is plain data (dict/list/int/str/bool/None/bytes).  It is what is written into a
replay file and what `--replay` feeds back into run_case without Hypothesis.
"""
import os
import sys
import json
import time
import hashlib
import traceback
import collections
import multiprocessing

VERIF = os.path.dirname(os.path.dirname(os.path.abspath(__file__)))
REPO = os.environ.get('VF_REPO', '/repo')
NSHARDS = int(os.environ.get('VF_SHARDS', '16'))
OUT = os.environ.get('VF_OUT', VERIF)   # where evidence and *new* replay files are written

EXIT_OK, EXIT_VIOLATION, EXIT_HARNESS = 0, 1, 2


def use_repo():
    """Make `import elftools` resolve to the working tree of /repo (no caching)."""
    sys.dont_write_bytecode = True
    if REPO not in sys.path:
        sys.path.insert(0, REPO)
    import elftools  # noqa
    if not os.path.abspath(elftools.__file__).startswith(os.path.abspath(REPO)):
        raise HarnessError('elftools imported from %s, not from %s' % (elftools.__file__, REPO))


class HarnessError(Exception):
    pass


# ---------------------------------------------------------------------------
# JSON with bytes

def to_jsonable(o):
    if isinstance(o, (bytes, bytearray)):
        return {'$b': bytes(o).hex()}
    if isinstance(o, dict):
        return {str(k): to_jsonable(v) for k, v in o.items()}
    if isinstance(o, (list, tuple)):
        return [to_jsonable(v) for v in o]
    if isinstance(o, (set, frozenset)):
        return sorted(to_jsonable(v) for v in o)
    if isinstance(o, (int, str, bool, float)) or o is None:
        return o
    return repr(o)


def from_jsonable(o):
    if isinstance(o, dict):
        if len(o) == 1 and '$b' in o:
            return bytes.fromhex(o['$b'])
        return {k: from_jsonable(v) for k, v in o.items()}
    if isinstance(o, list):
        return [from_jsonable(v) for v in o]
    return o


def dumps(o):
    return json.dumps(to_jsonable(o), sort_keys=True)


def digest(*parts):
    h = hashlib.sha1()
    for p in parts:
        if isinstance(p, str):
            p = p.encode()
        elif not isinstance(p, (bytes, bytearray)):
            p = dumps(p).encode()
        h.update(p)
        h.update(b'\0')
    return h.digest()[:10]


# ---------------------------------------------------------------------------

def exc_site(e):
    """(type name, innermost frame inside the elftools package) of an exception."""
    tb = traceback.extract_tb(e.__traceback__)
    site = '?'
    for fr in tb:
        fn = fr.filename.replace('\\', '/')
        if '/elftools/' in fn or '/scripts/' in fn:
            site = '%s:%s' % (fn.split('/elftools/')[-1] if '/elftools/' in fn else os.path.basename(fn), fr.name)
    return type(e).__name__, site


class Ctx:
    """Collector for one shard of one run."""

    MAX_SAMPLES = 5

    def __init__(self, pid, tier, seed, shard=0, scratch=False):
        self.pid, self.tier, self.seed, self.shard = pid, tier, seed, shard
        self.scratch = scratch
        self.evaluations = 0
        self.nontrivial = set()
        self.samples = []
        self.counters = collections.Counter()
        self.findings = {}          # bucket -> {'count', 'detail', 'case', 'size'}
        self.cur_buckets = set()    # buckets hit by the case being executed

    # -- bookkeeping
    def case(self, key, nontrivial, sample=None):
        """Register one executed case.  key: bytes/str/obj identifying it (canonical encoded
        input or op sequence)."""
        self.evaluations += 1
        if nontrivial:
            d = digest(key)
            if d not in self.nontrivial:
                self.nontrivial.add(d)
                if sample is not None and len(self.samples) < self.MAX_SAMPLES:
                    self.samples.append(to_jsonable(sample))

    def count(self, name, n=1):
        self.counters[name] += n

    def fail(self, bucket, detail, case):
        """Record a discrepancy.  bucket: short stable key naming the root cause as narrowly
        as the observation allows (no spaces).  detail: human text incl. expected/actual."""
        bucket = bucket.replace(' ', '_')
        self.cur_buckets.add(bucket)
        if self.scratch:
            return
        sc = getattr(self, '_size_cache', None)
        if sc is not None and sc[0] is case:
            size = sc[1]
        else:
            try:
                size = len(dumps(case))
            except Exception:
                size = 1 << 30
            self._size_cache = (case, size)
        f = self.findings.get(bucket)
        if f is None:
            self.findings[bucket] = {'count': 1, 'detail': str(detail)[:2000], 'case': to_jsonable(case), 'size': size}
        else:
            f['count'] += 1
            if size < f['size']:
                f.update(detail=str(detail)[:2000], case=to_jsonable(case), size=size)

    def fail_exc(self, prefix, e, case, extra=''):
        t, site = exc_site(e)
        self.fail('%s|%s|%s' % (prefix, t, site), '%s raised %s: %s %s' % (prefix, t, str(e)[:300], extra), case)

    # -- merging
    def export(self):
        return {'evaluations': self.evaluations, 'nontrivial': self.nontrivial, 'samples': self.samples,
                'counters': dict(self.counters), 'findings': self.findings}

    def absorb(self, d):
        self.evaluations += d['evaluations']
        self.nontrivial |= d['nontrivial']
        for s in d['samples']:
            if len(self.samples) < self.MAX_SAMPLES:
                self.samples.append(s)
        self.counters.update(d['counters'])
        for b, f in d['findings'].items():
            g = self.findings.get(b)
            if g is None:
                self.findings[b] = dict(f)
            else:
                g['count'] += f['count']
                if f['size'] < g['size']:
                    g.update(detail=f['detail'], case=f['case'], size=f['size'])


# ---------------------------------------------------------------------------
# known findings

class Known:
    def __init__(self, path=None):
        self.open = {}    # (pid, bucket) -> text
        self.fixed = []   # (pid, commit, text)
        path = path or os.path.join(VERIF, 'known_findings.txt')
        if not os.path.exists(path):
            return
        for line in open(path, encoding='utf-8'):
            line = line.strip()
            if not line or line.startswith('#'):
                continue
            kind, _, rest = line.partition(':')
            toks = rest.split()
            kv = dict(t.split('=', 1) for t in toks if '=' in t and t.split('=', 1)[0] in ('property', 'bucket'))
            text = ' '.join(t for t in toks if not (t.startswith('property=') or t.startswith('bucket=')))
            if kind == 'open':
                self.open[(kv['property'], kv['bucket'])] = text
            elif kind == 'fixed':
                self.fixed.append((kv['property'], text))

    def match(self, pid, bucket):
        """Exact bucket, or a listed bucket ending in '*' that prefixes it."""
        if (pid, bucket) in self.open:
            return bucket
        for (p, b) in self.open:
            if p == pid and b.endswith('*') and bucket.startswith(b[:-1]):
                return b
        return None


# ---------------------------------------------------------------------------
# drivers

def _hyp_settings(n, shrink=False):
    from hypothesis import settings, HealthCheck, Phase
    phases = [Phase.generate] + ([Phase.shrink] if shrink else [])
    return settings(max_examples=n, database=None, deadline=None, derandomize=False,
                    report_multiple_bugs=False, suppress_health_check=list(HealthCheck),
                    phases=phases, print_blob=False)


def run_random(mod, ctx, n, seed_value):
    if n <= 0:
        return
    from hypothesis import given, seed
    strat = mod.strategy(ctx.tier)

    @seed(seed_value)
    @_hyp_settings(n)
    @given(strat)
    def body(case):
        ctx.cur_buckets = set()
        mod.run_case(ctx, case)

    body()


def buckets_of(mod, case, pid, tier):
    c = Ctx(pid, tier, 0, scratch=True)
    mod.run_case(c, case)
    return c.cur_buckets


def shrink_bucket(mod, pid, tier, bucket, seed_value, budget):
    """Try to find a Hypothesis-minimal case for `bucket`.  Returns case or None."""
    import random
    from hypothesis import find, settings, HealthCheck, Phase
    from hypothesis.errors import NoSuchExample
    try:
        return find(mod.strategy(tier), lambda c: bucket in buckets_of(mod, c, pid, tier),
                    random=random.Random(seed_value),
                    settings=settings(max_examples=budget, database=None, deadline=None,
                                      suppress_health_check=list(HealthCheck),
                                      phases=[Phase.generate, Phase.shrink]))
    except NoSuchExample:
        return None
    except Exception:
        return None


def _worker(args):
    modname, tier, seed_value, shard, nshards, n_random = args
    try:
        use_repo()
        import importlib
        mod = importlib.import_module(modname)
        ctx = Ctx(mod.ID, tier, seed_value, shard)
        if hasattr(mod, 'sweep'):
            for i, case in enumerate(mod.sweep(tier)):
                if i % nshards == shard:
                    ctx.cur_buckets = set()
                    mod.run_case(ctx, case)
                    ctx.count('sweep_cases')
        if hasattr(mod, 'bulk') and (os.environ.get('VF_ALIEN') != '1' or getattr(mod, 'ALIEN_BULK', False)):   # the child interpreter runs sweep + random cases only
            mod.bulk(ctx, tier, shard, nshards)
        per = n_random // nshards + (1 if shard < n_random % nshards else 0)
        run_random(mod, ctx, per, seed_value * 1000 + shard)
        ctx.count('random_cases', per)
        return ('ok', ctx.export())
    except BaseException as e:  # noqa
        return ('err', 'shard %d: %s\n%s' % (shard, e, traceback.format_exc()))


def replay_dir(pid):
    return os.path.join(VERIF, 'replay', pid)


def run_replays(mod, ctx, paths):
    for p in paths:
        with open(p) as f:
            doc = json.load(f)
        case = from_jsonable(doc['case'])
        ctx.cur_buckets = set()
        mod.run_case(ctx, case)
        ctx.count('replay_cases')


def write_evidence(mod, ctx, wall, n_viol, extra=None):
    cov = {
        'evaluations': ctx.evaluations,
        'distinct_nontrivial': len(ctx.nontrivial) + ctx.counters.get('bulk_nontrivial', 0),
        'rule': mod.RULE,
        'samples': ctx.samples[:Ctx.MAX_SAMPLES],
        'histogram': dict(sorted(ctx.counters.items())),
    }
    if extra:
        cov.update(extra)
    ev = {
        'property_id': mod.ID, 'tier': ctx.tier, 'seed': ctx.seed, 'level': 'exploration',
        'coverage': cov, 'assumptions': list(getattr(mod, 'ASSUMPTIONS', [])),
        'wall_s': round(wall, 2), 'violations': n_viol,
    }
    os.makedirs(os.path.join(OUT, 'evidence'), exist_ok=True)
    path = os.path.join(OUT, 'evidence', '%s.json' % mod.ID)
    with open(path + '.tmp', 'w') as f:
        json.dump(ev, f, indent=1, sort_keys=True)
    os.replace(path + '.tmp', path)


# ---------------------------------------------------------------------------
# the same check once more in a differently configured interpreter

ALIEN_FLAGS = ['-O', '-bb']          # asserts removed; str() of bytes and bytes/str comparisons are errors
ALIEN_ENV = {'LC_ALL': 'C', 'LANG': 'C', 'TZ': 'NPT-5:45', 'PYTHONUTF8': '0', 'PYTHONCOERCECLOCALE': '0', 'PYTHONIOENCODING': 'utf-8'}
ALIEN_N = {'quick': 150, 'thorough': 2000}


def run_alien(pid, tier, seed_value, replay_path=None):
    """What the library answers must not depend on how the interpreter was started.  The interpreter flags and the locale are fixed at
    start-up, so the check is run once more, with a reduced case count, in a child interpreter started with -O -bb under the C locale
    without UTF-8 mode.  -> None (already inside such a child, or switched off) or (returncode, output, directory with its replay files)"""
    if os.environ.get('VF_ALIEN') == '1' or os.environ.get('VF_NO_ALIEN') == '1':
        return None
    import subprocess
    import tempfile
    out = tempfile.mkdtemp(prefix='vfalien_')
    env = {k: v for k, v in os.environ.items() if not k.startswith('LC_') and k not in ('LANG', 'LANGUAGE')}
    env.update(ALIEN_ENV)
    env.update({'VF_ALIEN': '1', 'VF_OUT': out, 'VF_REPO': REPO, 'VERIF_SEED': str(seed_value), 'PYTHONHASHSEED': '0', 'PYTHONDONTWRITEBYTECODE': '1'})
    cmd = [sys.executable] + ALIEN_FLAGS + ['-m', 'vf.run', pid, '--tier', 'quick', '--no-shrink']
    cmd += ['--replay', os.path.abspath(replay_path)] if replay_path else ['--n', str(ALIEN_N.get(tier, 150)), '--shards', '4']
    p = subprocess.run(cmd, cwd=VERIF, env=env, stdout=subprocess.PIPE, stderr=subprocess.STDOUT, text=True, errors='replace')
    return p.returncode, p.stdout, out


def importlib_id(modname):
    import importlib
    return importlib.import_module(modname).ID


def main_check(modname, tier, seed_value, replay_path=None, nshards=None, n_override=None, no_shrink=False):
    t0 = time.time()
    use_repo()
    if replay_path and os.environ.get('VF_ALIEN') != '1':
        try:
            with open(replay_path) as fh:
                is_alien = bool(json.load(fh).get('alien'))
        except Exception:  # noqa
            is_alien = False
        if is_alien:
            # a finding of the child interpreter replays in a child interpreter
            r = run_alien(importlib_id(modname), tier, seed_value, replay_path)
            if r is not None:
                rc, text, out = r
                import shutil
                shutil.rmtree(out, ignore_errors=True)
                sys.stdout.write(text)
                return rc
    import importlib
    mod = importlib.import_module(modname)
    pid = mod.ID
    nshards = nshards or NSHARDS
    ctx = Ctx(pid, tier, seed_value)

    try:
        if replay_path:
            run_replays(mod, ctx, [replay_path])
        else:
            rd = replay_dir(pid)
            paths = sorted(os.path.join(rd, f) for f in os.listdir(rd) if f.endswith('.json')) if os.path.isdir(rd) else []
            run_replays(mod, ctx, paths)
            n_random = n_override if n_override is not None else mod.N[tier]
            jobs = [(modname, tier, seed_value, s, nshards, n_random) for s in range(nshards)]
            if nshards == 1:
                results = [_worker(jobs[0])]
            else:
                # an executor, not multiprocessing.Pool: when a worker process dies (killed by the kernel for its memory use, a crash of
                # the interpreter) Pool.map waits for ever; here the loss surfaces as BrokenProcessPool = HARNESS-ERROR
                import concurrent.futures
                mpctx = multiprocessing.get_context('fork')
                with concurrent.futures.ProcessPoolExecutor(max_workers=nshards, mp_context=mpctx) as pool:
                    results = list(pool.map(_worker, jobs, chunksize=1))
            errs = [r[1] for r in results if r[0] == 'err']
            if errs:
                print('HARNESS-ERROR property=%s' % pid)
                print('\n'.join(errs))
                return EXIT_HARNESS
            for r in results:
                ctx.absorb(r[1])
    except Exception:
        print('HARNESS-ERROR property=%s' % pid)
        traceback.print_exc()
        return EXIT_HARNESS

    known = Known()
    new = {}
    known_hits = collections.Counter()
    for b, f in sorted(ctx.findings.items()):
        k = known.match(pid, b)
        if k is None:
            new[b] = f
        else:
            known_hits[k] += f['count']

    # vacuity floors
    complaints = []
    if not replay_path and hasattr(mod, 'floors') and os.environ.get('VF_ALIEN') != '1' and n_override is None:
        complaints = list(mod.floors(ctx))

    # shrink + write replay for new buckets
    viol_lines = []
    new_dir = os.path.join(OUT, 'replay', pid)
    if new:
        os.makedirs(new_dir, exist_ok=True)
    for b, f in sorted(new.items()):
        case = from_jsonable(f['case'])
        shrunk = False
        if not no_shrink and not replay_path and hasattr(mod, 'strategy') and len(new) <= 12:
            budget = 300 if tier == 'quick' else 3000
            try:
                s = shrink_bucket(mod, pid, tier, b, seed_value, budget)
            except Exception:
                s = None
            if s is not None and len(dumps(s)) <= f['size']:
                case, shrunk = s, True
        name = hashlib.sha1(b.encode()).hexdigest()[:12] + '.json'
        path = replay_path or os.path.join(new_dir, name)
        if not replay_path:
            with open(path, 'w') as fh:
                json.dump({'property': pid, 'bucket': b, 'detail': f['detail'], 'count_in_run': f['count'],
                           'shrunk_by_hypothesis': shrunk, 'seed': seed_value, 'tier': tier,
                           'case': to_jsonable(case)}, fh, indent=1, sort_keys=True)
        viol_lines.append((b, f, path))

    wall = time.time() - t0
    extra = {
        'excluded_known': dict(known_hits),
        'new_buckets': sorted(new),
    }
    if hasattr(mod, 'evidence_extra'):
        extra.update(mod.evidence_extra(ctx))
    if not replay_path:
        write_evidence(mod, ctx, wall, len(new), extra)

    # once more in a child interpreter started with -O -bb under the C locale (not for replays, not inside such a child)
    alien_viol = []
    if not replay_path and n_override is None:
        r = run_alien(pid, tier, seed_value)
        if r is not None:
            import shutil
            rc, text, out = r
            summary = next((l for l in text.splitlines() if l.startswith(pid + ' tier=')), '')
            if rc == EXIT_HARNESS or (rc not in (EXIT_OK, EXIT_VIOLATION)):
                shutil.rmtree(out, ignore_errors=True)
                print('HARNESS-ERROR property=%s child interpreter (%s): exit %s\n%s' % (pid, ' '.join(ALIEN_FLAGS), rc, text[-1500:]))
                return EXIT_HARNESS
            if rc == EXIT_VIOLATION:
                src = os.path.join(out, 'replay', pid)
                os.makedirs(new_dir, exist_ok=True)
                for fn in sorted(os.listdir(src)) if os.path.isdir(src) else []:
                    with open(os.path.join(src, fn)) as fh:
                        doc = json.load(fh)
                    doc['alien'] = True
                    doc['bucket'] = 'interpreter=-O,-bb,C-locale|' + doc['bucket']
                    if known.match(pid, doc['bucket']) is not None:
                        known_hits[known.match(pid, doc['bucket'])] += doc.get('count_in_run', 1)
                        continue
                    path = os.path.join(new_dir, 'alien_' + fn)
                    with open(path, 'w') as fh:
                        json.dump(doc, fh, indent=1, sort_keys=True)
                    alien_viol.append((doc['bucket'], doc, path))
            shutil.rmtree(out, ignore_errors=True)
            try:
                ev_path = os.path.join(OUT, 'evidence', pid + '.json')
                with open(ev_path) as fh:
                    ev = json.load(fh)
                ev.setdefault('coverage', {})['child_interpreter'] = {'flags': ALIEN_FLAGS, 'environment': ALIEN_ENV, 'result': summary, 'violations': len(alien_viol)}
                with open(ev_path, 'w') as fh:
                    json.dump(ev, fh, indent=1, sort_keys=True)
            except Exception:  # noqa
                pass

    for (p, b), text in sorted(known.open.items()):
        if p == pid:
            print('KNOWN-FINDING: property=%s bucket=%s %s (cases this run: %d)' % (pid, b, text, known_hits.get(b, 0)))
    for b, doc, path in alien_viol:
        print('  bucket=%s count=%d :: %s' % (b, doc.get('count_in_run', 1), doc.get('detail', '')[:400]))
        print('VIOLATION property=%s replay=%s' % (pid, path))
    for b, f, path in viol_lines:
        print('  bucket=%s count=%d :: %s' % (b, f['count'], f['detail'][:400]))
        print('VIOLATION property=%s replay=%s' % (pid, path))
    print('%s tier=%s seed=%d evaluations=%d distinct_nontrivial=%d new_buckets=%d known_buckets=%d wall=%.1fs' % (
        pid, tier, seed_value, ctx.evaluations, len(ctx.nontrivial) + ctx.counters.get('bulk_nontrivial', 0), len(new), len(known_hits), wall))
    if new or alien_viol:
        return EXIT_VIOLATION
    if complaints:
        print('HARNESS-ERROR property=%s vacuous run: %s' % (pid, '; '.join(complaints)))
        return EXIT_HARNESS
    return EXIT_OK

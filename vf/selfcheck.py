"""Referee for my own encoders and models against tools that are independent of both pyelftools and me
(DESIGN.md 6.3).  Development / thorough-tier aid; a disagreement is a HARNESS error, never a violation.

    python -m vf.selfcheck elf [N]        ELF writer vs `readelf -hSlW` (header fields, section table, segment table)
    python -m vf.selfcheck inseg [N]      vf/ref/insegment.py vs the "Section to Segment mapping" of `readelf -lW`
    python -m vf.selfcheck dwarf [N]      DWARF writer vs `llvm-dwarfdump --verify` / --debug-info offsets
"""
import os
import re
import sys
import shutil
import tempfile
import subprocess

sys.path.insert(0, os.path.dirname(os.path.dirname(os.path.abspath(__file__))))
from vf import core  # noqa
from vf.enc import elf as W  # noqa
from vf.choose import RndChooser  # noqa

READELF = shutil.which('readelf')


def ref_elf(n):
    core.use_repo()
    from vf.checks import c01
    bad = tot = 0
    tmp = tempfile.mkdtemp(prefix='vfself_')
    try:
        for i in range(n):
            ch = RndChooser(9000 + i)
            m = c01.build_model(ch, 'quick')
            if m.get('invalid_links') or len(m['sections']) < 2 or m.get('shstrndx') is None:
                continue
            # readelf indexes the header tables as arrays of the standard structures (it only warns about a larger
            # e_shentsize/e_phentsize), so it cannot referee oversized entries
            m['shentsize_extra'] = 0
            m['phentsize_extra'] = 0
            data, R = W.build(m)
            p = os.path.join(tmp, 'f%d' % i)
            open(p, 'wb').write(data)
            out = subprocess.run([READELF, '-hSlW', p], capture_output=True, encoding='utf-8', errors='replace').stdout
            tot += 1
            def field(label):
                mo = re.search(r'%s:\s+(.*)' % re.escape(label), out)
                return mo.group(1).strip() if mo else None
            checks = [('Entry point address', lambda v: int(v, 16) == R['eh']['e_entry']),
                      ('Start of program headers', lambda v: int(v.split()[0]) == R['eh']['e_phoff']),
                      ('Start of section headers', lambda v: int(v.split()[0]) == R['eh']['e_shoff']),
                      ('Size of section headers', lambda v: int(v.split()[0]) == R['eh']['e_shentsize']),
                      ('Size of program headers', lambda v: int(v.split()[0]) == R['eh']['e_phentsize']),
                      ('Number of section headers', lambda v: int(v.split()[0]) == R['eh']['e_shnum'] and (R['eh']['e_shnum'] != 0 or ('(%d)' % R['shnum']) in v)),
                      ('Number of program headers', lambda v: int(v.split()[0]) == R['eh']['e_phnum'] and (R['eh']['e_phnum'] != 0xffff or ('(%d)' % R['phnum']) in v)),
                      ('Flags', lambda v: int(v.split(',')[0].split()[0], 16) == R['eh']['e_flags'])]
            for label, ok in checks:
                v = field(label)
                try:
                    if v is None or not ok(v):
                        bad += 1
                        print('DISAGREE file %d %s: readelf %r model %r' % (i, label, v, R['eh']))
                except Exception as e:  # noqa
                    bad += 1
                    print('UNPARSED file %d %s: %r (%s)' % (i, label, v, e))
            # section table rows:  [Nr] Name Type Addr Off Size ES Flg Lk Inf Al
            rows = re.findall(r'^\s*\[\s*(\d+)\]\s(.*)$', out, flags=re.M)
            for nr, rest in rows:
                h = R['sh'][int(nr)]
                nums = re.findall(r'\b[0-9a-f]{6,16}\b', rest)
                want = ['%0*x' % (8 if m['cls'] == 32 else 16, h['sh_addr']), '%06x' % h['sh_offset'], '%06x' % h['sh_size']]
                if not all(w.lstrip('0') in [x.lstrip('0') for x in nums] or w.strip('0') == '' for w in want):
                    bad += 1
                    print('DISAGREE file %d section %s: readelf %r model addr/off/size %r' % (i, nr, rest, want))
            if len(rows) != min(R['shnum'], len(rows)) or (R['shnum'] and len(rows) != R['shnum']):
                bad += 1
                print('DISAGREE file %d: readelf lists %d sections, model %d' % (i, len(rows), R['shnum']))
    finally:
        shutil.rmtree(tmp, ignore_errors=True)
    print('selfcheck elf: %d files, %d disagreements' % (tot, bad))
    return bad


def ref_inseg(n):
    core.use_repo()
    from vf.checks import c02
    from vf.ref import insegment as REF
    bad = pairs = 0
    tmp = tempfile.mkdtemp(prefix='vfself_')
    try:
        for i in range(n):
            ch = RndChooser(12000 + i)
            case = c02.build_inseg(ch, 'quick')
            cls, le = case['cls'], case['le']
            secs = [{'name': '', 'sh_type': 0}]
            for k, s in enumerate(case['secs']):
                secs.append({'name': '.s%d' % k, 'sh_type': s['sh_type'], 'sh_flags': s['sh_flags'], 'sh_addr': s['sh_addr'], 'data': None,
                             'sh_offset': s['sh_offset'], 'sh_size': s['sh_size'], 'sh_addralign': 1})
            secs.append({'name': '.shstrtab', 'sh_type': 3, 'data': b''})
            segs = [{'p_type': p['p_type'], 'p_flags': 4, 'p_offset': p['p_offset'], 'p_vaddr': p['p_vaddr'], 'p_filesz': p['p_filesz'], 'p_memsz': p['p_memsz'], 'p_align': 1}
                    for p in case['segs']]
            data, R = W.build({'cls': cls, 'le': le, 'e_type': 3, 'e_machine': 62, 'sections': secs, 'segments': segs, 'shstrndx': len(secs) - 1, 'tail': 0x3000})
            p = os.path.join(tmp, 'g%d' % i)
            open(p, 'wb').write(data)
            out = subprocess.run([READELF, '-lW', p], capture_output=True, encoding='utf-8', errors='replace').stdout
            mo = re.search(r'Section to Segment mapping:\n\s+Segment Sections\.\.\.\n(.*)', out, flags=re.S)
            if not mo:
                continue
            for line in mo.group(1).splitlines():
                parts = line.split()
                if not parts or not parts[0].isdigit():
                    continue
                j = int(parts[0])
                listed = set(parts[1:])
                for k, s in enumerate(case['secs']):
                    pg = case['segs'][j]
                    want = REF.in_segment_strict(s, pg, 64) and not REF.tbss_special(s, pg)
                    pairs += 1
                    if (('.s%d' % k) in listed) != want:
                        bad += 1
                        print('DISAGREE file %d seg %d sec %d: readelf %s, transcription %s: %r %r' % (i, j, k, ('.s%d' % k) in listed, want, pg, s))
    finally:
        shutil.rmtree(tmp, ignore_errors=True)
    print('selfcheck inseg: %d section x segment pairs, %d disagreements' % (pairs, bad))
    return bad


def ref_dwarf(n):
    core.use_repo()
    from vf.checks import c04
    from vf.enc import dwarf as D
    dd = shutil.which('llvm-dwarfdump') or shutil.which('llvm-dwarfdump-14')
    if not dd:
        print('selfcheck dwarf: llvm-dwarfdump absent, skipped')
        return 0
    bad = tot = dies = 0
    tmp = tempfile.mkdtemp(prefix='vfself_')
    try:
        for i in range(n):
            ch = RndChooser(15000 + i)
            case = c04.build(ch, 'quick')
            if not case['le']:
                continue           # llvm-dwarfdump wants a consistent target; keep to LE x86-64
            case['tunits'] = []
            w = D.InfoWriter(case)
            secs = [{'name': '', 'sh_type': 0}]
            for name, data in w.sections.items():
                secs.append({'name': name, 'sh_type': 1, 'data': data})
            secs.append({'name': '.shstrtab', 'sh_type': 3, 'data': b''})
            data, _ = W.build({'cls': 64, 'le': True, 'e_type': 1, 'e_machine': 62, 'sections': secs, 'shstrndx': len(secs) - 1})
            p = os.path.join(tmp, 'd%d.o' % i)
            open(p, 'wb').write(data)
            out = subprocess.run([dd, '--debug-info', p], capture_output=True, encoding='utf-8', errors='replace').stdout
            tot += 1
            offs = set(int(x, 16) for x in re.findall(r'^0x([0-9a-f]{8}):\s+(?:DW_TAG|NULL)', out, flags=re.M))
            want = set()
            for u in w.exp['units']:
                for r in u['recs']:
                    want.add(r['offset'])
            dies += len(want)
            # llvm prints each entry (incl. NULL) at its offset; unknown forms/tags may stop it early, so only
            # require that everything it does print is an offset of the model, and count full agreements
            extra = offs - want
            if extra:
                bad += 1
                print('DISAGREE file %d: llvm-dwarfdump lists entries at %r that the model does not have' % (i, sorted(extra)[:5]))
    finally:
        shutil.rmtree(tmp, ignore_errors=True)
    print('selfcheck dwarf: %d files, %d model entries, %d disagreements' % (tot, dies, bad))
    return bad


if __name__ == '__main__':
    what = sys.argv[1] if len(sys.argv) > 1 else 'elf'
    n = int(sys.argv[2]) if len(sys.argv) > 2 else 200
    if not READELF and what != 'dwarf':
        print('readelf absent: skipped')
        sys.exit(0)
    bad = {'elf': ref_elf, 'inseg': ref_inseg, 'dwarf': ref_dwarf}[what](n)
    sys.exit(2 if bad else 0)

"""binutils include/elf/internal.h  ELF_SECTION_IN_SEGMENT_1(sec_hdr, segment, check_vma=1, strict=1)
transcribed (binutils 2.40; validated against `readelf -lW` at design time and in vf.selfcheck).

Inputs are plain ints: section (sh_type, sh_flags, sh_addr, sh_offset, sh_size), segment
(p_type, p_offset, p_vaddr, p_filesz, p_memsz); `bits` = 32/64 gives the unsigned wrap width.
"""
SHT_NOBITS = 8
SHF_ALLOC, SHF_TLS = 0x2, 0x400
PT_LOAD, PT_DYNAMIC, PT_NOTE, PT_PHDR, PT_TLS = 1, 2, 4, 6, 7
PT_GNU_EH_FRAME, PT_GNU_STACK, PT_GNU_RELRO, PT_GNU_SFRAME = 0x6474e550, 0x6474e551, 0x6474e552, 0x6474e554
PT_GNU_MBIND_LO = 0x6474e555
PT_GNU_MBIND_HI = PT_GNU_MBIND_LO + 4096 - 1


def tbss_special(s, p):
    return bool(s['sh_flags'] & SHF_TLS) and s['sh_type'] == SHT_NOBITS and p['p_type'] != PT_TLS


def section_size(s, p):
    return 0 if tbss_special(s, p) else s['sh_size']


def in_segment_strict(s, p, bits):
    M = (1 << bits) - 1
    flags, stype, ptype = s['sh_flags'], s['sh_type'], p['p_type']
    tls = bool(flags & SHF_TLS)
    alloc = bool(flags & SHF_ALLOC)
    size = section_size(s, p)
    # Only PT_LOAD, PT_GNU_RELRO and PT_TLS segments can contain SHF_TLS sections.
    # PT_TLS segment contains only SHF_TLS sections, PT_PHDR no sections at all.
    if not ((tls and ptype in (PT_TLS, PT_GNU_RELRO, PT_LOAD)) or
            (not tls and ptype not in (PT_TLS, PT_PHDR))):
        return False
    # PT_LOAD and similar segments only have SHF_ALLOC sections.
    if not alloc and (ptype in (PT_LOAD, PT_DYNAMIC, PT_GNU_EH_FRAME, PT_GNU_STACK, PT_GNU_RELRO, PT_GNU_SFRAME) or
                      PT_GNU_MBIND_LO <= ptype <= PT_GNU_MBIND_HI):
        return False
    # Any section besides one of type SHT_NOBITS must have file offsets within the segment.
    if stype != SHT_NOBITS:
        if not (s['sh_offset'] >= p['p_offset'] and
                ((s['sh_offset'] - p['p_offset']) & M) <= ((p['p_filesz'] - 1) & M) and
                (s['sh_offset'] - p['p_offset'] + size) <= p['p_filesz']):
            return False
    # SHF_ALLOC sections must have VMAs within the segment.
    if alloc:
        if not (s['sh_addr'] >= p['p_vaddr'] and
                ((s['sh_addr'] - p['p_vaddr']) & M) <= ((p['p_memsz'] - 1) & M) and
                (s['sh_addr'] - p['p_vaddr'] + size) <= p['p_memsz']):
            return False
    # No zero size sections at start or end of PT_DYNAMIC nor PT_NOTE.
    if ptype in (PT_DYNAMIC, PT_NOTE) and s['sh_size'] == 0 and p['p_memsz'] != 0:
        ok_file = stype == SHT_NOBITS or (s['sh_offset'] > p['p_offset'] and (s['sh_offset'] - p['p_offset']) < p['p_filesz'])
        ok_vma = (not alloc) or (s['sh_addr'] > p['p_vaddr'] and (s['sh_addr'] - p['p_vaddr']) < p['p_memsz'])
        if not (ok_file and ok_vma):
            return False
    return True

"""Reference line-number state machine, transcribed from DWARF v5 section 6.2.2 (registers),
6.2.5.1 (special opcodes), 6.2.5.2 (standard opcodes), 6.2.5.3 (extended opcodes).
Written without reference to the elftools implementation.  Integers are unbounded."""

STD = {'copy': 1, 'advance_pc': 2, 'advance_line': 3, 'set_file': 4, 'set_column': 5, 'negate_stmt': 6,
       'set_basic_block': 7, 'const_add_pc': 8, 'fixed_advance_pc': 9, 'set_prologue_end': 10,
       'set_epilogue_begin': 11, 'set_isa': 12}
STD_LENGTHS = [0, 1, 1, 1, 1, 0, 0, 0, 1, 0, 0, 1]
EXT = {'end_sequence': 1, 'set_address': 2, 'define_file': 3, 'set_discriminator': 4}


def initial(hdr):
    # 6.2.2 table 6.4
    return {'address': 0, 'op_index': 0, 'file': 1, 'line': 1, 'column': 0, 'is_stmt': bool(hdr['default_is_stmt']),
            'basic_block': False, 'end_sequence': False, 'prologue_end': False, 'epilogue_begin': False, 'isa': 0,
            'discriminator': 0}


def run(hdr, ops):
    """-> (rows, defined_files).  hdr: dict with min_inst, max_ops, default_is_stmt, line_base, line_range, opcode_base."""
    rows = []
    files = []
    st = initial(hdr)
    min_inst, max_ops = hdr['min_inst'], hdr['max_ops']
    line_base, line_range, opcode_base = hdr['line_base'], hdr['line_range'], hdr['opcode_base']

    def advance(op_adv):
        # 6.2.5.1: new address = address + min_inst * ((op_index + operation advance) / max_ops)
        #          new op_index = (op_index + operation advance) % max_ops
        st['address'] += min_inst * ((st['op_index'] + op_adv) // max_ops)
        st['op_index'] = (st['op_index'] + op_adv) % max_ops

    def emit():
        rows.append(dict(st))

    def after_row():
        st['basic_block'] = False
        st['prologue_end'] = False
        st['epilogue_begin'] = False
        st['discriminator'] = 0

    for op in ops:
        k = op[0]
        if k == 'sp':
            adj = op[1] - opcode_base
            advance(adj // line_range)
            st['line'] += line_base + (adj % line_range)
            emit()
            after_row()
        elif k == 'copy':
            emit()
            after_row()
        elif k == 'advance_pc':
            advance(op[1])
        elif k == 'advance_line':
            st['line'] += op[1]
        elif k == 'set_file':
            st['file'] = op[1]
        elif k == 'set_column':
            st['column'] = op[1]
        elif k == 'negate_stmt':
            st['is_stmt'] = not st['is_stmt']
        elif k == 'set_basic_block':
            st['basic_block'] = True
        elif k == 'const_add_pc':
            advance((255 - opcode_base) // line_range)
        elif k == 'fixed_advance_pc':
            st['address'] += op[1]
            st['op_index'] = 0
        elif k == 'set_prologue_end':
            st['prologue_end'] = True
        elif k == 'set_epilogue_begin':
            st['epilogue_begin'] = True
        elif k == 'set_isa':
            st['isa'] = op[1]
        elif k == 'unk_std':
            pass                    # skipped by its declared operand count
        elif k == 'end_sequence':
            st['end_sequence'] = True
            emit()
            st = initial(hdr)
        elif k == 'set_address':
            st['address'] = op[1]
            st['op_index'] = 0
        elif k == 'define_file':
            files.append(op[1:5])
        elif k == 'set_discriminator':
            st['discriminator'] = op[1]
        elif k == 'unk_ext':
            pass
        else:
            raise ValueError(k)
    return rows, files

"""C08 development referee (not part of the check run):   /venv/bin/python -m vf.ref.c08_referee [N] [seed]

Feeds files produced by the C08 generators/encoders to parsers that are independent of pyelftools AND of the
C08 oracle, and compares what they print with the C08 expectation:

  tables   `readelf -rW`            offset / info (incl. the MIPS64 packed layout as binutils displays it) / addend (for
                                    entries with symbol index 0, where readelf prints the bare addend)
  RELR     `readelf -rW` and        decoded address list vs vf.ref.c08_reloc.relr_expand
           `llvm-readelf -r`
  apply    `readelf -R <section>`   relocated contents of the debug sections of ET_REL objects vs
                                    vf.ref.c08_reloc.apply_expected (types binutils 2.40 does not know -- LoongArch ADD/SUB/PCREL --
                                    are reported as 'not refereed'; error-path cases are not refereed)

A disagreement means the encoder or the oracle is wrong (or the tool deviates, to be analysed by hand).
"""
import os
import re
import sys
import shutil
import tempfile
import subprocess
import collections

from vf.checks import c08
from vf.ref import c08_reloc as REF
from vf.choose import RndChooser


def run(cmd):
    r = subprocess.run(cmd, stdout=subprocess.PIPE, stderr=subprocess.PIPE, text=True)
    return r.stdout, r.stderr


def parse_hexdump(out):
    data = bytearray()
    for line in out.splitlines():
        mo = re.match(r'\s+0x[0-9a-f]{8} ((?:[0-9a-f]{2,8} ?){1,4})', line)
        if mo:
            data += bytes.fromhex(mo.group(1).replace(' ', ''))
    return bytes(data)


def referee_apply(tmp, n, seed, stats, problems):
    ch = RndChooser(seed)
    for k in range(n):
        mk = c08.MACHINE_KEYS[k % len(c08.MACHINE_KEYS)]
        case = c08.gen_apply(ch, 'quick', mk=mk, neg=None)
        case.pop('extra', None)
        data, R, index = c08.build_apply_file(case)
        path = os.path.join(tmp, 'a%d.o' % k)
        open(path, 'wb').write(data)
        for t in case['targets']:
            if not t.get('relsec', True):
                continue
            exp, facts = REF.apply_expected(mk, case['em'], case['le'], t['rela'], t['data'], t['relocs'], case['syms'])
            out, err = run(['readelf', '-R', t['name'], path])
            unsupported = set(int(x) for x in re.findall(r'unable to apply unsupported reloc type (\d+)', err))
            other = [l for l in err.splitlines() if 'unsupported reloc type' not in l]
            got = parse_hexdump(out)
            if len(got) != len(exp):
                problems.append(('apply', mk, 'length', path, err[:200]))
                continue
            for f in facts:
                key = (mk, f['type'])
                if f['type'] in unsupported:
                    stats['apply not refereed (readelf does not know the type)', key] += 1
                    continue
                if not f['width']:
                    stats['apply agree', key] += 1
                    continue
                o, w = f['off'], f['width']
                if sum(1 for h in facts if h['width'] and h['off'] == o) > 1:
                    continue
                if got[o:o + w] == exp[o:o + w]:
                    stats['apply agree', key] += 1
                else:
                    stats['apply DISAGREE', key] += 1
                    problems.append(('apply', mk, f, got[o:o + w].hex(), exp[o:o + w].hex(), path, other[:2]))
            # bytes outside fields
            cov = set()
            for f in facts:
                cov |= set(range(f['off'], f['off'] + f['width']))
            if any(got[i] != t['data'][i] for i in range(len(exp)) if i not in cov):
                problems.append(('apply', mk, 'collateral', path))


def referee_corpus(tmp, stats, problems):
    """vendored compiler-produced objects (as compiled and with pre-filled RELA fields): mini reader + oracle vs readelf -R"""
    for k, case in enumerate(c08.corpus_cases()):
        path = os.path.join(tmp, 'c%d.o' % k)
        open(path, 'wb').write(case['file'])
        elf, mk, plan = c08.corpus_plan(case['file'])
        for name, content, rela, relocs, symvals in plan:
            if rela is None:
                continue
            exp, facts = REF.apply_expected(mk, elf['em'], elf['le'], rela, content, relocs, symvals)
            out, err = run(['readelf', '-R', name, path])
            got = parse_hexdump(out)
            key = (case['name'], 'pre-filled' if case['poison'] else 'as compiled')
            if got == exp and 'Warning' not in err:
                stats['corpus agree', key] += len(facts)
            else:
                stats['corpus DISAGREE', key] += 1
                problems.append(('corpus', case['name'], name, err[:200]))


def referee_tables(tmp, n, seed, stats, problems):
    ch = RndChooser(seed + 1)
    for k in range(n):
        kind = 'table' if k % 2 == 0 else 'relr'
        case = c08.gen_tables(ch, 'quick', kind)
        cls = case['cls']
        mips64 = cls == 64 and case['em'] == 8
        for t in case['tables']:
            if t['kind'] == 'rel':
                for i, e in enumerate(t['entries']):
                    if i % 2 == 0:
                        e[1] = 0        # symbol index 0 => readelf prints the bare addend
        data = c08.build_table_file(case)[0]
        path = os.path.join(tmp, 't%d.so' % k)
        open(path, 'wb').write(data)
        out, err = run(['readelf', '-rW', path])
        blocks = re.split(r"\nRelocation section '", '\n' + out)[1:]
        by_name = collections.defaultdict(list)
        for b in blocks:
            by_name[b.split("'")[0]].append(b)
        lout, lerr = run(['llvm-readelf', '-r', path])
        lblocks = re.split(r"\nRelocation section '", '\n' + lout)[1:]
        lby = collections.defaultdict(list)
        for b in lblocks:
            lby[b.split("'")[0]].append(b)
        seen = collections.Counter()
        dup = collections.Counter(t['name'] for t in case['tables'])
        for t in case['tables']:
            if dup[t['name']] > 1:
                continue            # the tools do not list empty sections, so positions of equal names are ambiguous
            j = 0
            if t['kind'] == 'relr':
                exp = REF.relr_expand(t['words'], cls)
                if not t['words']:
                    continue
                blk = by_name[t['name']][j] if j < len(by_name[t['name']]) else ''
                got = [int(x, 16) for x in re.findall(r'^([0-9a-f]{8,16})\s*$', blk, flags=re.M)]
                if got == exp:
                    stats['relr agree (readelf)', cls] += 1
                else:
                    stats['relr DISAGREE (readelf)', cls] += 1
                    problems.append(('relr', 'readelf', t['words'][:6], got[:6], exp[:6], path))
                blk = lby[t['name']][j] if j < len(lby[t['name']]) else ''
                got = [int(x, 16) for x in re.findall(r'^([0-9a-f]{8,16})\s+[0-9a-f]{8,16}\s+\S', blk, flags=re.M)]
                if got == exp:
                    stats['relr agree (llvm-readelf)', cls] += 1
                else:
                    stats['relr DISAGREE (llvm-readelf)', cls] += 1
                    problems.append(('relr', 'llvm-readelf', t['words'][:6], got[:6], exp[:6], path))
            else:
                if not t['entries']:
                    continue
                blk = by_name[t['name']][j] if j < len(by_name[t['name']]) else ''
                rows = re.findall(r'^([0-9a-f]{8,16})\s+([0-9a-f]{8,16})\b(.*)$', blk, flags=re.M)
                if len(rows) != len(t['entries']):
                    stats['table DISAGREE rows', cls] += 1
                    problems.append(('table', 'row count', len(rows), len(t['entries']), path, err[:200]))
                    continue
                ok = True
                for row, e in zip(rows, t['entries']):
                    exp = c08.exp_entry(cls, mips64, t['rela'], e)
                    if int(row[0], 16) != exp['r_offset'] or int(row[1], 16) != exp['r_info']:
                        ok = False
                        problems.append(('table', 'offset/info', row[:2], exp, path))
                        break
                    if t['rela'] and e[1] == 0 and not mips64:
                        mo = re.search(r'\s(-?[0-9a-f]+)\s*$', row[2])
                        if not mo or int(mo.group(1), 16) & ((1 << cls) - 1) != exp['r_addend'] & ((1 << cls) - 1):
                            ok = False
                            problems.append(('table', 'addend', row, exp, path))
                            break
                stats['table %s' % ('agree' if ok else 'DISAGREE'), (cls, 'mips64' if mips64 else 'std', 'rela' if t['rela'] else 'rel')] += 1


def main():
    n = int(sys.argv[1]) if len(sys.argv) > 1 else 300
    seed = int(sys.argv[2]) if len(sys.argv) > 2 else 1
    for tool in ('readelf', 'llvm-readelf'):
        if not shutil.which(tool):
            print('tool absent:', tool)
            return 2
    tmp = tempfile.mkdtemp(prefix='c08ref_')
    stats = collections.Counter()
    problems = []
    try:
        referee_apply(tmp, n, seed, stats, problems)
        referee_corpus(tmp, stats, problems)
        referee_tables(tmp, n, seed, stats, problems)
        for k, v in sorted(stats.items(), key=str):
            print('%-70s %-28s %d' % (k[0], k[1], v))
        for p in problems[:25]:
            print('PROBLEM', p)
        print('REFEREE %s (%d problems)' % ('OK' if not problems else 'DISAGREEMENT', len(problems)))
        return 1 if problems else 0
    finally:
        if not problems:
            shutil.rmtree(tmp, ignore_errors=True)
        else:
            print('files kept in', tmp)


if __name__ == '__main__':
    sys.exit(main())

"""C08 mini-corpus: compiler-produced relocatable objects (clang 14.0.6, `clang --target=<name> -g -O1 -c t.c`, DWARF v5)
vendored as zlib+base64 so that runs do not depend on a compiler, plus a minimal independent ELF reader
(struct.unpack only; shares no code with elftools or with vf/enc/elf.py).

Source t.c:

    struct pt { int x; long y; };
    static int counter;
    int table[4] = {1, 2, 3, 4};
    const char *name = "c08";
    static int helper(struct pt *p, int k) { counter += k; return p->x * k + (int)p->y; }
    int entry(int a) { struct pt p = {a, table[a & 3]}; return helper(&p, a) + counter; }
"""
import zlib
import base64
import struct

CORPUS_Z = {
    'aarch64-linux-gnu': (5064,
        'eNqtWE1sE0cUfrPetTdeO7ZjQ/6JCQ5QCZY4BBJaCklF2jjQNAqhkErIOM7GcXHs1F6ihFYqHPonIUpFxaGqihAXJCpV6qVFVaVee2jVUytxoVJPXFArtVIlDnRmdtYez+6SQxnJM/u+/d6bN2/ezr'
        '71uxMnXpYQArsh+AYaUqOp4cb1GOu7MbNFhrYgwLUpBJ+oeMzMF78NorF7LSnoxpiWREEtiODeD77sr5Z9AAn/fPgnc/bzg6PwGh4VUOm9EP514d845aXQjJzaI99GMzexlPDNXJflRE8CD9flDbhz'
        '99IluPMV7m5eV+WeFLkNcgIrAYqhgYG44huotkfbuwdi3W3+WrvZfgW1YzdS4Bs4omka9mYYX2biRzuf117QpA48JUKZOPZmO2TiI5jgJ1xNO4IvAxEgt9SddGixNG29oI58A0TY1ZmJJ7fj1WoKWA'
        'hhh+KImCEiQDhcVx3FYquOiHtjHRc7GyaOdgJEFJD6Gzaiw01irBel46d2nNHmtdPYShshpzEOD2g0kWpFPdTYVcm3R9hcKabIUlRRfb4jRPRJt0CeIurTNPqSrMh+RQ34/GfJbVm6hQILJCcKRDeg'
        'ohZ1ipqRbknBFlCIoAVB+ZiMEUuGwKdkV1ujgMLalOVTOPQlvVBBCitqK3ULVdrAT+5HIG5dRFEQ/EQ5tkad9R9uk963/N7KEgaxZJJDUTmRlFO7YY7eefbtmLFQzJWT+VKuXEiuGdVasVJOpof1Qf'
        '0gmHoe9pkrq/twLucr1VUwcwslA4plE7LZ8dnZ8fnsycwbE9m5+ZmJbBbKuRUD8su5KuQrF8qmUYVlo7SKh1VYhw0oVcoFWDXhPBw7nR2fm8jWioWysZg9OCwA+4fAKJvVDchBisXjfy3DalH7PLg4'
        'C+idbag71EexDobbKXSBTTlCuAg9bg2TAVlPOr7oo2nnQ31SRNlmpeDrV/tnbz8s3Pjg6+lj8qPxt/HOtUi2Z+2KHkTKTv+UMuS/rOw8rgxllEkiTSlTfiodOC7J2HJzpHHon97+piny1xO3ez6QHN'
        'gK9dWJX6YrC9Rl+ww7iUA40Xj7fgc2Sfl+D37Agb1I+QEPvnPLhyhf9eC3OLBdlO/E+yke9LATcmC9lB/y4IcdWAflhz34EQcWp/yIBz/qwAqIz+ZGe5XibQ78JYonPOxvdWAjyD6I3PgdDmwP5Ttx'
        'RL1p5Jv9fD0iBx+XV/ZKHjLcllUhH0mctvHvbzZuEfAQx+ezJcHtJ4+nPPD6eYGas9rmSKg5K2IcHuP94/BOjt/H4Vs4/g4Oj3Dr2cXhQQ7n/Ym7xMHGe4R12XhSiI+N77XzWcD3M7lHwEeYnBTw40'
        'KcbXyGybsF/JSQLzZ+lsmDAr7I5GEBX2LyqIAvM/mwgL/ZVAs28Ir9hhHwqn3uCbjJ5BMC/h6TZwT8BpPnBPxzYX+RkOd8fvbx5w+H8/mc5HD+LWDvoyLg/Zw/3RyuC3hYiINon73L9UVj4UIhm1tY'
        'qBproFeNUk43jXUT9HxlZQVzbEa1XCgVa2bNlkuVPJOpjgXWzGq2srRUMwi+UKuTMV7XK5YNKtvFCK+fW1xsBorlpQro5Ypp6K9Mn9pbM3P586CXSmsrlIsrkyY6Mc4AYzm7VCWVDy1/rAqJvL11PD'
        'eW8LixQkdLPWfiqmZRP0S6UdKNkO4g6Q6QLj1Metql95Oedukh0tMunaY9tlchxsg0ad3CBiG1rg8+o8LwX/ZNI7ZrmjVWkfO851sXw8SKYEx4vsW6A7hzU+b4dvuFlQzr3DwS95zY+R9G1vziGlYF'
        'nniu12XkPv+k2qzfxfwU5z/D5h8S9D/0WC8SxhyzKfp/xUNflA+57AmvfxKevn8BD/0HbHy8if5ND/37DPxjE/3PPPb/HAv0NS7+QZf4P+cx//dSQ+9p80976P/G9M9sop/x8P9P5ujvqOFH2MX/JW'
        'ZTfJ73sYT4YpP8uerh/0++5veul/8feT1/rHQ+x8U/6uJ/0sP/f9j8vZv4f9fD/zb3TxIH9wH330xTfS67r198/u97rH9Qcz7/CZf1/+zh/xibf2MT/3/0mH9Sa37fdrFqXZz/LY/435Ob61Wv+H9H'
        'zp4TT0j5c8nt/OfPeTf/Abl9beL8kesfE3W9Xhf//wN++Eo+'
    ),
    'aarch64_be-linux-gnu': (5120,
        'eNqtWEtsE0cY/me969faiV8Q5wEx4ACtYBOHQAJFkEikxQ5KLQiPtEKu7Wwcg2O79iZK2koNh74kREEgDlVVhLggUalSLy2qKrW39tAe24oLlXqqVFXlUPXAgc7sjs14POtKFSPt/898+/2Pmfl3d+'
        'y3p0+8KEkImg3BF6YUNv+kqRqyH5BHhpAX4GoKwTU31sn54pdeNHnfE4d+jKkx5FW9CO5/48j81IwAIOHLgS+54Tk/MkHUy6C4gd7z4asPX1MyxFFaju+R76D0LWwScaSvy3JkIILVdXkd7t7b2IC7'
        'n2Fx67pbHoiT2yBHsBGgIBoaCiuOoVpPoKd/KNgfctZ7jJ7LqAfnEAfH0BFVVXG4MdxNho/2HlJfUKUozguhZBhA2QbJ8DgmOAlXVY/grqsbyC33TlN5LMuGnVdDjiEy2NWbDMe24amqClgIYfvCiL'
        'ghQ7yY/qbpBB52aYikNxl9o/epi6O9AN0KSNuf+giMtQyDW1AifHrHOXVePYu9hAg5EbYW9SEoyE2X3NfcUoks7h52W6WgIksBxe0gd46AQ7ptbkxKwWJWBklWZKfidjmceHweZOk2cuFejrguSC43'
        '8pBeCiTptuT1ALFKqV5Tf6h2W2MgFjd8XQFAftUEEPjJDn8KOEXJr7i7zLRQJQQkTKobwlYngLxm50YQi1W8FYdDpHretVLfTAuGzE6WfQE5EpPjuwkyZwZ+xu2Ynitmy7F8KVsuxFb1Wr1YKccSY9'
        'qIdgAMLQ/DxnJ1GNdyvlKrgpHNlXQolg3IZKZOnpyaz5xKvjKdmZtPT2cyUM4u65BfytYgX1kpG3oNlvRSFasqrME6lCrlAlQNuAjHzmam5qYz9WKhrC9kDoxxwL5R0MtGbR2yJME4XY//P41mizzB'
        'TQY3oLe2+gYZXOCQlNMKDT2OEHrc5QeskLUzuDNolp8DDUrdylarFM9c2X7yzu+Fm+99PntM/nPqTVxyHqnhsEfRvEjZ6Uwpo85Lys4ZZTSpHCejlJJymqP9M5KMPbeuON6C/2z/yPDkkeiGw3ovcQ'
        '1VQYjDJTwNF4fhOaAz7HuN8+8U+J8BIW7yXQI+efu6bPiCvUf7QYibfI+A/zyI8SEsvDZ+fAJ+DIS4yfcL+P0gxE1+t4C/GYS4yQ8I+BdAjKexCNn4EdQ6mrZ5Bgh/s4B/CIS4yY8K+MMgxAGF2uuQ'
        'PHePgu31Rub5B4M35u1+WqeAH2kU5uzcFN/E4T7rXhs/QvEtHB63wQNWrSMkiItjIH5+Qetq4o38N1lngzb+oHWvjb/DqpUm3qjLXVZNt+HELizw7+PwAWZeLB5j1ofF91Id5fB9jD8WH2f8sfgMs8'
        '4snqZ6N4efZuqFxc9TPcLhC1SPcfgi1RMcvkT1YQ6/QPUkh1caHyIOr1F9nMMNqk9w+DvMvFn8JtVzHP4xV+dIUJ8xAR6l9czjMevb0IYPWDZt9WPH327ZtPE1Dvcz69PqxzoDaAt6bqWQyeZyNX0V'
        'tJpeymqGvmaAlq8sL2NOg1ErF0rFulFvjEuVPB2bNhZYN2qZyuJiXSd4rt4kY7xpVyzr5rhxiGHtswsLrUCxvFgBrVwxdO2l2dN760Y2fxG0Uml12eTiE00LnThvARZr5NBknpyswxX54Gs4PB5hvb'
        '5sassga2QhvqAdJGKCiHEiDhCxn4jEGJGmSOwj0hSJUSJNkUiYEvurEGckTEKzsBGIr2kjz+hM+Zj+3hE09Tv66l/hvwVMv48Z8+eISea5584pzbaJGU+20lx/0c4ajcO/V0mNB5j4/DyqzPPDv+8b'
        'U1Ht47uXGPs+hsfGf5WJP8rFeV8wX3b9iM4y/vj8L9vYs+OD9r+Xm/anOuyfq4P9Q6ZG7Oxv2dujB7TzWwf7jzqs/wbtXKXr721ff3jOPr70NVOjdvFnO9j/TDvnOtgn7fP30HMP+pXm4Bfkv8j445'
        '5pxzDtfNKhfq7Y5+/4gfke2+X/gX3+3sbz9xrNPyDIP9Yh/79pZ0uH/O/Z5y+HbOoScTVqZx8V59Xye+SB/fzVNGPfx5y72fn/2CH+cdpZ75D/9x3ibzDf2z7mHM/Gf91+/eVvmXOs3fp/VXlywnzv'
        'bNi+/9ueIfYPO4fN71MS/xdaB1Fqs5XP/18QXVAV'
    ),
    'armebv7-linux-gnueabihf': (3260,
        'eNqVVt1rHFUUP3e+drOzu5nNps2m3SbbNIlB2ukmXU3Vmma1sU0aSxpttUpdZjeTdO1+uTsp6Qd+tA9WkLaiVBAhloIPIggi/gk++VhQ8SVKQxVEEOqLFeK5M2c3M8MqOHDmd393zv2dc+/cc2femJ'
        'p9hgkMWheDEfveuoIZmUPGJiOwA9j6qrZ77brGfoaUeO+9mLC2U7uxvppKrl1PCeur6cS91bS4dgVg/TLA2lsAP+3d6LPHAiTQuluRHBPQRDSJdxbS+zlkQbYp7w+jbUPbJ8EIm5NGMtJtNreK7po4'
        '974kad0KwnFsdY/wDkBkc8BibGgoLotD9R6tZ/tQbHuX0uh5l/VgvAyIQ9Pxg72Pq0+oAmYkMjYdx/g7YTo+rgLIg+gwoarYVHhTVSewGegE7hUctqHDEWlKhHQmDnHyUO90PLUTp6XK4PRw73CccR'
        'lOASKR1tD9SKM648lNJi70bkoc7AXolEEY2NTQMh4a28FG43zgi+op9QXU6eLuo3Fnbb8DmUm0yGG+yEFOBL6ck8TCNhsDUbhlL/ME939KwoWXJUUOBgQF+XGQhFssgK2TfMzLciDIOnhrAgThlhDq'
        'AL45JtSQjVfUTocDH3E1HA0Ci6h2B4MIf4+fAKYlR2QpaqfCTmvAw0x0QsxpaCxkN67G8PYqTykJyoEuvkcuOFObtUM4VxIthbaHbw+0cbSjaHNoJ9BOoy2gLaKd4YJoVbQ6msUlD5n5olFJFUpGZS'
        'l1zqw3itVKajSjp/VHwdILsNcq1/binixU6zWwjHzJhGLFglwuOz+fPZV7bvqlqdzzp+amcjmoGGUTCmeMOhSqyxXLrMMZs1RDqMEKnIdStbIENQvOglmx6ufBALscnG3uvzT4r8Sy6PGkYRr5ol0/'
        '+54e09OPgRIKZPHlCCEpCp1MYzGhS+pmW6BHTLBetk1Isj42wIadytY28MJSAXYpGo44QcOuBPgmKVNy44yxB9EIIFDJYqPf1hFZv9Ap9/F2BE5eG5i//evSzbe/PHZI+j17EQfL/L1BjzwcYrKuXJ'
        'aHZ+QjyrQ8pszIM0pwWX5EmREvzAhhVPSuNC59u2vzWJJg4w/3E9E+R9iYq4vzvtbJ5Zwz15rDUanDNz7o4/7nIR9XfTzq45qPx3x8q48nfHyba8KTXU7+fzU3CIrxMvkTnDgScZxrjFcWHqIyxwOE'
        'fPoPO76K4BwAHRxxWIjjFkyfYz8/FxB3oQv5qYKzN2zUCLsJE4RJwhThIOEI4W7CNGGGcD/hAcJJwkOERwhnCTGfGOXTRfkEKB+B8mlihPKy+QAepxx1wiN2v1OJet0s6dn5Z3VzpbiwAvqCmV9eyh'
        'n5fN085zy0zBUL9EK1XMYRTYdStVAqNqyG4+L0Nax6rrq42DB5d76BN65rWFa9mF+2zAZs+rVkihXT5s1TwyVnLCx4eLGyWAW9UrVM/fCxE3sallE4C3qpdK5suzaKS25vruzmi3V+QtnHlHOS8SrT'
        'MTQyxPNlG21/wzJgcEEfRVrlhHuNIh009DT8j8v+BombXPkb+8bbFHTzn0MhnqEzaLPcnQv3lV2X9Ez+lv4pklTfEn3c1Jqjd5nGWdQv+PQCPr275JckH9JjCcqvOZdLrv8Ylx7r9un95tJTXHq7SK'
        '95Xt1w5eT+N3qFxjfjfuDza7bHvf9stt9Um3Xe6vP7Ae1BG7/PvH7sDt5+bOP3qW++9+ldJul70nwfR716whf0kfbrHfbqKUlaG45Rl16DxtBuFDbonfjX7yNvXPEiafnj3vTF/dw1j5grru6NK36I'
        'tx1t4n7ti/vVv3zICjVPfdh+E238fvHp3ada8O+Du7553KHvQ5LefXMe33v1JL6/X2sT945P766r3hIuvde96yK9A97vXXNdvqluzIpves6D1o+cKy4Lu2qV632MfWl6rlFc7R83+T0F'
    ),
    'armv7-linux-gnueabihf': (3260,
        'eNqNVt1rXEUUP3O/drM3u9lN0mbTbtNtmsRF2ttNXE3Umjba2CaNJY22WqUudzc36drNbty9KekHfrQPKkhbUSqIEEvBBxEEEf8En3wsqPgSpaEKIgj1xQrxnDtzszfjgg6c+5szc+Z3znydua+PTz'
        '3NGAO/MMhAQwPIhT3Qcx5kYAf27omvrLH4tVU1DT8riffuXo/vWk2lV9aU9LXVZHZlTc2u3AW4sgpweQ3gzdWe9X0/ZXB0EqVzww8XBUVF0UR7MTsCY+QQW6i9FWUbykOeTYZNa5mcdotNr6AWV6ff'
        '17R4p4FwHGudGWoARDYNLMH6+zt0tb/WFe/a3p/Y3m7Uu95lXegyB2r/RMeB7sfMx00Fg1IZm+hA+l0w0TFsou8+NBg1TawaVDXNUayG2oCswgMetHASnyJiMbWflAe6JzrSu3Bmpg68haxbOxjRkA'
        'oQjW4MHUE1ZjEK7mDyQneD4kA3QJsOSm+DI57bpCZ2sMEOGviCecp8HnnayXwQe+A7b/2Yxte5FVhYLK6iHsRvWCyrog5Ro6rcBHWUlvdJb411TdcMPRxSjOPUrSk3WegkDXuJaENh1hIe9ciUm0qk'
        'BXRSzAjoVwjbuA6ht8lJLAwsao7yOKKtn3gV9BDVtZgXCjsdB4P62yDBK3EWAYMGJ14h5ykaYuxvVy7wGUx5U+OF+tIoe8XxGEY5ijKNcgLlNMosyhzKGRQirKLUUFwUojzkFEp2JV0s25X59DmnVi'
        '9VK+nBnJW1HgHXKsI+d2FxH57JYrW2CK5dKDtQqriQz4/NzIydyj878eJ4/rlT0+P5PFTsBQeKZ+waFKtLFdepwRmnvIiwCMtwHsrVyjwsunAWnIpbOw+2dx30jYPfKHH4j8DGnkAD27ELJWA08aeG'
        'rOyjYERCY7g5SkSLQRuLs4TSrnWyLdClJlk326akWA/rZQOMO1jHglcF2KVYa1QcCL/QziyI4GhRMT/cj0UJxK3Fyk4vSahsp9Km9zBigJNXe2du/Tp/460vjx3Sfh+7iDPT6XpDlz4QYbplXNYHJv'
        'UjxoQ+ZEzqk0Z4SX/YmFQvTCp4RNnmlcalb1ICiUmDP9aDXSpmkqFg4kK9B/VcQL+6MZaoWmDz+LCky/0RSTclPSbpcUlPSPpWSU9K+raN6dJ+tGP8fwUOCF4X+FPUNaHTXFV0M0KIt2S/QCoPKtxW'
        'MXgCUFrAi0jBaW0hxPB3EuJB2E0YFnamSBamGG/yHE6YFJgSmBbYJzAjcI/ArMCcwBGB+wUeFHhI4BGBUwK9eBIinnYRT0jEo4h4fIyKuFDvJWwDsAQeEe3iJlo1p2yNzTxjOcul2WWwZp3C0nzeLh'
        'Rqzjne6TrLLljF6sICjvANytViuVR369yEt9XdWr46N1d3qLlQxw/x2q5bKxWWXKcODbsNmlLF8XQ/awTo7NnZTXqpMlcFq1J1HevwsRN7665dPAtWuXxuwTOtl+aD1sQc1OdqlKG8NMUzGd0yC12j'
        'hnh+wUPP3nZt6Ju1BlGtkkJWg6j22VYW/nfRGH/b/fI3nr1h9u/rnBF1w//nEGceAveVCp2rlkDftzrf65T4j9DE42ZyvsXLws4V7YrEF5L47ujcLiVsfL4k4/H5c7kU+I8J8nWyzXy/BfiMAN9uwT'
        'ck7K4HOIL/Ri8Le9/vB5KdXx/enBo9u/EmaXOrZPcDyv0mdp9JdrdR+bGJ3afS+t3T+V6mxHviz/eoxPeFwh9pme+wxJcy+NoQXyzAVxdj/KO4rvA9kdfvI8nvRZVzyX5vSH4/NxrzSAT8WpLfD5Fv'
        'RxO/X0t+v1KbP2NFvreLQbvRJna/SHz3VH4X5HNwR5rHbYPnyJTYe38e30t8Sex4tYnf2/L9MBr3LRnge01al3c02PTa+evyDc13ap3+wd7w84H/Ixf028oad5XKx8iXFXfGf+8I/wHOxj0E'
    ),
    'i386-linux-gnu': (2992,
        'eNqVVktsHEUQrZ7fzv5/QfYSB2+cmESITGxjiAWWE1t2EsMqCc4mxPxG6/XY3mS9Y+1OQuJY4hOEHTlCREhwTQQSEpcIJA7c+EucOQAHOOQEHBBw4BKkUDXd4x13LCRaqn1dU9Wvqnq6evblidJhxh'
        'gEg4EKbQ3gRoTjoP+7F+7fZAU4/Qv9Tr/6uYqwPr7bvPrFldvq+kc+1zdXfUzf+kx9/br/5I8XvwSfQUGhJZrgqfYNQTeijk/IZqJkyZ4c0DzzbQ20rj3sBLAs6+3N62pvsyPTsb03uz1ntDqusQ4k'
        'HAS1dzJ/sPB4/Im40onsjE3mkWAnTOYPxJF5NzqMxOM4NWgaj4/gNJIG8jIf9CHKSQKKmMXUXlL2FCbzxZ2Yd1wH/oS8E3lGNKQCJJMbS4dQTVmMkjvUuVxoUxws4GbooHS2OTKDoPS01ewO1p+nhW'
        'fi0/FnkCeH7j39aIEf/d1hGn9LCWCm2DpFHRAbltjQQFVugjpCGzjm77Ku6ZqhmxHFeJrMmnKTRU7TsueINmKwqDnikyk3lVgUdFLiMdCvEKa5DpE1CpIygSXjIzyPZOKGP8EISV1L+cFZOQMG2dPK'
        'dTPLpxmIgUHLs2cpfI4WGcM5tsxrKPnF8dGFUkTZh/IIygGUp1BOoJxCeQFlFmUOZQGFCF2UJoqHQpTjzkyt0ihW65XGfPGC02zV3Eaxf9Dqsx4Dz6rCfm9xaT+euarbXAKvMlN3oNbwwLZHp6ZGp+'
        '2Tk89O2OXpExO2DY3KogPVhUoTqu75huc0YcGpLyEswUW4BHW3MQ9LHpwDp+E1L0EFOsUxlgfV9Z+JbQt6cHkK2IrJtic0bY3xhV3C5r/c0ZT5hjKRSiCeTWn+BlBA2ijs5TupJAHz3w/Nuv2WVVm3'
        'ktYfYEm/bd/smXrv1/l3Vj8+Nq79PnoZs9Wp7aBDt2JmzlCXz+gDxjl93HhNPzqsP2mc1x81LEVBus1bh3t5z/g5NNfgz7thm4rd7W7YKMMIbLYbki7bTUmPSnpC0lOSnpb0+yS9Y+OGo73OYb7/hO'
        'wZlB9C8yxW8Z2Ya0KnjGIYlg5CVOeHmfAhwjT3pT6mSliE33PUzZQJw56ne5DFAHYRGsIvytubMCNwm8BOgV0CiwJ3C9wr8GGBfQIHBQ4JHBZ4SOC4wKMCSwL9fNIin4zIRxf5KCIfheeBRwZ6SEdn'
        'S+BRYRcdY806M+fn7crMTNO5AFbTqVuec9EDq+ouLqJL4FB3q/Vay2txF/6s5TVtd26u5dDjmVYL2s83ltUajq8H7RtaXpmd3aTXGnMuWA3Xc6wjx07ta3mV6jmw6vULi75rqzYf9iZmrjsL9lyT7g'
        'n/suD3CbWGhXFRQ7y06KO/uOJVwD5SOj42WrKPHz58cqJsl0fHShM22l2y0rJ+qx/+x7gtvqfBWMFzszP0qQ6mBTEPuuxQcKeEzjQNOotRYadRFue4IL7dmvjk/C34gth0AW/b1P98/CXxeTpfXxA+'
        'AV+Ocb4gp7UQR1AHyXHhH8S9JvkF872h2gO/XXDvvkQkv1sod7bwW5f8PkTlpy38VqV6V3SeC9UbC9U7LPGtKvxDJ/MNSXzvI99bgi8R4iuLNX3C73vkW9li/y5LcU+q7W9MOO5LUtxBo11HOhS3W4'
        'rrIt+OLeK+K78PdfM5DmzfQvt/YuA3tMX7/VrK73mjfa7yofw+leJ+hXyNLeJ+IvHNGvw+K4ieCPhsqd4Bjd/jcr0f0Bkt3aVP3itBXwZ9GI77W6hW/38C8mVELyRFXOrNfwFpdhuf'
    ),
    'mips-linux-gnu': (3732,
        'eNqtV91vVEUUPzN7737d3fa2C7SllO62XcAPLttSoCqBUgu2UghCq5Zo1u12u6zsV3YvBJAgMRpfGmIi8ckYiRpj4oMx+mBM/HjywT/AGDXxwcTwYuDBRMMDnnNnbjs7LIkmTnLnnN/MmXPOnHvmzL'
        '0vH547wjiDtcYg7PVrLXK9DnYIxj2wA5LqHMB+DjAyhcxiOLU6BLD6OPLLvanMaxD4mHjTvrqaQjqE80jrr9qc+MCvaGfYTsH92wA+g9IXtAIBfAyayGcmVLk0mAZIOcOIZQLzbxpGZiKI5CnkJiZp'
        'AFgXS6cTZiDd6LF7+tNd/d3BZo/bs8p6UPs4BNKziYN9j1qPWbwXTTE2m0BtKZhN7LNwEyMocMCykA0Sa1kHkA11AkmFt3kkIpT4KqIOC6QJbO+bTSRT6Jxlghgh6ViCkRqCAPH42tIJhB0OI/cmey'
        '/1ras42AfQaQLvXddhjwMfWoddA2w0sTD8rLVoPYNaukl4NCFi9COYzA9SjAJFLxk4hXRSohg93sheCPAbXrinaM0RAwNsGkEzHOJBxAtg8BsshNxpWpc1Q0EWIW4KOL/BoxEwCVhRj75udQoMtGI1'
        '1hEGFre8AQZxMvo+oGtm3DQ6PHdYxQYyM9XJ5rsEZ0PUY1a7sKviO9jfzeaRvSI2t6k1AXqNLUlDpMicZ/p/atOFpVKumsyXc9Vi8nyh0SzVqsnRcSfj7AXXycMut1LfhbmZrzXq4OaWygUoVV3IZg'
        '+dPHloMXtq9vTh7PziicPZLFRzlQLkz+QakK+dq7qFBpwplOtI6nABLkK5Vi1C3YWzUKi6jYuQI/Mb5C7/vVOvABy4/3aSnLG24bHvYjPwqLHLg/EBMRZT5ilhVqQz+xhjdzrigISJN4DMoFchAmyQ'
        'd5pbiY/D09eGTr53s/jW658enzb+OPQSLjbpTEOPORb9wnS+NMdmzW1Hzenb5kzwSXNP8CjHPGGtIcUYt2lsrYYYcPe2OhMQdeO6P42uRJFeU3BEk49q2NJwTMOdGrY157ol3aLhpIZ3ani3hvdp+K'
        'iGT2h4QcPPa3hZwysaPqPhFzVc03BDw66GL2nYj1dCw30a7tfwgHI3TXaL9/v5WuKKfPDX2FgtsOawTXLKEJhayhR3SSooctuMCBkzKN6VR0fw0or4Z0XMG1wUyxBRVBchuhFgKxd31RaiwyhCdDsW'
        'Kikf5cKOJfXEuHegIU4UL4sOLux2cpEbNhf2u7h350I30YcxXEQzuJQo3sgbiWKl20R0P54mLs5nL9FpDCfRGYDN3CuG0C/9GZL+DEt/TOkPl/4MSH88jLf6IFFH0hlvXFQmZ7mwdK6YzS0tNQrnwW'
        'kUyo5buOCCk69VKijiCzSqxXKp6TZ9XK7lJaYlYqzpNrK1lZVmgYaXmtgdmz1xysktlVbKueLaUhRb01KqFjw84lDv11JPZ325oSrPLSPOFuvZ5VKzThPFUnWlpkoIXK25BeeJ4ws7m24ufxaccvl8'
        'xVvcLBVVaTKt4pUGlXSvrovST9WKvEKE9GLFo558zs2BU/GW0eZ2j+F4jUZJfNQZ/Q9XEkvL7yLZwpgL7DlVQNI+yQeVGj6p1nxJN4KoiXIueEvkm/cdxuX3F+YPO9j6jQhXdcckfbeNXFLB/o32dq'
        'vdUFJ+lJBdU7H7iNQXUPRvuHcfbI+mb4eiL6ToOyb1jcn1nyk++fugJyvX+3a/0eT8+E3UsRgo4yT3QJu4hDS5m/jcaSP3fasc+w27X9rIfaftN6O8t/j6fmFHqz7+LXab2+ib0+R+Uu4YVW5Gs/sC'
        'dm9Iu7Zityn1ZWQlfwi7y23i/FGr3cCHoh7dY/cDze4tmVdkN6HY9f8ffLtfy/8K3e4PrXka+Pk++fxVXZwhrsj1avlMeBnlHlTk/tLkwgKzSOt+DVvUff18MLN1v2FbxndQnm1/v39r+saVu1vdx5'
        '+avqT0j/T1K/qutL434x1x790Tv99rd+cCV1vqkNcGW+2ynesx8fR9gnBSzielXfsfXQpEFQ=='
    ),
    'mips64-linux-gnuabi64': (5176,
        'eNqtWE1sE0cUfrM/tuO1Y8eGxmkIcUIMKSKLE1ISWgqJmrQ4oRGCUH4kZNbOxhj8V3uJQntoaEt7QRQJxKlqiypVSCAVVapEb/TSc9VLe+BAK1VVL1V/VPXAgc7szibjyY6FKkZav5lv39+8eTPz1m'
        '9PH3xFkhCsNgQB+9ezhcZXAPwwYQ8mIAloL+HcExha6AN40A9w+WU8Xkj0pS+BDOrgvQcYv0OwVGDoMu7X3otK0B/okx9iO1uifSBuPfjppb5I+JHxo7gv8+lxt7sL1ABQPkUJpeX5a4qSHt+AyTXl'
        'Dbh1e2UFbn2Bfz65FlDGJ8hrQB0olYqrcqreGe3sTnV0x3yNTqvzMurEtgZATu3TNA2bHMXdTHx/1wvai5qUwPoRysQB1D7IxMcwg4/wato+3PVHgLwKbLVJmyPpygV1JKfIYFtXJp7sw65qKjgI4Q'
        '7FEVFDhgDh8KroOB6264i4N5F4s2tNxf4ugIgKUmJNR3QUpP61YUcPGo4f3XJcO6Edw1pihHk47kTsJ1CRG7LQ6lJLsr2oTJM6VEWKqgGZvNkHsnTTXoAZFf/MKSApquJTA37Zh8enQJFuIj/u5Yjq'
        'guT3oTbSmwFJuikF24BIzWhBm36oRZwxEInrofYooLBmAwjCIdy5A9hFKawG2m23UDkGxMxMBM3HnV4Ugnbnegf+WcJrsTeG5nH3fcf5Z5rTYpMyMKg4STNvm37KbcrMFY1KMl8yKoXkkllvFKuV5P'
        'ContZ3g6XnYadVru3EWZuv1mtgGbmSCcWKBdns5OHDkyeyRzInp7PzJw5NZ7NQMcom5M8YdchXz1cssw5nzFINkxoswwUoVSsFqFlwDqaOZSfnp7ONYqFiLmR3j3LArhEwK1b9AhjEwQEaj/8/DTua'
        'gw7fOyQhWrYJSZKazhG3v+Exbgre/mi5N9yz9n6DlxL8nKWOjyGEHrWHARPkqMOdXlurjHqliLrZsfD6lf7Dn/1WuPHBl3NTyu+Tb+GUbZNchZ3qSPBrdevf6shFdeusOnVRPeCbUZ/3zUrYH9S8SH'
        'jVWjS0WYHHf3q9kZ3zim8fY/eCHKZQ/jaBnqAA1wR4SIBHBHhUgMcEeFyAdwnwbgHe4xXQ2Pq44fVHiQ6wTwm2Yb9RnMHdebAZjk+YBC8XsHHfOpzETfXIwSjFN3J4kr7j4zEg4Hf8WT+/KM2BmIef'
        'fg9+ctS1Mbg7X2Iv7MFP7k/Ng38L7UvM/Enbhh+fB054gx76Qxy+iZkXiyeZPc7iQ5QmOHwXo4/Fxxh9LD7LxJ/FD1E6yOFHKd3B4acoTXP4AqWjHL5I6TiHn6F0L4efZc41Fq+6xy+H1yk9wOEWpQ'
        'c5/BIzbxa/Qek8h3/ErG/UIw+jNOd4PEHzPOaxLyQPfBPNFekJ+XElCe0e/DqHh5n4NOtxbj59wcydL2SNXK5uLoFeN0uGbpnLFuj5armMeVyOeqVQKjashjsuVfN0bMs4YMOqZ6uLiw2T4LkG/nkt'
        'c+iIXq1Z+JZ0R0auuFgyCquasNCq0mLFtMfuve4ory3Um8wYCxxQrCxWQa9ULVN/de7oUMMy8udAL5WWyjYvvu6b2ImZJmCxTioKu6xwKg9ytenYETzC9ELZpo6AYRmgl205MhVcVOj1KkEJ/7A+/N'
        'QKJtRPa3qPFvyR8pzkhZj+s8zY51E3AF/OQvN9t5H5nuD4fN/RzlV6hvLnJ85/9JL4OwlWRJNm+refQD7pVS/Q9rnYf/9pZp/20r3K+z/G2OfX4VNGXhA/NNLC/jJn3+9hf5axP8LZuecxXzZ+hBqM'
        'Pt7/+wJ5dv331AA2C+J/n7tvvNbP30L+X0oftZD/ViyP/qKdX1rIf9Mi/le5/A2vjz88J7Yv/cDsMZH9uRbybl18vIV8Rux/gOY9ekj9j3r4/y5jP81VmBm35m6RP1+J/Zd/ZeoGkf93xf6vlu2nqf'
        '9xD/+TjD7OfyXC/Aci8v978fmh7HiC82exRvMisO6eVdKC+QcYPRaW3+4uOCd/XHB+sPvfJ46/UvOOC1vf2x+BovifZuRJ/Ls84v9PC/vu+VdpEb8/Wti/ytQlxH63h/0r4vxV25l6X7T+P1cfH5S9'
        'Lxv3/lz9BvDwH20H7+9UYt/df3epTIT3/z8yLliB'
    ),
    'mips64el-linux-gnuabi64': (5176,
        'eNqtWF1sFFUUPnd+drf7093ugm1todvSQiV02JZKqyK0sVXaYtNAkZ+ELLPb6bKwf+4OTdEHi4q+ECTB8GQUYmJIIJGYmOCbvvhsfJEHH9DEGF+MaIwPPOC9M3e6O6dzWxO5yfTc893zd+85M/ds35'
        'o89LJECDiDQADqXH2Mhm3qB1gZs2ZjkLQkyb6BwHOUdi8A9PwI8NLl7rYFkOFS6l6/ynCG3RkI9LH5ZSn2bqU70EO9PJC7Y9tANLbQp8uKB0Cij0wfpWE9mxq16B76qDxmtq6EU/L8NUVJjW6i5Jry'
        'Oty6vbICtz6nfz65FlBGx9gykBbS15dQ5b5qa6y1o6+lI+6rtZqtl0krddcLct/+UChEvQ7T6VTiQPvzoRdCUhs1T8hUgnrshqnECBXwMdlQaD+d+qPAlgLbLdJkazp6QY3IfYzZ0T6VSHbTaEMq2A'
        'iTDicIM8NYgEhkVXWUss0aYeGNtb3RXjdxoB0gqoLUVrcRGwapp862bCGDiaPbjodOhI5RK3EmPEhx+Mk6MRKwsx2uZ1uSx1ASpBZVkWJqQJb3M1aWboIyzdRnrdOWFFXxqQG/7DvFlhXpJvFn6CSQ'
        'Y7p+H2kKTFtmpJtSsAlUxoSCoH7AaNTmwf8h/RNujgGJhKbtmCLhO9YkAFJEDTRbYZFiHHxsPUrmE/YsBkHwMe2WJSta3744mX/PjvypNWXRqfT206qAeWvlyY8JI5PXS8lsQS/lkktGtZYvl5KDw1'
        'pK2wumloXdZrGym1ZttlytgKlnCgbkSyak0+OHD4+fSB+ZOjmZnj8xN5lOQ0kvGpA9o1chWz5fMo0qnDEKFUoqsAwXoFAu5aBiwjmYOJYen59M1/K5krGQ3juMgD1DYJTM6gXQoZefx//ahpWUfluO'
        'FsTb61sakySpXlzOZBN9HtOhsOQsd0W2NOAubU7P8sBHmA1CHjVHGCG2RTrpsgzLpEuKqlttJ69d6Tn86W+56+9/MTuh/D7+Js1/k+TYbVWHgl+p2/9Shy6q22fUiYvqQd+0+qxvRqLxEHeSaNaEg/'
        'lS4OFjrzUZpDXYx1bEwVVecck3gbedoAAPCfCwAI8K8JgAjwvwhABvF+AdAnzLGoylLt5wbk7+2+hCC7t1+HAiTnDc4XFpWztW21YVA424r447J6aiMoy58c0OnnSvrx5Ir0DeFQ/UNxhz10Ecx+lH'
        '8i2c8kqRHDnHUQTJd3EaQvLb3H4kZ/87OPUh3NELIvthhHeifTl4Er3fDj7g5BfhezjfifARdP4OPoPO38HnON+P8KOc34XwU5xPIXyB88MIX3T6IoSf4fw+hJ9Fde3gZee7i/Aq5w8i3OT8IYRf4v'
        'wcwq9zfh7hH6H8xlAdxtx1t4q3ues8jt8LCeGd7nqRNpLv4bQZyWsIj6DzwXb4zactGJnzubSeyVSNJdCqRkHXTGPZBC1bLhapjCNRLeUK+ZpZc/hCOct5S8cGa2Y1XV5crBkMz9Ton1en5o5o5YpJ'
        'b0mH0zP5xYKeW7VElVaN5kuGxTv3um28slB1udEXEJAvLZZBK5VNQ3tl9uhAzdSz50ArFJaKliy97l3izI0LWKyyjsJqK+zOg11tGg2EcpReKFrUVtBNHbSipce2QpsKrVpmKJMf1AafULvUQ+yeHo'
        '/7vEBPkrX3Q+N4mmM+Qd+AW1l8023m314s9x03eLXhOyo1vCdO/b9IwPN30opgv1j2Nqyvn0S4gvjPBPGf9rvj7OLvKo5/hMePc3ADyYnOb4h4+1/28O/38D/D/Q8h/XuC/RJEdW4Tx/+1QB/Hz36x'
        'bgXaUQv0RzbIn1+g/w+njzbQ/1ag/ycX/GUD/W8E+b/qX1u/EY/zf0bg/wep/n6t539WoP+Q6x/fQH9KEH+SB/qA1OOPecT/Dvefwnbler+9Xv18KYj/V9ndN4jivyuI37lgTzecf8Ij/iS3ieOPKv'
        'X/f6wX//eC78cu5b99fxbtuqhIqHVOKd77DyA7rA/Zaeu7xnHF+/uB9+8j3udfUdx9GAj6eyL4/pwOuvXZ+bd7+P9bkP8b3H9pg/P7Q/T+Bd19CfPf4eH/iqB+m1V3vy/K/8/s23focRlfOffRT8Yu'
        'Qfw7CXj8SqV1yf3fJXW9qEf8/wKE4ViA'
    ),
    'mipsel-linux-gnu': (3732,
        'eNqtV81vW0UQn9334a84tuPSOE1T22nclo++OmnaBqjaNKQlpmlV2gRIBTKOY7um/pL9WrWlKhUC9RJVlag4IUQFCCFxQAgOCImPEwf+AIQAiQMS6gXRAxKohzLzdl/8skklkFhpPfvbmZ2ZnZ2dfX'
        '7l8OwRxhi4jYEfugjgZgDAF4XWuIN2QGoVlxrfDzA1kvYv4Hh4GeCJ5XRiCTR4PYvjj65GDZxPL6f9ww7l0ddaNPbDL1o6uhXu14awJx1/0AJ2DbsuecXsxIpcBruBHCb5ek9Wm3tD17MTJpKncTQx'
        'SRPAYiyTiRtapt0f7R/MxAb7zE6/3b/M+tHAOGiZXPzgwGOhx0M8gdYYy8VRWRpy8X0htDCCAgdCIRyaNAyFDuDQFwGS8m9zSEAocVUELaZlCGwfyMVTafQvZICYIemeOCM1BAHC4ZWlEwh7LUbuTS'
        'YuDXRVHBwAiBjAE10d0XHgw10YG2Kj8fmtz4UWQs+ilj4SHsV5+MGJEdPF+fYA87tHp03iL6Ee2bm2lxgavwXaFIXziBNXQzd00/D7uDlPbJ3fYr7TtDRPqn0mC/inHIX8Fg8GwCAQCoJxjWhEYPAt'
        'k5FezK9waEr4Eu55zxmghbCh9zrusHoUTOJH2FxMjKIQBJNWxxqO3+b+PjZ3Rexh45oESOibU3j+MOtw/r82XVqsFhqpYq3QqKTOl9qdarORGh23stZesK0i7LLrrV2Ym8VmuwV2YbFWgmrDhnz+0M'
        'mThxbyp3KnD+fnFk4czuehUaiXoHim0IZi81zDLrXhTKnWQtKCC3ARas1GBVo2nIVSw25fhAJskLv8T04dAHj1/ttJcbz2a+ITxX4Pm04hvZwMD8nEcBudUFk6s49Oi7G7vWEiTNxWHCSdEqGxJI8Y'
        'W1iYwDPXh0++e7vy5rVPjk/rvx96GXdi0LWGfmMs+LlhfWGM5YxtR43pO8aM+ZSxxzzKMU/Y6pBijNe0tKcc6XDnnpenYeW4ucIj74JwfRUOwGr5oIJDCu5RcETBUcW7Pud3s4JTCt6p4N0K3qfgow'
        'o+oeB5Bb+g4CUFlxV8RsEvKbip4LaCbQVfUnA3XnEFDyh4UMFDK6/PpKONw2dK7g6y7jgGPtjIxFiXmJqRFthMi9wOGELGNMRZER2h+WFZJlOCz3VRLLmPdCHF9HmA6BbxVnFcTC8api5sJ2pK+aAs'
        'riGpBwFdaI5XI0G0V9jlEZEbPCrs8xi9uEgxbI8QxXBlieJieo85GqeXkGMN3E+0X8SFnp9pohjOGaKbwCmGfFD6Myz92Sr9MaQ/XPozJP1BTCHguDlL0hk5LyuTtVRaPFfJFxYX26XzYLVLNcsuXb'
        'DBKjbrdRRxBdqNSq3asTsurjWLEtMSMdex2/lmudwp0fRiB3+O5U6csgqL1XKtUFlZimIrWqqNkoNHLPp1a6mjs7XU9iovLCHOV1r5pWqnRYxKtVFueiUEbjTtkvXk8fmdHbtQPAtWrXa+7izuVCte'
        'aTLtxeU2lXSnrovST9WKvEKE9GLdoY58wS6AVXeW0eZ2j+F8k2ZJfNQa/dcPUoaJ7yK3TeDhPu+ph+5wQI5Nz92ZVO4NNcrlgIf3hynyLSm/wXT5sXCQwaqvwKuKXy7vHVgrlwJvvRbtLcVuyifsJO'
        'UD7tp9VNrVPPo3rLOPPWy1vh0efT6PvmNS35iU+9Tjk7sP6nkp79r9WpFz7dJdxFLQAo/cg+vExafI3cZ+dx257xS5X5Hx8zpy3yrxy/q65xb27HeHou8bPNRN6+ibVeR+5N43pis3o9h9Ee3ekHaj'
        'HrsdqS8r5R7GQF5eJ84fKnY/0EQ9Uu2+r+apT+QV2Y177Lr/H1y7X2nif4Vq93slT3/S1s/nL8UdanGPXELJ54R8Xx/yyP2lyPmlXICt3m9UF3VfvR+Gks9Rv4hvUt5td79/K/Eb171vd3cff6r3zS'
        '/8IX2DHn1XlHN7Wxfvnhq/3+huzN5ruqVgQv6/SCp2dzJRR9z2Meqb5IKfknZpX/8A/NREFA=='
    ),
    'powerpc64-linux-gnu': (4904,
        'eNqtWF9sFEUY/2b/3L+9613vCr2Wq71CW9DA0pYKtTbQxlZpJRVLEWpCzut1r3dyvat3S1Ow0WqixsQAEUKMMRKiJiSYSJT44ovxgcQXH33wBRNe5IVo4oshoc7szh5zw85iDJPsfDO//f7NN9/NN3'
        'tvTxx6XpIQ1BuCTVbv2rQ/LDJK+w5AIz8BjLwLMFtoHV673fbr0E2A9S8B1m6O6mtftbes5YdbzpN57qmWtZz/xvQ6pOG/NeKDhB8ZP4oD5vqGCCmCGgD6LoyfOH7mFOhGRzBrSj5yQVFS3R2YXFA+'
        '/j4IsQ3cou1Xr62vw9VvcHcZM3SPtl8IiN4ClpfPfxcE1Ix6ehKq3FNtjbVu6WneEvfVWs3Wj1Ar9q4b5J79mqZhRwbxcDJxoG1Ye1aTkthjhCYTAGoXTCb2YQYf4dW0/XjojwJ5Fei1SNCWdORCOp'
        'J7yGR722Qi3YWDoKlgI4Q7nEBEDZkCRCJ10SE8bdIRcW80eabtgYoDbQBRFaStD3TEBhumzR2oP3F023FtTjuGtcQJc3/CDvctUFGAbka4nhSSXE8CB2lWFSmmBmTyZj/I0hVry6ZU3E0rICmq4lMD'
        'ftmH5ydAka4gPx7NE9WLkj+AgmQ0BZJ0RQoFgUhNaSGLntOi9hyIxMVwUwxQRLMABBGy918DdlGKqIEmyy30chyImakoJOxBDIWswcVm3K3grRiJk7x633a9jaYSWZ2iKAElHFNakkpqBwFnLduPuY'
        '0b88VsOZ0rZcuL6RWjWitWyun+Qb1P3wumnoPd5tLybpzouUp1GczsfMmAYtmETGZsZmZsLnNk8tWJzOzc4YlMBsrZJQNyhWwVcpVTZdOoQsEoLWOyDKtwGkqV8iIsm3ASxo9lxmYnMrXiYtlYyOwd'
        '5IA9A2CUzeppyBIHu2lI/v8ySItZUT0zA8rqGNpiZw/BklTeSaAz1No+/JO51xQBhJu9H3jQaYnJqFOKqk/YCfjK2a0zX9xZvPTBt9Pjyt2xN3GiBSXHqVa1N4TUgU61t0sdt/oBpz/oS6sDaXXK16'
        'U+7UtLKlbfGGkceq92X4GNv9xeyPY5xbd3sLtBDlMof0CgJyjAQwJcE+BNAjwqwJsFeFyAJwV4u9s5HmfO7wd7j3bG3ON8Fzvj4zDCeofBHVEnjhLFBjg5wq+64HHK38fhmyk/j/cKcMd2L4c5fu1x'
        'WYci4Pe71F2yL0EGd/RuonWP5+8EOyd4/m107OBhSrfTGPE44Q256A9zeIpZF4s7Nb6Fw3dRmuTwPYw+Ft/H6GPxFynt5vDDlO7g8KOU7uTwE5T2cfgCpYMcnqd0iMMLlI5w+OvMWcfiFecM5fAqpQ'
        'c53KT0EIe/x6ybxS9ROsvhnzH7G3PJwxjNOR5P0vzn8bQg/1MU58+DrfiJuOSVzuERJg6N+u0ypS8Y86cWM9n5+aqxAnrVKGV101g1Qc9VlpYwj8NRLS+WijWz5sxLlRydWzI2WDOrmUo+XzMIPl+r'
        'M2O8LlcsG9bcqbOsfHZhoREolvMV0MsV09BfmD66q2ZmcydBL5VWlixeXHQb2IlyChiFTL5KirpV2e3ib7+pLC9YJUrHXmAc09NLFrUVZc0sHlYIJRz9ej/osy89pz+2Wwty7uIuLXSd8gy43OGd1s'
        '7MfQ/XgwbaUC+ZM09x5/P9SAerTO6x5x/J338Y+/w61hk+t3OctL/F9v1DzDmSYvgY++SDQWj/k0fbJ2VUaL/AyKeY+LL2Oxj7/D5dd4k3u3+EZhl9vP83BPLs/Bnxd2Vdfskjf/xiedRFB/c85C+L'
        '5SWnjt32kP/UI/5O/pyn8Q+75N+THvY36KDDw/60WF52/D/uIT8p9j9A71Pod+p/1MX/PKOPuwfJTn363CN/zor9V+JM3Rb5/6HY/+CfdPAa9T/u4n9a7L8y/Ij4E3rNw/9jHv9hOO0WM+e+F5Tjgv'
        'Wz589v4vWHDnO//80u6//Fw38nf9/y8P9nD/sFpl6nmHOMtf+GR/zvM/ddUfx/qGwcktnD+uH603An5fxHIXD/TiNXGyf/r1OZJt7/fwHATFRo'
    ),
    'powerpc64le-linux-gnu': (4736,
        'eNqtWE1sG0UUfrM/9vovtuO0TpyUOGmTFpRunTS0oY3aBBJIQhRCmtIGqXLXztox9U9qb6O2RCKg8iehElFUIYQoVTlEKhIIeuOCuHHhiBCXgpCKeilC4lBRpDCzno3Hk93mUEZaz7xv3nvz7XtvZj'
        'Z5bXTyWQEhsBqCbVCTau07X7UX8DNkjoag1dScHAR4egDgjcGfWm4sH4pmZgEuDaiJS8sA3+O5OytNsT+Wm56YX246lMbYndVb7vRyHFamWP+I+hbxIzF4OjEAOdzLoJhzfvw04mfO1OtBx/Bvm3js'
        'iiS19ezA3RXpg1seCK3jFoyt3VxZgbUv8c81rNAzFruiOM0CthdXv/EACqOurogsdpWjoWhrV7i10VWJGtH3UBQT3AVi1xGfD8dC7MfD8cjRlkO+wz6hGZNBaDyCeXbAeOQgVnARXZ/vCB66g0CmlG'
        '6z81QtLTuvisQuIuxuGY/EO3AcfDJUEaLtjyDihogAgcCG6QAWG1RE6A01X2ypuTjaAhCUQeis+Qj114nhHag3cnznSd+c7wT20kiUezEOt804I6WaD3+tDgRxjCsHISxLQkhWRPEIEUXhOkgTxHzK'
        'zIsgyZJLVtyi6xSZloTryJ3CAyVLbN0K8igTphvhuuD1gEwEnxfk90kfrMrg/pDkuyEEKOCbqHIK+L8wBwoIAVlpMGmhFxvBReaDEKkOQsgLLmIcXjLJugYbhbeqvLfTUkK0zCR/CCdeSvTDrDnz/7'
        'cRPZXTivF0Xitm40t6uZIrFeO9/WpCPQCGmoZ9RmFxH67ydKm8CIaWyuuQKxqQTA7PzAzPJY+NvzyanJ2bHk0moagVdEgvaGVIl84VDb0MC3p+EXeLcB4uQL5UzMKiAWdg5ERyeHY0Wclli/p88kA/'
        'B+zvA71olC+ABrtoPB7pNUgLWfv44gxI54dRqx+ZWDPFrQIq0AUPgrllHjQEACHz/MEPHrSbRSeidiEoP1YtwJcud87cuJu9+vbXUyPSveFXcd48gsUrKnd7VXmkXe7ukPsOy2OuQXnChYft8pMdAi'
        '5mVB9fHPCHt7/Nwvhr3W5OBGET9rrJ3L0hS3X6LrD343bAFQfc44D7HfCAAx50wEMO+HYHvHkTRlLVeLoWHyvfnQhsvd8j25OJlqVzl+KWzEfkX3Ojw6Z4/0NxibPrg/r1m2if4PA2Rp89BuKMPosn'
        'HHDLZzdXCwoTJzb7YQb3MHrbGJzNcjuD+xj9nQyuMDa7GdzF4CwfL+Pfz+Ft3HtZeJyLp4XvpXIzh+/n4mzhB7k4W/jzVN7F4dNU3sPhx6ncw+GnuHxZ+DyV+zk8Q+UBDl+g8iCHv0LlIQ4vWecmh5'
        'e5/WHhBpUnOfxNKk9z+FUqz3L4J1x+u7k6Z+szzODNDG5X/930+4zfLzEO72T4sKeQyuEBLg68f3pDqfN66lw2qaVSZX0J1LKe11RDP2+Ami4VCljH0igXs/lcxahYcr6UprJpUwUrRjlZymQqOsFT'
        'lQ1ljG/Y5Yq6KVtXLGuvzc/XA7lipgRqsWTo6nNTx/dWDC19BtR8fqlg6uL7tk6dOKeAvpDMlMl9bl7q1Xuf3E4qXhtLuL9QMPuquWZoeFgiPdHoVXtBnX3hGfWRP0/u029uvn1ED4U9aPM5z7YYc7'
        'awbYjLL19/wJxzEqNvtTXqcI2rM4Wr1wCqrs+/wzucHjjcJwqyX3/aXW8fozz59SN0/T7O/jOb7wE2flavUZ88/88d7Hn5KZucsPYFeHj+3A72YQo+2ML+moO9n27m37ew/9gh/ws0/qtM/L028X/c'
        'Yf0/hZrdw9afcrD30ISc3MJ+3IH/fcr/V1TjEbDhn6E+E5y9Rtf/dIv6uezAf12svyed+L/rwP9n+sl5mol/yIZ/3IH/blqoO7bgf9OB/4hkf17xureZ/x2wbUyyf39+///i8P4D3s37v8nm/X904L'
        '9I1z+7Bf8fHNaf9tafnzH6xyu//lmH+P8m1X9fOsX/W3L2TK6Tz5UVu/OfPeft+BNAsLtX6PpfoZpdgw3//wAq2lHa'
    ),
    's390x-linux-gnu': (4480,
        'eNqtV01sG0UUfrPe9d/asWOH/LbESeO0SO02CaEJELVplJS6jaIoECCRkNk4G8fUWbv2NiQFQTkVpChCQkLAAYiAExdUJFSEkHLgwoUrEhy4glQh9YA4VCLM7M4648nOCqGOZL/3vn1/8+b5zfrNmd'
        'lLkoSgsRC029+eK7pvk0n63QPoXmrie2mxU7qzAP37QwTet58u48fLfUPwQ4JI3dK3bZAJ/UMjAEj4E8Af2fVcGBon5BQoYaDPYviTIsYyxNACVo0FFt6TQU5lsIRaUTabVgLZWkeyoyfb2pMK1jus'
        'jh3UgZ2PQiCbS1/oekp9WpU6sTeEcmkcrA9y6TEVQBnACudVFbNBwqrqecyGEkC0woM2iThOXBdRDQWyRDjZlUtn+vAeVAUchGjH0oi4ISJAPN4wHcdii4ZIepOdN7sOXVzoAkgoIPUf+kiONomtx9'
        'FwevHEi+qS+gL2kiLKw2mnWj+DgsK0lrHGWUmkahp7XjZyDgLSnl3RKVLuSzIosiIHlXBICmJ5EWRpD4XImRGXeSUURhHCTYEk7UnRCChEUKM2va0mHBmIxU6sJQkortoAgjg5ss8Bp6bElXCLnQ7K'
        'J4GEmUpAq8MkUdRmdlrxl4mPYCJF2uENJ+U07QCyK1kOxuTUIBFn7agPaU0bKyXdzBTKulnMbBq1eqliZoZHtSHtHFhaAc5aG9WzuCMLlVoVLH2lbEDJtCCfv7iwcHEp/2xueSb/3NL8TD4Ppr5hQG'
        'Fdr0GhcsO0jBqsG+UqJlXYgm0oV8wiVC24BoZp1bZBJ+EH6Bb/f5L2ajvAS4YwoK2WWOLTRhu0eTgjXVGnYccQQg9a4oAJcgqNmV7bPIB6pYTyqOPq+d3+hc/+KL5/+87ctPznxddw80Qk12GHMhhF'
        'yoihTAc1ZTB4lbCXgx8rI1eUK8Gi8kRQw82FUHMlcWl91t8yHNz3ehBw5gW/3sJphjhMpvpBgZ+QAA8L8IgAjwnwuABPCPCkAG8T4O0CvNMDRqmjdSN9cL+Vmbt0kTzuMbibl1uXFoql3cHC9Jrigf'
        'cL8CQ9I34fJE4IjuZFRkSEwd18HgGn1rx+L/6oHvonKO/i7vmdBKdXeJzoRj38xzj8GLMvFs8w9WHxM5R2cvjjjD8WH2P8sfhVSgc4fJ7SUxy+SOlpDn+J0iEOX6V0lMPXKB3n8HVKJzj8FUonObzi'
        'DjkOr1F6mcMtSmc5/CZzXkmPvkrSHuLxTtqfPJ6hvcrjx+jZy/9Rv5/+ZmSP3x+Lx5n9Nvtx7gtt1Vi5UczrKys1YxO0mlHWNcvYskArVDY2sI6rUTOL5VLdqrtyuVKgsm3jgHWrlq+srdUNgq/UG8'
        'oYb9iVTMOW3euMtddXV5uBkrlWAc2sWIb2zNzimbqlF66BVi5vbti69VKxSZ04bwLWauT6tO9Q55olV4SGw2MJ0+0NmzoGuqVjtkIo0RjWRh7S28AD+r7psSIf0FGa5Wcrw3czMn/vTDLnzvclMLNM'
        '5vRddxmmP7qZORo+7GOUZOLz+6gy/c7PW3crqk/8dca+22Oukvjs/wX+TN5m72X2xZSpo8744/PfEdiz8pPi/ysN+9M+5xfysb/L9IjI/hOxPfqaMr/62H/kU/9blHmX1j96tP7wmDi+tOu+rvnEn/'
        'Ox/4K7V7zsc+L8Q7TP0Vc0/7hH/muMvyEu/l+UeV0Qn9Bdcf6B68x9KMr/HXH+4X3KvEzzT3rknxHnH/iQMsd98v/SJ/9vBH3J6v/mY3/XO6+m991fxPuPZBj7bua/Bbv/n3zi/06ZV33y/9En/jw3'
        '/9o94l8X11/OM++Rovp/VzmYtefOLeH8b8x5j/xRALz/n5D4Vab/iU2Cz/9fdpYhXw=='
    ),
    'x86_64-linux-gnu': (4320,
        'eNqtVk1sG0UUfrPrXW+8/ovdkH/iJk0Bqd0mIZAAwU1QAglEVRqatAEhs3Y2iRvHNvY2SgKCih5oS/kRSL1wgKhHDq24ISRUiRsXjgghIZAQgguCW1BBYWZ3Nh5PdppLRrLfvG/f37yZeW/emph+Vk'
        'IIvIEgDTWuNl4N1eaj9L8NS17758ov8uR7TQR5V3Es7FxzaOz2rjxyHe18U2eH2JbwT8a/AIPn+oahD1MFNOdbGP/a8K/bketEc4HOnsAtNPcp4eS5jwMQCGMUUCPq7U0qcm+lOd7c3tvYnlCrzTdQ'
        'M/YyCHLvVPJ065P6U7rUgl0iNJXE1o7CVHJIx66OYYG0ruOpSqa6nsbTYAyIlHbcIQ2uEc9EyEByL2Eeap1Kpo7ixegKuAiRDicRMUNYgEhkT3UYs1EDkeBGW7ZaayZOt+I8KSB112zEB+vYxk7Uny'
        'SKF/QF/Ty2kyDi/fgLfO+kC2luWsO1bZPkHiazkjxAiCxtg5wm2XzGSakSUAKqogUl9Sz5HJC2UXAeT7SXidmgihq0tKMubUuhBlAIo4dAuUJozOUheJVsVTQOKKKn3Tgi4c+ciQZKRNGiTijofBxU'
        '8j0Gje4kjkKgEuXGi8R5lKioIwlpy4152lna4Y1xK5s3i6lcwSwup9atSjVfKqb6B40+43GwjRycstfKp/ARzJUqZbDNbMGCfNGGTGZsdnZsIfPi1EsTmXMLMxOZDBTNNQtyK2YFcqVLRduqwIpVKG'
        'NShg3YhEKpuAxlG1bBKtqVTTDhBD3VhxIsHPHu0dYsoI04ag8HtQ+Ri3fQb+zul6n3IaKD0L1ohBDk3kQ86XJOjYy6pJjyoHuC5t/vnr31x/LNd744Mx74c+x1fE0bJM9es2KEkHJcvSBv2cqAuqqM'
        'q28rkyPK8+rTymOqISFstD6bOL33Gb86h/HvXb9vMkj7sNecyIN7fKBOXgV/O0EBrgnwBgEeFuBRAR4T4E0CvHkfRrYkweTB29ufyN1hVh+n9AeKe7zGUWKJRPvvrjuiDK4w+AMCPM7Exebes0/aBJ'
        'vtRgbXGLkmBtcZ+S4GDzHyPQyu0v7A+2V3LczhHVyePDxF+SMcfpLyLRz+KOU7OHyI8ikOf4Hyxzh8hvIPc/gc5U9w+CuU7+PwRcoPcvgS5Yc5fIXyIxx+sa631/CSV5Q4vEL5SQ63oVbBWXyL2y9E'
        'zyF/fpHTJWqjhcHZjpDi3hPA5dPDE5y8xMl3M3Gyt9vg8Ai3Xt4vLffGopW9tJwxs9mKtQ5GxSqYhm1t2GDkSmtrWMaTKJRyhXzVrlIZF6zalUxpaalqETxbrUIN39PLFy2H97oPq28uLtYD+eJSCY'
        'xiybaM587MnazaZm4VjEJhfc2RreaX68SJcQpYK5mlCml1Tr9zWyIp5Qb2jTlMN9cc6qqbtomnJUKJRL/Rf0id+3f6VuTHJL3sCbS/XrKjjWJ8Zxj16ZXsOQSmTgUY+b24lPrz0ErPg8ad2/+of34N'
        'ZU5O5H9H4L9PrddvpXK8fxm5/gc4/as+/ZPNn0fPUpt8/DcE+jz/iM+esPqDcP/9Cwr071J67wD9DwT6X1HwxwP0rwvyP0nzv8HkP+ST/7TA/01aPGYO8P+EwP9d6v8OqvkP+/ifpzb7OP3fqP83Dt'
        'j/NwXxZ+X6fiSKf1MQf1nbn7+YT/wpQfwfUf+dB8T/iSD+27J/veFlv3OxMv8SvSNYP/+i/FZUP7T99zfps/6vBfH/TP3bB8T/pcC/91hi61eTj39TkP9zgfr3nSj/n5PaMb1LnhGX/eo3MP794v+L'
        '77N0rFD/l1FNL+IT//+CrC9z'
    ),
}


def corpus():
    """-> {target name: file bytes}"""
    res = {}
    for name, parts in sorted(CORPUS_Z.items()):
        data = zlib.decompress(base64.b64decode(''.join(parts[1:])))
        assert len(data) == parts[0]
        res[name] = data
    return res


def read_elf(data):
    """-> dict(cls, le, e_type, em, sections=[dict(name, type, flags, offset, size, link, info, entsize, data)])"""
    assert data[:4] == b'\x7fELF'
    cls = {1: 32, 2: 64}[data[4]]
    E = {1: '<', 2: '>'}[data[5]]
    if cls == 32:
        (e_type, em, _v, _entry, _phoff, shoff, _flags, _ehsz, _phes, _phn, shes, shn, shstr) = struct.unpack_from(E + 'HHIIIIIHHHHHH', data, 16)
    else:
        (e_type, em, _v, _entry, _phoff, shoff, _flags, _ehsz, _phes, _phn, shes, shn, shstr) = struct.unpack_from(E + 'HHIQQQIHHHHHH', data, 16)
    secs = []
    for i in range(shn):
        o = shoff + i * shes
        if cls == 32:
            nm, ty, fl, ad, off, sz, lk, inf, al, es = struct.unpack_from(E + '10I', data, o)
        else:
            nm, ty, fl, ad, off, sz, lk, inf, al, es = struct.unpack_from(E + 'IIQQQQIIQQ', data, o)
        secs.append({'name_off': nm, 'type': ty, 'flags': fl, 'addr': ad, 'offset': off, 'size': sz, 'link': lk, 'info': inf, 'entsize': es,
                     'data': b'' if ty == 8 else data[off:off + sz]})
    strs = secs[shstr]['data']
    for s in secs:
        s['name'] = strs[s['name_off']:strs.index(b'\0', s['name_off'])].decode()
    return {'cls': cls, 'le': E == '<', 'e_type': e_type, 'em': em, 'sections': secs}


def symbol_values(elf, sec):
    cls, E = elf['cls'], '<' if elf['le'] else '>'
    out = []
    d = sec['data']
    if cls == 32:
        for o in range(0, len(d), 16):
            out.append(struct.unpack_from(E + 'IIIBBH', d, o)[1])
    else:
        for o in range(0, len(d), 24):
            out.append(struct.unpack_from(E + 'IBBHQQ', d, o)[4])
    return out


def relocations(elf, sec):
    """-> list of dicts {off, sym, type, addend, sub} of a SHT_REL (9) / SHT_RELA (4) section"""
    cls, E = elf['cls'], '<' if elf['le'] else '>'
    rela = sec['type'] == 4
    mips64 = cls == 64 and elf['em'] == 8
    d = sec['data']
    out = []
    if cls == 32:
        step = 12 if rela else 8
        for o in range(0, len(d), step):
            off, info = struct.unpack_from(E + 'II', d, o)
            add = struct.unpack_from(E + 'i', d, o + 8)[0] if rela else 0
            out.append({'off': off, 'sym': info >> 8, 'type': info & 0xff, 'addend': add})
    else:
        step = 24 if rela else 16
        for o in range(0, len(d), step):
            add = struct.unpack_from(E + 'q', d, o + 16)[0] if rela else 0
            if mips64:
                off, sym, ssym, t3, t2, t = struct.unpack_from(E + 'QIBBBB', d, o)
                out.append({'off': off, 'sym': sym, 'type': t, 'addend': add, 'sub': [ssym, t3, t2]})
            else:
                off, info = struct.unpack_from(E + 'QQ', d, o)
                out.append({'off': off, 'sym': info >> 32, 'type': info & 0xffffffff, 'addend': add})
    return out

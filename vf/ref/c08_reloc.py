"""C08 reference models, written from the ABI documents (not from elftools/elf/relocation.py).

1. RECIPES -- relocation recipes for debug-section relocation of ET_REL objects.  Type NUMBERS, field
   widths and formulas are transcribed from the processor supplements:

     i386      SysV ABI i386 supplement 4th ed., fig. 4-3   R_386_NONE 0, R_386_32 1 (word32 S+A), R_386_PC32 2 (word32 S+A-P)
     x86-64    SysV ABI AMD64 supplement, table 4.9         NONE 0, R_X86_64_64 1 (word64 S+A), PC32 2 (word32 S+A-P),
                                                            R_X86_64_32 10 / 32S 11 (word32 S+A)
     ARM       IHI 0044 (AAELF32) table 4-8                 R_ARM_ABS32 2 (word32 (S+A)|T; T = 0 for non-function/data symbols)
     AArch64   IHI 0056 (AAELF64) table 4-6                 R_AARCH64_ABS64 257 (S+A), ABS32 258 (S+A), PREL32 261 (S+A-P)
     MIPS o32  SysV ABI MIPS supplement 3rd ed., fig. 4-11  R_MIPS_NONE 0, R_MIPS_32 2 (word32 S+A), REL: A in place
     MIPS n64  MIPSpro 64-bit ELF object file spec. 2.5     R_MIPS_32 2 (word32 S+A), R_MIPS_64 18 (word64 S+A); RELA: "the
               table 32 + sect. 2.9                         addend is r_addend"; r_type2/r_type3 = R_MIPS_NONE for a simple relocation
     PPC64     64-bit PowerPC ELF ABI 1.9 sect. 4.5.1       R_PPC64_ADDR32 1 (word32 S+A), REL32 26 (word32 S+A-P), ADDR64 38 (doubleword64 S+A)
     S390x     zSeries ELF ABI supplement, fig. "Relocation R_390_32 4 (word32 S+A), R_390_PC32 5 (word32 S+A-P), R_390_64 22 (quad64 S+A)
               types"
     LoongArch laelf.adoc (la-abi-specs v2.10+) table 11    NONE 0, R_LARCH_32 1 (S+A), R_LARCH_64 2 (S+A), ADD8/16/32/64 = 47/48/50/51
                                                            (*(intN_t*)PC += S+A), SUB8/16/32/64 = 52/53/55/56 (*(intN_t*)PC -= S+A),
                                                            R_LARCH_32_PCREL 99 (S+A-PC), R_LARCH_64_PCREL 109 (S+A-PC)

   gABI (ch. 4 "Relocation"): Elf_Rela entries carry an explicit addend in r_addend; Elf_Rel entries keep the
   addend in the location to be modified.  So for RELA the previous contents of the field do not enter the result
   (except for the read-modify-write LoongArch ADD/SUB), for REL A = the field's contents.
   S = st_value of the referenced symbol (index 0 = STN_UNDEF => 0), P = r_offset (sh_addr of a section of an
   ET_REL object is 0).  The result is truncated to the field width and stored in the file's byte order.

2. relr_expand -- the RELR decoding rule of the generic-ABI proposal ("Proposal for a new section type SHT_RELR",
   generic-abi list 2018, adopted into the gABI draft; same text in glibc elf/dynamic-link.h):

        for each entry:
          if (entry & 1) == 0:  where = entry; emit where; where += wordsize
          else:                 for i = 0; (entry >>= 1) != 0; i++: if entry & 1: emit where + i*wordsize
                                where += (8*wordsize - 1) * wordsize
"""

NONE, ABS, PCREL, ADD, SUB = 'none', 'S+A', 'S+A-P', 'V+S+A', 'V-S-A'

# key -> e_machine, class, flavour of the relocation sections, {type: (field width in bytes, formula)}
MACHINES = {
    'x86': {'em': 3, 'cls': 32, 'rela': False, 'types': {0: (0, NONE), 1: (4, ABS), 2: (4, PCREL)}},
    'x64': {'em': 62, 'cls': 64, 'rela': True, 'types': {0: (0, NONE), 1: (8, ABS), 2: (4, PCREL), 10: (4, ABS), 11: (4, ABS)}},
    'arm': {'em': 40, 'cls': 32, 'rela': False, 'types': {2: (4, ABS)}},
    'aarch64': {'em': 183, 'cls': 64, 'rela': True, 'types': {257: (8, ABS), 258: (4, ABS), 261: (4, PCREL)}},
    'mips_rel': {'em': 8, 'cls': 32, 'rela': False, 'types': {0: (0, NONE), 2: (4, ABS)}},
    'mips_rela': {'em': 8, 'cls': 64, 'rela': True, 'types': {2: (4, ABS), 18: (8, ABS)}},
    'ppc64': {'em': 21, 'cls': 64, 'rela': True, 'types': {1: (4, ABS), 26: (4, PCREL), 38: (8, ABS)}},
    's390': {'em': 22, 'cls': 64, 'rela': True, 'types': {4: (4, ABS), 5: (4, PCREL), 22: (8, ABS)}},
    'loongarch': {'em': 258, 'cls': 64, 'rela': True, 'types': {
        0: (0, NONE), 1: (4, ABS), 2: (8, ABS),
        47: (1, ADD), 48: (2, ADD), 50: (4, ADD), 51: (8, ADD),
        52: (1, SUB), 53: (2, SUB), 55: (4, SUB), 56: (8, SUB),
        99: (4, PCREL), 109: (8, PCREL)}},
}
# The same machines in ELFCLASS32 containers (x32, MIPS n32, LoongArch32): the recipes are selected by e_machine, the field widths by the
# relocation type - neither depends on the file class.  Only types that fit the 8-bit type field of an ELF32 r_info.
MACHINES['x64_x32'] = dict(MACHINES['x64'], cls=32)
MACHINES['mips_rela_n32'] = dict(MACHINES['mips_rela'], cls=32)
MACHINES['loongarch32'] = dict(MACHINES['loongarch'], cls=32)

# Types for which the property makes no statement either way (the library supports them, A.5 does not list them):
# they are neither generated as positive nor as negative cases.
GREY = {'arm': {28}, 'mips_rela': {0}, 'mips_rela_n32': {0}}

# Machines without any supported debug relocation (used for the 'unsupported machine' error path).
# EM_SPARC, EM_68K, EM_PPC, EM_SH, EM_SPARCV9, EM_IA_64, EM_RISCV, EM_NONE.  (EM_BPF 247 is excluded: the library
# supports it and the property does not list it.)
UNSUPPORTED_EM = [2, 4, 20, 42, 43, 50, 243, 0]

# the widest access any implementation may legitimately make for a *_NONE relocation is 0 bytes
MAX_WIDTH = 8


def signed(v, bits):
    v &= (1 << bits) - 1
    return v - (1 << bits) if v >> (bits - 1) else v


def formula(kind, S, A, P, V):
    """exact (untruncated) integer result"""
    if kind == ABS:
        return S + A
    if kind == PCREL:
        return S + A - P
    if kind == ADD:
        return V + (S + A)
    if kind == SUB:
        return V - (S + A)
    raise ValueError(kind)


class Reject(Exception):
    """the relocation must be rejected with ELFRelocationError"""
    def __init__(self, reason, text):
        Exception.__init__(self, text)
        self.reason = reason


def apply_expected(mk, em, le, rela, data, relocs, symvals):
    """Expected contents of a section after relocation.

    mk: key of MACHINES or None (machine `em` without relocation support);  rela: flavour of the relocation SECTION;
    relocs: list of dicts {off, sym, type, addend, sub: [ssym, t3, t2] (MIPS n64 only)} in table order;
    symvals: st_value per symbol index.
    Returns (bytes, facts) where facts is a list of per-relocation dicts (off, width, exact, stored, V, S, A, kind),
    or raises Reject(reason)."""
    buf = bytearray(data)
    facts = []
    spec = MACHINES.get(mk)
    for r in relocs:
        if r['sym'] >= len(symvals):
            raise Reject('symidx', 'symbol index %d >= %d' % (r['sym'], len(symvals)))
        if spec is None:
            raise Reject('machine', 'no relocation support for e_machine %d' % em)
        if rela != spec['rela']:
            raise Reject('flavour', '%s section on %s' % ('RELA' if rela else 'REL', mk))
        if r['type'] not in spec['types']:
            raise Reject('type', 'type %d on %s' % (r['type'], mk))
        sub = r.get('sub') or [0, 0, 0]
        if mk == 'mips_rela' and (sub[1] or sub[2]):
            raise Reject('composite', 'n64 composite relocation (%d, %d, %d)' % (r['type'], sub[2], sub[1]))
        width, kind = spec['types'][r['type']]
        P = r['off']
        S = symvals[r['sym']]
        if kind == NONE:
            facts.append({'off': P, 'width': 0, 'kind': kind, 'type': r['type']})
            continue
        assert 0 <= P and P + width <= len(buf), 'generator error: field outside the section'
        V = int.from_bytes(buf[P:P + width], 'little' if le else 'big')
        A = r['addend'] if rela else V
        exact = formula(kind, S, A, P, V)
        stored = exact % (1 << (8 * width))
        buf[P:P + width] = stored.to_bytes(width, 'little' if le else 'big')
        facts.append({'off': P, 'width': width, 'kind': kind, 'type': r['type'], 'S': S, 'A': A, 'V': V, 'exact': exact, 'stored': stored})
    return bytes(buf), facts


def relr_expand(words, cls):
    """-> list of relocated addresses.  words[0] must be an address entry (even) if any bitmap follows."""
    ws = cls // 8
    out = []
    where = None
    for e in words:
        if e & 1 == 0:
            out.append(e)
            where = e + ws
        else:
            assert where is not None, 'generator error: leading bitmap'
            i = 0
            e >>= 1
            while e:
                if e & 1:
                    out.append(where + i * ws)
                e >>= 1
                i += 1
            where += (cls - 1) * ws
    return out

"""C12 development referee (not part of the check run):   /venv/bin/python -m vf.ref.c12_referee

Puts expressions produced by vf/enc/c12_expr.py into DW_AT_location/DW_FORM_exprloc attributes of a
hand-written .debug_info (little-endian x address size {4,8} x DWARF32/64 x version 3..5), lets GNU readelf
(binutils) and llvm-dwarfdump print them and compares the flattened sequence of operation names with the
encoder's expectation.  An operand width error in the encoder (or in the table) shifts every following
operation, so the sentinel operations after the operation under test would not be printed as expected.
The tools are independent of both pyelftools and the encoder.  Operations a tool does not know are reported
as 'unknown to <tool>' and skipped.
"""
import os
import re
import sys
import shutil
import tempfile
import subprocess

from vf.enc import c12_expr as X
from vf.enc import leb


def unit(exprs, fmt, asz, ver):
    ab = bytes([1, 0x11, 1, 0, 0, 2, 0x34, 0, 0x02, 0x18, 0, 0, 0])
    body = bytearray([1])
    for e in exprs:
        body += bytes([2]) + leb.uleb(len(e)) + e
    body.append(0)
    osz = fmt // 8
    if ver >= 5:
        hdr = ver.to_bytes(2, 'little') + bytes([1, asz]) + (0).to_bytes(osz, 'little')
    else:
        hdr = ver.to_bytes(2, 'little') + (0).to_bytes(osz, 'little') + bytes([asz])
    ln = len(hdr) + len(body)
    il = ln.to_bytes(4, 'little') if fmt == 32 else b'\xff\xff\xff\xff' + ln.to_bytes(8, 'little')
    return il + hdr + bytes(body), ab


def flat_names(exp):
    out = []
    for code, name, args, off in exp:
        out.append(name)
        for a in args:
            if isinstance(a, list):
                out += flat_names(a)
    return out


def sample_ops(asz, fmt):
    """one representative operand tuple per operation (values chosen so that a wrong width is visible)"""
    res = []
    for code in sorted(X.OPS):
        spec = X.SPEC[code]
        if 'X' in spec:
            continue
        vals = []
        for k in spec:
            if k in X.FIXED:
                n, sg = X.FIXED[k]
                vals.append(-2 if sg else (1 << (8 * n)) - 3)
            elif k == 'A':
                vals.append((1 << (8 * asz)) - 5)
            elif k == 'O':
                vals.append(0x21)
            elif k == 'U':
                vals.append(300)
            elif k == 'S':
                vals.append(-300)
            elif k == 'B':
                vals.append(bytes([0x30, 0x31, 0x96]))
            elif k == 'T':
                vals.append(bytes([0x32, 0x33]))
            elif k == 'E':
                vals.append([[0x55, []], [0x91, [-8]]])
            elif k == 'W':
                vals += [3, 0x01020304]
        if code in (0x94, 0x95):
            vals = [asz]
        res.append([code, vals])
    return res


def run_tool(cmd):
    return subprocess.run(cmd, stdout=subprocess.PIPE, stderr=subprocess.STDOUT, text=True).stdout


def main():
    tmp = tempfile.mkdtemp(prefix='c12ref_')
    bad = 0
    summary = {}
    try:
        empty = os.path.join(tmp, 'e.s')
        open(empty, 'w').write('')
        base = os.path.join(tmp, 'base.o')
        subprocess.check_call(['as', '-o', base, empty])
        for asz in (4, 8):
            for fmt in (32, 64):
                for ver in (3, 4, 5):
                    ops = sample_ops(asz, fmt)
                    exprs, exps = [], []
                    for op in ops:
                        seq = [op, [0x31, []], [0x32, []], [0x33, []]]
                        b, e = X.encode(seq, True, fmt, asz)
                        exprs.append(b)
                        exps.append(flat_names(e))
                    info, ab = unit(exprs, fmt, asz, ver)
                    fi, fa, obj = (os.path.join(tmp, n) for n in ('info', 'abbrev', 'o.o'))
                    open(fi, 'wb').write(info)
                    open(fa, 'wb').write(ab)
                    subprocess.check_call(['objcopy', '--add-section', '.debug_info=' + fi, '--add-section',
                                           '.debug_abbrev=' + fa, base, obj])
                    for tool, cmd in (('readelf', ['readelf', '--debug-dump=info', obj]),
                                      ('llvm-dwarfdump', ['llvm-dwarfdump', '--debug-info', obj])):
                        if not shutil.which(cmd[0]):
                            continue
                        txt = run_tool(cmd)
                        lines = [l for l in txt.splitlines() if 'DW_AT_location' in l]
                        if len(lines) != len(ops):
                            print('REFEREE-ERROR %s: %d location lines for %d DIEs (asz=%d fmt=%d v%d)' % (
                                tool, len(lines), len(ops), asz, fmt, ver))
                            print(txt[-1500:])
                            bad += 1
                            continue
                        for op, exp, line in zip(ops, exps, lines):
                            got = re.findall(r'DW_OP_\w+', line)
                            # tool spellings
                            got = [g.replace('DW_OP_APPLE_uninit', 'DW_OP_GNU_uninit') for g in got]
                            name = X.NAME[op[0]]
                            key = (tool, name)
                            if got == exp:
                                summary.setdefault(key, set()).add('agree')
                            elif (not got or got[0] != name or 'nknown' in line or 'user defined' in line.lower()
                                  or 'DW_OP_0x' in line or '<decoding error>' in line):
                                summary.setdefault(key, set()).add('unknown-to-tool')
                            else:
                                summary.setdefault(key, set()).add('DISAGREE')
                                print('DISAGREE %s asz=%d fmt=%d v%d %s\n   encoder: %s\n   tool   : %s' % (
                                    tool, asz, fmt, ver, name, exp, line.strip()))
                                bad += 1
        for tool in ('readelf', 'llvm-dwarfdump'):
            ag = sorted(n for (t, n), s in summary.items() if t == tool and s == {'agree'})
            un = sorted(n for (t, n), s in summary.items() if t == tool and 'unknown-to-tool' in s and 'DISAGREE' not in s)
            dis = sorted(n for (t, n), s in summary.items() if t == tool and 'DISAGREE' in s)
            print('%s: agree on %d operations in all 12 cells; unknown to tool: %s; disagree: %s' % (
                tool, len(ag), ' '.join(un) or '-', ' '.join(dis) or '-'))
    finally:
        shutil.rmtree(tmp, ignore_errors=True)
    return 1 if bad else 0


if __name__ == '__main__':
    sys.exit(main())

"""Reference call-frame table interpreter, transcribed from DWARF v5 section 6.4.1 (structure of the
table), 6.4.2 (instructions; 6.4.2.1 row creation, 6.4.2.2 CFA definition, 6.4.2.3 register rules,
6.4.2.4 row state) and 6.4.3 (usage: an FDE starts from the rules the CIE's initial instructions set).
Written without reference to the elftools implementation.

An op is a list: [name, operands...] with names as below.  Blocks are bytes.
State: cfa = None | ('reg', r, off) | ('expr', bytes);  regs = {r: (kind, arg)}.
"""

PRIMARY = {'advance_loc': 0x40, 'offset': 0x80, 'restore': 0xc0}
EXTENDED = {'nop': 0x00, 'set_loc': 0x01, 'advance_loc1': 0x02, 'advance_loc2': 0x03, 'advance_loc4': 0x04,
            'offset_extended': 0x05, 'restore_extended': 0x06, 'undefined': 0x07, 'same_value': 0x08, 'register': 0x09,
            'remember_state': 0x0a, 'restore_state': 0x0b, 'def_cfa': 0x0c, 'def_cfa_register': 0x0d, 'def_cfa_offset': 0x0e,
            'def_cfa_expression': 0x0f, 'expression': 0x10, 'offset_extended_sf': 0x11, 'def_cfa_sf': 0x12,
            'def_cfa_offset_sf': 0x13, 'val_offset': 0x14, 'val_offset_sf': 0x15, 'val_expression': 0x16,
            'negate_ra_state': 0x2d, 'GNU_args_size': 0x2e}


class State:
    def __init__(self, cfa=None, regs=None, wcfa='initial', wregs=None):
        self.cfa = cfa
        self.regs = dict(regs or {})
        self.wcfa = wcfa                 # name of the op that last wrote the CFA rule (for diagnostics)
        self.wregs = dict(wregs or {})

    def copy(self):
        return State(self.cfa, self.regs, self.wcfa, self.wregs)


def run(ops, caf, daf, pc, start, initial):
    """start: State the entry starts from (fresh State() for a CIE, the CIE's final state for an FDE);
    initial: the CIE's initial register rules (State) used by DW_CFA_restore*, or None inside a CIE.
    -> (rows, final State); a row = {'pc', 'cfa', 'regs', 'wcfa', 'wregs'}"""
    st = start.copy()
    stack = []
    rows = []

    def snap():
        rows.append({'pc': pc, 'cfa': st.cfa, 'regs': dict(st.regs), 'wcfa': st.wcfa, 'wregs': dict(st.wregs)})

    for op in ops:
        k = op[0]
        if k in ('advance_loc', 'advance_loc1', 'advance_loc2', 'advance_loc4'):
            snap()                                   # 6.4.2.1: create a new table row ...
            pc += op[1] * caf                        # ... delta * code_alignment_factor
        elif k == 'set_loc':
            snap()
            pc = op[1]
        elif k == 'def_cfa':                         # 6.4.2.2: register + (non-factored) offset
            st.cfa, st.wcfa = ('reg', op[1], op[2]), k
        elif k == 'def_cfa_sf':                      # signed, factored by data_alignment_factor
            st.cfa, st.wcfa = ('reg', op[1], op[2] * daf), k
        elif k == 'def_cfa_register':
            assert st.cfa and st.cfa[0] == 'reg', 'def_cfa_register is only valid on a register+offset rule'
            st.cfa, st.wcfa = ('reg', op[1], st.cfa[2]), k
        elif k == 'def_cfa_offset':
            assert st.cfa and st.cfa[0] == 'reg'
            st.cfa, st.wcfa = ('reg', st.cfa[1], op[1]), k
        elif k == 'def_cfa_offset_sf':
            assert st.cfa and st.cfa[0] == 'reg'
            st.cfa, st.wcfa = ('reg', st.cfa[1], op[1] * daf), k
        elif k == 'def_cfa_expression':
            st.cfa, st.wcfa = ('expr', bytes(op[1])), k
        elif k == 'undefined':                       # 6.4.2.3
            st.regs[op[1]], st.wregs[op[1]] = ('UNDEFINED', None), k
        elif k == 'same_value':
            st.regs[op[1]], st.wregs[op[1]] = ('SAME_VALUE', None), k
        elif k in ('offset', 'offset_extended', 'offset_extended_sf'):
            st.regs[op[1]], st.wregs[op[1]] = ('OFFSET', op[2] * daf), k
        elif k in ('val_offset', 'val_offset_sf'):
            st.regs[op[1]], st.wregs[op[1]] = ('VAL_OFFSET', op[2] * daf), k
        elif k == 'register':
            st.regs[op[1]], st.wregs[op[1]] = ('REGISTER', op[2]), k
        elif k == 'expression':
            st.regs[op[1]], st.wregs[op[1]] = ('EXPRESSION', bytes(op[2])), k
        elif k == 'val_expression':
            st.regs[op[1]], st.wregs[op[1]] = ('VAL_EXPRESSION', bytes(op[2])), k
        elif k in ('restore', 'restore_extended'):
            assert initial is not None, 'restore is only valid in an FDE'
            r = op[1]
            if r in initial.regs:
                st.regs[r] = initial.regs[r]
            else:
                st.regs.pop(r, None)
            st.wregs[r] = k
        elif k == 'remember_state':                  # 6.4.2.4
            stack.append(st.copy())
        elif k == 'restore_state':
            st = stack.pop()
        elif k in ('nop', 'negate_ra_state', 'GNU_args_size'):
            pass
        else:
            raise ValueError(k)
    snap()
    return rows, st

"""Development helper: confirm a seeded change and run checks against it, without touching /repo.

    python -m vf.seedeval <Cxx> <change.diff> <demo.py> [--checks C01,C10] [--tier quick]

Steps (in a scratch git worktree of /repo's HEAD under /tmp, removed afterwards):
  1. demo on the clean tree must exit 0
  2. apply the diff; the pinned baseline (111 tests) must still pass
  3. demo on the changed tree must exit non-zero
  4. run the listed checks (default: the property's own) with VF_REPO=<worktree>, output redirected to a temp dir
Prints a JSON summary on the last line.
"""
import os
import sys
import json
import shutil
import tempfile
import subprocess
import xml.etree.ElementTree as ET

PY = '/venv/bin/python'


def run(cmd, cwd, env=None, timeout=3600):
    p = subprocess.run(cmd, cwd=cwd, env=env, stdout=subprocess.PIPE, stderr=subprocess.STDOUT, text=True, timeout=timeout)
    return p.returncode, p.stdout


def baseline(wt):
    xml = os.path.join(wt, '.vf_junit.xml')
    run([PY, '-m', 'pytest', '-q', '-p', 'no:cacheprovider', '--timeout=900', '--continue-on-collection-errors', '--junitxml=' + xml], wt,
        env=dict(os.environ, PYTHONPATH=wt, PYTHONDONTWRITEBYTECODE='1'))
    base = set(json.load(open('/root/.vp/BASELINE.json'))['stable_pass'])
    passed = set()
    for tc in ET.parse(xml).iter('testcase'):
        if not any(c.tag in ('failure', 'error', 'skipped') for c in tc):
            passed.add('%s::%s' % (tc.get('classname'), tc.get('name')))
    os.remove(xml)
    return sorted(base - passed)


def main():
    args = sys.argv[1:]
    pid, diff, demo = args[0], os.path.abspath(args[1]), os.path.abspath(args[2])
    checks = [pid]
    tier = 'quick'
    if '--checks' in args:
        checks = args[args.index('--checks') + 1].split(',')
    if '--tier' in args:
        tier = args[args.index('--tier') + 1]
    wt = tempfile.mkdtemp(prefix='vfseed_')
    os.rmdir(wt)
    out = {'property': pid, 'diff': diff}
    try:
        subprocess.check_call(['git', '-C', '/repo', 'worktree', 'add', '-q', '--detach', wt, 'HEAD'])
        env = dict(os.environ, PYTHONPATH=wt, PYTHONDONTWRITEBYTECODE='1')
        rc, o = run([PY, demo], wt, env)
        out['demo_clean_rc'] = rc
        rc, o = run(['git', 'apply', diff], wt)
        out['apply_rc'] = rc
        if rc != 0:
            out['apply_output'] = o[-500:]
            print(json.dumps(out))
            return 1
        out['tests_missing_with_change'] = baseline(wt)
        rc, o = run([PY, demo], wt, env)
        out['demo_changed_rc'] = rc
        out['demo_changed_tail'] = o.strip().splitlines()[-3:]
        out['checks'] = {}
        for c in checks:
            vout = tempfile.mkdtemp(prefix='vfseedout_')
            rc, o = run([PY, '-m', 'vf.run', c, '--tier', tier, '--no-shrink'], '/verif',
                        dict(os.environ, VF_REPO=wt, VF_OUT=vout, PYTHONDONTWRITEBYTECODE='1', PYTHONHASHSEED='0'))
            lines = [l for l in o.splitlines() if l.strip().startswith('bucket=')]
            out['checks'][c] = {'rc': rc, 'verdict': 'CAUGHT' if rc == 1 else ('HARNESS' if rc == 2 else 'MISSED'),
                                'buckets': [l.strip()[:260] for l in lines[:6]], 'tail': o.strip().splitlines()[-1:] }
            shutil.rmtree(vout, ignore_errors=True)
    finally:
        subprocess.call(['git', '-C', '/repo', 'worktree', 'remove', '--force', wt])
        shutil.rmtree(wt, ignore_errors=True)
    print(json.dumps(out, indent=1))
    return 0


if __name__ == '__main__':
    sys.exit(main())

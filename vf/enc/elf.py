"""Independent ELF writer (gABI structures via struct.pack; shares no code with elftools).

Model (plain JSON-able dict):

  m = {
    'cls': 32|64, 'le': bool,
    'osabi': int, 'abiver': int, 'ei_version': int (default 1), 'ident_pad': bytes(7) (default zeros),
    'e_type','e_machine','e_version','e_entry','e_flags': ints,
    'e_ehsize': int (default struct size),
    'shentsize_extra': int >= 0, 'phentsize_extra': int >= 0,
    'sections': [ section, ... ]   (may be empty => e_shoff = 0)
    'segments': [ segment, ... ]
    'shstrndx': index of the section-name string table or None (=> 0 / SHN_UNDEF),
    'order':  permutation of chunk ids: 'ph', 'sh', and section indices (ints) that own a payload,
    'gaps':   {chunk id (as str): gap bytes before the chunk},
    'xnum':   {'sh': bool, 'ph': bool, 'str': bool}  force the extended-numbering escape even for small counts,
    'tail': int  trailing filler bytes,
  }

  section = {
    'name': str,
    'sh_type','sh_flags','sh_addr','sh_link','sh_info','sh_addralign','sh_entsize': ints,
    'data': bytes | None      payload placed by the layout (sh_offset/sh_size resolved from it), or
    'sh_offset','sh_size'     explicit raw values (no payload placed)  -- when 'data' is None
    'size_override': int      optional: header sh_size differs from len(data) (e.g. NOBITS)
    'name_off': int           optional explicit sh_name (not resolved through the name table)
  }
  The section marked by m['shstrndx'] gets its 'data' generated from the names (any 'data' ignored).

  segment = {'p_type','p_flags','p_offset','p_vaddr','p_paddr','p_filesz','p_memsz','p_align'}
     each value an int or a symbolic reference resolved after layout:
       ['sec_off', i, delta] | ['sec_addr', i, delta] | ['sec_size', i, delta] | ['file_len', delta]
       | ['ph_off', delta] | ['ph_size', delta]

build(m) -> (file bytes, R) with R = {'eh': {...ints}, 'sh': [ {...ints} ], 'ph': [ {...ints} ],
                                    'names': [str], 'shnum': n, 'phnum': n, 'shstrndx': k}
"""
import struct

FILL = 0xCC

EHDR_SIZE = {32: 52, 64: 64}
SHDR_SIZE = {32: 40, 64: 64}
PHDR_SIZE = {32: 32, 64: 56}
SYM_SIZE = {32: 16, 64: 24}
DYN_SIZE = {32: 8, 64: 16}
CHDR_SIZE = {32: 12, 64: 24}

SH_FIELDS = ('sh_name', 'sh_type', 'sh_flags', 'sh_addr', 'sh_offset', 'sh_size', 'sh_link', 'sh_info',
             'sh_addralign', 'sh_entsize')
PH_FIELDS = ('p_type', 'p_flags', 'p_offset', 'p_vaddr', 'p_paddr', 'p_filesz', 'p_memsz', 'p_align')
EH_FIELDS = ('e_type', 'e_machine', 'e_version', 'e_entry', 'e_phoff', 'e_shoff', 'e_flags', 'e_ehsize',
             'e_phentsize', 'e_phnum', 'e_shentsize', 'e_shnum', 'e_shstrndx')


def E(le):
    return '<' if le else '>'


def mask(cls):
    return (1 << cls) - 1


def pack_shdr(cls, le, h):
    if cls == 32:
        return struct.pack(E(le) + '10I', *[h[f] & 0xffffffff for f in SH_FIELDS])
    return struct.pack(E(le) + 'IIQQQQIIQQ', *[h[f] for f in SH_FIELDS])


def pack_phdr(cls, le, p):
    if cls == 32:
        return struct.pack(E(le) + '8I', p['p_type'], p['p_offset'], p['p_vaddr'], p['p_paddr'], p['p_filesz'],
                           p['p_memsz'], p['p_flags'], p['p_align'])
    return struct.pack(E(le) + 'IIQQQQQQ', p['p_type'], p['p_flags'], p['p_offset'], p['p_vaddr'], p['p_paddr'],
                       p['p_filesz'], p['p_memsz'], p['p_align'])


def pack_ehdr(cls, le, ident, e):
    fmt = E(le) + ('16sHHIIIIIHHHHHH' if cls == 32 else '16sHHIQQQIHHHHHH')
    return struct.pack(fmt, ident, *[e[f] for f in EH_FIELDS])


def build_strtab(names, share_suffix=False, lead=b'\0'):
    """-> (bytes, {name: offset}).  names: iterable of str.  Offset 0 is the empty string."""
    blob = bytearray(lead)
    offs = {}
    uniq = []
    for n in names:
        if n not in offs and n not in uniq:
            uniq.append(n)
    order = sorted(uniq, key=lambda s: -len(s.encode('utf-8'))) if share_suffix else uniq
    for n in order:
        b = n.encode('utf-8')
        if n == '':
            offs[n] = 0 if lead[:1] == b'\0' else None
            if offs[n] is None:
                offs[n] = len(blob)
                blob += b'\0'
            continue
        if share_suffix:
            idx = bytes(blob).find(b + b'\0')
            if idx >= 0:
                offs[n] = idx
                continue
        offs[n] = len(blob)
        blob += b + b'\0'
    return bytes(blob), offs


def _resolve(v, ctx):
    if isinstance(v, int):
        return v
    kind = v[0]
    if kind == 'sec_off':
        return ctx['sh'][v[1]]['sh_offset'] + v[2]
    if kind == 'sec_addr':
        return ctx['sh'][v[1]]['sh_addr'] + v[2]
    if kind == 'sec_size':
        return ctx['sh'][v[1]]['sh_size'] + v[2]
    if kind == 'file_len':
        return ctx['file_len'] + v[1]
    if kind == 'ph_off':
        return ctx['phoff'] + v[1]
    if kind == 'ph_size':
        return ctx['phsize'] + v[1]
    raise ValueError(v)


def build(m):
    cls, le = m['cls'], m['le']
    secs = m.get('sections', [])
    segs = m.get('segments', [])
    nsec, nseg = len(secs), len(segs)
    shent = SHDR_SIZE[cls] + m.get('shentsize_extra', 0)
    phent = PHDR_SIZE[cls] + m.get('phentsize_extra', 0)
    shstrndx = m.get('shstrndx')
    xnum = m.get('xnum', {})

    # names
    names = [s.get('name', '') for s in secs]
    payloads = {}
    name_offs = {}
    if shstrndx is not None and nsec:
        blob, name_offs = build_strtab([n for s, n in zip(secs, names) if 'name_off' not in s],
                                       share_suffix=m.get('share_suffix', False))
        extra = secs[shstrndx].get('strtab_extra', b'')
        payloads[shstrndx] = blob + extra
    for i, s in enumerate(secs):
        if i not in payloads and s.get('data') is not None:
            payloads[i] = bytes(s['data'])

    # layout
    order = list(m.get('order') or (['ph'] + sorted(payloads) + ['sh']))
    for cid in ['ph'] + sorted(payloads) + ['sh']:
        if cid not in order:
            order.append(cid)
    gaps = m.get('gaps', {})
    pos = max(EHDR_SIZE[cls], m.get('first_offset', 0))
    off = {}
    for cid in order:
        if cid == 'ph':
            size = nseg * phent
            if nseg == 0:
                continue
        elif cid == 'sh':
            size = nsec * shent
            if nsec == 0:
                continue
        else:
            if cid not in payloads:
                continue
            size = len(payloads[cid])
        pos += gaps.get(str(cid), 0)
        al = secs[cid].get('file_align', 1) if isinstance(cid, int) else m.get('table_align', 1)
        if al > 1:
            pos = (pos + al - 1) // al * al
        off[cid] = pos
        pos += size
    file_len = pos + m.get('tail', 0)

    # section headers
    R_sh = []
    for i, s in enumerate(secs):
        h = {f: s.get(f, 0) for f in SH_FIELDS}
        if 'name_off' in s:
            h['sh_name'] = s['name_off']
        elif shstrndx is not None:
            h['sh_name'] = name_offs.get(names[i], 0)
        else:
            h['sh_name'] = s.get('name_off', 0)
        if i in payloads:
            h['sh_offset'] = off[i]
            h['sh_size'] = s.get('size_override', len(payloads[i]))
        R_sh.append(h)

    real_shnum, real_phnum = nsec, nseg
    e_shnum = nsec
    e_phnum = nseg
    e_shstrndx = shstrndx if (shstrndx is not None and nsec) else 0
    if nsec:
        if nsec >= 0xff00 or xnum.get('sh'):
            e_shnum = 0
            R_sh[0]['sh_size'] = nsec
        if (nseg >= 0xffff or xnum.get('ph')):
            e_phnum = 0xffff
            R_sh[0]['sh_info'] = nseg
        if shstrndx is not None and (shstrndx >= 0xff00 or xnum.get('str')):
            e_shstrndx = 0xffff
            R_sh[0]['sh_link'] = shstrndx
    else:
        assert nseg < 0xffff, 'PN_XNUM needs a section header 0'

    eh = {
        'e_type': m.get('e_type', 2), 'e_machine': m.get('e_machine', 62), 'e_version': m.get('e_version', 1),
        'e_entry': m.get('e_entry', 0), 'e_phoff': off.get('ph', 0), 'e_shoff': off.get('sh', 0),
        'e_flags': m.get('e_flags', 0), 'e_ehsize': m.get('e_ehsize', EHDR_SIZE[cls]),
        'e_phentsize': phent if (nseg or m.get('phentsize_when_empty')) else m.get('e_phentsize_empty', 0),
        'e_phnum': e_phnum,
        'e_shentsize': shent if (nsec or m.get('shentsize_when_empty')) else m.get('e_shentsize_empty', 0),
        'e_shnum': e_shnum, 'e_shstrndx': e_shstrndx,
    }
    for k in ('e_phoff', 'e_shoff'):
        if k in m.get('eh_override', {}):
            eh[k] = m['eh_override'][k]

    ctx = {'sh': R_sh, 'file_len': file_len, 'phoff': off.get('ph', 0), 'phsize': nseg * phent}
    R_ph = []
    for p in segs:
        R_ph.append({f: _resolve(p.get(f, 0), ctx) & (mask(cls) if f not in ('p_type', 'p_flags') else 0xffffffff)
                     for f in PH_FIELDS})

    ident = (b'\x7fELF' + bytes([1 if cls == 32 else 2, 1 if le else 2, m.get('ei_version', 1) & 0xff,
                                  m.get('osabi', 0) & 0xff, m.get('abiver', 0) & 0xff]) +
             bytes(m.get('ident_pad', b'\0' * 7)))
    assert len(ident) == 16

    buf = bytearray([FILL]) * file_len
    buf[0:EHDR_SIZE[cls]] = pack_ehdr(cls, le, ident, eh)
    for i, data in payloads.items():
        buf[off[i]:off[i] + len(data)] = data
    if nseg:
        filler_p = bytes((0xA0 + k) & 0xff for k in range(phent - PHDR_SIZE[cls]))
        for j, p in enumerate(R_ph):
            o = off['ph'] + j * phent
            buf[o:o + phent] = pack_phdr(cls, le, p) + filler_p
    if nsec:
        filler_s = bytes((0xB0 + k) & 0xff for k in range(shent - SHDR_SIZE[cls]))
        for i, h in enumerate(R_sh):
            o = off['sh'] + i * shent
            buf[o:o + shent] = pack_shdr(cls, le, h) + filler_s
    R = {'eh': eh, 'sh': R_sh, 'ph': R_ph, 'names': names, 'shnum': real_shnum, 'phnum': real_phnum,
         'shstrndx': e_shstrndx if e_shstrndx != 0xffff else shstrndx, 'ident': ident, 'off': off,
         'file_len': file_len, 'shent': shent, 'phent': phent}
    return bytes(buf), R


# ---------------------------------------------------------------------------
# typed payload encoders

def enc_sym(cls, le, st_name, st_value, st_size, st_info, st_other, st_shndx):
    if cls == 32:
        return struct.pack(E(le) + 'IIIBBH', st_name, st_value & 0xffffffff, st_size & 0xffffffff, st_info, st_other, st_shndx)
    return struct.pack(E(le) + 'IBBHQQ', st_name, st_info, st_other, st_shndx, st_value, st_size)


def enc_rel(cls, le, r_offset, sym, typ, addend=None, mips64=None):
    """mips64: (ssym, type3, type2) for the ELF64 MIPS packed layout."""
    if cls == 32:
        info = ((sym & 0xffffff) << 8) | (typ & 0xff)
        out = struct.pack(E(le) + 'II', r_offset & 0xffffffff, info)
        if addend is not None:
            out += struct.pack(E(le) + 'i', addend)
        return out
    if mips64 is not None:
        ssym, t3, t2 = mips64
        out = struct.pack(E(le) + 'QIBBBB', r_offset, sym & 0xffffffff, ssym, t3, t2, typ & 0xff)
    else:
        info = ((sym & 0xffffffff) << 32) | (typ & 0xffffffff)
        out = struct.pack(E(le) + 'QQ', r_offset, info)
    if addend is not None:
        out += struct.pack(E(le) + 'q', addend)
    return out


def enc_dyn(cls, le, tag, val):
    if cls == 32:
        return struct.pack(E(le) + 'iI', tag, val & 0xffffffff)
    return struct.pack(E(le) + 'qQ', tag, val & 0xffffffffffffffff)


def enc_chdr(cls, le, ch_type, ch_size, ch_addralign, reserved=0):
    if cls == 32:
        return struct.pack(E(le) + 'III', ch_type, ch_size, ch_addralign)
    return struct.pack(E(le) + 'IIQQ', ch_type, reserved, ch_size, ch_addralign)


def enc_note(le, name, desc, ntype, namesz=None, align=4):
    """name: bytes INCLUDING its terminating NUL if any."""
    namesz = len(name) if namesz is None else namesz
    out = struct.pack(E(le) + 'III', namesz, len(desc), ntype)
    out += name + b'\0' * (-len(name) % align)
    out += desc + b'\0' * (-len(desc) % align)
    return out


def sysv_hash(name):
    h = 0
    for c in name:
        h = ((h << 4) + c) & 0xffffffff
        g = h & 0xf0000000
        if g:
            h ^= g >> 24
        h &= ~g & 0xffffffff
    return h


def gnu_hash(name):
    h = 5381
    for c in name:
        h = (h * 33 + c) & 0xffffffff
    return h


def enc_sysv_hash(le, names, nbucket, chain_order_key=None):
    """names: list of bytes, index = symbol index (index 0 = null symbol, never hashed).
    Returns bytes of the table.  Symbols are pushed to the front of their bucket chain in index
    order unless chain_order_key gives another (consistent) order."""
    n = len(names)
    buckets = [0] * nbucket
    chains = [0] * n
    idxs = list(range(1, n))
    if chain_order_key:
        idxs.sort(key=chain_order_key)
    for i in idxs:
        b = sysv_hash(names[i]) % nbucket
        chains[i] = buckets[b]
        buckets[b] = i
    return struct.pack(E(le) + 'II%dI%dI' % (nbucket, n), nbucket, n, *buckets, *chains)


def enc_gnu_hash(cls, le, names, symoffset, nbuckets, bloom_size, bloom_shift):
    """names[symoffset:] must already be sorted by gnu_hash % nbuckets.  bloom_size power of two."""
    n = len(names)
    c = cls
    bloom = [0] * bloom_size
    buckets = [0] * nbuckets
    chain = []
    hashes = [gnu_hash(nm) for nm in names]
    for i in range(symoffset, n):
        h = hashes[i]
        b = h % nbuckets
        if buckets[b] == 0:
            buckets[b] = i
        last = (i == n - 1) or (hashes[i + 1] % nbuckets != b)
        chain.append((h & ~1) | (1 if last else 0))
        w = (h // c) % bloom_size
        bloom[w] |= (1 << (h % c)) | (1 << ((h >> bloom_shift) % c))
    out = struct.pack(E(le) + 'IIII', nbuckets, symoffset, bloom_size, bloom_shift)
    out += struct.pack(E(le) + ('%dI' if cls == 32 else '%dQ') % bloom_size, *bloom)
    out += struct.pack(E(le) + '%dI' % nbuckets, *buckets)
    out += struct.pack(E(le) + '%dI' % len(chain), *chain)
    return out

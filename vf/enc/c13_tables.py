"""Independent encoders for the DWARF lookup tables of property C13 (shares no code with elftools).

.debug_aranges   DWARF v5 section 6.1.2 / 7.21 (same layout since v2), 32-bit DWARF format:
    unit_length        4   length of the set, not including this field
    version            2   always 2
    debug_info_offset  4   offset of the unit in .debug_info
    address_size       1
    segment_selector_size 1   0 here
    padding so that the first tuple starts at a multiple of the tuple size (2 * address_size)
    (address, length) pairs, each address_size bytes, terminated by (0, 0)
  binutils aligns relative to the start of the section, LLVM relative to the start of the set.  The encoder insists that
  every set starts at a multiple of its own tuple size, so that both readings coincide.

.debug_pubnames / .debug_pubtypes   DWARF v4 section 6.1.1 / 7.19 (v5: 6.1.1 of v4 retained by producers), 32-bit format:
    unit_length 4, version 2 (always 2), debug_info_offset 4, debug_info_length 4,
    (offset 4 (relative to the unit header, never 0), NUL-terminated name) pairs, terminated by a 4-byte 0.

Model:
    aranges set = {'A': 4|8, 'info': int, 'ranges': [[address, length], ...]}
    name set    = {'info': int, 'info_len': int, 'names': [[offset, name:str], ...]}
"""


def u(le, n, v):
    assert 0 <= v < (1 << (8 * n)), (n, v)
    return v.to_bytes(n, 'little' if le else 'big')


ARANGES_HEADER = 4 + 2 + 4 + 1 + 1


def enc_aranges(le, sets, fmt=32):
    """-> (section bytes, expected entries [(begin, length, info, unit_length, version, address_size, segment_size)] in encoded
    order, [(set start offset, first tuple offset)])"""
    out = bytearray()
    entries = []
    layout = []
    for s in sets:
        A = s['A']
        assert A in (4, 8)
        T = 2 * A
        start = len(out)
        if start % T:
            raise AssertionError('set at %d is not aligned to its tuple size %d (generator bug)' % (start, T))
        hdr_len = ARANGES_HEADER if fmt == 32 else 4 + 8 + 2 + 8 + 1 + 1     # 64-bit format: escape + 8-byte length, 8-byte unit offset
        pad = (-hdr_len) % T
        body = bytearray(b'\0' * pad)
        for a, ln in s['ranges']:
            assert (a, ln) != (0, 0), 'a (0,0) tuple is the terminator'
            body += u(le, A, a) + u(le, A, ln)
        body += u(le, A, 0) + u(le, A, 0)
        # bytes that unit_length still covers behind the terminating pair (a producer may round a set up; the next set starts where
        # unit_length says, not where the terminator ended).  Whole multiples of 16 keep every following set on its tuple size.
        slack = bytes(s.get('slack', b''))
        assert len(slack) % 16 == 0
        body += slack
        if fmt == 32:
            unit_length = ARANGES_HEADER - 4 + len(body)
            out += u(le, 4, unit_length) + u(le, 2, 2) + u(le, 4, s['info']) + bytes([A, 0]) + body
        else:
            unit_length = hdr_len - 12 + len(body)
            out += b'\xff\xff\xff\xff' + u(le, 8, unit_length) + u(le, 2, 2) + u(le, 8, s['info']) + bytes([A, 0]) + body
        layout.append((start, start + hdr_len + pad))
        for a, ln in s['ranges']:
            entries.append((a, ln, s['info'], unit_length, 2, A, 0))
    return bytes(out), entries, layout


def enc_names(le, sets):
    """-> (section bytes, expected pairs [(name:str, cu_ofs, absolute die_ofs)] in encoded order,
    expected set headers [{'unit_length','version','debug_info_offset','debug_info_length'}])"""
    out = bytearray()
    pairs = []
    headers = []
    for s in sets:
        body = bytearray()
        for off, name in s['names']:
            assert off != 0, 'offset 0 is the terminator'
            nb = name.encode('utf-8')
            assert b'\0' not in nb
            body += u(le, 4, off) + nb + b'\0'
            pairs.append((name, s['info'], s['info'] + off))
        body += u(le, 4, 0)
        # bytes that unit_length still covers behind the terminator (padding a producer may leave; a reader goes on at the end of the set)
        body += bytes(s.get('slack', b''))
        unit_length = 2 + 4 + 4 + len(body)
        out += u(le, 4, unit_length) + u(le, 2, 2) + u(le, 4, s['info']) + u(le, 4, s['info_len']) + body
        headers.append({'unit_length': unit_length, 'version': 2, 'debug_info_offset': s['info'], 'debug_info_length': s['info_len']})
    return bytes(out), pairs, headers

"""Independent DWARF writers (DWARF v2-v5 .debug_info/.debug_types/.debug_abbrev and friends).

Written from the DWARF v5 standard (section 7.5: unit headers, abbreviations, attribute forms,
table 7.5/7.6).  Shares no code with elftools.

Case model (JSON-able):

  case = {'le': bool,
          'strs':  [bytes...]   pool for .debug_str      (offsets assigned by the writer)
          'lstrs': [bytes...]   pool for .debug_line_str
          'abtabs': [ [abbrev...], ... ]      abbreviation tables, written in this order to .debug_abbrev
          'units':  [unit...]   -> .debug_info
          'tunits': [unit...]   -> .debug_types  (version 4 type units)
          'abbrev_pad': int     filler bytes between abbreviation tables}
  abbrev = {'code': int>=1, 'tag': int, 'children': bool, 'attrs': [[at:int, form:str, implicit_const:int|None], ...]}
  unit   = {'version': 2..5, 'fmt': 32|64, 'addr_size': 4|8, 'ut': DW_UT code (v5 only), 'abtab': index,
            'dwo_id': int, 'sig': int, 'type_die': preorder index of the DIE the type_offset designates,
            'die': die,                       the unit DIE (root)
            'aux': {'strx': [string-pool indices], 'addrx': [addresses], 'loclistx': [offsets], 'rnglistx': [offsets]}}
  die    = {'ab': index into the unit's abbreviation table, 'vals': [value spec per attribute], 'kids': [die...]}

  value spec by form: see _enc_value.
"""
import copy

from vf.enc.leb import uleb, sleb

FORM = {
    'DW_FORM_addr': 0x01, 'DW_FORM_block2': 0x03, 'DW_FORM_block4': 0x04, 'DW_FORM_data2': 0x05, 'DW_FORM_data4': 0x06,
    'DW_FORM_data8': 0x07, 'DW_FORM_string': 0x08, 'DW_FORM_block': 0x09, 'DW_FORM_block1': 0x0a, 'DW_FORM_data1': 0x0b,
    'DW_FORM_flag': 0x0c, 'DW_FORM_sdata': 0x0d, 'DW_FORM_strp': 0x0e, 'DW_FORM_udata': 0x0f, 'DW_FORM_ref_addr': 0x10,
    'DW_FORM_ref1': 0x11, 'DW_FORM_ref2': 0x12, 'DW_FORM_ref4': 0x13, 'DW_FORM_ref8': 0x14, 'DW_FORM_ref_udata': 0x15,
    'DW_FORM_indirect': 0x16, 'DW_FORM_sec_offset': 0x17, 'DW_FORM_exprloc': 0x18, 'DW_FORM_flag_present': 0x19,
    'DW_FORM_strx': 0x1a, 'DW_FORM_addrx': 0x1b, 'DW_FORM_ref_sup4': 0x1c, 'DW_FORM_strp_sup': 0x1d, 'DW_FORM_data16': 0x1e,
    'DW_FORM_line_strp': 0x1f, 'DW_FORM_ref_sig8': 0x20, 'DW_FORM_implicit_const': 0x21, 'DW_FORM_loclistx': 0x22,
    'DW_FORM_rnglistx': 0x23, 'DW_FORM_ref_sup8': 0x24, 'DW_FORM_strx1': 0x25, 'DW_FORM_strx2': 0x26, 'DW_FORM_strx3': 0x27,
    'DW_FORM_strx4': 0x28, 'DW_FORM_addrx1': 0x29, 'DW_FORM_addrx2': 0x2a, 'DW_FORM_addrx3': 0x2b, 'DW_FORM_addrx4': 0x2c,
    'DW_FORM_GNU_ref_alt': 0x1f20, 'DW_FORM_GNU_strp_alt': 0x1f21,
}
FORM_BY_CODE = {v: k for k, v in FORM.items()}

FIXED = {'DW_FORM_data1': 1, 'DW_FORM_data2': 2, 'DW_FORM_data4': 4, 'DW_FORM_data8': 8, 'DW_FORM_flag': 1,
         'DW_FORM_ref_sup4': 4, 'DW_FORM_ref_sup8': 8, 'DW_FORM_ref_sig8': 8,
         'DW_FORM_strx1': 1, 'DW_FORM_strx2': 2, 'DW_FORM_strx3': 3, 'DW_FORM_strx4': 4,
         'DW_FORM_addrx1': 1, 'DW_FORM_addrx2': 2, 'DW_FORM_addrx3': 3, 'DW_FORM_addrx4': 4}
OFFSET_FORMS = ('DW_FORM_sec_offset', 'DW_FORM_strp', 'DW_FORM_line_strp', 'DW_FORM_strp_sup', 'DW_FORM_GNU_strp_alt', 'DW_FORM_GNU_ref_alt')
UREF = {'DW_FORM_ref1': 1, 'DW_FORM_ref2': 2, 'DW_FORM_ref4': 4, 'DW_FORM_ref8': 8, 'DW_FORM_ref_udata': 0}
UREF_WIDEN = {'DW_FORM_ref1': 'DW_FORM_ref2', 'DW_FORM_ref2': 'DW_FORM_ref4', 'DW_FORM_ref4': 'DW_FORM_ref8'}
STRX = ('DW_FORM_strx', 'DW_FORM_strx1', 'DW_FORM_strx2', 'DW_FORM_strx3', 'DW_FORM_strx4')
ADDRX = ('DW_FORM_addrx', 'DW_FORM_addrx1', 'DW_FORM_addrx2', 'DW_FORM_addrx3', 'DW_FORM_addrx4')
REF_UDATA_WIDTH = 4     # ref_udata values are written as 4-byte (padded) ULEB128 so that layout is independent of the value

DW_AT_sibling = 0x01
DW_AT_str_offsets_base, DW_AT_addr_base, DW_AT_rnglists_base, DW_AT_loclists_base = 0x72, 0x73, 0x74, 0x8c
DW_UT = {1: 'DW_UT_compile', 2: 'DW_UT_type', 3: 'DW_UT_partial', 4: 'DW_UT_skeleton', 5: 'DW_UT_split_compile', 6: 'DW_UT_split_type'}


def u(le, n, v):
    return (v & ((1 << (8 * n)) - 1)).to_bytes(n, 'little' if le else 'big')


def uleb_fixed(v, width):
    b = uleb(v)
    assert len(b) <= width, (v, width)
    return uleb(v, width - len(b)) if len(b) < width else b


def pool(strings, lead=b''):
    """-> (section bytes, [offset per string])"""
    blob = bytearray(lead)
    offs = []
    seen = {}
    for s in strings:
        s = bytes(s)
        if s in seen:
            offs.append(seen[s])
            continue
        seen[s] = len(blob)
        offs.append(len(blob))
        blob += s + b'\0'
    return bytes(blob), offs


def initial_length(le, fmt, n):
    return u(le, 4, n) if fmt == 32 else b'\xff\xff\xff\xff' + u(le, 8, n)


class Ctx:
    """per-unit encoding context"""
    def __init__(self, le, unit, w):
        self.le = le
        self.ver = unit['version']
        self.fmt = unit['fmt']
        self.O = 4 if unit['fmt'] == 32 else 8
        self.A = unit['addr_size']
        self.unit = unit
        self.w = w


def _enc_value(c, form, spec, resolve):
    """-> (bytes, final form name, raw value, resolved value, indirection_length).
    resolve: None in the sizing pass (reference targets are written as zeros of the right width),
    otherwise a function (kind, spec) -> int giving the reference value."""
    le, O, A = c.le, c.O, c.A
    if form == 'DW_FORM_indirect':
        chain = spec['chain']
        real = spec['form']
        pre = uleb(FORM['DW_FORM_indirect'], spec.get('fpad', 0)) * (chain - 1) + uleb(FORM[real], spec.get('fpad', 0))
        b, f, raw, val, _ = _enc_value(c, real, spec['val'], resolve)
        return pre + b, f, raw, val, chain
    if form == 'DW_FORM_addr':
        v = spec['v'] & ((1 << (8 * A)) - 1)
        return u(le, A, v), form, v, v, 0
    if form in FIXED and form not in STRX and form not in ADDRX and form != 'DW_FORM_ref_sig8':
        n = FIXED[form]
        v = spec['v'] & ((1 << (8 * n)) - 1)
        val = (v != 0) if form == 'DW_FORM_flag' else v
        return u(le, n, v), form, v, val, 0
    if form == 'DW_FORM_ref_sig8':
        v = (resolve('sig8', spec) if resolve else 0) if 'tu' in spec else spec['v'] & ((1 << 64) - 1)
        return u(le, 8, v), form, v, v, 0
    if form == 'DW_FORM_udata':
        return uleb(spec['v'], spec.get('pad', 0)), form, spec['v'], spec['v'], 0
    if form == 'DW_FORM_sdata':
        return sleb(spec['v'], spec.get('pad', 0)), form, spec['v'], spec['v'], 0
    if form == 'DW_FORM_string':
        s = bytes(spec['s'])
        return s + b'\0', form, s, s, 0
    if form in ('DW_FORM_strp', 'DW_FORM_line_strp'):
        offs = c.w.str_offs if form == 'DW_FORM_strp' else c.w.lstr_offs
        poolb = c.w.case['strs'] if form == 'DW_FORM_strp' else c.w.case['lstrs']
        off = offs[spec['si']] + spec.get('skip', 0)
        s = bytes(poolb[spec['si']])[spec.get('skip', 0):]
        return u(le, O, off), form, off, s, 0
    if form in OFFSET_FORMS:
        v = spec['v'] & ((1 << (8 * O)) - 1)
        return u(le, O, v), form, v, v, 0
    if form in ('DW_FORM_block1', 'DW_FORM_block2', 'DW_FORM_block4', 'DW_FORM_block', 'DW_FORM_exprloc'):
        b = bytes(spec['b'])
        w = {'DW_FORM_block1': 1, 'DW_FORM_block2': 2, 'DW_FORM_block4': 4}.get(form)
        hdr = u(le, w, len(b)) if w else uleb(len(b), spec.get('pad', 0))
        return hdr + b, form, list(b), list(b), 0
    if form == 'DW_FORM_data16':
        b = bytes(spec['b'])
        assert len(b) == 16
        return b, form, list(b), list(b), 0
    if form == 'DW_FORM_flag_present':
        return b'', form, None, True, 0
    if form in UREF:
        n = UREF[form]
        v = resolve('uref', spec) if resolve else 0
        b = u(le, n, v) if n else uleb_fixed(v, REF_UDATA_WIDTH)
        return b, form, v, v, 0
    if form == 'DW_FORM_ref_addr':
        n = A if c.ver == 2 else O
        v = resolve('ref_addr', spec) if resolve else 0
        return u(le, n, v), form, v, v, 0
    if form in STRX or form in ADDRX or form in ('DW_FORM_loclistx', 'DW_FORM_rnglistx'):
        i = spec['i']
        n = FIXED.get(form)
        b = u(le, n, i) if n else uleb(i, spec.get('pad', 0))
        aux = c.unit['aux_resolved']
        if form in STRX:
            val = aux['strx_vals'][i]
        elif form in ADDRX:
            val = aux['addrx_vals'][i]
        elif form == 'DW_FORM_loclistx':
            val = aux['loclistx_vals'][i]
        else:
            val = aux['rnglistx_vals'][i]
        return b, form, i, val, 0
    raise ValueError('unsupported form %s' % form)


class InfoWriter:
    """Encodes a case into section byte strings and the expected decode (`self.exp`)."""

    def __init__(self, case):
        self.case = case = copy.deepcopy(case)
        self.le = case['le']
        self.str_sec, self.str_offs = pool(case.get('strs', []), case.get('str_lead', b'\0'))
        self.lstr_sec, self.lstr_offs = pool(case.get('lstrs', []), b'')
        self.sections = {}
        self.exp = {'units': [], 'tunits': []}
        self._build()

    # ------------------------------------------------------------------
    def _aux_sections(self):
        """.debug_str_offsets, .debug_addr, .debug_loclists, .debug_rnglists contributions per unit."""
        le = self.le
        so = bytearray()
        ad = bytearray()
        ll = bytearray()
        rl = bytearray()
        for unit in self.case['units'] + self.case.get('tunits', []):
            aux = unit.get('aux') or {}
            O = 4 if unit['fmt'] == 32 else 8
            A = unit['addr_size']
            res = {}
            if aux.get('strx') is not None:
                idxs = aux['strx']
                body = b''.join(u(le, O, self.str_offs[i]) for i in idxs)
                hdr = initial_length(le, unit['fmt'], 4 + len(body)) + u(le, 2, 5) + u(le, 2, 0)
                so += b'\xee' * aux.get('gap', 0)
                res['str_offsets_base'] = len(so) + len(hdr)
                so += hdr + body
                res['strx_vals'] = [bytes(self.case['strs'][i]) for i in idxs]
            if aux.get('addrx') is not None:
                addrs = [a & ((1 << (8 * A)) - 1) for a in aux['addrx']]
                body = b''.join(u(le, A, a) for a in addrs)
                hdr = initial_length(le, unit['fmt'], 4 + len(body)) + u(le, 2, 5) + bytes([A, 0])
                ad += b'\xee' * aux.get('gap', 0)
                res['addr_base'] = len(ad) + len(hdr)
                ad += hdr + body
                res['addrx_vals'] = addrs
            for key, sec, basename in (('loclistx', ll, 'loclists_base'), ('rnglistx', rl, 'rnglists_base')):
                if aux.get(key) is not None:
                    offs = [o & ((1 << (8 * O)) - 1) for o in aux[key]]
                    body = b''.join(u(le, O, o) for o in offs)
                    tail = b'\x00' * 4   # room for end-of-list markers; lists themselves are C07's subject
                    hdr = initial_length(le, unit['fmt'], 8 + len(body) + len(tail)) + u(le, 2, 5) + bytes([A, 0]) + u(le, 4, len(offs))
                    sec += b'\xee' * aux.get('gap', 0)
                    base = len(sec) + len(hdr)
                    res[basename] = base
                    sec += hdr + body + tail
                    res[key + '_vals'] = [base + o for o in offs]
            unit['aux_resolved'] = res
        if so:
            self.sections['.debug_str_offsets'] = bytes(so)
        if ad:
            self.sections['.debug_addr'] = bytes(ad)
        if ll:
            self.sections['.debug_loclists'] = bytes(ll)
        if rl:
            self.sections['.debug_rnglists'] = bytes(rl)

    def _abbrev_section(self, forms):
        """forms[(tab, ab_index, attr_index)] = final form name.  -> bytes, [offset per table]"""
        out = bytearray()
        offs = []
        for t, tab in enumerate(self.case['abtabs']):
            out += b'\x7f' * (self.case.get('abbrev_pad', 0) if t else self.case.get('abbrev_lead', 0))
            offs.append(len(out))
            for a, ab in enumerate(tab):
                out += uleb(ab['code'], ab.get('cpad', 0)) + uleb(ab['tag']) + bytes([1 if ab['children'] else 0])
                for k, (at, form, ic) in enumerate(ab['attrs']):
                    f = forms.get((t, a, k), form)
                    out += uleb(at) + uleb(FORM[f])
                    if f == 'DW_FORM_implicit_const':
                        out += sleb(ic)
                out += b'\0\0'
            out += b'\0'
        return bytes(out), offs

    @staticmethod
    def _header_size(unit, types_section):
        O = 4 if unit['fmt'] == 32 else 8
        n = (4 if unit['fmt'] == 32 else 12) + 2
        if types_section:
            return n + O + 1 + 8 + O
        if unit['version'] >= 5:
            n += 1 + 1 + O
            ut = unit.get('ut', 1)
            if ut in (4, 5):
                n += 8
            elif ut in (2, 6):
                n += 8 + O
            return n
        return n + O + 1

    def _flatten(self, unit):
        """preorder list of (die, depth); nulls are inserted by the encoder."""
        out = []

        def rec(d, parent):
            idx = len(out)
            out.append((d, parent))
            for k in d.get('kids', []):
                rec(k, idx)
        rec(unit['die'], None)
        return out

    def _encode_unit(self, unit, base, types_section, forms, resolve_factory):
        """One pass. -> (bytes of the unit incl. header, records).  records: list of dicts in stream order
        (DIEs and nulls) with absolute section offsets."""
        le = self.le
        c = Ctx(le, unit, self)
        tab_i = unit['abtab']
        tab = self.case['abtabs'][tab_i]
        hsize = self._header_size(unit, types_section)
        body = bytearray()
        recs = []

        def rec(d, parent_rec):
            ab = tab[d['ab']]
            off = base + hsize + len(body)
            r = {'offset': off, 'abbrev_code': ab['code'], 'tag': ab['tag'], 'has_children': bool(ab['children']),
                 'attrs': [], 'parent': parent_rec, 'die': d, 'null': False, 'kids': []}
            recs.append(r)
            body.extend(uleb(ab['code'], d.get('cpad', 0)))
            resolve = resolve_factory(unit, r) if resolve_factory else None
            vi = 0
            for k, (at, form, ic) in enumerate(ab['attrs']):
                f = forms.get((tab_i, d['ab'], k), form)
                aoff = base + hsize + len(body)
                if f == 'DW_FORM_implicit_const':
                    r['attrs'].append({'at': at, 'form': f, 'raw': ic, 'value': ic, 'offset': aoff, 'ind': 0, 'decl_form': form})
                    continue
                spec = d['vals'][k]
                b, ff, raw, val, ind = _enc_value(c, f, spec, resolve)
                body.extend(b)
                r['attrs'].append({'at': at, 'form': ff, 'raw': raw, 'value': val, 'offset': aoff, 'ind': ind, 'decl_form': f, 'spec': spec})
            r['size'] = base + hsize + len(body) - off
            if parent_rec is not None:
                parent_rec['kids'].append(r)
            if ab['children']:
                for kd in d.get('kids', []):
                    rec(kd, r)
                noff = base + hsize + len(body)
                nb = uleb(0, d.get('npad', 0))
                body.extend(nb)
                n = {'offset': noff, 'size': len(nb), 'abbrev_code': 0, 'tag': None, 'has_children': None, 'attrs': [],
                     'parent': r, 'null': True, 'kids': []}
                recs.append(n)
                r['terminator'] = n
            else:
                assert not d.get('kids'), 'children under an abbreviation without children flag'
        rec(unit['die'], None)
        body.extend(b'\0' * unit.get('tail_pad', 0))     # padding nulls after the unit DIE tree (allowed: 7.5.2)
        total = hsize + len(body)
        unit_length = total - (4 if unit['fmt'] == 32 else 12)
        O = c.O
        hdr = initial_length(le, unit['fmt'], unit_length) + u(le, 2, unit['version'])
        aboff = self._ab_offs[tab_i]
        eh = {'unit_length': unit_length, 'version': unit['version'], 'debug_abbrev_offset': aboff, 'address_size': unit['addr_size']}
        if types_section:
            tdie = self._type_die_off(unit, recs, base)
            hdr += u(le, O, aboff) + bytes([unit['addr_size']]) + u(le, 8, unit['sig']) + u(le, O, tdie)
            eh.update(signature=unit['sig'], type_offset=tdie)
        elif unit['version'] >= 5:
            ut = unit.get('ut', 1)
            hdr += bytes([ut, unit['addr_size']]) + u(le, O, aboff)
            eh['unit_type'] = ut
            if ut in (4, 5):
                hdr += u(le, 8, unit['dwo_id'])
                eh['dwo_id'] = unit['dwo_id']
            elif ut in (2, 6):
                tdie = self._type_die_off(unit, recs, base)
                hdr += u(le, 8, unit['sig']) + u(le, O, tdie)
                eh.update(type_signature=unit['sig'], type_offset=tdie)
        else:
            hdr += u(le, O, aboff) + bytes([unit['addr_size']])
        assert len(hdr) == hsize, (len(hdr), hsize)
        return bytes(hdr) + bytes(body), recs, eh, hsize

    @staticmethod
    def _type_die_off(unit, recs, base):
        dies = [r for r in recs if not r['null']]
        return dies[unit.get('type_die', 0) % len(dies)]['offset'] - base

    def _build(self):
        case = self.case
        self._aux_sections()
        forms = {}
        units = [(un, False) for un in case['units']] + [(un, True) for un in case.get('tunits', [])]
        for _ in range(12):
            ab_sec, self._ab_offs = self._abbrev_section(forms)
            # sizing pass
            layouts = []
            pos = {False: case.get('info_lead', 0) * 0, True: 0}
            for un, ts in units:
                data, recs, eh, hsize = self._encode_unit(un, pos[ts], ts, forms, None)
                layouts.append((un, ts, pos[ts], recs, eh, hsize, len(data)))
                pos[ts] += len(data)
            # check that unit-relative references fit their forms; widen otherwise
            widened = False
            for un, ts, base, recs, eh, hsize, ln in layouts:
                tab_i = un['abtab']
                dies = [r for r in recs if not r['null']]
                for r in dies:
                    ab_i = r['die']['ab']
                    for k, a in enumerate(r['attrs']):
                        f = a['decl_form']
                        if f in UREF_WIDEN and a['ind'] == 0:
                            tgt = self._uref_target(un, r, a.get('spec', {}), recs, base)
                            if tgt >= (1 << (8 * UREF[f])):
                                forms[(tab_i, ab_i, k)] = UREF_WIDEN[f]
                                widened = True
                        elif f == 'DW_FORM_indirect' and a['form'] in UREF_WIDEN:
                            tgt = self._uref_target(un, r, a['spec']['val'], recs, base)
                            if tgt >= (1 << (8 * UREF[a['form']])):
                                a['spec']['form'] = UREF_WIDEN[a['form']]
                                widened = True
            if not widened:
                break
        else:
            raise AssertionError('form widening did not converge')
        self.layouts = layouts
        sig_of = {i: un['sig'] for i, un in enumerate(case.get('tunits', []))}
        info = bytearray()
        types = bytearray()

        def factory(unit, rec):
            lay = next(l for l in layouts if l[0] is unit)

            def resolve(kind, spec):
                if kind == 'uref':
                    return self._uref_target(unit, rec, spec, lay[3], lay[2])
                if kind == 'ref_addr' and spec.get('sib'):
                    return lay[2] + self._uref_target(unit, rec, spec, lay[3], lay[2])
                if kind == 'ref_addr':
                    # DW_FORM_ref_addr designates an offset in .debug_info whichever section the referring unit lives in (DWARF 4
                    # 7.5.4): an entry of a .debug_types unit refers to an entry of a .debug_info unit
                    tl = [l for l in layouts if not l[1]] or [l for l in layouts if l[1] == lay[1]]
                    t = tl[spec['tu'] % len(tl)]
                    dies = [r for r in t[3] if not r['null']]
                    return dies[spec['t'] % len(dies)]['offset']
                if kind == 'sig8':
                    return sig_of[spec['tu'] % len(sig_of)] if sig_of else spec.get('v', 0)
                raise ValueError(kind)
            return resolve
        for un, ts, base, recs0, eh0, hsize, ln in layouts:
            data, recs, eh, hsize = self._encode_unit(un, base, ts, forms, factory)
            assert len(data) == ln
            (types if ts else info).extend(data)
            # the sizing-pass records are the ones targets were computed from; offsets are identical
            exp_unit = {'offset': base, 'die_offset': base + hsize, 'size': ln, 'header': eh, 'fmt': un['fmt'], 'recs': recs,
                        'types_section': ts}
            self.exp['tunits' if ts else 'units'].append(exp_unit)
        self.final_forms = forms
        self.sections['.debug_abbrev'] = ab_sec
        self.sections['.debug_info'] = bytes(info)
        if case.get('tunits'):
            self.sections['.debug_types'] = bytes(types)
        if case.get('strs') is not None:
            self.sections['.debug_str'] = self.str_sec
        if case.get('lstrs'):
            self.sections['.debug_line_str'] = self.lstr_sec

    def _uref_target(self, unit, rec, spec, recs, base):
        """unit-relative offset designated by a reference value spec."""
        if spec.get('sib'):
            rec = next(r for r in recs if r['offset'] == rec['offset'])   # same entry in the sizing-pass records
            p = rec['parent']
            if p is None:
                return rec['offset'] + rec['size'] - base   # unit DIE: 'sibling' = first byte after it (never followed by the library)
            sibs = [r for r in recs if r['parent'] is p and (not r['null'])]
            # next sibling in stream order, or the null entry closing the parent's list
            i = [id(r) for r in sibs].index(id(rec))
            nxt = sibs[i + 1] if i + 1 < len(sibs) else next(r for r in recs if r['null'] and r['parent'] is p)
            return nxt['offset'] - base
        dies = [r for r in recs if not r['null']]
        return dies[spec['t'] % len(dies)]['offset'] - base


# ---------------------------------------------------------------------------

SECTION_ARGS = {
    '.debug_info': 'debug_info_sec', '.debug_aranges': 'debug_aranges_sec', '.debug_abbrev': 'debug_abbrev_sec',
    '.debug_frame': 'debug_frame_sec', '.eh_frame': 'eh_frame_sec', '.debug_str': 'debug_str_sec', '.debug_loc': 'debug_loc_sec',
    '.debug_ranges': 'debug_ranges_sec', '.debug_line': 'debug_line_sec', '.debug_pubtypes': 'debug_pubtypes_sec',
    '.debug_pubnames': 'debug_pubnames_sec', '.debug_addr': 'debug_addr_sec', '.debug_str_offsets': 'debug_str_offsets_sec',
    '.debug_line_str': 'debug_line_str_sec', '.debug_loclists': 'debug_loclists_sec', '.debug_rnglists': 'debug_rnglists_sec',
    '.debug_sup': 'debug_sup_sec', '.gnu_debugaltlink': 'gnu_debugaltlink_sec', '.debug_types': 'debug_types_sec',
}


def make_dwarfinfo(sections, le, addr_size, addresses=None, machine_arch='x64', stream_cls=None):
    """Build an elftools DWARFInfo directly from section byte strings (container independent)."""
    import io
    from elftools.dwarf.dwarfinfo import DWARFInfo, DebugSectionDescriptor, DwarfConfig
    if stream_cls is None:
        # the kind of stream is a dimension of its own (vf/streams.py): a third of the section sets is served by minimal read/seek/tell
        # objects whose seek() returns None, chosen by the bytes so that a replayed case meets the same kind
        import zlib
        from vf import streams
        h = 0
        for name in sorted(sections):
            if sections[name] is not None:
                h = zlib.crc32(bytes(sections[name])[:4096], h)
        stream_cls = streams.Minimal if h % 3 == 0 else io.BytesIO
    kw = {}
    for name, arg in SECTION_ARGS.items():
        data = sections.get(name)
        if data is None:
            kw[arg] = None
        else:
            kw[arg] = DebugSectionDescriptor(stream=stream_cls(data), name=name, global_offset=0, size=len(data),
                                             address=(addresses or {}).get(name, 0))
    return DWARFInfo(config=DwarfConfig(little_endian=le, machine_arch=machine_arch, default_address_size=addr_size), **kw)

"""Line-number program encoder (DWARF v2-v5 section 6.2.4 header + 6.2.5 opcodes). Independent of elftools."""
from vf.enc.leb import uleb, sleb
from vf.enc.dwarf import u, initial_length, FORM
from vf.ref.lineprog import STD, EXT, STD_LENGTHS

LNCT = {'path': 1, 'directory_index': 2, 'timestamp': 3, 'size': 4, 'MD5': 5}


def enc_ops(le, A, opcode_base, std_lengths, ops):
    out = bytearray()
    for op in ops:
        k = op[0]
        if k == 'sp':
            assert op[1] >= opcode_base and op[1] <= 255
            out.append(op[1])
        elif k in STD:
            code = STD[k]
            assert code < opcode_base, 'standard opcode %s is a special opcode with opcode_base=%d' % (k, opcode_base)
            out.append(code)
            if k in ('advance_pc', 'set_file', 'set_column', 'set_isa'):
                out += uleb(op[1], op[2] if len(op) > 2 else 0)
            elif k == 'advance_line':
                out += sleb(op[1], op[2] if len(op) > 2 else 0)
            elif k == 'fixed_advance_pc':
                out += u(le, 2, op[1])
        elif k == 'unk_std':
            code, operands = op[1], op[2]
            assert 13 <= code < opcode_base and len(operands) == std_lengths[code - 1]
            out.append(code)
            for v in operands:
                out += uleb(v)
        elif k == 'end_sequence':
            out += b'\0' + uleb(1) + bytes([1])
        elif k == 'set_address':
            out += b'\0' + uleb(1 + A) + bytes([2]) + u(le, A, op[1])
        elif k == 'define_file':
            body = bytes(op[1]) + b'\0' + uleb(op[2]) + uleb(op[3]) + uleb(op[4])
            out += b'\0' + uleb(1 + len(body)) + bytes([3]) + body
        elif k == 'set_discriminator':
            body = uleb(op[1], op[2] if len(op) > 2 else 0)
            out += b'\0' + uleb(1 + len(body)) + bytes([4]) + body
        elif k == 'unk_ext':
            payload = bytes(op[2])
            out += b'\0' + uleb(1 + len(payload), op[3] if len(op) > 3 else 0) + bytes([op[1]]) + payload
        else:
            raise ValueError(k)
    return bytes(out)


def enc_v5_value(le, O, form, v, lstr_offs, str_offs, sup_offs=None):
    if form in ('DW_FORM_strp_sup', 'DW_FORM_GNU_strp_alt'):
        return u(le, O, sup_offs[v])
    if form == 'DW_FORM_string':
        return bytes(v) + b'\0'
    if form == 'DW_FORM_line_strp':
        return u(le, O, lstr_offs[v])
    if form == 'DW_FORM_strp':
        return u(le, O, str_offs[v])
    if form == 'DW_FORM_udata':
        return uleb(v)
    if form in ('DW_FORM_data1', 'DW_FORM_data2', 'DW_FORM_data4', 'DW_FORM_data8'):
        return u(le, int(form[12:]), v)
    if form == 'DW_FORM_data16':
        return bytes(v)
    if form == 'DW_FORM_block':
        return uleb(len(v)) + bytes(v)
    raise ValueError(form)


def enc_program(le, p, lstr_offs=None, str_offs=None, sup_offs=None):
    """-> bytes of one complete line-number program (header + opcodes)."""
    fmt, ver, A = p['fmt'], p['version'], p['addr_size']
    O = 4 if fmt == 32 else 8
    std_lengths = list(p['std_lengths'])
    assert len(std_lengths) == p['opcode_base'] - 1
    h = bytearray()
    h += bytes([p['min_inst']])
    if ver >= 4:
        h += bytes([p['max_ops']])
    h += bytes([p['default_is_stmt'], p['line_base'] & 0xff, p['line_range'], p['opcode_base']]) + bytes(std_lengths)
    if ver >= 5:
        for fmtkey, entkey in (('dir_format', 'dirs5'), ('file_format', 'files5')):
            formats = p[fmtkey]
            h += bytes([len(formats)])
            for (ct, form) in formats:
                h += uleb(ct) + uleb(FORM[form])
            h += uleb(len(p[entkey]))
            for ent in p[entkey]:
                for (ct, form), v in zip(formats, ent):
                    h += enc_v5_value(le, O, form, v, lstr_offs, str_offs, sup_offs)
    else:
        for d in p['dirs']:
            h += bytes(d) + b'\0'
        h += b'\0'
        for (name, di, mt, ln) in p['files']:
            h += bytes(name) + b'\0' + uleb(di) + uleb(mt) + uleb(ln)
        h += b'\0'
    # bytes that header_length still covers behind the tables: the field exists so that a consumer finds the first opcode whatever a
    # producer put (or a later version of the format puts) behind the fields it knows (DWARF 6.2.4, header_length)
    h += bytes(p.get('hdr_slack', b''))
    body = enc_ops(le, A, p['opcode_base'], std_lengths, p['ops'])
    pre = u(le, 2, ver)
    if ver >= 5:
        pre += bytes([A, 0])
    rest = pre + u(le, O, len(h)) + bytes(h) + body
    return initial_length(le, fmt, len(rest)) + rest

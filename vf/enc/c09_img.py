"""C09 helpers: (a) builder of dynamic images on top of vf.enc.elf (two-pass layout so that the dynamic
pointers can be *virtual addresses* mapped by PT_LOAD segments), (b) a minimal independent ELF reader
(struct only) used as the oracle for the shipped corpus, (c) a RELR reference decoder.

Shares no code with elftools.
"""
import struct

from vf.enc import elf as W

# gABI / GNU dynamic tag numbers the builder gives a meaning to (gABI 4.1 fig. 5-10, glibc elf.h)
DT_NULL, DT_NEEDED, DT_PLTRELSZ, DT_PLTGOT, DT_HASH, DT_STRTAB, DT_SYMTAB, DT_RELA, DT_RELASZ, DT_RELAENT = range(10)
DT_STRSZ, DT_SYMENT, DT_INIT, DT_FINI, DT_SONAME, DT_RPATH, DT_SYMBOLIC, DT_REL, DT_RELSZ, DT_RELENT = range(10, 20)
DT_PLTREL, DT_DEBUG, DT_TEXTREL, DT_JMPREL, DT_BIND_NOW, DT_INIT_ARRAY, DT_FINI_ARRAY, DT_INIT_ARRAYSZ = range(20, 28)
DT_FINI_ARRAYSZ, DT_RUNPATH, DT_FLAGS = 28, 29, 30
DT_RELRSZ, DT_RELR, DT_RELRENT = 35, 36, 37
DT_GNU_HASH = 0x6ffffef5
DT_SUNW_FILTER = 0x6000000f

PT_LOAD, PT_DYNAMIC = 1, 2
SHT_STRTAB, SHT_HASH, SHT_DYNAMIC, SHT_REL, SHT_RELA, SHT_DYNSYM, SHT_RELR, SHT_GNU_HASH = 3, 5, 6, 9, 4, 11, 19, 0x6ffffff6

EM_MIPS, EM_MIPS_RS3_LE, EM_AARCH64 = 8, 10, 183
OSABI_SOLARIS = 6

VIEWS_ALL = ('full', 'stripped', 'moved')


def signed(v, bits):
    v &= (1 << bits) - 1
    return v - (1 << bits) if v >> (bits - 1) else v


def relr_decode(words, ws):
    """Reference decoder of a RELR table (generic-abi proposal 'DT_RELR', as implemented by glibc's
    elf_dynamic_do_Relr): even word = address (relocate it, next = address + ws); odd word = bitmap of the
    next 8*ws-1 words starting at `next`."""
    out = []
    nxt = None
    for w in words:
        if w & 1 == 0:
            out.append(w)
            nxt = w + ws
        else:
            bits, i = w >> 1, 0
            while bits:
                if bits & 1:
                    out.append(nxt + i * ws)
                bits >>= 1
                i += 1
            nxt += (8 * ws - 1) * ws
    return out


def is_mips64(case):
    return case['machine'] == EM_MIPS and case['cls'] == 64


def ld_empty_gnu_hash(cls, le):
    """what GNU ld emits for a dynamic symbol table none of whose symbols is exported:
    nbuckets=1 symoffset=1 bloom_size=1 bloom_shift=0, bloom[0]=0, bucket[0]=0, no chain words."""
    return struct.pack(W.E(le) + 'IIII', 1, 1, 1, 0) + b'\0' * (cls // 8) + struct.pack(W.E(le) + 'I', 0)


def enc_relocs(case, ents, rela):
    cls, le = case['cls'], case['le']
    out = b''
    for e in ents:
        off, sym, typ = e[0], e[1], e[2]
        add = e[3] if rela else None
        if is_mips64(case):
            out += W.enc_rel(cls, le, off, sym, typ & 0xff, add, mips64=((typ >> 24) & 0xff, (typ >> 16) & 0xff, (typ >> 8) & 0xff))
        else:
            out += W.enc_rel(cls, le, off, sym, typ, add)
    return out


def all_strings(case):
    out = [s['name'] for s in case['syms']]
    for t in case['tags'] + case['after']:
        v = t[1]
        if isinstance(v, list) and v[0] == 'str':
            out.append(v[1])
    out += case.get('strs', [])
    return out


def swapcase_blob(blob):
    """decoy string table: same length and NUL positions, ASCII letters case-swapped, digits rotated"""
    out = bytearray(blob)
    for i, b in enumerate(out):
        if 0x41 <= b <= 0x5a or 0x61 <= b <= 0x7a:
            out[i] = b ^ 0x20
        elif 0x30 <= b <= 0x39:
            out[i] = 0x30 + (b - 0x30 + 1) % 10
        elif b in (0x2e, 0x2f, 0x5f):
            out[i] = 0x2d
    return bytes(out)


SEC_KEYS = ('strtab', 'dynsym', 'hash', 'gnuhash', 'rel', 'rela', 'jmprel', 'relr', 'rel2', 'data', 'dynamic', 'dyncopy', 'decoy')


def section_plan(case):
    """-> (list of (key, section dict without data for 'dynamic'/'dyncopy'), idx map key->section index)."""
    cls, le = case['cls'], case['le']
    ws = cls // 8
    strs = all_strings(case)
    blob, offs = W.build_strtab(strs, share_suffix=case.get('share_suffix', False))
    blob += case.get('str_tail', b'')
    syms = case['syms']
    symdata = b''.join(W.enc_sym(cls, le, offs[s['name']], s['value'], s['size'], s['info'], s['other'], s['shndx']) for s in syms)
    bnames = [s['name'].encode('utf-8') for s in syms]
    decoy = case.get('decoy', False)
    plan = [('null', {'name': '', 'sh_type': 0})]
    plan.append(('strtab', {'name': '.dstr' if decoy else '.dynstr', 'sh_type': SHT_STRTAB, 'sh_flags': 2, 'data': blob, 'file_align': 1}))
    plan.append(('dynsym', {'name': '.dynsym', 'sh_type': SHT_DYNSYM, 'sh_flags': 2, 'data': symdata, 'sh_entsize': W.SYM_SIZE[cls],
                            'sh_link': 1, 'sh_info': 1, 'file_align': ws}))
    if case.get('sysv'):
        plan.append(('hash', {'name': '.hash', 'sh_type': SHT_HASH, 'sh_flags': 2, 'sh_link': 2, 'sh_entsize': 4, 'file_align': 4,
                              'data': W.enc_sysv_hash(le, bnames, case['sysv']['nbucket'])}))
    if case.get('gnu'):
        g = case['gnu']
        if g['form'] == 'ld-empty':
            gd = ld_empty_gnu_hash(cls, le)
        else:
            gd = W.enc_gnu_hash(cls, le, bnames, g['symoffset'], g['nbuckets'], g['bloom_size'], g['bloom_shift'])
        plan.append(('gnuhash', {'name': '.gnu.hash', 'sh_type': SHT_GNU_HASH, 'sh_flags': 2, 'sh_link': 2, 'file_align': ws, 'data': gd}))
    relsz = len(W.enc_rel(cls, le, 0, 0, 0))
    relasz = len(W.enc_rel(cls, le, 0, 0, 0, 0))
    if case.get('rel') is not None:
        plan.append(('rel', {'name': '.rel.dyn', 'sh_type': SHT_REL, 'sh_flags': 2, 'sh_link': 2, 'sh_entsize': relsz, 'file_align': ws,
                             'data': enc_relocs(case, case['rel'], False)}))
    if case.get('rela') is not None:
        plan.append(('rela', {'name': '.rela.dyn', 'sh_type': SHT_RELA, 'sh_flags': 2, 'sh_link': 2, 'sh_entsize': relasz, 'file_align': ws,
                              'data': enc_relocs(case, case['rela'], True)}))
    if case.get('jmprel') is not None:
        j = case['jmprel']
        plan.append(('jmprel', {'name': '.rela.plt' if j['rela'] else '.rel.plt', 'sh_type': SHT_RELA if j['rela'] else SHT_REL, 'sh_flags': 0x42,
                                'sh_link': 2, 'sh_entsize': relasz if j['rela'] else relsz, 'file_align': ws,
                                'data': enc_relocs(case, j['ents'], j['rela'])}))
    if case.get('relr') is not None:
        fmt = W.E(le) + ('%dI' if cls == 32 else '%dQ') % len(case['relr'])
        plan.append(('relr', {'name': '.relr.dyn', 'sh_type': SHT_RELR, 'sh_flags': 2, 'sh_entsize': ws, 'file_align': ws,
                              'data': struct.pack(fmt, *case['relr'])}))
    if case.get('rel2') is not None:
        r2 = case['rel2']
        plan.append(('rel2', {'name': '.rela.two' if r2['rela'] else '.rel.two', 'sh_type': SHT_RELA if r2['rela'] else SHT_REL, 'sh_flags': 2,
                              'sh_link': 2, 'sh_entsize': relasz if r2['rela'] else relsz, 'file_align': ws,
                              'data': enc_relocs(case, r2['ents'], r2['rela'])}))
    plan.append(('data', {'name': '.data', 'sh_type': 1, 'sh_flags': 3, 'data': case.get('filler', b'\x5a' * 24), 'file_align': ws}))
    ndyn = len(case['tags']) + 1 + len(case['after'])
    dynsz = ndyn * W.DYN_SIZE[cls]
    plan.append(('dynamic', {'name': '.dynamic', 'sh_type': SHT_DYNAMIC, 'sh_flags': 3, 'sh_link': 1, 'sh_entsize': W.DYN_SIZE[cls],
                             'file_align': ws, 'data': bytes(dynsz)}))
    plan.append(('dyncopy', {'name': '.dyncopy', 'sh_type': 1, 'sh_flags': 3, 'file_align': ws, 'data': bytes(dynsz)}))
    if decoy:
        plan.append(('decoy', {'name': '.dynstr', 'sh_type': SHT_STRTAB, 'sh_flags': 0, 'data': swapcase_blob(blob), 'file_align': 1}))
    plan.append(('shstrtab', {'name': '.shstrtab', 'sh_type': SHT_STRTAB, 'data': b''}))
    idx = {k: i for i, (k, _) in enumerate(plan)}
    return plan, idx, blob, offs


def chunk_ids(case):
    """the chunk ids of the image's layout in canonical order (needed by generators to draw `order`)"""
    plan, idx, _, _ = section_plan(case)
    return ['ph'] + [i for i, (k, s) in enumerate(plan) if k != 'null'] + ['sh']


def strip_headers(data, cls, le):
    """the container transform of the property: e_shoff = e_shnum = e_shstrndx = 0 (the table bytes stay)."""
    b = bytearray(data)
    if cls == 32:
        b[32:36] = bytes(4)
        b[48:52] = bytes(4)
    else:
        b[40:48] = bytes(8)
        b[60:64] = bytes(4)
    return bytes(b)


def build_image(case):
    """-> L: {'data': {'full','stripped','moved'}, 'R': build result of 'full', 'idx', 'addr', 'off', 'size', 'groups',
              'strblob', 'stroffs', 'entries': [(tag, val)] (all encoded dynamic entries, signed tag, masked val)}"""
    cls, le = case['cls'], case['le']
    M = (1 << cls) - 1
    plan, idx, blob, stroffs = section_plan(case)
    secs = [dict(s) for _, s in plan]
    nsec = len(secs)
    order = list(case['order'])
    # groups of file-contiguous chunks -> PT_LOAD
    cuts = sorted(set(c for c in case.get('cuts', []) if 0 < c < len(order)))
    slices, prev = [], 0
    for c in cuts + [len(order)]:
        slices.append(order[prev:c])
        prev = c
    groups = [[c for c in sl if isinstance(c, int)] for sl in slices]
    groups = [g for g in groups if g]
    ngr = len(groups)
    xsegs = case.get('xsegs', [])
    nseg = ngr + 1 + len(xsegs)
    base = {'cls': cls, 'le': le, 'e_type': case.get('etype', 3), 'e_machine': case['machine'], 'osabi': case.get('osabi', 0),
            'sections': secs, 'shstrndx': nsec - 1, 'order': order, 'gaps': case.get('gaps', {}), 'tail': case.get('tail', 0),
            'phentsize_extra': case.get('phentsize_extra', 0), 'shentsize_extra': case.get('shentsize_extra', 0)}
    # pass 1: offsets only (sizes do not depend on the values)
    _, R1 = W.build(dict(base, segments=[{} for _ in range(nseg)]))
    off = {k: R1['sh'][i]['sh_offset'] for k, i in idx.items() if k != 'null'}
    size = {k: R1['sh'][i]['sh_size'] for k, i in idx.items() if k != 'null'}
    # group extents and addresses
    G = []
    for gi, g in enumerate(groups):
        lo = min(R1['sh'][i]['sh_offset'] for i in g)
        hi = max(R1['sh'][i]['sh_offset'] + R1['sh'][i]['sh_size'] for i in g)
        G.append({'secs': g, 'p_offset': lo, 'filesz': hi - lo})
    vperm = [r % ngr for r in case.get('vperm', list(range(ngr)))][:ngr]
    if sorted(vperm) != list(range(ngr)):
        vperm = list(range(ngr))
    extra = case.get('mem_extra', [])
    for gi, g in enumerate(G):
        g['rank'] = vperm[gi]
        g['mem_extra'] = extra[gi] if gi < len(extra) else 0
    if case.get('vmode', 'page') == 'page':
        for g in G:
            g['vaddr'] = (case['vbase'] + g['rank'] * 0x1000000 + (g['p_offset'] % 0x1000)) & M
    else:
        cur = case.get('vbase', 0x10)
        for g in sorted(G, key=lambda g: g['rank']):
            g['vaddr'] = (cur + 15) // 16 * 16 + (g['p_offset'] % 16)
            cur = g['vaddr'] + g['filesz'] + g['mem_extra'] + 0x10
    sec_addr = {}
    for g in G:
        for i in g['secs']:
            sec_addr[i] = g['vaddr'] + R1['sh'][i]['sh_offset'] - g['p_offset']
    addr = {k: sec_addr[i] for k, i in idx.items() if i in sec_addr}
    Lr = {'addr': addr, 'size': size, 'stroffs': stroffs, 'groups': G}

    def resolve(v):
        if isinstance(v, int):
            return v
        kind = v[0]
        if kind == 'str':
            return stroffs[v[1]] + (v[2] if len(v) > 2 else 0)
        if kind == 'addr':
            return addr[v[1]] + v[2]
        if kind == 'size':
            return size[v[1]] + (v[2] if len(v) > 2 else 0)
        if kind == 'bss':
            g = G[v[1] % ngr]
            assert v[2] < g['mem_extra'], 'bss pointer outside the zero-filled part'
            return g['vaddr'] + g['filesz'] + v[2]
        if kind == 'edge':       # first / last file-backed byte of a load
            g = G[v[1] % ngr]
            return g['vaddr'] + (0 if v[2] == 'first' else g['filesz'] - 1)
        raise ValueError(v)

    seq = [list(t) for t in case['tags']] + [[DT_NULL, case.get('null_val', 0)]] + [list(t) for t in case['after']]
    entries = [(signed(t[0], cls), resolve(t[1]) & M) for t in seq]
    dyn = b''.join(W.enc_dyn(cls, le, t, v) for t, v in entries)
    assert len(dyn) == size['dynamic']
    secs[idx['dynamic']]['data'] = dyn
    secs[idx['dyncopy']]['data'] = dyn
    for i, a in sec_addr.items():
        secs[i]['sh_addr'] = a & M

    def segments(dyn_key):
        loads = []
        for g in sorted(G, key=lambda g: g['rank']):
            loads.append({'p_type': PT_LOAD, 'p_flags': 6, 'p_offset': g['p_offset'], 'p_vaddr': g['vaddr'], 'p_paddr': g['vaddr'],
                          'p_filesz': g['filesz'], 'p_memsz': g['filesz'] + g['mem_extra'], 'p_align': 0x1000})
        others = [(case.get('dyn_pos', 0), {'p_type': PT_DYNAMIC, 'p_flags': 6, 'p_offset': off[dyn_key], 'p_vaddr': addr[dyn_key],
                                            'p_paddr': addr[dyn_key], 'p_filesz': size[dyn_key], 'p_memsz': size[dyn_key], 'p_align': cls // 8})]
        for x in xsegs:
            at = x['at'] if x['at'] in addr else 'strtab'
            src = x['src'] if x['src'] in off else 'data'
            if x.get('bss_only'):
                top = max(g['vaddr'] + g['filesz'] + g['mem_extra'] for g in G)
                seg = {'p_type': PT_LOAD, 'p_flags': 6, 'p_offset': off[src], 'p_vaddr': (top + 0x2000) & M & ~0xfff, 'p_filesz': 0,
                       'p_memsz': 0x1000, 'p_align': 0x1000}
                seg['p_paddr'] = seg['p_vaddr']
                others.append((len(loads), seg))
            else:
                lo = max(0, min(x.get('back', 0), addr[at]))
                others.append((x.get('pos', 0), {'p_type': x['p_type'], 'p_flags': 4, 'p_offset': off[src], 'p_vaddr': addr[at] - lo,
                                                 'p_paddr': addr[at] - lo, 'p_filesz': size[at] + lo + x.get('more', 0),
                                                 'p_memsz': size[at] + lo + x.get('more', 0), 'p_align': 1}))
        out = []
        for k in range(len(loads) + 1):
            out += [s for p, s in others if min(p, len(loads)) == k]
            if k < len(loads):
                out.append(loads[k])
        return out

    data = {}
    full, R = W.build(dict(base, segments=segments('dynamic')))
    assert all(R['sh'][i]['sh_offset'] == R1['sh'][i]['sh_offset'] for i in range(nsec)), 'layout changed between the passes'
    data['full'] = full
    data['stripped'] = strip_headers(full, cls, le)
    moved, Rm = W.build(dict(base, segments=segments('dyncopy')))
    data['moved'] = moved
    Lr.update(data=data, R=R, Rm=Rm, idx=idx, off=off, strblob=blob, entries=entries)
    return Lr


# ---------------------------------------------------------------------------------------------
# minimal independent reader (corpus oracle)

class Rd:
    def __init__(self, data):
        if data[:4] != b'\x7fELF' or len(data) < 52 or data[4] not in (1, 2) or data[5] not in (1, 2):
            raise ValueError('not ELF')
        self.d = data
        self.cls = 32 if data[4] == 1 else 64
        self.le = data[5] == 1
        self.osabi = data[7]
        self.e = '<' if self.le else '>'
        fmt = self.e + ('HHIIIIIHHHHHH' if self.cls == 32 else 'HHIQQQIHHHHHH')
        (self.etype, self.machine, _, _, self.phoff, self.shoff, _, _, self.phentsize, self.phnum, self.shentsize, self.shnum,
         self.shstrndx) = struct.unpack_from(fmt, data, 16)
        self.ws = self.cls // 8
        self.M = (1 << self.cls) - 1

    def phdrs(self):
        out = []
        if not self.phoff or self.phnum in (0, 0xffff) or self.phentsize < W.PHDR_SIZE[self.cls]:
            return out
        for i in range(self.phnum):
            o = self.phoff + i * self.phentsize
            if o + W.PHDR_SIZE[self.cls] > len(self.d):
                break
            if self.cls == 32:
                t, off, va, pa, fs, ms, fl, al = struct.unpack_from(self.e + '8I', self.d, o)
            else:
                t, fl, off, va, pa, fs, ms, al = struct.unpack_from(self.e + 'IIQQQQQQ', self.d, o)
            out.append({'p_type': t, 'p_offset': off, 'p_vaddr': va, 'p_filesz': fs, 'p_memsz': ms})
        return out

    def shdrs(self):
        """[] when there is no usable section header table"""
        out = []
        if not self.shoff or not self.shnum or self.shentsize < W.SHDR_SIZE[self.cls]:
            return out
        for i in range(self.shnum):
            o = self.shoff + i * self.shentsize
            if o + W.SHDR_SIZE[self.cls] > len(self.d):
                return []
            v = struct.unpack_from(self.e + ('10I' if self.cls == 32 else 'IIQQQQIIQQ'), self.d, o)
            out.append(dict(zip(W.SH_FIELDS, v)))
        return out

    def v2o(self, a, size=1):
        for p in self.phdrs():
            if p['p_type'] == PT_LOAD and p['p_vaddr'] <= a and a + size <= p['p_vaddr'] + p['p_filesz']:
                return a - p['p_vaddr'] + p['p_offset']
        return None

    def cstr(self, o):
        e = self.d.find(b'\0', o)
        return None if e < 0 or o > len(self.d) else self.d[o:e]

    def dyn(self, o, limit):
        """entries up to and including the first DT_NULL; None when no terminator inside `limit` bytes"""
        out = []
        ds = W.DYN_SIZE[self.cls]
        for k in range(limit // ds):
            t, v = struct.unpack_from(self.e + ('iI' if self.cls == 32 else 'qQ'), self.d, o + k * ds)
            out.append((t, v))
            if t == 0:
                return out
        return None

    def sym(self, o):
        if self.cls == 32:
            n, v, s, info, other, shndx = struct.unpack_from(self.e + 'IIIBBH', self.d, o)
        else:
            n, info, other, shndx, v, s = struct.unpack_from(self.e + 'IBBHQQ', self.d, o)
        return {'st_name': n, 'value': v, 'size': s, 'info': info, 'other': other, 'shndx': shndx}

    def rel(self, o, rela, mips64):
        """-> (r_offset, sym, type, addend|None, r_info|None), entry size"""
        if self.cls == 32:
            ro, info = struct.unpack_from(self.e + 'II', self.d, o)
            sym, typ, n = info >> 8, info & 0xff, 8
        elif mips64:
            ro, sym, ssym, t3, t2, typ = struct.unpack_from(self.e + 'QIBBBB', self.d, o)
            info, n = None, 16
        else:
            ro, info = struct.unpack_from(self.e + 'QQ', self.d, o)
            sym, typ, n = info >> 32, info & 0xffffffff, 16
        add = None
        if rela:
            add = struct.unpack_from(self.e + ('i' if self.cls == 32 else 'q'), self.d, o + n)[0]
            n += self.ws
        return (ro, sym, typ, add, info), n

"""LEB128 per DWARF v5 section 7.6 (own implementation; shares nothing with elftools)."""


def uleb(v, pad=0):
    """Minimal ULEB128 of v >= 0, followed by `pad` redundant continuation groups."""
    assert v >= 0
    out = []
    while True:
        b = v & 0x7f
        v >>= 7
        if v:
            out.append(b | 0x80)
        else:
            out.append(b)
            break
    if pad:
        out[-1] |= 0x80
        out.extend([0x80] * (pad - 1))
        out.append(0x00)
    return bytes(out)


def sleb(v, pad=0):
    out = []
    while True:
        b = v & 0x7f
        v >>= 7           # arithmetic shift on Python ints
        done = (v == 0 and not (b & 0x40)) or (v == -1 and (b & 0x40))
        if done:
            out.append(b)
            break
        out.append(b | 0x80)
    if pad:
        fill = 0x7f if v == -1 else 0x00
        out[-1] |= 0x80
        out.extend([fill | 0x80] * (pad - 1))
        out.append(fill)
    return bytes(out)


def ref_decode(data, signed, pos=0):
    """Reference decoder: returns (value, bytes consumed) or None when the encoding is
    truncated (no byte with a clear continuation bit)."""
    result = 0
    shift = 0
    i = pos
    n = len(data)
    while True:
        if i >= n:
            return None
        byte = data[i]
        i += 1
        result += (byte & 0x7f) * (1 << shift)
        shift += 7
        if byte < 0x80:
            break
    if signed and byte & 0x40:
        result -= (1 << shift)
    return result, i - pos

"""A read-only seekable stream of arbitrary declared size that holds only a few byte ranges; everything else reads as zero bytes.
Lets a check place well-formed structures at offsets and displacements >= 2**31 / 2**32 (where the signedness and the width of every
offset-like field show) without allocating the file."""
import io
import bisect


class SparseStream(io.RawIOBase):
    def __init__(self, size, chunks):
        """chunks: {offset: bytes}; ranges must not overlap"""
        super().__init__()
        self._size = size
        self._offs = sorted(chunks)
        self._chunks = [bytes(chunks[o]) for o in self._offs]
        for i in range(1, len(self._offs)):
            assert self._offs[i - 1] + len(self._chunks[i - 1]) <= self._offs[i], 'overlapping chunks'
        assert not self._offs or self._offs[-1] + len(self._chunks[-1]) <= size
        self._pos = 0
        self.max_read = 0          # largest single read request that was served (a check may bound it)

    def readable(self):
        return True

    def seekable(self):
        return True

    def writable(self):
        return False

    def tell(self):
        return self._pos

    def seek(self, pos, whence=0):
        if whence == 0:
            new = pos
        elif whence == 1:
            new = self._pos + pos
        elif whence == 2:
            new = self._size + pos
        else:
            raise ValueError('whence')
        if new < 0:
            raise ValueError('negative seek value %d' % new)
        self._pos = new
        return new

    def read(self, n=-1):
        if n is None or n < 0:
            n = max(self._size - self._pos, 0)
        n = min(n, max(self._size - self._pos, 0))
        if n > (1 << 27):
            raise MemoryError('sparse stream: refusing a single read of %d bytes' % n)
        self.max_read = max(self.max_read, n)
        start, end = self._pos, self._pos + n
        out = bytearray(n)
        i = max(bisect.bisect_right(self._offs, start) - 1, 0)
        while i < len(self._offs) and self._offs[i] < end:
            o, c = self._offs[i], self._chunks[i]
            lo, hi = max(o, start), min(o + len(c), end)
            if lo < hi:
                out[lo - start:hi - start] = c[lo - o:hi - o]
            i += 1
        self._pos = end
        return bytes(out)

    def readinto(self, b):
        data = self.read(len(b))
        b[:len(data)] = data
        return len(data)

    def getvalue(self):
        raise MemoryError('sparse stream has no materialised value')


def sparse_elf(cls, le, sections, e_machine=62, e_type=3, osabi=0, segments=(), shoff=None):
    """sections: list of dicts {'name', 'sh_type', 'offset', 'size', 'chunks': {rel_offset: bytes}, + other sh_* fields}; section 0 (null) and
    a final .shstrtab are added; the header table sits right behind the ELF header, the section name table behind it.
    -> (SparseStream, [section header dicts incl. null and .shstrtab])"""
    from vf.enc import elf as W
    names = [''] + [s['name'] for s in sections] + ['.shstrtab']
    strtab, offs = W.build_strtab(names)
    nsec = len(sections) + 2
    phoff = W.EHDR_SIZE[cls] if segments else 0
    far_sh = shoff is not None         # the section header table itself may be placed far away
    if not far_sh:
        shoff = W.EHDR_SIZE[cls] + len(segments) * W.PHDR_SIZE[cls]
    str_off = (W.EHDR_SIZE[cls] + len(segments) * W.PHDR_SIZE[cls]) if far_sh else shoff + nsec * W.SHDR_SIZE[cls]
    hdrs = [dict.fromkeys(W.SH_FIELDS, 0)]
    chunks = {}
    low = str_off + len(strtab)
    total = low
    for s in sections:
        assert s['offset'] >= low, 'section overlaps the headers'
        h = dict.fromkeys(W.SH_FIELDS, 0)
        h.update({k: v for k, v in s.items() if k.startswith('sh_')})
        h.update(sh_name=offs[s['name']], sh_offset=s['offset'], sh_size=s['size'])
        hdrs.append(h)
        for rel, b in s.get('chunks', {}).items():
            assert rel + len(b) <= s['size']
            chunks[s['offset'] + rel] = bytes(b)
        total = max(total, s['offset'] + s['size'])
    h = dict.fromkeys(W.SH_FIELDS, 0)
    h.update(sh_name=offs['.shstrtab'], sh_type=3, sh_offset=str_off, sh_size=len(strtab), sh_addralign=1)
    hdrs.append(h)
    ident = b'\x7fELF' + bytes([1 if cls == 32 else 2, 1 if le else 2, 1, osabi]) + b'\0' * 8
    eh = {'e_type': e_type, 'e_machine': e_machine, 'e_version': 1, 'e_entry': 0, 'e_phoff': phoff, 'e_shoff': shoff, 'e_flags': 0,
          'e_ehsize': W.EHDR_SIZE[cls], 'e_phentsize': W.PHDR_SIZE[cls] if segments else 0, 'e_phnum': len(segments),
          'e_shentsize': W.SHDR_SIZE[cls], 'e_shnum': nsec, 'e_shstrndx': nsec - 1}
    phs = []
    for p in segments:
        q = {k: 0 for k in W.PH_FIELDS}
        q.update(p)
        phs.append(q)
    table = b''.join(W.pack_shdr(cls, le, x) for x in hdrs)
    head = W.pack_ehdr(cls, le, ident, eh) + b''.join(W.pack_phdr(cls, le, q) for q in phs)
    if far_sh:
        chunks[0] = head + strtab
        chunks[shoff] = table
        total = max(total, shoff + len(table))
    else:
        chunks[0] = head + table + strtab
    return SparseStream(total, chunks), hdrs

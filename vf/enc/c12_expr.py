"""C12 - operation table and encoder for DWARF expressions (own transcription; shares nothing
with elftools.dwarf.dwarf_expr).

Sources
  * DWARF v5, section 7.7.1, table 7.9 "DWARF operation encodings" (+ 2.5.1 / 2.6.1 for the operand texts).
  * GNU extensions: include/dwarf2.def and binutils/dwarf.c (decode_location_expression), GCC dwarf2out.c
    (size_of_loc_descr / output_loc_operands).
  * DW_OP_WASM_location: https://yurydelendik.github.io/webassembly-dwarf/ (kinds 0..2: ULEB index) and the
    LLVM extension kind 3 (u32 global index, for relocatable objects).

Operand kinds
  A       target address, unsigned, address_size bytes
  O       offset into a DWARF section, unsigned, 4 bytes (32-bit DWARF) / 8 bytes (64-bit DWARF)
  u1..u8  unsigned fixed width 1/2/4/8 bytes        s1..s8  two's-complement fixed width
  U / S   unsigned / signed LEB128
  B       block: ULEB128 length, then that many bytes                       (value: bytes)
  T       typed-constant block: 1-byte unsigned length, then the bytes      (value: bytes)
  E       nested expression: ULEB128 byte length, then operations           (value: list of ops)
  W       WASM location: u1 kind; kind 0,1,2 -> ULEB128; kind 3 -> u4       (values: kind, index)
  X       operand the oracle does not model (never generated)

An *op* in a case is  [opcode, [operand values...], [pads...]]  ; pads (optional) are consumed left to right
by every LEB128 that is emitted for the op (operands of kind U/S, the lengths of B/E, the index of W) and
give the number of redundant continuation groups (non-minimal encodings, DWARF v5 7.6).
"""
from vf.enc import leb

_TEXT = """
03 addr A
06 deref
08 const1u u1
09 const1s s1
0a const2u u2
0b const2s s2
0c const4u u4
0d const4s s4
0e const8u u8
0f const8s s8
10 constu U
11 consts S
12 dup
13 drop
14 over
15 pick u1
16 swap
17 rot
18 xderef
19 abs
1a and
1b div
1c minus
1d mod
1e mul
1f neg
20 not
21 or
22 plus
23 plus_uconst U
24 shl
25 shr
26 shra
27 xor
28 bra s2
29 eq
2a ge
2b gt
2c le
2d lt
2e ne
2f skip s2
90 regx U
91 fbreg S
92 bregx U S
93 piece U
94 deref_size u1
95 xderef_size u1
96 nop
97 push_object_address
98 call2 u2
99 call4 u4
9a call_ref O
9b form_tls_address
9c call_frame_cfa
9d bit_piece U U
9e implicit_value B
9f stack_value
a0 implicit_pointer O S
a1 addrx U
a2 constx U
a3 entry_value E
a4 const_type U T
a5 regval_type U U
a6 deref_type u1 U
a7 xderef_type u1 U
a8 convert U
a9 reinterpret U
e0 GNU_push_tls_address
ed WASM_location W
f0 GNU_uninit
f1 GNU_encoded_addr X
f2 GNU_implicit_pointer O S
f3 GNU_entry_value E
f4 GNU_const_type U T
f5 GNU_regval_type U U
f6 GNU_deref_type u1 U
f7 GNU_convert U
f9 GNU_reinterpret U
fa GNU_parameter_ref u4
fb GNU_addr_index U
fc GNU_const_index U
fd GNU_variable_value O
"""

OPS = {}          # opcode -> (name, (operand kinds...))
for _line in _TEXT.strip().splitlines():
    _p = _line.split()
    OPS[int(_p[0], 16)] = ('DW_OP_' + _p[1], tuple(_p[2:]))
for _i in range(32):
    OPS[0x30 + _i] = ('DW_OP_lit%d' % _i, ())
    OPS[0x50 + _i] = ('DW_OP_reg%d' % _i, ())
    OPS[0x70 + _i] = ('DW_OP_breg%d' % _i, ('S',))
NAME = {c: v[0] for c, v in OPS.items()}
SPEC = {c: v[1] for c, v in OPS.items()}
BY_NAME = {v[0]: c for c, v in OPS.items()}
assert len(BY_NAME) == len(OPS)

# range markers of table 7.9: not operations
MARKERS = {'DW_OP_lo_user': 0xe0, 'DW_OP_hi_user': 0xff}

# operands whose width follows DWARF_REF_SIZE in GCC/binutils (address-sized in version 2 units)
REFSIZE_OPS = frozenset(c for c, s in SPEC.items() if 'O' in s)

FIXED = {'u1': (1, False), 'u2': (2, False), 'u4': (4, False), 'u8': (8, False),
         's1': (1, True), 's2': (2, True), 's4': (4, True), 's8': (8, True)}


def op_class(code):
    """coarse class used in bucket keys / histograms"""
    s = SPEC[code]
    if not s:
        return 'noarg'
    if 'E' in s:
        return 'nested'
    if 'B' in s:
        return 'block'
    if 'T' in s:
        return 'typed'
    if 'W' in s:
        return 'wasm'
    if 'U' in s or 'S' in s:
        return 'leb' if all(k in 'US' for k in s) else 'mixed'
    return 'fixed'


class EncodeError(Exception):
    pass


def _pads(op):
    p = op[2] if len(op) > 2 and op[2] else ()
    i = [0]

    def nxt():
        k = i[0]
        i[0] += 1
        return p[k] if k < len(p) else 0
    return nxt


def encode_op(op, le, fmt, asz):
    """-> (bytes, expected operand list).  Expected operands: ints, bytes for blocks, and for a nested
    expression the expected list of [opcode, name, operands, offset-within-the-nested-block]."""
    code, vals = op[0], op[1]
    spec = SPEC[code]
    bo = 'little' if le else 'big'
    pad = _pads(op)
    out = bytearray([code])
    exp = []
    vi = 0
    try:
        for k in spec:
            if k == 'W':
                kind, idx = vals[vi], vals[vi + 1]
                vi += 2
                out.append(kind)
                if kind in (0, 1, 2):
                    out += leb.uleb(idx, pad())
                elif kind == 3:
                    out += idx.to_bytes(4, bo, signed=False)
                else:
                    raise EncodeError('WASM kind %r' % (kind,))
                exp += [kind, idx]
                continue
            v = vals[vi]
            vi += 1
            if k in FIXED:
                n, sg = FIXED[k]
                out += v.to_bytes(n, bo, signed=sg)
                exp.append(v)
            elif k == 'A':
                out += v.to_bytes(asz, bo, signed=False)
                exp.append(v)
            elif k == 'O':
                out += v.to_bytes(fmt // 8, bo, signed=False)
                exp.append(v)
            elif k == 'U':
                if v < 0:
                    raise EncodeError('negative ULEB')
                out += leb.uleb(v, pad())
                exp.append(v)
            elif k == 'S':
                out += leb.sleb(v, pad())
                exp.append(v)
            elif k == 'B':
                v = bytes(v)
                out += leb.uleb(len(v), pad()) + v
                exp.append(v)
            elif k == 'T':
                v = bytes(v)
                if len(v) > 255:
                    raise EncodeError('typed constant longer than 255')
                out.append(len(v))
                out += v
                exp.append(v)
            elif k == 'E':
                nb, nexp = encode(v, le, fmt, asz)
                out += leb.uleb(len(nb), pad()) + nb
                exp.append(nexp)
            else:
                raise EncodeError('operand kind %s not modelled' % k)
    except (OverflowError, TypeError, AttributeError, IndexError) as e:
        raise EncodeError('%s: %s' % (NAME[code], e))
    if vi != len(vals):
        raise EncodeError('%s: %d operand values for %r' % (NAME[code], len(vals), spec))
    return bytes(out), exp


def encode(ops, le, fmt, asz):
    """-> (bytes, expected parse): list of [opcode, name, operands, offset]"""
    out = bytearray()
    exp = []
    for op in ops:
        off = len(out)
        b, args = encode_op(op, le, fmt, asz)
        out += b
        exp.append([op[0], NAME[op[0]], args, off])
    return bytes(out), exp


def cross_check_registry():
    """Opcode numbers of the table against the vendored LLVM Dwarf.def (development/self-check).
    -> list of disagreements (empty when consistent)."""
    from vf import registry
    reg = registry.llvm_dwarf()
    bad = []
    for code, (name, _) in sorted(OPS.items()):
        if name in reg and reg[name] != code:
            bad.append((name, code, reg[name]))
    n = sum(1 for code, (name, _) in OPS.items() if name in reg)
    return bad, n

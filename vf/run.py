"""CLI:  python -m vf.run <Cxx> --tier quick|thorough [--replay PATH] [--n N] [--shards K]"""
import os
import sys
import argparse


def main():
    ap = argparse.ArgumentParser()
    ap.add_argument('prop')
    ap.add_argument('--tier', default=os.environ.get('VERIF_TIER', 'quick'), choices=['quick', 'thorough'])
    ap.add_argument('--replay')
    ap.add_argument('--n', type=int)
    ap.add_argument('--shards', type=int)
    ap.add_argument('--no-shrink', action='store_true')
    a = ap.parse_args()
    os.environ.setdefault('PYTHONHASHSEED', '0')
    if sys.flags.bytes_warning:
        # under -b / -bb a bytes/str or bytes/int comparison is an error *of the library*; the checks themselves compare decoded values of
        # any type with expected ones (a wrong type is a finding to report, not a reason to crash the harness)
        import warnings
        warnings.filterwarnings('ignore', category=BytesWarning, module=r'vf(\.|$)')
        # Hypothesis keeps generated choices (ints and bytes) as keys of one dict: equal hashes make it compare bytes with int
        warnings.filterwarnings('ignore', category=BytesWarning, module=r'hypothesis(\.|$)')
    seed = int(os.environ.get('VERIF_SEED', '1') or '1')
    from vf import core
    modname = 'vf.checks.%s' % a.prop.lower()
    rc = core.main_check(modname, a.tier, seed, replay_path=a.replay, nshards=a.shards,
                         n_override=a.n, no_shrink=a.no_shrink)
    sys.stdout.flush()
    sys.exit(rc)


if __name__ == '__main__':
    main()

"""Other kinds of stream than io.BytesIO for the same bytes.  The library documents its input as "a stream object" (read / seek / tell); what
it answers - and which exceptions it raises - must not depend on which kind it is given:

    file     a real buffered file on disk (open(path, 'rb'))            - seek() beyond 2**63 raises ValueError / OSError, not OverflowError
    mmap     a read-only memory map of that file                          - seek() returns None before Python 3.13, seeks beyond the end raise
    minimal  a hand-written object with nothing but read, seek and tell   - seek() returns None, no other method or attribute exists
    gzip     gzip.open() of a compressed copy on disk                      - seekable, but fileno() is the descriptor of the *compressed* file
    tar      tarfile.extractfile() of a member stored in a tar archive     - a window at a non-zero offset of another file, no fileno()

One scratch file per process is reused (truncated and rewritten for every case); it lives in a private temporary directory that is
removed at exit."""
import os
import io
import mmap
import atexit
import shutil
import tempfile

_dir = None
KINDS = ('file', 'mmap', 'minimal', 'gzip', 'tar')
WRAPPED_MAX = 1 << 18      # gzip seeks backwards by inflating again from the start: keep the wrapped kinds to small images


def _path():
    global _dir
    if _dir is None or _dir[1] != os.getpid():
        d = tempfile.mkdtemp(prefix='vfstream_', dir='/dev/shm' if os.path.isdir('/dev/shm') else None)
        _dir = (d, os.getpid())
        atexit.register(shutil.rmtree, d, True)
    return os.path.join(_dir[0], 'image')


class Minimal:
    """read / seek / tell and nothing else; seek() returns None (as mmap did before Python 3.13 and as many wrappers do)"""
    def __init__(self, data):
        self._d = bytes(data)
        self._p = 0

    def read(self, n=-1):
        if n is None or n < 0:
            n = len(self._d) - self._p
        out = self._d[self._p:self._p + n] if self._p < len(self._d) else b''
        self._p += len(out)
        return out

    def seek(self, pos, whence=0):
        new = pos if whence == 0 else (self._p + pos if whence == 1 else len(self._d) + pos)
        if new < 0:
            raise ValueError('negative seek position %r' % (new,))
        self._p = new

    def tell(self):
        return self._p


class FaultOnce(io.BytesIO):
    """BytesIO whose k-th read() after arm(k) raises OSError once (a transient I/O error, an interrupted system call, a timeout that the
    caller catches) and which works normally before and afterwards.  A call that failed for such a reason may be repeated, and the
    repetition must answer as if the failure had not happened."""
    _countdown = None
    faults = 0

    def arm(self, k):
        self._countdown = k

    def disarm(self):
        self._countdown = None

    def read(self, n=-1):
        if self._countdown is not None:
            self._countdown -= 1
            if self._countdown <= 0:
                self._countdown = None
                self.faults += 1
                raise OSError(5, 'injected transient read error')
        return super().read(n)


class _NoneSeekMmap:
    """mmap whose seek() returns None on every Python version (the behaviour of Python <= 3.12), everything else passed through"""
    def __init__(self, m):
        self._m = m

    def read(self, n=-1):
        return self._m.read(n if n is not None and n >= 0 else None)

    def seek(self, pos, whence=0):
        self._m.seek(pos, whence)

    def tell(self):
        return self._m.tell()

    def close(self):
        self._m.close()


class opened:
    """context manager: with opened(data, kind) as stream"""
    def __init__(self, data, kind):
        self.data, self.kind = bytes(data), kind
        self._close = []

    def __enter__(self):
        if self.kind == 'bytesio':
            return io.BytesIO(self.data)
        if self.kind == 'minimal':
            return Minimal(self.data)
        p = _path()
        if self.kind == 'gzip':
            import gzip
            with gzip.GzipFile(p + '.gz', 'wb', compresslevel=1, mtime=0) as f:
                f.write(self.data)
            f = gzip.open(p + '.gz', 'rb')
            self._close.append(f)
            return f
        if self.kind == 'tar':
            import tarfile
            with tarfile.open(p + '.tar', 'w') as t:
                for name, payload in (('lead', b'\x7fELF' + bytes(509)), ('image', self.data)):
                    ti = tarfile.TarInfo(name)
                    ti.size = len(payload)
                    t.addfile(ti, io.BytesIO(payload))
            t = tarfile.open(p + '.tar', 'r')
            self._close.append(t)
            f = t.extractfile('image')
            self._close.append(f)
            return f
        with open(p, 'wb') as f:
            f.write(self.data)
        f = open(p, 'rb')
        self._close.append(f)
        if self.kind == 'file':
            return f
        if self.kind == 'mmap':
            if not self.data:
                return f                # an empty file cannot be mapped
            m = mmap.mmap(f.fileno(), 0, access=mmap.ACCESS_READ)
            w = _NoneSeekMmap(m)
            self._close.append(w)
            return w
        raise ValueError(self.kind)

    def __exit__(self, *a):
        for c in reversed(self._close):
            try:
                c.close()
            except Exception:  # noqa
                pass
        return False


_last = []


def pick(data, salt=0):
    """-> (stream, kind): the kind of stream is a deterministic function of the bytes (so that a replayed case meets the same kind);
    the stream handed out by the previous call of this process is closed.  BytesIO, minimal, mmap, real file, and - for images up to
    256 KiB - a gzip wrapper and a tar member, in equal shares."""
    import zlib
    while _last:
        try:
            _last.pop().__exit__(None, None, None)
        except Exception:  # noqa
            pass
    h = zlib.crc32(bytes(data)) + salt
    kind = ('bytesio', 'minimal', 'mmap', 'file', 'gzip', 'tar')[h % 6]
    if kind in ('gzip', 'tar') and len(data) > WRAPPED_MAX:
        kind = ('bytesio', 'minimal', 'mmap', 'file')[h % 4]
    cm = opened(data, kind)
    _last.append(cm)
    return cm.__enter__(), kind

"""Canonical plain-data dumps of elftools objects (used by the metamorphic checks C10, C11).
Everything returned is built from ints/str/bytes/bool/None/lists/tuples/dicts so that two dumps can be
compared with == and hashed after repr()."""


def canon(v):
    if isinstance(v, (bytes, bytearray)):
        return bytes(v)
    if isinstance(v, (list, tuple)):
        return tuple(canon(x) for x in v)
    if isinstance(v, dict):
        return tuple(sorted((str(k), canon(x)) for k, x in v.items()))
    if isinstance(v, (int, str, bool, float)) or v is None:
        return v
    if hasattr(v, 'items'):           # construct Container
        try:
            return tuple(sorted((str(k), canon(x)) for k, x in v.items()))
        except Exception:  # noqa
            pass
    return repr(type(v).__name__)


def die_key(d):
    if d is None:
        return None
    return (d.offset, d.size, d.abbrev_code, d.tag, d.has_children,
            tuple((str(n), a.form, canon(a.raw_value), canon(a.value), a.offset, a.indirection_length) for n, a in d.attributes.items()))


def die_id(d):
    return None if d is None else (d.cu.cu_offset, d.offset, d.tag)


def cu_key(cu):
    return (cu.cu_offset, cu.cu_die_offset, cu.size, canon(dict(cu.header)))


def line_program(lp, cap=None):
    if lp is None:
        return None
    # decode first: DW_LNE_define_file appends to the header's file table while decoding (documented), so the
    # header is only complete - and stable - after get_entries()
    entries = lp.get_entries()
    h = lp.header
    hdr = {k: canon(h[k]) for k in ('version', 'unit_length', 'header_length', 'minimum_instruction_length', 'default_is_stmt',
                                    'line_base', 'line_range', 'opcode_base', 'standard_opcode_lengths') if k in h}
    hdr['include_directory'] = canon(list(h['include_directory'] or []))
    hdr['file_entry'] = tuple((canon(f.name), f.dir_index, f.mtime, f.length) for f in (h['file_entry'] or []))
    rows = []
    for e in entries[:cap]:
        s = e.state
        rows.append((e.command, e.is_extended, canon(e.args),
                     None if s is None else (s.address, s.op_index, s.file, s.line, s.column, bool(s.is_stmt), s.basic_block, s.end_sequence,
                                             s.prologue_end, s.epilogue_begin, s.isa, s.discriminator)))
    return (canon(hdr), tuple(rows))


def cfi_entries(entries, cap=None):
    out = []
    for e in entries[:cap]:
        n = type(e).__name__
        if n == 'ZERO':
            out.append(('ZERO', e.offset))
            continue
        item = [n, e.offset, canon(dict(e.header)), tuple((i.opcode, canon(i.args)) for i in e.instructions),
                canon(e.augmentation_bytes), canon({str(k): v for k, v in (e.augmentation_dict or {}).items()})]
        if n == 'FDE':
            item.append(('cie', e.cie.offset if e.cie is not None else None, e.lsda_pointer))
        try:
            dec = e.get_decoded()
            tab = []
            for row in dec.table:
                r = []
                for k, v in row.items():
                    if k == 'pc':
                        r.append(('pc', v))
                    elif k == 'cfa':
                        r.append(('cfa', v.reg, v.offset, canon(v.expr)))
                    else:
                        r.append((k, v.type, canon(v.arg)))
                tab.append(tuple(sorted(r, key=repr)))
            item.append((tuple(tab), tuple(dec.reg_order)))
        except Exception as ex:  # noqa
            item.append(('exc', type(ex).__name__))
        out.append(tuple(item))
    return tuple(out)


def dwarf_dump(di, die_cap=3000, with_lines=True, with_cfi=True):
    """Full canonical dump of a DWARFInfo: units + DIEs (capped), line tables, CFI, aranges, pubnames/pubtypes."""
    out = {}
    units = []
    n = 0
    for cu in di.iter_CUs():
        dies = []
        for d in cu.iter_DIEs():
            dies.append(die_key(d))
            n += 1
            if n >= die_cap:
                break
        lp = None
        if with_lines:
            try:
                lp = line_program(di.line_program_for_CU(cu), cap=2000)
            except Exception as ex:  # noqa
                lp = ('exc', type(ex).__name__)
        units.append((cu_key(cu), tuple(dies), lp))
        if n >= die_cap:
            break
    out['units'] = tuple(units)
    if di.debug_types_sec is not None:
        tus = []
        for tu in di.iter_TUs():
            tus.append((tu.tu_offset, canon(dict(tu.header)), tuple(die_key(d) for d in tu.iter_DIEs())))
        out['tunits'] = tuple(tus)
    if with_cfi:
        for name, has, get in (('debug_frame', di.has_CFI, di.CFI_entries), ('eh_frame', di.has_EH_CFI, di.EH_CFI_entries)):
            if has():
                try:
                    out[name] = cfi_entries(get(), cap=400)
                except Exception as ex:  # noqa
                    out[name] = ('exc', type(ex).__name__)
    try:
        ar = di.get_aranges()
        if ar is not None:
            out['aranges'] = tuple(sorted(tuple(canon(tuple(e))) for e in ar.entries))
    except Exception as ex:  # noqa
        out['aranges'] = ('exc', type(ex).__name__)
    for nm, get in (('pubnames', di.get_pubnames), ('pubtypes', di.get_pubtypes)):
        try:
            lut = get()
            if lut is not None:
                out[nm] = tuple((k, v.cu_ofs, v.die_ofs) for k, v in lut.items())
        except Exception as ex:  # noqa
            out[nm] = ('exc', type(ex).__name__)
    return out


def diff_keys(a, b):
    """names of the top-level parts in which two dumps differ (for bucket keys)"""
    out = []
    for k in sorted(set(a) | set(b)):
        if a.get(k) != b.get(k):
            out.append(k)
    return out

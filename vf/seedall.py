"""Development helper: re-confirm every kept seeded change against the current checks.

    python -m vf.seedall [--jobs N] [--only C07-3,C10-4]

For each /verif/seeded/<id>/ (patch.diff, demo.py, meta.json) runs vf.seedeval with the checks that meta.json records as catching it and
writes /verif/seeded/SUMMARY.json: {id: {property, checks: {Cxx: verdict}, demo_clean_rc, demo_changed_rc, tests_missing, apply_rc}}."""
import os
import sys
import json
import subprocess
from concurrent.futures import ThreadPoolExecutor

VERIF = os.path.dirname(os.path.dirname(os.path.abspath(__file__)))
SEEDED = os.path.join(VERIF, 'seeded')


def one(sid):
    d = os.path.join(SEEDED, sid)
    meta = json.load(open(os.path.join(d, 'meta.json')))
    catching = [c for c, v in meta['confirmed']['checks'].items() if 'CAUGHT' in v]
    checks = catching or [meta['property']]
    p = subprocess.run([sys.executable, '-m', 'vf.seedeval', meta['property'], os.path.join(d, 'patch.diff'), os.path.join(d, 'demo.py'), '--checks', ','.join(checks)],
                       cwd=VERIF, stdout=subprocess.PIPE, stderr=subprocess.STDOUT, text=True)
    out = p.stdout
    try:
        r = json.loads(out[out.index('{'):])
    except Exception:  # noqa
        return sid, {'error': out[-400:]}
    return sid, {'property': meta['property'], 'apply_rc': r.get('apply_rc'), 'demo_clean_rc': r.get('demo_clean_rc'), 'demo_changed_rc': r.get('demo_changed_rc'),
                 'tests_missing': r.get('tests_missing_with_change'), 'checks': {c: v['verdict'] for c, v in r.get('checks', {}).items()},
                 'first_bucket': next((v['buckets'][0][:160] for v in r.get('checks', {}).values() if v['buckets']), None)}


def main():
    args = sys.argv[1:]
    jobs = int(args[args.index('--jobs') + 1]) if '--jobs' in args else 3
    ids = sorted(d for d in os.listdir(SEEDED) if os.path.isfile(os.path.join(SEEDED, d, 'meta.json')))
    if '--only' in args:
        want = set(args[args.index('--only') + 1].split(','))
        ids = [i for i in ids if i in want]
    res = {}
    path = os.path.join(SEEDED, 'SUMMARY.json')
    if '--only' in args and os.path.exists(path):
        res = json.load(open(path))
    with ThreadPoolExecutor(jobs) as ex:
        for sid, r in ex.map(one, ids):
            res[sid] = r
            ok = r.get('apply_rc') == 0 and r.get('demo_clean_rc') == 0 and r.get('demo_changed_rc') not in (0, None) and not r.get('tests_missing') and 'CAUGHT' in (r.get('checks') or {}).values()
            print('%-8s %s %s' % (sid, 'ok    ' if ok else 'ATTENTION', json.dumps(r)[:200]), flush=True)
    json.dump(res, open(path, 'w'), indent=1, sort_keys=True)
    bad = [k for k, r in res.items() if not (r.get('apply_rc') == 0 and r.get('demo_clean_rc') == 0 and r.get('demo_changed_rc') not in (0, None) and not r.get('tests_missing') and 'CAUGHT' in (r.get('checks') or {}).values())]
    print('%d seeded changes, %d need attention: %s' % (len(res), len(bad), bad))
    return 0


if __name__ == '__main__':
    sys.exit(main())

"""Run a decoding script in a child interpreter whose process-wide configuration differs from the parent's (interpreter flags such as -bb,
which turns str(bytes) into an error and cannot be switched on inside a running process; or, legacy=True:) C locale, UTF-8 mode
off, no locale coercion (file-system encoding and preferred encoding are then ASCII).  What the library decodes from a file is a
function of the file; it must not depend on the locale of the process."""
import os
import sys
import json
import subprocess

LEGACY_ENV = {'LC_ALL': 'C', 'LANG': 'C', 'PYTHONUTF8': '0', 'PYTHONCOERCECLOCALE': '0', 'PYTHONIOENCODING': 'utf-8', 'PYTHONHASHSEED': '0',
              'PYTHONDONTWRITEBYTECODE': '1'}


def run(script, payload, repo, timeout=600, flags=(), legacy=True):
    """script: python source reading a JSON document from stdin and printing one to stdout -> parsed output (or raises RuntimeError)"""
    env = {k: v for k, v in os.environ.items() if not k.startswith('LC_') and k not in ('LANG', 'LANGUAGE')}
    if legacy:
        env.update(LEGACY_ENV)
    else:
        env.update({'PYTHONHASHSEED': '0', 'PYTHONDONTWRITEBYTECODE': '1', 'PYTHONIOENCODING': 'utf-8'})
    env['PYTHONPATH'] = repo
    p = subprocess.run([sys.executable] + list(flags) + ['-c', script], input=json.dumps(payload).encode('ascii'), stdout=subprocess.PIPE, stderr=subprocess.PIPE, env=env, timeout=timeout)
    if p.returncode != 0:
        raise RuntimeError('child interpreter failed: %s' % p.stderr.decode('utf-8', 'replace')[-600:])
    return json.loads(p.stdout.decode('utf-8'))

"""Names that text-handling code tends to treat specially (all valid UTF-8 without NUL): a leading / inner byte-order mark, zero-width and
no-break spaces, combining marks, ligatures, case-folding oddities, controls, line separators, surrounding blanks, the ends of the planes.
A name table stores bytes; a reader must hand each of them back exactly."""

SPECIAL_NAMES = ['﻿bom', 'a﻿b', '﻿', '​zw', 'nb sp', 'é', 'ﬁ', 'İI', '\x7fdel', 'tab\there', ' lead', 'trail ',
                 '\x01ctl', '￿', '\U0010fffd', 'line sep', 'new\nline', 'cr\rlf', 'é', 'é'.encode('utf-8').decode('utf-8') + 'x',
                 '%s', '{0}', '\\x00', "quo'te\"", '퟿']

SPECIAL_ALPHABET = '﻿​ ́ \x7f\t\x01￿\U0010fffd a'

"""setup_cmd: verify (or install from the offline wheelhouse) what the checks need."""
import os
import sys
import subprocess

VERIF = os.path.dirname(os.path.dirname(os.path.abspath(__file__)))
WHEELS = '/opt/veriftools/wheels'


def main():
    try:
        import hypothesis  # noqa
    except ImportError:
        subprocess.check_call([sys.executable, '-m', 'pip', 'install', '--no-index', '--find-links', WHEELS, 'hypothesis'])
    import hypothesis
    print('hypothesis', hypothesis.__version__)
    deps = os.path.join(VERIF, '.deps')
    sys.path.insert(0, deps)
    try:
        import atheris  # noqa
    except Exception:
        try:
            subprocess.check_call([sys.executable, '-m', 'pip', 'install', '--no-index', '--find-links', WHEELS,
                                   '--target', deps, '--quiet', 'atheris'])
        except Exception as e:  # optional: fuzz sub-steps are reported as skipped without it
            print('atheris not installed (%s): fuzz sub-steps will be skipped' % e)
    for d in ('evidence', 'replay'):
        os.makedirs(os.path.join(VERIF, d), exist_ok=True)
    print('setup ok')


if __name__ == '__main__':
    main()

#!/bin/sh
# Runs the pinned baseline (guard off) and prints pass/fail counts; exit 0 iff all 111 stable tests pass.
cd /repo && /venv/bin/python -m pytest -ra -q -p no:cacheprovider --timeout=900 --continue-on-collection-errors --junitxml=/tmp/vf_baseline.xml >/tmp/vf_baseline.log 2>&1
/venv/bin/python - <<'PY'
import json, xml.etree.ElementTree as ET, sys
base = set(json.load(open('/root/.vp/BASELINE.json'))['stable_pass'])
t = ET.parse('/tmp/vf_baseline.xml')
passed = set()
for tc in t.iter('testcase'):
    if not any(c.tag in ('failure', 'error', 'skipped') for c in tc):
        passed.add('%s::%s' % (tc.get('classname'), tc.get('name')))
missing = sorted(base - passed)
print('baseline: %d/%d stable tests pass' % (len(base & passed), len(base)))
for m in missing: print('  MISSING', m)
sys.exit(1 if missing else 0)
PY
rc=$?
rm -f /tmp/vf_baseline.xml /tmp/vf_baseline.log
exit $rc

"""Regenerates the machine-written part of DESIGN.md section 10.4 (table of findings) from known_findings.txt:
    python -m vf.design_findings   -> prints markdown"""
import os, re, collections
VERIF = os.path.dirname(os.path.dirname(os.path.abspath(__file__)))
fixed, opened = [], collections.Counter()
for line in open(os.path.join(VERIF, 'known_findings.txt')):
    line = line.strip()
    if line.startswith('fixed:'):
        mo = re.match(r'fixed:\s+property=(C\d+)\s+(\w+)\s+(.*)', line)
        fixed.append(mo.groups())
    elif line.startswith('open:'):
        mo = re.match(r'open:\s+property=(C\d+)', line)
        opened[mo.group(1)] += 1
print('| # | Prop | /repo commit | What failed on the unchanged tree |')
print('|---|------|--------------|-----------------------------------|')
for i, (p, c, t) in enumerate(fixed, 1):
    t = re.sub(r'\s*\(replay/[^)]*\)\s*$', '', t)
    print('| %d | %s | `%s` | %s |' % (i, p, c, t.replace('|', '\\|')))
print()
print('Open known findings: ' + (', '.join('%s: %d' % kv for kv in sorted(opened.items())) or 'none'))

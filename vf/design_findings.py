"""Regenerates the machine-written part of DESIGN.md section 10.4 (table of findings) from known_findings.txt:
    python -m vf.design_findings   -> prints markdown"""
import os, re, collections
VERIF = os.path.dirname(os.path.dirname(os.path.abspath(__file__)))
fixed, opened = [], collections.Counter()
for line in open(os.path.join(VERIF, 'known_findings.txt')):
    line = line.strip()
    if line.startswith('fixed:'):
        mo = re.match(r'fixed:\s+property=(C\d+)\s+(\w+)\s+(.*)', line)
        fixed.append(mo.groups())
    elif line.startswith('open:'):
        mo = re.match(r'open:\s+property=(C\d+)', line)
        opened[mo.group(1)] += 1
# group per (property, commit): C18 has one fixed: line per bucket
grouped = collections.OrderedDict()
for (p_, c, t) in fixed:
    t = re.sub(r'\s*\(replay/[^)]*\)\s*$', '', t)
    mo = re.match(r'(.*?)\s*\[bucket (.*?)\]\s*$', t)
    text, bucket = (mo.group(1), mo.group(2)) if mo else (t, None)
    g = grouped.setdefault((p_, c), [text, []])
    if bucket:
        g[1].append(bucket)
fixed = [(k[0], k[1], v[0] + ((' (%d buckets: %s)' % (len(v[1]), ', '.join('`%s`' % b for b in v[1][:6]) + (' ...' if len(v[1]) > 6 else ''))) if v[1] else '')) for k, v in grouped.items()]
print('| # | Prop | /repo commit | What failed on the unchanged tree |')
print('|---|------|--------------|-----------------------------------|')
for i, (p, c, t) in enumerate(fixed, 1):
    t = re.sub(r'\s*\(replay/[^)]*\)\s*$', '', t)
    print('| %d | %s | `%s` | %s |' % (i, p, c, t.replace('|', '\\|')))
print()
print('Open known findings: ' + (', '.join('%s: %d' % kv for kv in sorted(opened.items())) or 'none'))

"""Sensitivity sweep (development only; not registered): generated single-site mutants of the library.

    python -m vf.mutsweep --out DIR [--per-file N] [--jobs J] [--seed S] [--files a.py,b.py] [--list]

For every target file (default: the anchor files of the properties, FILEMAP below) the module's syntax tree is walked and
single-token mutants are derived (comparison / arithmetic / boolean operator swaps, integer constants +-1, dropped `not`,
swapped True/False, `break` <-> `continue`, a dropped statement-level call, `if c:` -> `if not c:`).  N of them per
file are drawn with a PRNG seeded by --seed (a development tool: what it samples does not decide any property).  Each drawn mutant is
applied to a scratch git worktree of /repo's HEAD (one per worker, under /tmp, removed at the end; /repo is never touched) and

  1. compiled;                                        does not compile -> dropped
  2. run against the pinned 111 tests;                a pinned test fails -> 'killed-by-tests' (not our business)
  3. run against the quick tier of the checks mapped to the file, one after the other, until one reports a VIOLATION.

Result lines (JSON) go to DIR/results.jsonl; the summary lists, per file, the mutants that pass the pinned tests and every mapped
check: each is either equivalent under the properties or a blind spot to close.
"""
import os
import sys
import ast
import json
import random
import shutil
import tempfile
import argparse
import subprocess
import multiprocessing

from vf.seedeval import baseline, run, PY

FILEMAP = {
    'elftools/elf/elffile.py': ['C01', 'C02', 'C19', 'C11', 'C09'],
    'elftools/elf/sections.py': ['C01', 'C02', 'C03', 'C14', 'C20'],
    'elftools/elf/segments.py': ['C02', 'C01', 'C14'],
    'elftools/elf/hash.py': ['C03', 'C09'],
    'elftools/elf/dynamic.py': ['C09', 'C08'],
    'elftools/elf/relocation.py': ['C08'],
    'elftools/elf/notes.py': ['C14'],
    'elftools/elf/gnuversions.py': ['C15'],
    'elftools/elf/structs.py': ['C01', 'C03', 'C08', 'C09', 'C14', 'C15'],
    'elftools/ehabi/decoder.py': ['C20'],
    'elftools/ehabi/ehabiinfo.py': ['C20'],
    'elftools/elf/sections.py#attr': ['C20'],
    'elftools/dwarf/abbrevtable.py': ['C04'],
    'elftools/dwarf/aranges.py': ['C13'],
    'elftools/dwarf/namelut.py': ['C13'],
    'elftools/dwarf/callframe.py': ['C06'],
    'elftools/dwarf/compileunit.py': ['C04', 'C10'],
    'elftools/dwarf/typeunit.py': ['C04', 'C10'],
    'elftools/dwarf/die.py': ['C04', 'C07', 'C10'],
    'elftools/dwarf/dwarf_expr.py': ['C12'],
    'elftools/dwarf/dwarf_util.py': ['C07', 'C04'],
    'elftools/dwarf/dwarfinfo.py': ['C04', 'C13', 'C05', 'C07', 'C11', 'C10'],
    'elftools/dwarf/lineprogram.py': ['C05'],
    'elftools/dwarf/locationlists.py': ['C07'],
    'elftools/dwarf/ranges.py': ['C07'],
    'elftools/dwarf/structs.py': ['C04', 'C05', 'C06', 'C07', 'C13'],
    'elftools/common/utils.py': ['C16', 'C02', 'C01'],
    'elftools/common/construct_utils.py': ['C16', 'C04', 'C12'],
}
del FILEMAP['elftools/elf/sections.py#attr']

CMP = {ast.Lt: '<', ast.LtE: '<=', ast.Gt: '>', ast.GtE: '>=', ast.Eq: '==', ast.NotEq: '!='}
CMP_SWAP = {'<': ['<='], '<=': ['<'], '>': ['>='], '>=': ['>'], '==': ['!='], '!=': ['==']}
BIN = {ast.Add: '+', ast.Sub: '-', ast.Mult: '*', ast.FloorDiv: '//', ast.Mod: '%', ast.LShift: '<<', ast.RShift: '>>',
       ast.BitAnd: '&', ast.BitOr: '|', ast.BitXor: '^'}
BIN_SWAP = {'+': '-', '-': '+', '*': '//', '//': '*', '%': '//', '<<': '>>', '>>': '<<', '&': '|', '|': '&', '^': '|'}


def offsets(src):
    starts = [0]
    for line in src.split('\n'):
        starts.append(starts[-1] + len(line.encode()) + 1)
    return starts


def mutants_of(src):
    """-> list of (lineno, kind, start, end, replacement) over the utf-8 bytes of src"""
    tree = ast.parse(src)
    b = src.encode()
    st = offsets(src)

    def pos(line, col):
        return st[line - 1] + col

    def span(n):
        return pos(n.lineno, n.col_offset), pos(n.end_lineno, n.end_col_offset)

    out = []
    docstrings = set()
    for n in ast.walk(tree):
        if isinstance(n, (ast.Module, ast.ClassDef, ast.FunctionDef)) and n.body and isinstance(n.body[0], ast.Expr) and \
                isinstance(getattr(n.body[0], 'value', None), ast.Constant) and isinstance(n.body[0].value.value, str):
            docstrings.add(id(n.body[0].value))

    def between(a_end, b_start, tok, new, line, kind):
        seg = b[a_end:b_start]
        i = seg.find(tok.encode())
        if i < 0 or seg.count(tok.encode()) != 1:
            return
        out.append((line, kind, a_end + i, a_end + i + len(tok), new))

    for n in ast.walk(tree):
        if isinstance(n, ast.Compare) and len(n.ops) == 1 and type(n.ops[0]) in CMP:
            tok = CMP[type(n.ops[0])]
            for new in CMP_SWAP[tok]:
                between(span(n.left)[1], span(n.comparators[0])[0], tok, new, n.lineno, 'cmp %s->%s' % (tok, new))
        elif isinstance(n, ast.BinOp) and type(n.op) in BIN:
            if isinstance(n.left, ast.Constant) and isinstance(n.left.value, str):
                continue   # string formatting
            tok = BIN[type(n.op)]
            between(span(n.left)[1], span(n.right)[0], tok, BIN_SWAP[tok], n.lineno, 'bin %s->%s' % (tok, BIN_SWAP[tok]))
        elif isinstance(n, ast.BoolOp) and len(n.values) == 2:
            tok = 'and' if isinstance(n.op, ast.And) else 'or'
            new = 'or' if tok == 'and' else 'and'
            between(span(n.values[0])[1], span(n.values[1])[0], tok, new, n.lineno, 'bool %s->%s' % (tok, new))
        elif isinstance(n, ast.UnaryOp) and isinstance(n.op, ast.Not):
            s, e = span(n)
            os_, _ = span(n.operand)
            out.append((n.lineno, 'drop not', s, os_, b''))
        elif isinstance(n, ast.Constant) and id(n) not in docstrings:
            s, e = span(n)
            if n.value is True or n.value is False:
                out.append((n.lineno, 'const %s' % n.value, s, e, 'False' if n.value else 'True'))
            elif isinstance(n.value, int) and not isinstance(n.value, bool):
                txt = b[s:e].decode()
                if txt.lstrip('-').startswith(('0x', '0X')):
                    out.append((n.lineno, 'const %s+1' % txt, s, e, hex(n.value + 1)))
                    if n.value & (n.value - 1) == 0 and n.value > 1:
                        out.append((n.lineno, 'const %s>>1' % txt, s, e, hex(n.value >> 1)))
                else:
                    out.append((n.lineno, 'const %s+1' % txt, s, e, str(n.value + 1)))
                    if n.value > 0:
                        out.append((n.lineno, 'const %s-1' % txt, s, e, str(n.value - 1)))
        elif isinstance(n, ast.Break):
            s, e = span(n)
            out.append((n.lineno, 'break->continue', s, e, 'continue'))
        elif isinstance(n, ast.Continue):
            s, e = span(n)
            out.append((n.lineno, 'continue->break', s, e, 'break'))
        elif isinstance(n, (ast.If, ast.While)) and not isinstance(n.test, ast.Constant):
            s, e = span(n.test)
            out.append((n.lineno, 'negate test', s, e, b'not (' + b[s:e] + b')'))
        elif isinstance(n, ast.Expr) and isinstance(n.value, ast.Call) and n.lineno == n.end_lineno:
            s, e = span(n)
            out.append((n.lineno, 'drop call', s, e, 'pass'))
        elif isinstance(n, ast.Return) and n.value is not None and isinstance(n.value, (ast.Name, ast.Attribute)) and False:
            pass
    res = []
    for line, kind, s, e, new in out:
        new = new if isinstance(new, bytes) else new.encode()
        res.append((line, kind, s, e, new))
    return res


def worker(args):
    wid, jobs, outdir = args
    wt = tempfile.mkdtemp(prefix='vfmsw_')
    os.rmdir(wt)
    subprocess.check_call(['git', '-C', '/repo', 'worktree', 'add', '-q', '--detach', wt, 'HEAD'])
    res_path = os.path.join(outdir, 'results.%d.jsonl' % wid)
    try:
        for path, checks, (line, kind, s, e, new) in jobs:
            fp = os.path.join(wt, path)
            orig = open(fp, 'rb').read()
            mut = orig[:s] + new + orig[e:]
            rec = {'file': path, 'line': line, 'kind': kind, 'old': orig[s:e].decode(), 'new': new.decode(),
                   'src': orig.split(b'\n')[line - 1].decode().strip()[:160]}
            try:
                try:
                    compile(mut, fp, 'exec')
                except SyntaxError:
                    rec['verdict'] = 'no-compile'
                    continue
                open(fp, 'wb').write(mut)
                try:
                    missing = baseline(wt)
                except Exception as e:  # noqa - pytest died or hung (no junit file): the mutant does not pass the pinned tests
                    missing = ['<%s>' % type(e).__name__]
                if missing:
                    rec['verdict'] = 'killed-by-tests'
                    rec['tests'] = len(missing)
                    continue
                rec['verdict'] = 'SURVIVED'
                rec['checks'] = {}
                for c in checks:
                    vout = tempfile.mkdtemp(prefix='vfmswout_')
                    try:
                        rc, o = run([PY, '-m', 'vf.run', c, '--tier', 'quick', '--no-shrink', '--shards', '4'], '/verif',
                                    dict(os.environ, VF_REPO=wt, VF_OUT=vout, PYTHONDONTWRITEBYTECODE='1', PYTHONHASHSEED='0'), timeout=1500)
                    except subprocess.TimeoutExpired:
                        rc, o = 1, 'bucket=TIMEOUT'
                    finally:
                        shutil.rmtree(vout, ignore_errors=True)
                    b = [l.strip()[:200] for l in o.splitlines() if l.strip().startswith('bucket=')][:2]
                    rec['checks'][c] = {1: 'CAUGHT', 2: 'HARNESS', 0: 'missed'}.get(rc, 'rc=%d' % rc)
                    if rc == 2:
                        rec.setdefault('harness_tail', {})[c] = o.strip().splitlines()[-3:]
                    if rc in (1, 2):
                        rec['verdict'] = 'caught' if rc == 1 else 'harness'
                        rec['by'] = c
                        rec['buckets'] = b
                        break
            finally:
                open(fp, 'wb').write(orig)
                with open(res_path, 'a') as f:
                    f.write(json.dumps(rec) + '\n')
    finally:
        subprocess.call(['git', '-C', '/repo', 'worktree', 'remove', '--force', wt])
        shutil.rmtree(wt, ignore_errors=True)
    return wid


def main():
    ap = argparse.ArgumentParser()
    ap.add_argument('--out', required=True)
    ap.add_argument('--per-file', type=int, default=12)
    ap.add_argument('--jobs', type=int, default=4)
    ap.add_argument('--seed', type=int, default=1)
    ap.add_argument('--files')
    ap.add_argument('--list', action='store_true')
    a = ap.parse_args()
    files = a.files.split(',') if a.files else sorted(FILEMAP)
    rnd = random.Random(a.seed)
    todo = []
    for path in files:
        src = open(os.path.join('/repo', path)).read()
        ms = mutants_of(src)
        if a.list:
            print(path, len(ms))
            continue
        rnd.shuffle(ms)
        for m in ms[:a.per_file]:
            todo.append((path, FILEMAP[path], m))
    if a.list:
        return 0
    os.makedirs(a.out, exist_ok=True)
    rnd.shuffle(todo)
    parts = [(i, todo[i::a.jobs], a.out) for i in range(a.jobs)]
    with multiprocessing.Pool(a.jobs) as pool:
        pool.map(worker, parts)
    recs = []
    for i in range(a.jobs):
        p = os.path.join(a.out, 'results.%d.jsonl' % i)
        if os.path.exists(p):
            recs += [json.loads(l) for l in open(p)]
    json.dump(recs, open(os.path.join(a.out, 'results.json'), 'w'), indent=1)
    from collections import Counter
    print(Counter(r['verdict'] for r in recs))
    for r in recs:
        if r['verdict'] in ('SURVIVED', 'harness'):
            print('%-8s %s:%d [%s] %s' % (r['verdict'], r['file'], r['line'], r['kind'], r['src']))
    return 0


if __name__ == '__main__':
    sys.exit(main())

"""Sensitivity helper (development only; not registered):

    python -m vf.mut Cxx path/in/repo.py 'old text' 'new text' [--tier quick] [--n N]
    python -m vf.mut Cxx --patch file.diff

Copies the library part of /repo to a scratch dir under /tmp, applies the edit there, runs the
check against it with evidence/replay output redirected to the scratch dir, prints the outcome
and removes the scratch dir.  /repo and /verif are never touched.
"""
import os
import sys
import shutil
import tempfile
import subprocess


def main():
    args = sys.argv[1:]
    prop = args.pop(0)
    extra = []
    while '--tier' in args or '--n' in args or '--seed' in args:
        for flag in ('--tier', '--n', '--seed'):
            if flag in args:
                i = args.index(flag)
                if flag == '--seed':
                    os.environ['VERIF_SEED'] = args[i + 1]
                else:
                    extra += [flag, args[i + 1]]
                del args[i:i + 2]
    tmp = tempfile.mkdtemp(prefix='vfmut_')
    try:
        for d in ('elftools', 'scripts', 'test'):
            src = os.path.join('/repo', d)
            if d == 'test':
                os.makedirs(os.path.join(tmp, d))
                for f in os.listdir(src):
                    if f.endswith('.py'):
                        shutil.copy(os.path.join(src, f), os.path.join(tmp, d, f))
                os.symlink(os.path.join(src, 'testfiles_for_readelf'), os.path.join(tmp, d, 'testfiles_for_readelf'))
                os.symlink(os.path.join(src, 'testfiles_for_unittests'), os.path.join(tmp, d, 'testfiles_for_unittests'))
                os.symlink(os.path.join(src, 'testfiles_for_dwarfdump'), os.path.join(tmp, d, 'testfiles_for_dwarfdump'))
            else:
                shutil.copytree(src, os.path.join(tmp, d), ignore=shutil.ignore_patterns('__pycache__'))
        if args[0] == '--patch':
            subprocess.check_call(['patch', '-p1', '-s', '-d', tmp, '-i', os.path.abspath(args[1])])
        else:
            path, old, new = args
            fp = os.path.join(tmp, path)
            s = open(fp).read()
            if s.count(old) != 1:
                print('MUT-ERROR: %d occurrences of old text' % s.count(old))
                return 3
            open(fp, 'w').write(s.replace(old, new))
        env = dict(os.environ, VF_REPO=tmp, VF_OUT=os.path.join(tmp, 'out'), PYTHONDONTWRITEBYTECODE='1')
        r = subprocess.run([sys.executable, '-m', 'vf.run', prop, '--no-shrink'] + extra, env=env, cwd='/verif',
                           stdout=subprocess.PIPE, stderr=subprocess.STDOUT, text=True)
        lines = r.stdout.strip().splitlines()
        keep = [l for l in lines if not l.startswith('KNOWN-FINDING')]
        print('\n'.join(keep[-12:]))
        print('MUT-RESULT rc=%d %s' % (r.returncode, 'CAUGHT' if r.returncode == 1 else ('HARNESS' if r.returncode == 2 else 'MISSED')))
        return 0
    finally:
        shutil.rmtree(tmp, ignore_errors=True)


if __name__ == '__main__':
    sys.exit(main())

"""C17 registry access: per-source (name -> set(values)) tables over the vendored headers.

The generic parsers in vf/registry/__init__.py evaluate glibc `#define`s line by line; that loses
every define whose trailing comment continues on the next line (DT_VERDEF, SYMINFO_FLG_LAZYLOAD ...)
and every define that refers to a name defined further down (DT_PROCNUM).  C17 needs the complete
tables, so this module re-parses the same vendored files:

  * comments are removed over the whole text first, continuation lines are joined;
  * `#define`s are evaluated lazily (fix-point), like the C preprocessor does;
  * LLVM enums are parsed with "implicit value = previous + 1" only while the previous value is known.

Every entry keeps its source label, so that a report can cite who says what.

    entries() -> list of (source, scope, name, value)
        source: 'glibc-2.36 elf.h' | 'LLVM-14 ELF.h' | 'LLVM-14 DynamicTags.def' | 'LLVM-14 ELFRelocs/<f>.def'
                | 'LLVM-14 Dwarf.def' | 'LLVM-14 Dwarf.h' | supplement labels from c17_supp.py
        scope : '' or a machine/OS key for entries that are only meaningful on that machine
                (dynamic tags of DynamicTags.def, ARM/RISC-V attribute tags)
"""
import os
import re
import functools

from vf import registry as R

HERE = os.path.dirname(os.path.abspath(__file__))

_NUM = r'0[xX][0-9a-fA-F]+|\d+'


def _strip_comments(txt):
    txt = re.sub(r'/\*.*?\*/', ' ', txt, flags=re.S)
    txt = re.sub(r'//[^\n]*', ' ', txt)
    return txt


def _eval_expr(expr, lookup):
    """Evaluate a C integer constant expression.  lookup(name) -> int or raises KeyError."""
    expr = expr.strip()
    expr = re.sub(r'\b(%s)[uUlL]+\b' % _NUM, r'\1', expr)
    expr = re.sub(r'\(\s*(unsigned|int|long|Elf32_Word|Elf64_Xword|Elf32_Half|uint32_t|uint64_t|unsigned\s+int|unsigned\s+long)\s*\)', '', expr)
    if not expr:
        return None
    if not re.fullmatch(r"[\w\s\(\)\+\-\*\|&<>~]+", expr):
        return None

    def sub(mo):
        w = mo.group(0)
        if re.fullmatch(_NUM, w):
            if re.fullmatch(r'0\d+', w):          # C octal
                return str(int(w, 8))
            return str(int(w, 0))
        return str(lookup(w))
    try:
        py = re.sub(r'[A-Za-z_]\w*|%s' % _NUM, sub, expr)
        return int(eval(py, {'__builtins__': {}}, {}))   # noqa: S307 - digits and operators only
    except KeyError:
        raise
    except Exception:
        return None


@functools.lru_cache(None)
def glibc_full():
    """{name: set(values)} for every object-like #define of the vendored glibc elf.h that evaluates
    to an integer."""
    txt = open(os.path.join(HERE, 'glibc_elf.h'), encoding='latin-1').read()
    txt = txt.replace('\\\n', ' ')
    txt = _strip_comments(txt)
    defs = []
    for line in txt.splitlines():
        mo = re.match(r'\s*#\s*define\s+([A-Za-z_]\w*)(\(.*?\))?\s+(.+?)\s*$', line)
        if not mo or mo.group(2):
            continue
        defs.append((mo.group(1), mo.group(3)))
    first = {}
    out = {}
    pending = list(defs)
    for _ in range(8):
        nxt = []
        for name, expr in pending:
            try:
                v = _eval_expr(expr, lambda w: first[w])
            except KeyError:
                nxt.append((name, expr))
                continue
            if v is None:
                continue
            first.setdefault(name, v)
            out.setdefault(name, set()).add(v)
        if len(nxt) == len(pending):
            break
        pending = nxt
    return out


@functools.lru_cache(None)
def llvm_elf_full():
    """{name: set(values)} from the enums of LLVM's ELF.h (relocation .def includes excluded)."""
    txt = open(os.path.join(HERE, 'llvm', 'ELF.h'), encoding='latin-1').read()
    txt = _strip_comments(txt)
    txt = '\n'.join(l for l in txt.splitlines() if not l.lstrip().startswith('#'))
    env = {}
    out = {}
    for mo in re.finditer(r'\benum\b[^{;]*\{(.*?)\}', txt, flags=re.S):
        prev = -1
        for item in mo.group(1).split(','):
            item = item.strip()
            if not item:
                continue
            if '=' in item:
                name, expr = item.split('=', 1)
                name = name.strip()
                try:
                    v = _eval_expr(expr, lambda w: env[w])
                except KeyError:
                    v = None
            else:
                name = item
                v = None if prev is None else prev + 1
            if not re.fullmatch(r'[A-Za-z_]\w*', name):
                prev = None
                continue
            prev = v
            if v is not None:
                env.setdefault(name, v)
                out.setdefault(name, set()).add(v)
    return out


@functools.lru_cache(None)
def entries():
    out = []
    for k, vs in glibc_full().items():
        for v in vs:
            out.append(('glibc-2.36 elf.h', '', k, v))
    for k, vs in llvm_elf_full().items():
        for v in vs:
            out.append(('LLVM-14 ELF.h', '', k, v))
    for mach, tab in R.llvm_dyn_tags().items():
        for k, v in tab.items():
            out.append(('LLVM-14 DynamicTags.def', mach, k, v))
    for stem, tab in R.llvm_relocs().items():
        for k, v in tab.items():
            out.append(('LLVM-14 ELFRelocs/%s.def' % stem, '', k, v))
    for k, v in R.llvm_dwarf().items():
        out.append(('LLVM-14 Dwarf.def/Dwarf.h', '', k, v))
    from vf.registry import c17_supp
    for label, scope, tab in c17_supp.TABLES:
        for k, v in tab.items():
            for vv in (v if isinstance(v, (tuple, list)) else (v,)):
                out.append((label, scope, k, vv))
    return out


@functools.lru_cache(None)
def by_name():
    """{name: {value: [source, ...]}}  (scope ignored: a name is unique across scopes except Tag_*)."""
    out = {}
    for src, scope, k, v in entries():
        out.setdefault(k, {}).setdefault(v, []).append(src)
    return out


@functools.lru_cache(None)
def scoped_by_name(scope):
    out = {}
    for src, sc, k, v in entries():
        if sc == scope:
            out.setdefault(k, {}).setdefault(v, []).append(src)
    return out

"""Vendored registries (verbatim copies from this image) and a small parser.

  glibc_elf.h            /usr/include/elf.h (glibc 2.36)
  llvm/ELF.h, DynamicTags.def, ELFRelocs/*.def, Dwarf.def, Dwarf.h   (LLVM 14 BinaryFormat)

API:
  elf_names()   -> {name: set(values)}      union of glibc + LLVM ELF constants
  elf_values(prefix, machine=None) -> {value: set(names)}
  dwarf_names() -> {name: set(values)}
  reloc_names(machine_key) -> {name: value} from LLVM ELFRelocs/<machine>.def / glibc
"""
import os
import re
import functools

HERE = os.path.dirname(os.path.abspath(__file__))


def _eval(expr, env):
    expr = re.sub(r'/\*.*?\*/', '', expr).strip()
    expr = re.sub(r'//.*$', '', expr).strip()
    expr = re.sub(r'\b(0[xX][0-9a-fA-F]+|\d+)[uUlL]+\b', r'\1', expr)
    expr = re.sub(r'\(\s*(unsigned|int|long|Elf32_Word|Elf64_Xword|uint32_t|uint64_t)\s*\)', '', expr)
    if not expr:
        return None
    if not re.fullmatch(r"[\w\s\(\)\+\-\*\|&<>~x']+", expr):
        return None
    def sub(mo):
        w = mo.group(0)
        if re.fullmatch(r'0[xX][0-9a-fA-F]+|\d+', w):
            return w
        if w in env:
            return str(env[w])
        raise KeyError(w)
    try:
        py = re.sub(r"[A-Za-z_]\w*|0[xX][0-9a-fA-F]+|\d+", sub, expr)
        py = re.sub(r'\b0+(\d)', r'\1', py)
        return int(eval(py, {'__builtins__': {}}, {}))
    except Exception:
        return None


@functools.lru_cache(None)
def glibc():
    env = {}
    txt = open(os.path.join(HERE, 'glibc_elf.h'), encoding='latin-1').read()
    txt = txt.replace('\\\n', ' ')
    for line in txt.splitlines():
        mo = re.match(r'\s*#\s*define\s+([A-Za-z_]\w*)\s+(.+)$', line)
        if not mo:
            continue
        name, expr = mo.group(1), mo.group(2)
        v = _eval(expr, env)
        if v is not None:
            env[name] = v
    return env


@functools.lru_cache(None)
def llvm_elf():
    """{name: value} from ELF.h enums, DynamicTags.def, ELFRelocs/*.def."""
    env = {}
    txt = open(os.path.join(HERE, 'llvm', 'ELF.h'), encoding='latin-1').read()
    txt = re.sub(r'/\*.*?\*/', '', txt, flags=re.S)
    lines = [re.sub(r'//.*$', '', l) for l in txt.splitlines()]
    body = '\n'.join(lines)
    for mo in re.finditer(r'enum(?:\s+\w+)?(?:\s*:\s*\w+)?\s*\{(.*?)\}', body, flags=re.S):
        prev = -1
        for item in mo.group(1).split(','):
            item = item.strip()
            if not item or item.startswith('#'):
                continue
            item = re.sub(r'#.*$', '', item, flags=re.M).strip()
            if not item:
                continue
            if '=' in item:
                name, expr = item.split('=', 1)
                name = name.strip()
                v = _eval(expr.strip(), env)
                if v is None:
                    continue
            else:
                name = item
                v = prev + 1
            if re.fullmatch(r'[A-Za-z_]\w*', name):
                env[name] = v
                prev = v
    return env


@functools.lru_cache(None)
def llvm_dyn_tags():
    """{machine or '': {DT_name: value}}"""
    out = {}
    txt = open(os.path.join(HERE, 'llvm', 'DynamicTags.def'), encoding='latin-1').read()
    for mo in re.finditer(r'^\s*(\w*?)_?DYNAMIC_TAG(?:_MARKER)?\((\w+),\s*(0x[0-9a-fA-F]+|\d+)\)', txt, flags=re.M):
        mach, name, val = mo.group(1), mo.group(2), int(mo.group(3), 0)
        out.setdefault(mach, {})['DT_' + name] = val
    return out


@functools.lru_cache(None)
def llvm_relocs():
    """{def-file stem: {R_name: value}}"""
    out = {}
    d = os.path.join(HERE, 'llvm', 'ELFRelocs')
    for fn in sorted(os.listdir(d)):
        tab = {}
        for mo in re.finditer(r'ELF_RELOC\((\w+),\s*(0x[0-9a-fA-F]+|\d+)\)', open(os.path.join(d, fn)).read()):
            tab[mo.group(1)] = int(mo.group(2), 0)
        out[fn[:-4]] = tab
    return out


@functools.lru_cache(None)
def llvm_dwarf():
    """{DW_xxx name: value} from Dwarf.def + Dwarf.h."""
    env = {}
    txt = open(os.path.join(HERE, 'llvm', 'Dwarf.def'), encoding='latin-1').read()
    txt = re.sub(r'/\*.*?\*/', '', txt, flags=re.S)
    kinds = {'TAG': 'DW_TAG_', 'AT': 'DW_AT_', 'FORM': 'DW_FORM_', 'OP': 'DW_OP_', 'LANG': 'DW_LANG_',
             'ATE': 'DW_ATE_', 'DEFAULTED': 'DW_DEFAULTED_', 'VIRTUALITY': 'DW_VIRTUALITY_', 'CC': 'DW_CC_',
             'LNE': 'DW_LNE_', 'LNS': 'DW_LNS_', 'LNCT': 'DW_LNCT_', 'MACRO': 'DW_MACRO_', 'MACRO_GNU': 'DW_MACRO_GNU_',
             'RLE': 'DW_RLE_', 'LLE': 'DW_LLE_', 'CFA': 'DW_CFA_', 'CFA_PRED': 'DW_CFA_', 'APPLE_PROPERTY': 'DW_APPLE_PROPERTY_',
             'UT': 'DW_UT_', 'SECTION': None, 'IDX': 'DW_IDX_', 'END': 'DW_END_', 'MACRO_FLAG': None}
    for mo in re.finditer(r'^\s*HANDLE_DW_(\w+?)\((0x[0-9a-fA-F]+|\d+),\s*(\w+)', txt, flags=re.M):
        kind, val, name = mo.group(1), int(mo.group(2), 0), mo.group(3)
        pre = kinds.get(kind)
        if pre:
            env.setdefault(pre + name, val)
    # Dwarf.h: plain enums (DW_CHILDREN_*, DW_ID_*, DW_ACCESS_*, DW_VIS_*, DW_INL_*, DW_ORD_*, DW_DSC_*, DW_EH_PE_*, ...)
    txt = open(os.path.join(HERE, 'llvm', 'Dwarf.h'), encoding='latin-1').read()
    txt = re.sub(r'/\*.*?\*/', '', txt, flags=re.S)
    txt = '\n'.join(re.sub(r'//.*$', '', l) for l in txt.splitlines())
    for mo in re.finditer(r'\b(DW_\w+)\s*=\s*(0x[0-9a-fA-F]+|\d+)\s*[,}]', txt):
        env.setdefault(mo.group(1), int(mo.group(2), 0))
    return env


@functools.lru_cache(None)
def elf_names():
    out = {}
    for src in (glibc(), llvm_elf()):
        for k, v in src.items():
            out.setdefault(k, set()).add(v)
    for mach, tab in llvm_dyn_tags().items():
        for k, v in tab.items():
            out.setdefault(k, set()).add(v)
    for stem, tab in llvm_relocs().items():
        for k, v in tab.items():
            out.setdefault(k, set()).add(v)
    return out


def elf_values(prefix):
    """{value: set(names)} over all registry names starting with prefix."""
    out = {}
    for k, vs in elf_names().items():
        if k.startswith(prefix):
            for v in vs:
                out.setdefault(v, set()).add(k)
    return out


def dwarf_names():
    return {k: {v} for k, v in llvm_dwarf().items()}

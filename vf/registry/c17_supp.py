"""C17 supplement registries: hand-transcribed (name, value) tables for constants that the vendored
glibc 2.36 elf.h and LLVM 14 headers do not define.  Only values I am certain of are listed; each table
names the governing document.  Where a second copy of the same registry exists on the build image
(LLVM Support/*.h, linux uapi headers, the `object` / `gimli` crates) the transcription was compared with it
once at development time; these copies are NOT read at run time.

Development-time confirmation of the transcription (2026-09-26, this image):
  * ARM_ATTR, RISCV_ATTR(4..12): identical to /usr/include/llvm-14/llvm/Support/{ARMBuildAttributes,RISCVAttributes}.h
  * LARCH_RELOC, R_ARM_THM_GOT_BREL12, SHT_AARCH64_ATTRIBUTES: identical to object-0.36.7 src/elf.rs
  * DW_OP_GNU_* (0xe0,0xf2..0xfc), DW_AT_LLVM_isysroot: identical to gimli-0.31.1 src/constants.rs;  EM_FRV: linux/elf-em.h
  * binutils 2.40 readelf over synthesized files prints the same names for: every DT_SUNW_* (OSABI Solaris),
    SHT_SUNW_LDYNSYM, SHT X86_64_UNWIND (=SHT_AMD64_UNWIND of Solaris), STV_EXPORTED/SINGLETON/ELIMINATE (Solaris),
    STT_RELC/SRELC, R_386_USED_BY_INTEL_200, R_*_GNU_VTINHERIT/VTENTRY (i386, x86-64, ppc64), R_PPC64_ADDR64_LOCAL,
    SHT_AARCH64_ATTRIBUTES, PT_AARCH64_ARCHEXT
  * not confirmable on the image, from the cited documents only: Tag_FramePointer_use, Tag_RISCV_atomic_abi/x3_reg_usage,
    EF_LOONGARCH_*, PT_AARCH64_UNWIND, SYMINFO_*, GNU_PROPERTY_X86_FEATURE_1_LAM_*, DT_ANDROID_RELRCOUNT, the GNU DWARF
    names not listed above.

Anything not listed here and not in the vendored headers stays *unreferenced* in the C17 evidence.

TABLES: list of (source label, scope, {name: value | (value, ...)})
   scope '' = ordinary name space; 'ARM' / 'RISCV' = build-attribute tags of that machine (the tag
   numbers 4.. mean different things on the two machines).
"""

# ---------------------------------------------------------------------------------------------
# ARM build attributes.  "Addenda to, and Errata in, the ABI for the Arm Architecture" (IHI 0045),
# section "Public aeabi attribute tags", table of tag numbers (2021Q1 and later for 48..52, 72..76).
# Same numbers: LLVM 14 llvm/Support/ARMBuildAttributes.h enum AttrType.
ARM_ATTR = dict(
    Tag_File=1, Tag_Section=2, Tag_Symbol=3,
    Tag_CPU_raw_name=4, Tag_CPU_name=5, Tag_CPU_arch=6, Tag_CPU_arch_profile=7,
    Tag_ARM_ISA_use=8, Tag_THUMB_ISA_use=9, Tag_FP_arch=10, Tag_WMMX_arch=11,
    Tag_Advanced_SIMD_arch=12, Tag_PCS_config=13, Tag_ABI_PCS_R9_use=14, Tag_ABI_PCS_RW_data=15,
    Tag_ABI_PCS_RO_data=16, Tag_ABI_PCS_GOT_use=17, Tag_ABI_PCS_wchar_t=18, Tag_ABI_FP_rounding=19,
    Tag_ABI_FP_denormal=20, Tag_ABI_FP_exceptions=21, Tag_ABI_FP_user_exceptions=22,
    Tag_ABI_FP_number_model=23, Tag_ABI_align_needed=24, Tag_ABI_align_preserved=25,
    Tag_ABI_enum_size=26, Tag_ABI_HardFP_use=27, Tag_ABI_VFP_args=28, Tag_ABI_WMMX_args=29,
    Tag_ABI_optimization_goals=30, Tag_ABI_FP_optimization_goals=31, Tag_compatibility=32,
    Tag_CPU_unaligned_access=34, Tag_FP_HP_extension=36, Tag_ABI_FP_16bit_format=38,
    Tag_MPextension_use=42, Tag_DIV_use=44, Tag_DSP_extension=46, Tag_MVE_arch=48,
    Tag_PAC_extension=50, Tag_BTI_extension=52,
    Tag_nodefaults=64, Tag_also_compatible_with=65, Tag_T2EE_use=66, Tag_conformance=67,
    Tag_Virtualization_use=68, Tag_MPextension_use_old=70, Tag_FramePointer_use=72,
    Tag_BTI_use=74, Tag_PACRET_use=76,
    # renamed in ABI r2.09, same numbers
    Tag_ABI_align8_needed=24, Tag_ABI_align8_preserved=25,
)

# RISC-V ELF psABI (riscv-elf-psabi-doc), chapter "Attributes", table "RISC-V attributes":
# Tag_RISCV_stack_align 4 ... Tag_RISCV_priv_spec_revision 12 (also LLVM 14 Support/RISCVAttributes.h),
# Tag_RISCV_atomic_abi 14 and Tag_RISCV_x3_reg_usage 16 (psABI v1.0+/2023).  Tag_File/Section/Symbol
# are the generic 1,2,3 of the attribute section format.
RISCV_ATTR = dict(
    Tag_File=1, Tag_Section=2, Tag_Symbol=3,
    Tag_RISCV_stack_align=4, Tag_RISCV_arch=5, Tag_RISCV_unaligned_access=6,
    Tag_RISCV_priv_spec=8, Tag_RISCV_priv_spec_minor=10, Tag_RISCV_priv_spec_revision=12,
    Tag_RISCV_atomic_abi=14, Tag_RISCV_x3_reg_usage=16,
)

# LoongArch ELF psABI (la-abi-specs laelf.adoc, v2.10 / 20230519), table "ELF relocation types",
# numbers 64..109 (0..58 are in glibc 2.36).  Compared with object-0.36.7 src/elf.rs on the image.
LARCH_RELOC = dict(
    R_LARCH_B16=64, R_LARCH_B21=65, R_LARCH_B26=66, R_LARCH_ABS_HI20=67, R_LARCH_ABS_LO12=68,
    R_LARCH_ABS64_LO20=69, R_LARCH_ABS64_HI12=70, R_LARCH_PCALA_HI20=71, R_LARCH_PCALA_LO12=72,
    R_LARCH_PCALA64_LO20=73, R_LARCH_PCALA64_HI12=74, R_LARCH_GOT_PC_HI20=75, R_LARCH_GOT_PC_LO12=76,
    R_LARCH_GOT64_PC_LO20=77, R_LARCH_GOT64_PC_HI12=78, R_LARCH_GOT_HI20=79, R_LARCH_GOT_LO12=80,
    R_LARCH_GOT64_LO20=81, R_LARCH_GOT64_HI12=82, R_LARCH_TLS_LE_HI20=83, R_LARCH_TLS_LE_LO12=84,
    R_LARCH_TLS_LE64_LO20=85, R_LARCH_TLS_LE64_HI12=86, R_LARCH_TLS_IE_PC_HI20=87,
    R_LARCH_TLS_IE_PC_LO12=88, R_LARCH_TLS_IE64_PC_LO20=89, R_LARCH_TLS_IE64_PC_HI12=90,
    R_LARCH_TLS_IE_HI20=91, R_LARCH_TLS_IE_LO12=92, R_LARCH_TLS_IE64_LO20=93, R_LARCH_TLS_IE64_HI12=94,
    R_LARCH_TLS_LD_PC_HI20=95, R_LARCH_TLS_LD_HI20=96, R_LARCH_TLS_GD_PC_HI20=97, R_LARCH_TLS_GD_HI20=98,
    R_LARCH_32_PCREL=99, R_LARCH_RELAX=100, R_LARCH_DELETE=101, R_LARCH_ALIGN=102,
    R_LARCH_PCREL20_S2=103, R_LARCH_CFA=104, R_LARCH_ADD6=105, R_LARCH_SUB6=106,
    R_LARCH_ADD_ULEB128=107, R_LARCH_SUB_ULEB128=108, R_LARCH_64_PCREL=109,
)

# LoongArch ELF psABI, section "e_flags: identifies ABI type and version": bits 2..0 base ABI modifier
# (1 soft, 2 single, 3 double float), bits 7..6 object-file ABI version (0 = v0, 1 = v1 -> 0x40).
# Spelling EF_LOONGARCH_* : LLVM >= 16 BinaryFormat/ELF.h; spelling EF_LARCH_* : glibc >= 2.36.
LARCH_EFLAGS = dict(
    EF_LOONGARCH_ABI_SOFT_FLOAT=0x1, EF_LOONGARCH_ABI_SINGLE_FLOAT=0x2, EF_LOONGARCH_ABI_DOUBLE_FLOAT=0x3,
    EF_LOONGARCH_ABI_MODIFIER_MASK=0x7, EF_LOONGARCH_OBJABI_V0=0x0, EF_LOONGARCH_OBJABI_V1=0x40,
    EF_LOONGARCH_OBJABI_MASK=0xC0,
)

# "ELF for the Arm 64-bit Architecture (AArch64)" (IHI 0056): section types table
# (SHT_AARCH64_ATTRIBUTES 0x70000003) and program header table (PT_AARCH64_ARCHEXT 0x70000000,
# PT_AARCH64_UNWIND 0x70000001).
# "ELF for the Arm Architecture" (IHI 0044) relocation table: 131 R_ARM_THM_GOT_BREL12.
ARM_PSABI = dict(
    SHT_AARCH64_ATTRIBUTES=0x70000003, PT_AARCH64_ARCHEXT=0x70000000, PT_AARCH64_UNWIND=0x70000001,
    R_ARM_THM_GOT_BREL12=131,
)

# Oracle Solaris "Linker and Libraries Guide" (819-0690), chapter 13 Object File Format:
# tables "ELF Dynamic Array Tags", "ELF Section Types, sh_type", "ELF Symbol Visibility",
# Syminfo si_boundto / si_flags; <sys/link.h>, <sys/elf.h>, <sys/elf_amd64.h> of illumos.
# Same numbers in binutils include/elf/common.h.
SOLARIS = dict(
    DT_SUNW_AUXILIARY=0x6000000d, DT_SUNW_RTLDINF=0x6000000e, DT_SUNW_FILTER=0x6000000f,
    DT_SUNW_CAP=0x60000010, DT_SUNW_SYMTAB=0x60000011, DT_SUNW_SYMSZ=0x60000012,
    DT_SUNW_ENCODING=0x60000013, DT_SUNW_SORTENT=0x60000013, DT_SUNW_SYMSORT=0x60000014,
    DT_SUNW_SYMSORTSZ=0x60000015, DT_SUNW_TLSSORT=0x60000016, DT_SUNW_TLSSORTSZ=0x60000017,
    DT_SUNW_CAPINFO=0x60000018, DT_SUNW_STRPAD=0x60000019, DT_SUNW_CAPCHAIN=0x6000001a,
    DT_SUNW_LDMACH=0x6000001b, DT_SUNW_CAPCHAINENT=0x6000001d, DT_SUNW_CAPCHAINSZ=0x6000001f,
    SHT_SUNW_LDYNSYM=0x6ffffff3,
    SHT_AMD64_UNWIND=0x70000001,
    STV_EXPORTED=4, STV_SINGLETON=5, STV_ELIMINATE=6,
    SYMINFO_BT_NONE=0xfffd, SYMINFO_BT_EXTERN=0xfffc,
    SYMINFO_FLG_FILTER=0x0002, SYMINFO_FLG_DIRECTBIND=0x0010, SYMINFO_FLG_NOEXTDIRECT=0x0020,
    SYMINFO_FLG_AUXILIARY=0x0040, SYMINFO_FLG_INTERPOSE=0x0080, SYMINFO_FLG_CAP=0x0100,
    SYMINFO_FLG_DEFERRED=0x0200,
)

# GNU binutils include/elf/common.h (2.40): STT_RELC/STT_SRELC complex relocation symbols,
# GNU_PROPERTY_X86_FEATURE_1_LAM_U48/U57 (also x86-64 psABI 1.0, "Program property" table);
# include/elf/i386.h, x86-64.h, ppc64.h: vtable GC relocations and R_386_USED_BY_INTEL_200;
# 64-bit ELFv2 ABI (OpenPOWER) table 3.5.3: R_PPC64_ADDR64_LOCAL 117, GNU_VTINHERIT 253, GNU_VTENTRY 254.
# linux uapi elf-em.h: EM_FRV 0x5441.   Android bionic libc/include/elf.h: DT_ANDROID_RELRCOUNT.
GNU_MISC = dict(
    STT_RELC=8, STT_SRELC=9,
    GNU_PROPERTY_X86_FEATURE_1_LAM_U48=4, GNU_PROPERTY_X86_FEATURE_1_LAM_U57=8,
    R_386_USED_BY_INTEL_200=200, R_386_GNU_VTINHERIT=250, R_386_GNU_VTENTRY=251,
    R_X86_64_GNU_VTINHERIT=250, R_X86_64_GNU_VTENTRY=251,
    R_PPC64_ADDR64_LOCAL=117, R_PPC64_GNU_VTINHERIT=253, R_PPC64_GNU_VTENTRY=254,
    EM_FRV=0x5441,
    DT_ANDROID_RELRCOUNT=0x6fffe005,
)

# GNU binutils 2.40 include/elf/arm.h and include/elf/ppc64.h: the spellings `readelf -r` prints (checked with the
# live /usr/bin/readelf 2.40 on synthesized objects by the C18 machinery).  binutils reuses 13 (the obsolete
# R_ARM_SWI24 of glibc) for R_ARM_TLS_DESC (also LLVM ARM.def), writes the ALU_PCREL group without the second
# underscore, and calls PPC64 relocation 37 R_PPC64_REL30 (glibc: R_PPC64_ADDR30).  The readelf clone's
# *descriptions* follow binutils since /repo commit e5a74aa; the enum names keep the glibc/LLVM spelling.
BINUTILS_RELOC_NAMES = dict(
    R_ARM_TLS_DESC=13, R_ARM_ALU_PCREL7_0=32, R_ARM_ALU_PCREL15_8=33, R_ARM_ALU_PCREL23_15=34,
    R_PPC64_REL30=37,
)

# GNU DWARF registry: gcc/binutils include/dwarf2.def and dwarf2.h (binutils 2.40), which is what
# `readelf --debug-dump` prints.  DW_TAG_template_*_param are the GNU spellings of the DWARF
# DW_TAG_template_*_parameter; DW_AT_stride_size is the DWARF v2 name of 0x2e (DW_AT_bit_stride
# since v3; DW_AT_DUP in dwarf2.def), DW_AT_stride the DWARF v3-draft name of 0x51 (DW_AT_DUP).
# DW_AT_LLVM_isysroot: LLVM <= 10 Dwarf.def name of 0x3e02 (renamed DW_AT_LLVM_sysroot in LLVM 11).
GNU_DWARF = dict(
    DW_TAG_template_type_param=0x2f, DW_TAG_template_value_param=0x30,
    DW_AT_stride_size=0x2e, DW_AT_stride=0x51,
    DW_AT_LLVM_isysroot=0x3e02,
    DW_OP_GNU_push_tls_address=0xe0, DW_OP_GNU_uninit=0xf0, DW_OP_GNU_encoded_addr=0xf1,
    DW_OP_GNU_implicit_pointer=0xf2, DW_OP_GNU_entry_value=0xf3, DW_OP_GNU_const_type=0xf4,
    DW_OP_GNU_regval_type=0xf5, DW_OP_GNU_deref_type=0xf6, DW_OP_GNU_convert=0xf7,
    DW_OP_GNU_reinterpret=0xf9, DW_OP_GNU_parameter_ref=0xfa, DW_OP_GNU_addr_index=0xfb,
    DW_OP_GNU_const_index=0xfc, DW_OP_GNU_variable_value=0xfd,
    DW_LANG_Mips_Assembler=0x8001, DW_LANG_Upc=0x8765,
    DW_LANG_HP_Bliss=0x8003, DW_LANG_HP_Basic91=0x8004, DW_LANG_HP_Pascal91=0x8005,
    DW_LANG_HP_IMacro=0x8006, DW_LANG_HP_Assembler=0x8007,
    DW_ATE_void=0x0,
    DW_ATE_HP_float80=0x80, DW_ATE_HP_complex_float80=0x81, DW_ATE_HP_float128=0x82,
    DW_ATE_HP_complex_float128=0x83, DW_ATE_HP_floathpintel=0x84, DW_ATE_HP_imaginary_float80=0x85,
    DW_ATE_HP_imaginary_float128=0x86,
)

# Names that a registry header keeps only as a *deprecated alias* of another, primary name and that no
# published version of the governing standard ever assigned: valid input for name -> value, but never "the
# standard name" of the code (value -> name).
#   DW_AT_stride: name of a DWARF v3 draft; DWARF v3/v4/v5 (Table 7.5) call 0x51 DW_AT_byte_stride; GNU dwarf2.h:
#   "#define DW_AT_stride DW_AT_byte_stride /* Note: The use of DW_AT_stride is deprecated. */".
#   (DW_AT_stride_size is different: it IS the DWARF v2 name of 0x2e and therefore accepted in both directions.)
DEPRECATED_ALIASES = frozenset(['DW_AT_stride'])

TABLES = [
    ('Arm ABI addenda IHI0045 (build attributes)', 'ARM', ARM_ATTR),
    ('RISC-V ELF psABI (attributes)', 'RISCV', RISCV_ATTR),
    ('LoongArch ELF psABI v2.10 (relocations)', '', LARCH_RELOC),
    ('LoongArch ELF psABI v2.10 (e_flags)', '', LARCH_EFLAGS),
    ('Arm aaelf64 IHI0056 / aaelf32 IHI0044', '', ARM_PSABI),
    ('Oracle Solaris Linker and Libraries Guide / binutils elf/common.h', '', SOLARIS),
    ('binutils-2.40 include/elf, psABIs, linux uapi, bionic', '', GNU_MISC),
    ('binutils-2.40 include/elf/arm.h, ppc64.h (names printed by readelf -r)', '', BINUTILS_RELOC_NAMES),
    ('GNU dwarf2.def/dwarf2.h (binutils 2.40), DWARF v2, LLVM<=10 Dwarf.def', '', GNU_DWARF),
]

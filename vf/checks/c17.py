"""C17 - symbolic names and numeric codes follow the ELF and DWARF registries (exhaustive)."""
import io
import os
import re
import shutil
import struct
import tempfile
import subprocess

from hypothesis import strategies as st

from vf.enc import elf as W
from vf.registry import c17_sources as S
from vf.registry import c17_supp

ID = 'C17'
RULE = ('exhaustive: every (table, name, value) of elf/enums.py (ENUM_*, ENUMMAP_*), elf/constants.py (flag classes), '
        'dwarf/enums.py (ENUM_DW_*, DW_EH_encoding_flags, DW_FORM_raw2name), dwarf/constants.py (DW_* ints), '
        'DW_OP_name2opcode / DW_OP_opcode2name and callframe._OPCODE_NAME_MAP is evaluated once (bulk) in two directions: '
        '(a) name->value against the vendored glibc 2.36 elf.h, LLVM 14 ELF.h / DynamicTags.def / ELFRelocs/*.def / '
        'Dwarf.def / Dwarf.h and the cited supplement tables of vf/registry/c17_supp.py; (b) value->name: the name the '
        'library reports for the code (ELFFile over a synthesized file for e_ident/e_type/e_machine/e_version/sh_type/'
        'p_type/d_tag/symbol fields, describe_reloc_type over a synthesized file of the machine for relocation types, '
        'the Enum adapter of the real ELFStructs/DWARFStructs instance otherwise) must be one of the registry names of '
        'that code in the same name space (prefix family; processor-specific ranges only with names of the same '
        'machine; names a registry keeps only as deprecated alias do not count). Relocation codes on which every '
        'vendored registry is silent (the V800/V850 table) are refereed by `readelf -rW` (binutils 2.40) over a '
        'synthesized object when readelf is installed. The Hypothesis part re-draws (table, name) pairs so that replay '
        'files work. Non-trivial: the pair has a registry reference (its name, or the ABI spelling of it, is defined by a '
        'vendored/supplement registry, or - V800/V850 only - the code is known to the live readelf). '
        'Distinct by (table, name).')
N = {'quick': 200, 'thorough': 2000}
# the child interpreter (-O -bb, C locale) runs the enumeration too: what a name is translated to must not depend on the interpreter mode
ALIEN_BULK = True
ASSUMPTIONS = [
    'vendored glibc 2.36 elf.h and LLVM 14 BinaryFormat headers are faithful registries; where they disagree (EM_ALPHA, '
    'SHT_HIUSER, DT_LOOS, DT_HIOS) either value is accepted',
    'supplement tables (vf/registry/c17_supp.py) are transcribed correctly from the documents they cite',
    'count markers (*_NUM, DT_PROCNUM) are header-version bookkeeping, not registry codes: excluded from the comparison',
    'a name that no registry defines is unreferenced (reported in the evidence), never a violation',
    'value->name is judged only for codes that a registry defines in the name space of the table; names of other '
    'machines / operating systems in processor- or OS-specific ranges do not count',
    'ARM / RISC-V attribute tags: library spelling TAG_X is compared with the ABI spelling Tag_x / Tag_RISCV_x case-insensitively',
    'ENUM_RELOC_TYPE_V850 transcribes binutils v800_reloc_type (RH850 ABI), the number space readelf applies to e_machine '
    'EM_V800 (36); binutils readelf is consulted only for codes that no vendored or supplement registry defines, and its '
    'absence only lowers coverage (counter readelf_referee.unavailable)',
    'machine numbers, section/segment/tag codes used to synthesize the probe files are gABI/psABI constants written into the '
    'check, not read from the library',
]

COUNT_MARKER = re.compile(r'(_NUM|PROCNUM)$')

# machine numbers used for the synthesized files: gABI / psABI values, deliberately NOT read from the library
M_386, M_MIPS, M_MIPS_RS3_LE, M_PPC, M_PPC64, M_S390, M_V800, M_ARM, M_X64, M_AARCH64, M_RISCV, M_LARCH = \
    3, 8, 10, 20, 21, 22, 36, 40, 62, 183, 243, 258
OSABI_SOLARIS = 6

PROC_LO, PROC_HI = 0x70000000, 0x7fffffff


# ---------------------------------------------------------------------------------------------
# name-space predicates over registry entries (name, value)

def P(*prefixes, exclude=None):
    ex = re.compile(exclude) if exclude else None

    def ok(name, value):
        return name.startswith(prefixes) and not (ex and ex.search(name))
    return ok


def RANGED(prefix, generic, mach=(), exclude=None):
    """prefix family whose PROC_LO..PROC_HI range is machine specific: there only `generic` names and
    names starting with one of `mach` belong to the name space."""
    ex = re.compile(exclude) if exclude else None
    mach = tuple(mach)

    def ok(name, value):
        if not name.startswith(prefix) or (ex and ex.search(name)):
            return False
        if PROC_LO <= value <= PROC_HI:
            return name in generic or (bool(mach) and name.startswith(mach))
        return True
    return ok


SHT_GEN = ('SHT_LOPROC', 'SHT_HIPROC')
PT_GEN = ('PT_LOPROC', 'PT_HIPROC')
DT_GEN = ('DT_LOPROC', 'DT_HIPROC', 'DT_AUXILIARY', 'DT_USED', 'DT_FILTER')

# table id -> configuration
#   ns     : predicate(name, value) selecting the registry names of the table's name space (direction b)
#   rep    : how the library reports a code of this table (see Lib.reported)
#   bases  : tables this one is derived from (identical pairs are attributed to the base: one root cause, one bucket)
#   scope  : 'ARM' / 'RISCV' for attribute-tag tables
CFG = {
    'elf.enums.ENUM_EI_CLASS': dict(ns=P('ELFCLASS'), rep=('ehdr', 'EI_CLASS')),
    'elf.enums.ENUM_EI_DATA': dict(ns=P('ELFDATA'), rep=('ehdr', 'EI_DATA')),
    'elf.enums.ENUM_E_VERSION': dict(ns=P('EV_'), rep=('ehdr', 'e_version')),
    'elf.enums.ENUM_EI_OSABI': dict(ns=P('ELFOSABI_'), rep=('ehdr', 'EI_OSABI')),
    'elf.enums.ENUM_E_TYPE': dict(ns=P('ET_'), rep=('ehdr', 'e_type')),
    'elf.enums.ENUM_E_MACHINE': dict(ns=P('EM_'), rep=('ehdr', 'e_machine')),
    'elf.enums.ENUM_SH_TYPE_BASE': dict(ns=RANGED('SHT_', SHT_GEN), rep=('shdr', M_PPC)),
    'elf.enums.ENUM_SH_TYPE_AMD64': dict(ns=RANGED('SHT_', SHT_GEN, ('SHT_X86_64_', 'SHT_AMD64_')), rep=('shdr', M_X64),
                                         bases=('elf.enums.ENUM_SH_TYPE_BASE',)),
    'elf.enums.ENUM_SH_TYPE_ARM': dict(ns=RANGED('SHT_', SHT_GEN, ('SHT_ARM_',)), rep=('shdr', M_ARM),
                                       bases=('elf.enums.ENUM_SH_TYPE_BASE',)),
    'elf.enums.ENUM_SH_TYPE_AARCH64': dict(ns=RANGED('SHT_', SHT_GEN, ('SHT_AARCH64_',)), rep=('shdr', M_AARCH64),
                                           bases=('elf.enums.ENUM_SH_TYPE_BASE',)),
    'elf.enums.ENUM_SH_TYPE_RISCV': dict(ns=RANGED('SHT_', SHT_GEN, ('SHT_RISCV_',)), rep=('shdr', M_RISCV),
                                         bases=('elf.enums.ENUM_SH_TYPE_BASE',)),
    'elf.enums.ENUM_SH_TYPE_MIPS': dict(ns=RANGED('SHT_', SHT_GEN, ('SHT_MIPS_',)), rep=('shdr', M_MIPS),
                                        bases=('elf.enums.ENUM_SH_TYPE_BASE',)),
    'elf.enums.ENUM_ELFCOMPRESS_TYPE': dict(ns=P('ELFCOMPRESS_'), rep=('adapter', 'generic', 'ch_type')),
    'elf.enums.ENUM_P_TYPE_BASE': dict(ns=RANGED('PT_', PT_GEN), rep=('phdr', M_PPC)),
    'elf.enums.ENUM_P_TYPE_ARM': dict(ns=RANGED('PT_', PT_GEN, ('PT_ARM_',)), rep=('phdr', M_ARM),
                                      bases=('elf.enums.ENUM_P_TYPE_BASE',)),
    'elf.enums.ENUM_P_TYPE_AARCH64': dict(ns=RANGED('PT_', PT_GEN, ('PT_AARCH64_',)), rep=('phdr', M_AARCH64),
                                          bases=('elf.enums.ENUM_P_TYPE_BASE',)),
    'elf.enums.ENUM_P_TYPE_MIPS': dict(ns=RANGED('PT_', PT_GEN, ('PT_MIPS_',)), rep=('phdr', M_MIPS),
                                       bases=('elf.enums.ENUM_P_TYPE_BASE',)),
    'elf.enums.ENUM_P_TYPE_RISCV': dict(ns=RANGED('PT_', PT_GEN, ('PT_RISCV_',)), rep=('phdr', M_RISCV),
                                        bases=('elf.enums.ENUM_P_TYPE_BASE',)),
    'elf.enums.ENUM_ST_INFO_BIND': dict(ns=P('STB_'), rep=('sym', 'bind')),
    'elf.enums.ENUM_ST_INFO_TYPE': dict(ns=P('STT_'), rep=('sym', 'type')),
    'elf.enums.ENUM_ST_VISIBILITY': dict(ns=P('STV_'), rep=('sym', 'visibility')),
    'elf.enums.ENUM_ST_LOCAL': dict(ns=P('STO_'), rep=('enum',)),
    'elf.enums.ENUM_ST_SHNDX': dict(ns=P('SHN_'), rep=('sym', 'st_shndx')),
    'elf.enums.ENUM_D_TAG_COMMON': dict(ns=RANGED('DT_', DT_GEN, exclude=r'^DT_SUNW_'), rep=('dyn', M_PPC, 0)),
    'elf.enums.ENUM_D_TAG_SOLARIS': dict(ns=RANGED('DT_', DT_GEN, exclude=r'^DT_ANDROID_'), rep=('dyn', M_386, OSABI_SOLARIS)),
    'elf.enums.ENUM_D_TAG_MIPS': dict(ns=RANGED('DT_', DT_GEN, ('DT_MIPS_',), exclude=r'^DT_SUNW_'), rep=('dyn', M_MIPS, 0)),
    'elf.enums.ENUM_D_TAG_AARCH64': dict(ns=RANGED('DT_', DT_GEN, ('DT_AARCH64_',), exclude=r'^DT_SUNW_'), rep=('dyn', M_AARCH64, 0)),
    'elf.enums.ENUM_D_TAG': dict(ns=P('DT_'), rep=('descr', '_DESCR_D_TAG'),
                                 bases=('elf.enums.ENUM_D_TAG_COMMON', 'elf.enums.ENUM_D_TAG_SOLARIS',
                                        'elf.enums.ENUM_D_TAG_MIPS', 'elf.enums.ENUM_D_TAG_AARCH64')),
    'elf.enums.ENUM_DT_FLAGS': dict(ns=P('DF_', exclude=r'^DF_(1|P1)_'), rep=('enum',)),
    'elf.enums.ENUM_DT_FLAGS_1': dict(ns=P('DF_1_'), rep=('enum',)),
    'elf.enums.ENUM_RELOC_TYPE_MIPS': dict(ns=P('R_MIPS_', 'R_MIPS16_', 'R_MICROMIPS_'), rep=('reloc', M_MIPS)),
    'elf.enums.ENUM_RELOC_TYPE_i386': dict(ns=P('R_386_'), rep=('reloc', M_386)),
    'elf.enums.ENUM_RELOC_TYPE_x64': dict(ns=P('R_X86_64_'), rep=('reloc', M_X64)),
    'elf.enums.ENUM_RELOC_TYPE_BPF': dict(ns=P('R_BPF_'), rep=('enum',)),
    'elf.enums.ENUM_RELOC_TYPE_LOONGARCH': dict(ns=P('R_LARCH_'), rep=('reloc', M_LARCH)),
    'elf.enums.ENUM_RELOC_TYPE_S390X': dict(ns=P('R_390_'), rep=('reloc', M_S390)),
    'elf.enums.ENUM_RELOC_TYPE_ARM': dict(ns=P('R_ARM_'), rep=('reloc', M_ARM)),
    'elf.enums.ENUM_RELOC_TYPE_AARCH64': dict(ns=P('R_AARCH64_'), rep=('reloc', M_AARCH64), readelf=M_AARCH64),
    'elf.enums.ENUM_RELOC_TYPE_PPC64': dict(ns=P('R_PPC64_'), rep=('reloc', M_PPC64)),
    'elf.enums.ENUM_RELOC_TYPE_PPC': dict(ns=P('R_PPC_'), rep=('reloc', M_PPC)),
    'elf.enums.ENUM_RELOC_TYPE_V850': dict(ns=P('R_V8'), rep=('enum',), readelf=M_V800),
    'elf.enums.ENUM_SUNW_SYMINFO_BOUNDTO': dict(ns=P('SYMINFO_BT_'), rep=('adapter', 'generic', 'si_boundto')),
    'elf.enums.ENUM_VERSYM': dict(ns=P('VER_NDX_'), rep=('adapter', 'generic', 'ndx')),
    'elf.enums.ENUM_NOTE_N_TYPE': dict(ns=P('NT_GNU_'), rep=('adapter', 'generic', 'n_type')),
    'elf.enums.ENUM_CORE_NOTE_N_TYPE': dict(ns=P('NT_', exclude=r'^NT_GNU_'), rep=('adapter', 'core', 'n_type')),
    'elf.enums.ENUM_NOTE_ABI_TAG_OS': dict(ns=P('ELF_NOTE_OS_'), rep=('adapter', 'generic', 'abi_os')),
    'elf.enums.ENUM_NOTE_GNU_PROPERTY_TYPE': dict(ns=P('GNU_PROPERTY_', exclude=r'^GNU_PROPERTY_\w+_FEATURE_1_(?!AND$)'),
                                                  rep=('adapter', 'generic', 'pr_type')),
    'elf.enums.ENUM_GNU_PROPERTY_X86_FEATURE_1_FLAGS': dict(ns=P('GNU_PROPERTY_X86_FEATURE_1_', exclude=r'_AND$'), rep=('enum',)),
    'elf.enums.ENUM_ATTR_TAG_ARM': dict(ns=P('Tag_'), scope='ARM', rep=('adapter', 'arm', 'tag')),
    'elf.enums.ENUM_ATTR_TAG_RISCV': dict(ns=P('Tag_'), scope='RISCV', rep=('adapter', 'riscv', 'tag')),
    'elf.enums.ENUMMAP_EXTRA_D_TAG_MACHINE': dict(kind='map'),
    # flag / index classes: no reverse map in the library
    'elf.constants.E_FLAGS': dict(ns=P('EF_'), rep=None),
    'elf.constants.E_FLAGS_MASKS': dict(ns=P('EFM_'), rep=None),
    'elf.constants.SHN_INDICES': dict(ns=P('SHN_'), rep=None),
    'elf.constants.SH_FLAGS': dict(ns=P('SHF_'), rep=None),
    'elf.constants.RH_FLAGS': dict(ns=P('RHF_'), rep=None),
    'elf.constants.P_FLAGS': dict(ns=P('PF_'), rep=None),
    'elf.constants.SUNW_SYMINFO_FLAGS': dict(ns=P('SYMINFO_FLG_'), rep=None),
    'elf.constants.VER_FLAGS': dict(ns=P('VER_FLG_'), rep=None),
    # DWARF
    'dwarf.enums.ENUM_DW_TAG': dict(ns=P('DW_TAG_'), rep=('dwadapter', 'tag')),
    'dwarf.enums.ENUM_DW_CHILDREN': dict(ns=P('DW_CHILDREN_'), rep=('dwadapter', 'children_flag')),
    'dwarf.enums.ENUM_DW_AT': dict(ns=P('DW_AT_'), rep=('dwadapter', 'name')),
    'dwarf.enums.ENUM_DW_FORM': dict(ns=P('DW_FORM_'), rep=('dwadapter', 'form'), also=(('raw2name',),)),
    'dwarf.enums.DW_FORM_raw2name': dict(ns=P('DW_FORM_'), rep=('self',), kind='rev', bases=('dwarf.enums.ENUM_DW_FORM',)),
    'dwarf.enums.DW_EH_encoding_flags': dict(ns=P('DW_EH_PE_'), rep=('enum',)),
    'dwarf.enums.ENUM_DW_LNCT': dict(ns=P('DW_LNCT_'), rep=('dwadapter', 'content_type')),
    'dwarf.enums.ENUM_DW_UT': dict(ns=P('DW_UT_'), rep=('dwadapter', 'unit_type')),
    'dwarf.enums.ENUM_DW_LLE': dict(ns=P('DW_LLE_'), rep=('dwadapter', 'entry_type', 'Dwarf_loclists_entries')),
    'dwarf.enums.ENUM_DW_RLE': dict(ns=P('DW_RLE_'), rep=('dwadapter', 'entry_type', 'Dwarf_rnglists_entries')),
    'dwarf.enums.ENUM_DW_LANG': dict(ns=P('DW_LANG_'), rep=('enum',)),
    'dwarf.enums.ENUM_DW_ATE': dict(ns=P('DW_ATE_'), rep=('enum',)),
    'dwarf.enums.ENUM_DW_ACCESS': dict(ns=P('DW_ACCESS_'), rep=('enum',)),
    'dwarf.enums.ENUM_DW_INL': dict(ns=P('DW_INL_'), rep=('enum',)),
    'dwarf.enums.ENUM_DW_CC': dict(ns=P('DW_CC_'), rep=('enum',)),
    'dwarf.constants': dict(ns=P('DW_'), ns_by_family=True, rep=('cfa',)),
    'dwarf.dwarf_expr.DW_OP_name2opcode': dict(ns=P('DW_OP_'), rep=('opname',)),
    'dwarf.dwarf_expr.DW_OP_opcode2name': dict(ns=P('DW_OP_'), rep=('self',), kind='rev',
                                               bases=('dwarf.dwarf_expr.DW_OP_name2opcode',)),
    'dwarf.callframe._OPCODE_NAME_MAP': dict(ns=P('DW_CFA_'), rep=('self',), kind='rev', bases=('dwarf.constants',)),
}

# machine family of the DT_ names a machine key of ENUMMAP_EXTRA_D_TAG_MACHINE may select
# (EM_MIPS_RS3_LE is the little-endian MIPS R3000 number: same psABI, same DT_MIPS_* tags)
MAP_FAMILY = {'EM_MIPS': 'MIPS', 'EM_MIPS_RS3_LE': 'MIPS', 'EM_AARCH64': 'AARCH64', 'EM_PPC': 'PPC', 'EM_PPC64': 'PPC64',
              'EM_HEXAGON': 'HEXAGON', 'EM_QDSP6': 'HEXAGON', 'EM_RISCV': 'RISCV', 'EM_SPARC': 'SPARC', 'EM_SPARCV9': 'SPARC',
              'EM_ALPHA': 'ALPHA', 'EM_IA_64': 'IA_64', 'EM_ALTERA_NIOS2': 'NIOS2', 'EM_X86_64': 'X86_64', 'EM_386': '386',
              'EM_ARM': 'ARM'}


# ---------------------------------------------------------------------------------------------
# library side

class Table:
    def __init__(self, tid, pairs, kind, obj=None):
        self.id, self.pairs, self.kind, self.obj = tid, pairs, kind, obj
        self.byname = {}
        for n, v in pairs:
            self.byname.setdefault(n, v)
        self.cfg = CFG.get(tid, {})


class Lib:
    def __init__(self):
        import elftools.elf.enums as ee
        import elftools.elf.constants as ec
        import elftools.dwarf.enums as de
        import elftools.dwarf.constants as dc
        import elftools.dwarf.dwarf_expr as dx
        import elftools.dwarf.callframe as cf
        import elftools.elf.descriptions as ed
        from elftools.elf.elffile import ELFFile
        from elftools.elf.structs import ELFStructs
        from elftools.dwarf.structs import DWARFStructs
        from elftools.construct import Enum, ULInt32
        from elftools.construct.adapters import MappingAdapter
        from elftools.construct.core import Construct
        self.ELFFile, self.ed, self.Enum, self.ULInt32 = ELFFile, ed, Enum, ULInt32
        self.MappingAdapter, self.Construct = MappingAdapter, Construct
        self.ELFStructs, self.DWARFStructs = ELFStructs, DWARFStructs
        self.tables = {}

        def add(tid, pairs, kind, obj=None):
            self.tables[tid] = Table(tid, pairs, kind, obj)

        def ints(d):
            return [(k, v) for k, v in d.items() if isinstance(k, str) and k != '_default_' and isinstance(v, int)
                    and not isinstance(v, bool)]

        for k, v in vars(ee).items():
            if not isinstance(v, dict) or not k.startswith('ENUM'):
                continue
            if v and all(isinstance(x, dict) for x in v.values()):
                add('elf.enums.' + k, [(n, None) for n in v], 'map', v)
            else:
                add('elf.enums.' + k, ints(v), 'dict', v)
        for k, v in vars(ec).items():
            if isinstance(v, type) and v.__module__ == ec.__name__:
                add('elf.constants.' + k, [(n, x) for n, x in vars(v).items()
                                           if not n.startswith('_') and isinstance(x, int) and not isinstance(x, bool)], 'class', v)
        for k, v in vars(de).items():
            if not isinstance(v, dict) or k.startswith('_'):
                continue
            if v and all(isinstance(x, str) for x in v.values()):
                add('dwarf.enums.' + k, [(n, c) for c, n in v.items() if isinstance(c, int) and n != '_default_'], 'rev', v)
            else:
                add('dwarf.enums.' + k, ints(v), 'dict', v)
        add('dwarf.constants', [(n, x) for n, x in vars(dc).items()
                                if n.startswith('DW_') and isinstance(x, int) and not isinstance(x, bool)], 'module', dc)
        add('dwarf.dwarf_expr.DW_OP_name2opcode', ints(dx.DW_OP_name2opcode), 'dict', dx.DW_OP_name2opcode)
        add('dwarf.dwarf_expr.DW_OP_opcode2name', [(n, c) for c, n in dx.DW_OP_opcode2name.items()], 'rev', dx.DW_OP_opcode2name)
        add('dwarf.callframe._OPCODE_NAME_MAP', [(n, c) for c, n in cf._OPCODE_NAME_MAP.items()], 'rev', cf._OPCODE_NAME_MAP)
        self._elf_cache = {}
        self._adapters = {}
        self._enum_cache = {}
        self._readelf = {}

    # -- synthesized files -------------------------------------------------------------------
    @staticmethod
    def model(e_machine=M_PPC, osabi=0, cls=64, le=True, e_type=2, e_version=1, ei_version=1, sections=(), segments=()):
        secs = [{'name': ''}] + [dict(s) for s in sections]
        secs.append({'name': '.shstrtab', 'sh_type': 3, 'sh_addralign': 1})
        return {'cls': cls, 'le': le, 'osabi': osabi, 'e_type': e_type, 'e_machine': e_machine, 'e_version': e_version,
                'ei_version': ei_version, 'sections': secs, 'shstrndx': len(secs) - 1, 'segments': [dict(p) for p in segments]}

    def parse(self, m):
        data, _ = W.build(m)
        return self.ELFFile(io.BytesIO(data))

    def machine_file(self, machine, osabi=0):
        key = (machine, osabi)
        if key not in self._elf_cache:
            cls = 32 if machine in (M_386, M_ARM, M_PPC, M_MIPS, M_MIPS_RS3_LE) else 64
            self._elf_cache[key] = self.parse(self.model(e_machine=machine, osabi=osabi, cls=cls,
                                                         le=machine not in (M_PPC, M_PPC64, M_S390)))
        return self._elf_cache[key]

    # -- adapters of real struct instances ---------------------------------------------------
    def _walk(self, con, out, seen):
        if id(con) in seen:
            return
        seen.add(id(con))
        if isinstance(con, self.MappingAdapter):
            out.append(con)
        for attr in ('subcon', 'inner_subcon', 'default'):
            sub = getattr(con, attr, None)
            if isinstance(sub, self.Construct):
                self._walk(sub, out, seen)
        for sub in (getattr(con, 'subcons', None) or ()):
            if isinstance(sub, self.Construct):
                self._walk(sub, out, seen)
        cases = getattr(con, 'cases', None)
        if isinstance(cases, dict):
            for sub in cases.values():
                if isinstance(sub, self.Construct):
                    self._walk(sub, out, seen)

    def adapters_of(self, key):
        """{field name: [MappingAdapter, ...]} over every construct hanging off a structs instance."""
        if key in self._adapters:
            return self._adapters[key]
        if key == 'dwarf':
            holder = self.DWARFStructs(little_endian=True, dwarf_format=32, address_size=8, dwarf_version=5)
        else:
            ctx = {'generic': ('ET_EXEC', 'EM_PPC64', 'ELFOSABI_SYSV'), 'core': ('ET_CORE', 'EM_PPC64', 'ELFOSABI_SYSV'),
                   'arm': ('ET_REL', 'EM_ARM', 'ELFOSABI_SYSV'), 'riscv': ('ET_REL', 'EM_RISCV', 'ELFOSABI_SYSV')}[key]
            holder = self.ELFStructs(little_endian=True, elfclass=64)
            holder.create_basic_structs()
            holder.create_advanced_structs(*ctx)
        res = {}
        for aname, con in sorted(vars(holder).items()):
            found = []
            if isinstance(con, self.Construct):
                self._walk(con, found, set())
            elif isinstance(con, dict):
                for sub in con.values():
                    if isinstance(sub, self.Construct):
                        self._walk(sub, found, set())
            for ad in found:
                res.setdefault((ad.subcon.name if getattr(ad, 'subcon', None) is not None else ad.name), []).append((aname, ad))
        self._adapters[key] = res
        return res

    def lib_enum(self, tid):
        if tid not in self._enum_cache:
            t = self.tables[tid]
            kw = dict(t.obj) if t.kind == 'dict' else dict(t.pairs)
            kw = {k: v for k, v in kw.items() if isinstance(k, str)}
            self._enum_cache[tid] = self.Enum(self.ULInt32('x'), **kw)
        return self._enum_cache[tid]

    # -- live referee: binutils readelf, only consulted where every vendored registry is silent ------
    def readelf_names(self, tid):
        """{code: name printed by `readelf -rW`} for every code of relocation table tid, or None when
        readelf is not installed / fails.  One synthesized ET_REL file per table."""
        if tid in self._readelf:
            return self._readelf[tid]
        res = None
        exe = shutil.which('readelf')
        t = self.tables[tid]
        mach = t.cfg.get('readelf')
        if exe and mach is not None:
            cls = 32 if mach in (M_386, M_ARM, M_PPC, M_MIPS, M_V800) else 64
            le = mach not in (M_PPC, M_PPC64, M_S390)
            # every code of the table plus the whole dense range, so that the referee also yields name -> code
            codes = sorted({v for _, v in t.pairs} | set(range(0, 256 if cls == 32 else 1100)))
            rel = b''.join(W.enc_rel(cls, le, 4 * i, 1, c, addend=0) for i, c in enumerate(codes))
            sym = W.enc_sym(cls, le, 0, 0, 0, 0, 0, 0) + W.enc_sym(cls, le, 1, 0, 0, 0x12, 0, 1)
            m = {'cls': cls, 'le': le, 'osabi': 0, 'e_type': 1, 'e_machine': mach, 'e_version': 1, 'segments': [],
                 'sections': [{'name': ''},
                              {'name': '.text', 'sh_type': 1, 'sh_flags': 6, 'data': b'\0' * (4 * len(codes) + 4), 'sh_addralign': 4},
                              {'name': '.rela.text', 'sh_type': 4, 'data': rel, 'sh_link': 3, 'sh_info': 1,
                               'sh_entsize': 12 if cls == 32 else 24, 'sh_addralign': 8},
                              {'name': '.symtab', 'sh_type': 2, 'data': sym, 'sh_link': 4, 'sh_info': 1,
                               'sh_entsize': W.SYM_SIZE[cls], 'sh_addralign': 8},
                              {'name': '.strtab', 'sh_type': 3, 'data': b'\0foo\0'},
                              {'name': '.shstrtab', 'sh_type': 3}], 'shstrndx': 5}
            data, _ = W.build(m)
            fd, path = tempfile.mkstemp(prefix='c17_', suffix='.o')
            try:
                with os.fdopen(fd, 'wb') as f:
                    f.write(data)
                r = subprocess.run([exe, '-rW', path], stdout=subprocess.PIPE, stderr=subprocess.PIPE, text=True,
                                   timeout=60, env=dict(os.environ, LC_ALL='C'))
                if r.returncode == 0:
                    res = {}
                    for line in r.stdout.splitlines():
                        f = line.split()
                        if len(f) >= 3 and re.fullmatch(r'[0-9a-f]{8,16}', f[0]) and re.fullmatch(r'[0-9a-f]{8,16}', f[1]):
                            idx = int(f[0], 16) // 4
                            if int(f[0], 16) % 4 == 0 and idx < len(codes) and f[2].startswith('R_'):
                                res[codes[idx]] = f[2]
            except Exception:  # noqa - referee unavailable
                res = None
            finally:
                try:
                    os.unlink(path)
                except OSError:
                    pass
        self._readelf[tid] = res
        return res

    # -- "what does the library report for this code" ------------------------------------------
    def reported(self, ctx, t, name, code, rep='cfg'):
        """-> (reported name or None when the library has no reporting path, how)"""
        if rep == 'cfg':
            rep = t.cfg.get('rep', ('enum',) if t.kind == 'dict' else None)
        if rep is None:
            return None, 'none'
        how = rep[0]
        if how == 'ehdr':
            return self._rep_ehdr(ctx, t, rep[1], code), 'elffile.header'
        if how == 'shdr':
            return self._rep_shdr(ctx, rep[1], code), 'elffile.section'
        if how == 'phdr':
            return self._rep_phdr(ctx, rep[1], code), 'elffile.segment'
        if how == 'dyn':
            return self._rep_dyn(ctx, rep[1], rep[2], code), 'elffile.dynamic'
        if how == 'sym':
            return self._rep_sym(ctx, rep[1], code), 'elffile.symbol'
        if how == 'reloc':
            r = self.ed.describe_reloc_type(code, self.machine_file(rep[1]))
            ctx.count('reporter.describe_reloc_type')
            return r, 'describe_reloc_type'
        if how == 'descr':
            ctx.count('reporter.descr_map')
            return getattr(self.ed, rep[1]).get(code, code), rep[1]
        if how == 'self':
            ctx.count('reporter.reverse_map')
            return t.obj.get(code), 'reverse map'
        if how == 'cfa':
            # callframe.instruction_name() is the library's CFA opcode -> name path (readelf clone, CFI dumps)
            if not name.startswith('DW_CFA_'):
                return None, 'none'
            import elftools.dwarf.callframe as cf
            ctx.count('reporter.instruction_name')
            return cf.instruction_name(code), 'callframe.instruction_name'
        if how == 'raw2name':
            import elftools.dwarf.enums as de
            ctx.count('reporter.reverse_map')
            return de.DW_FORM_raw2name.get(code, code), 'DW_FORM_raw2name'
        if how == 'opname':
            import elftools.dwarf.dwarf_expr as dx
            ctx.count('reporter.reverse_map')
            return dx.DW_OP_opcode2name.get(code, code), 'DW_OP_opcode2name'
        if how in ('adapter', 'dwadapter'):
            key, field = ('dwarf', rep[1]) if how == 'dwadapter' else (rep[1], rep[2])
            want_attr = rep[2] if how == 'dwadapter' and len(rep) > 2 else None
            for aname, ad in self.adapters_of(key).get(field, ()):
                if want_attr and aname != want_attr:
                    continue
                if ad.encoding.get(name) == code:
                    ctx.count('reporter.struct_adapter')
                    return ad._decode(code, None), '%s.%s adapter' % (aname, field)
            ctx.count('reporter.adapter_not_found')
        ctx.count('reporter.enum_over_table')
        return self.lib_enum(t.id)._decode(code, None), 'construct Enum over the table'

    def _rep_ehdr(self, ctx, t, field, code):
        kw = {}
        if field == 'EI_CLASS':
            if code not in (1, 2):
                return self._struct_ehdr(ctx, field, code)
            kw['cls'] = 32 if code == 1 else 64
        elif field == 'EI_DATA':
            if code not in (1, 2):
                return self._struct_ehdr(ctx, field, code)
            kw['le'] = code == 1
        elif field == 'e_version':
            kw['e_version'] = code
            kw['ei_version'] = code
        elif field == 'EI_OSABI':
            kw['osabi'] = code
        elif field == 'e_type':
            kw['e_type'] = code
        elif field == 'e_machine':
            kw['e_machine'] = code
        try:
            elf = self.parse(self.model(**kw))
        except Exception as e:  # noqa
            ctx.count('e2e.fallback_struct')
            ctx.count('e2e.fallback_struct.%s' % type(e).__name__)
            return self._struct_ehdr(ctx, field, code)
        ctx.count('e2e.ehdr')
        hdr = elf.header
        if field.startswith('EI_'):
            return hdr['e_ident'][field]
        if field == 'e_version' and hdr['e_ident']['EI_VERSION'] != hdr['e_version']:
            return '%s/%s' % (hdr['e_ident']['EI_VERSION'], hdr['e_version'])
        return hdr[field]

    def _struct_ehdr(self, ctx, field, code):
        for aname, ad in self.adapters_of('generic').get(field, ()):
            ctx.count('reporter.struct_adapter')
            return ad._decode(code, None)
        return None

    def _rep_shdr(self, ctx, machine, code):
        r = self._rep_shdr_cell(ctx, machine, code, 64, True)
        if code >= 0x60000000:
            # what a processor- or OS-specific code is called is a matter of e_machine / OS ABI alone (elf.h, ELF.h): not of the class or the
            # byte order of the container (x32, n32, ILP32 objects are ELFCLASS32 files of 64-bit machines)
            for cls, le in ((32, True), (32, False), (64, False)):
                r2 = self._rep_shdr_cell(ctx, machine, code, cls, le)
                if r2 != r:
                    return ('depends-on-container', 'ELF64 LSB: %r' % (r,), 'ELF%d %s: %r' % (cls, 'LSB' if le else 'MSB', r2))
        return r

    def _rep_shdr_cell(self, ctx, machine, code, cls, le):
        # gABI numbers (not the library's): sections whose sh_link must name a symbol table / fixed entry sizes
        link = 3 if code in (4, 5, 9, 18, 0x6ffffff6, 0x6ffffffc, 0x6fffffff) else 2
        symsz = W.SYM_SIZE[cls]
        entsize = {9: 16 if cls == 64 else 8, 19: cls // 8}.get(code, symsz)
        sym = W.enc_sym(cls, le, 0, 0, 0, 0, 0, 0) + W.enc_sym(cls, le, 1, 0x10, 4, 0x12, 0, 1)
        elf = self.parse(self.model(e_machine=machine, cls=cls, le=le, sections=[
            {'name': '.c17', 'sh_type': code, 'data': b'A' + b'\0' * 47, 'sh_link': link, 'sh_entsize': entsize, 'sh_addralign': 1},
            {'name': '.strx', 'sh_type': 3, 'data': b'\0abc\0'},
            {'name': '.symx', 'sh_type': 2, 'data': sym, 'sh_link': 2, 'sh_info': 1, 'sh_entsize': symsz, 'sh_addralign': 8}]))
        try:
            sec = elf.get_section(1)
            ctx.count('e2e.shdr')
            return sec['sh_type']
        except Exception as e:  # noqa
            ctx.count('e2e.shdr_header_only')
            ctx.count('e2e.shdr_header_only.%s' % type(e).__name__)
            return elf._get_section_header(1)['sh_type']

    def _rep_phdr(self, ctx, machine, code):
        elf = self.parse(self.model(e_machine=machine, segments=[
            {'p_type': code, 'p_offset': 0, 'p_filesz': 0, 'p_memsz': 0, 'p_align': 1}]))
        try:
            seg = elf.get_segment(0)
            ctx.count('e2e.phdr')
            return seg['p_type']
        except Exception as e:  # noqa
            ctx.count('e2e.phdr_header_only')
            ctx.count('e2e.phdr_header_only.%s' % type(e).__name__)
            return elf._get_segment_header(0)['p_type']

    def _rep_dyn(self, ctx, machine, osabi, code):
        cls, le = 64, True
        payload = W.enc_dyn(cls, le, code, 1) + W.enc_dyn(cls, le, 0, 0)
        elf = self.parse(self.model(e_machine=machine, osabi=osabi, e_type=3, sections=[
            {'name': '.dynamic', 'sh_type': 6, 'data': payload, 'sh_link': 2, 'sh_entsize': 16, 'sh_addralign': 8},
            {'name': '.dynstr', 'sh_type': 3, 'data': b'\0abc\0'}]))
        sec = elf.get_section(1)
        for tag in sec.iter_tags():
            ctx.count('e2e.dyn')
            return tag.entry.d_tag
        return None

    def _rep_sym(self, ctx, field, code):
        cls, le = 64, True
        bind = code if field == 'bind' else 1
        typ = code if field == 'type' else 1
        vis = code if field == 'visibility' else 0
        shndx = code if field == 'st_shndx' else 1
        payload = W.enc_sym(cls, le, 0, 0, 0, 0, 0, 0) + W.enc_sym(cls, le, 1, 0x10, 4, (bind << 4) | typ, vis, shndx)
        elf = self.parse(self.model(sections=[
            {'name': '.symtab', 'sh_type': 2, 'data': payload, 'sh_link': 2, 'sh_info': 1, 'sh_entsize': 24, 'sh_addralign': 8},
            {'name': '.strtab', 'sh_type': 3, 'data': b'\0abc\0'}]))
        sym = elf.get_section(1).get_symbol(1)
        ctx.count('e2e.sym')
        if field in ('bind', 'type'):
            return sym.entry['st_info'][field]
        if field == 'visibility':
            return sym.entry['st_other']['visibility']
        return sym.entry['st_shndx']


_lib = None


def lib():
    global _lib
    if _lib is None:
        _lib = Lib()
    return _lib


# ---------------------------------------------------------------------------------------------
# registry side

_reg = {}


def reg_index():
    """name -> {value: [sources]} (unscoped) ; scope -> upper-cased short tag name -> [(name, value, source)]"""
    if not _reg:
        byname = {}
        scoped = {}
        for src, scope, k, v in S.entries():
            if k.startswith('Tag_'):
                short = k[4:]
                if scope == 'RISCV' and short.startswith('RISCV_'):
                    short = short[6:]
                scoped.setdefault(scope, {}).setdefault(short.upper(), []).append((k, v, src))
                continue
            byname.setdefault(k, {}).setdefault(v, []).append(src)
        _reg['byname'] = byname
        _reg['scoped'] = scoped
        # scoped dynamic tags: name -> set(machine scopes) from DynamicTags.def
        dts = {}
        for src, scope, k, v in S.entries():
            if src.endswith('DynamicTags.def') and scope:
                dts.setdefault(k, set()).add(scope)
        _reg['dt_scope'] = dts
        _reg['ns_cache'] = {}
    return _reg


def references(t, name):
    """-> {value: [(registry name, source), ...]} of the registry definitions that `name` of table t refers to."""
    R = reg_index()
    out = {}
    scope = t.cfg.get('scope')
    if scope:
        if name.startswith('TAG_'):
            for k, v, src in R['scoped'].get(scope, {}).get(name[4:].upper(), ()):
                out.setdefault(v, []).append((k, src))
        return out
    for v, srcs in R['byname'].get(name, {}).items():
        for s in srcs:
            out.setdefault(v, []).append((name, s))
    return out


def ns_names(t, code, name=None):
    """registry names of `code` in the name space of table t -> {registry name: [sources]}.
    Tables mixing several families (dwarf.constants) restrict the name space to the family DW_XXX_ of `name`."""
    R = reg_index()
    ns = t.cfg.get('ns')
    if ns is None:
        return {}
    key = t.id
    if t.cfg.get('ns_by_family') and name:
        mo = re.match(r'DW_[A-Z]+_', name)
        if mo:
            key = (t.id, mo.group(0))
            ns = P(mo.group(0))
    if key not in R['ns_cache']:
        idx = {}
        scope = t.cfg.get('scope')
        if scope:
            for short, lst in R['scoped'].get(scope, {}).items():
                for k, v, src in lst:
                    idx.setdefault(v, {}).setdefault(k, []).append(src)
        else:
            for k, vals in R['byname'].items():
                for v, srcs in vals.items():
                    if ns(k, v) and not COUNT_MARKER.search(k) and k not in c17_supp.DEPRECATED_ALIASES:
                        idx.setdefault(v, {}).setdefault(k, []).extend(srcs)
        R['ns_cache'][key] = idx
    return R['ns_cache'][key].get(code, {})


def same_name(t, libname, regname):
    if t.cfg.get('scope'):
        short = regname[4:]
        if t.cfg['scope'] == 'RISCV' and short.startswith('RISCV_'):
            short = short[6:]
        return libname.startswith('TAG_') and libname[4:].upper() == short.upper()
    return libname == regname


def fmt_refs(refs):
    parts = []
    for v in sorted(refs):
        who = sorted({'%s in %s' % (n, s) for n, s in refs[v]})
        parts.append('%#x (%s)' % (v, '; '.join(who[:4])))
    return ', '.join(parts)


# ---------------------------------------------------------------------------------------------

def origin_of(L, t, name, value):
    """first base table that holds the identical pair (one root cause -> one bucket)."""
    for b in t.cfg.get('bases', ()):
        bt = L.tables.get(b)
        if bt is not None and bt.byname.get(name) == value:
            return origin_of(L, bt, name, value)
    return t


def _check_b(ctx, L, t, name, value, rep_desc, case):
    """value -> name for one reporting path.  -> True when a registry comparison took place."""
    tid = t.id
    try:
        rep, how = L.reported(ctx, t, name, value, rep_desc)
    except Exception as e:  # noqa - unexpected library exception while reporting a code it lists itself
        ctx.fail_exc('report|%s' % tid, e, case)
        return False
    if rep is None:
        return False
    if not isinstance(rep, str):
        ctx.fail('value2name|%s|%s|not_named' % (tid, name),
                 '%s: code %#x of %s is reported as %r (via %s), not by a name' % (tid, value, name, rep, how), case)
        return False
    if t.kind != 'rev' and rep not in t.byname and 'describe_' in how and any(same_name(t, rep, rn) for rn in ns_names(t, value, name)):
        # a *description* (what the readelf clone prints) may use another registry's spelling of the same code
        ctx.count('value2name.description_uses_other_registry_spelling')
    elif t.kind != 'rev' and rep not in t.byname:
        ctx.fail('value2name|%s|%s|foreign_name' % (tid, name),
                 '%s: code %#x is reported as %s (via %s), which is not a name of the table' % (tid, value, rep, how), case)
    elif t.kind != 'rev' and t.byname.get(rep) != value:
        ctx.fail('value2name|%s|%s|other_code' % (tid, name),
                 '%s: code %#x is reported as %s whose table value is %#x' % (tid, value, rep, t.byname[rep]), case)
    names = ns_names(t, value, name)
    if rep != name and rep in t.byname and not COUNT_MARKER.search(rep):
        rr = references(t, rep)
        if rr and t.byname[rep] not in rr:
            # the reported name carries a wrong number itself: that pair fails direction (a); same root cause
            ctx.count('value2name.attributed_to_name2value')
            return False
    if not names:
        return False
    if not any(same_name(t, rep, rn) for rn in names):
        # attribute to the base table when it reports the same thing
        o = t
        for b in t.cfg.get('bases', ()):
            bt = L.tables.get(b)
            if bt is not None and bt.byname.get(rep) == value and bt.kind != 'map':
                o = origin_of(L, bt, rep, value)
                break
        ctx.fail('value2name|%s|%s' % (o.id, rep),
                 '%s: code %#x (%d) is reported as %s (via %s) but the registries name it %s'
                 % (t.id, value, value, rep, how,
                    ', '.join('%s [%s]' % (n, '; '.join(sorted(set(s))[:3])) for n, s in sorted(names.items()))),
                 case)
    return True


def _run(ctx, case, bulk):
    L = lib()
    tid, name = case.get('table'), case.get('name')
    t = L.tables.get(tid)
    if t is not None and name not in t.byname and case.get('value') is not None and t.kind != 'map':
        # replay of a constant that a later fix renamed: follow the code to the name that carries it now
        same = [n for n, v in t.pairs if v == case['value']]
        if same:
            ctx.count('renamed_case')
            name = same[0]
    if t is None or name not in t.byname:
        # a replay file whose constant was removed by a later fix: nothing to evaluate
        ctx.count('stale_case')
        ctx.case(('stale', tid, name), False)
        return
    value = t.byname[name]
    tag = 'bulk' if bulk else 'redraw'

    if t.kind == 'map':
        _run_map(ctx, L, t, name, case, tag)
        return

    # ---- direction (a): name -> value
    a_failed = False
    if COUNT_MARKER.search(name):
        refs = {}
        ctx.count('%s.excluded_count_marker' % tag)
        if bulk:
            ctx.count('count_marker|%s|%s' % (tid, name))
    else:
        refs = references(t, name)
    referenced = bool(refs)
    if referenced and value not in refs:
        a_failed = True
        o = origin_of(L, t, name, value)
        ctx.fail('name2value|%s|%s' % (o.id, name),
                 '%s[%s] = %#x (%d) but the registries assign %s' % (o.id, name, value, value, fmt_refs(refs)), case)

    # ---- direction (b): value -> name, through the primary reporting path and every further one configured
    b_checked = False
    if not a_failed:
        for rep_desc in ('cfg',) + tuple(t.cfg.get('also', ())):
            if _check_b(ctx, L, t, name, value, rep_desc, case):
                b_checked = True

    # ---- live referee for relocation names/codes on which every vendored registry is silent (V800/V850 family ...)
    live = False
    if t.cfg.get('readelf') is not None and not referenced and not a_failed and not COUNT_MARKER.search(name):
        names = L.readelf_names(tid)
        if names is None:
            ctx.count('%s.readelf_referee.unavailable' % tag)
        else:
            name2code = {}
            for c, n in names.items():
                name2code.setdefault(n, set()).add(c)
            if name in name2code:
                live = True
                ok = value in name2code[name]
                ctx.count('%s.readelf_referee.name2value.%s' % (tag, 'agree' if ok else 'disagree'))
                if not ok:
                    ctx.fail('name2value.readelf|%s|%s' % (tid, name),
                             '%s[%s] = %#x (%d); no vendored registry defines the name; binutils readelf -rW on an '
                             'e_machine=%d object prints this name for code(s) %s'
                             % (tid, name, value, value, t.cfg['readelf'], sorted(name2code[name])), case)
            if not ns_names(t, value, name) and (not live or value in name2code.get(name, ())):
                if value not in names:
                    ctx.count('%s.readelf_referee.code_unknown_to_readelf' % tag)
                else:
                    live = True
                    rep, how = L.reported(ctx, t, name, value)
                    ctx.count('%s.readelf_referee.value2name.%s' % (tag, 'agree' if names[value] == rep else 'disagree'))
                    if names[value] != rep:
                        ctx.fail('value2name.readelf|%s|%s' % (tid, rep),
                                 '%s: code %#x (%d) is reported as %s (via %s); no vendored registry defines the code; binutils '
                                 'readelf -rW on an e_machine=%d object names it %s'
                                 % (tid, value, value, rep, how, t.cfg['readelf'], names[value]), case)

    nontrivial = referenced or live
    ctx.case(('pair', tid, name), nontrivial,
             {'table': tid, 'name': name, 'value': value, 'registry_values': sorted(refs), 'value2name_checked': b_checked})
    if bulk:
        ctx.count('pairs')
        if referenced:
            ctx.count('referenced')
            ctx.count('referenced.%s' % tid)
        elif live:
            ctx.count('referenced_by_live_readelf_only')
            ctx.count('referenced_by_live_readelf_only.%s' % tid)
        elif not COUNT_MARKER.search(name):
            ctx.count('unreferenced')
            ctx.count('unreferenced.%s' % tid)
            ctx.count('unreferenced_name|%s|%s' % (tid, name))
        if b_checked:
            ctx.count('value2name_checked')
            ctx.count('value2name_checked.%s' % tid)
    else:
        ctx.count('redraw.%s' % ('referenced' if referenced else 'unreferenced'))


def _run_map(ctx, L, t, name, case, tag):
    """ENUMMAP_EXTRA_D_TAG_MACHINE: key must be a machine name of ENUM_E_MACHINE; every DT_ name of the selected table
    that LLVM's DynamicTags.def scopes to a machine must be scoped to the machine family of the key."""
    R = reg_index()
    em = L.tables.get('elf.enums.ENUM_E_MACHINE')
    sub = t.obj[name]
    ok_key = em is not None and name in em.byname
    if not ok_key:
        ctx.fail('enummap|%s|%s|unknown_machine' % (t.id, name), '%s key %s is not a name of ENUM_E_MACHINE' % (t.id, name), case)
    fam = MAP_FAMILY.get(name)
    checked = 0
    for dn in sub:
        if dn == '_default_':
            continue
        scopes = R['dt_scope'].get(dn)
        if scopes and fam:
            checked += 1
            if fam not in scopes:
                ctx.fail('enummap|%s|%s|foreign_tag' % (t.id, name),
                         '%s[%s] selects %s which DynamicTags.def defines for %s only' % (t.id, name, dn, sorted(scopes)), case)
    ctx.case(('pair', t.id, name), checked > 0, {'table': t.id, 'name': name, 'scoped_tags_checked': checked})
    if tag == 'bulk':
        ctx.count('pairs')
        ctx.count('referenced' if checked else 'unreferenced')
        ctx.count(('referenced.%s' if checked else 'unreferenced.%s') % t.id)


def run_case(ctx, case):
    if case.get('exposure'):
        before = _table_image(Lib())
        expose(ctx, lib(), 0, 1)
        compare_tables(ctx, before, 'after files of every machine / OS ABI combination were read')
        ctx.case(('exposure',), True)
        return
    _run(ctx, case, bulk=False)


def all_pairs():
    L = lib()
    out = []
    for tid, t in L.tables.items():
        for n, v in t.byname.items():
            out.append((tid, n, v))
    return out


def _table_image(L):
    return {tid: sorted((str(n), repr(v)) for n, v in t.pairs) for tid, t in L.tables.items()}


def expose(ctx, L, shard, nshards):
    """Use the library on files of every (e_machine, EI_OSABI) combination of its own tables (this shard's share of them): header,
    section / segment types, dynamic tags, symbols, relocations with their descriptions, notes.  The tables are module-level objects shared
    by every file of the process: whatever was opened before, they must still say what the registries say.  Everything evaluated after
    this phase (the whole bulk) runs in a process that has seen these files."""
    import elftools.elf.enums as ee
    ed = L.ed
    machines = sorted(set(v for k, v in ee.ENUM_E_MACHINE.items() if isinstance(v, int) and k != '_default_'))
    osabis = sorted(set(v for k, v in ee.ENUM_EI_OSABI.items() if isinstance(v, int) and k != '_default_'))
    combos = [(m, o) for m in machines for o in osabis]
    for i, (m, o) in enumerate(combos):
        if i % nshards != shard:
            continue
        cls = 32 if (m in (M_386, M_ARM, M_PPC, M_MIPS, M_MIPS_RS3_LE) or i % 7 == 3) else 64
        le = m not in (M_PPC, M_PPC64, M_S390)
        dyn = b''.join(W.enc_dyn(cls, le, t, 1) for t in (1, 0x6000000d, 0x6000000f, 0x60000011, 0x6ffffef5, 0x70000001, 0x70000003, 0x7ffffffd, 0))
        sym = W.enc_sym(cls, le, 0, 0, 0, 0, 0, 0) + W.enc_sym(cls, le, 1, 0x10, 4, 0x12, 0, 1)
        rel = b''.join(struct.pack(W.E(le) + ('II' if cls == 32 else 'QQ'), 0x10, (1 << (8 if cls == 32 else 32)) | t) for t in (0, 1, 2, 7, 22))
        try:
            elf = L.parse(L.model(e_machine=m, osabi=o, cls=cls, le=le, e_type=3, sections=[
                {'name': '.dynamic', 'sh_type': 6, 'data': dyn, 'sh_link': 2, 'sh_entsize': W.DYN_SIZE[cls], 'sh_addralign': 8},
                {'name': '.dynstr', 'sh_type': 3, 'data': b'\0abc\0'},
                {'name': '.symtab', 'sh_type': 2, 'data': sym, 'sh_link': 2, 'sh_info': 1, 'sh_entsize': W.SYM_SIZE[cls], 'sh_addralign': 8},
                {'name': '.rel.text', 'sh_type': 9, 'data': rel, 'sh_link': 3, 'sh_info': 5, 'sh_entsize': 8 if cls == 32 else 16, 'sh_addralign': 8},
                {'name': '.text', 'sh_type': 1, 'sh_flags': 6, 'data': b'\0' * 32},
                {'name': '.mach', 'sh_type': 0x70000001, 'data': b''},
                {'name': '.os', 'sh_type': 0x6ffffff5, 'data': b''},
                {'name': '.note', 'sh_type': 7, 'data': W.enc_note(le, b'GNU\0', bytes(range(20)), 3)}],
                segments=[{'p_type': 0x70000001, 'p_offset': 0, 'p_filesz': 0, 'p_memsz': 0, 'p_align': 1},
                          {'p_type': 0x6474e551, 'p_offset': 0, 'p_filesz': 0, 'p_memsz': 0, 'p_align': 1}]))
            for sec in elf.iter_sections():
                ed.describe_sh_type(sec['sh_type'])
                ed.describe_sh_flags(sec['sh_flags'])
                if hasattr(sec, 'iter_tags'):
                    for tag in sec.iter_tags():
                        ed.describe_dyn_tag(tag.entry.d_tag)
                elif hasattr(sec, 'iter_symbols'):
                    for sy in sec.iter_symbols():
                        ed.describe_symbol_type(sy['st_info']['type'])
                elif hasattr(sec, 'iter_relocations'):
                    for r in sec.iter_relocations():
                        ed.describe_reloc_type(r['r_info_type'], elf)
                elif hasattr(sec, 'iter_notes'):
                    for nt in sec.iter_notes():
                        ed.describe_note(nt, elf['e_machine'])
            for seg in elf.iter_segments():
                ed.describe_p_type(seg['p_type'])
            ed.describe_e_machine(elf['e_machine'])
            ed.describe_e_type(elf['e_type'], elf)
            ed.describe_ei_osabi(elf['e_ident']['EI_OSABI'])
            ctx.count('exposure.files')
            if o and m in (M_MIPS, M_MIPS_RS3_LE, M_AARCH64, M_ARM, M_X64, M_RISCV):
                ctx.count('exposure.files.machine-with-own-tables.os-with-own-tables')
        except Exception as e:  # noqa   (a combination the library refuses is no exposure; refusals are C19's subject)
            ctx.count('exposure.refused.%s' % type(e).__name__)


def compare_tables(ctx, before, where):
    after = _table_image(Lib())
    for tid in sorted(set(before) | set(after)):
        a, b = before.get(tid), after.get(tid)
        if a != b:
            diff = sorted(set(b or ()) ^ set(a or ()))
            ctx.fail('tables-changed-by-use|%s' % tid, '%s: table %s differs from the one loaded at import (%d entries differ, e.g. %r)'
                     % (where, tid, len(diff), diff[:3]), {'table': tid, 'name': None, 'exposure': True})
    ctx.count('tables.compared_after_use', len(after))


def bulk(ctx, tier, shard, nshards):
    before = _table_image(lib())
    expose(ctx, lib(), shard, nshards)
    compare_tables(ctx, before, 'after files of every machine / OS ABI combination were read')
    pairs = all_pairs()
    for i, (tid, n, v) in enumerate(pairs):
        if i % nshards != shard:
            continue
        ctx.cur_buckets = set()
        _run(ctx, {'table': tid, 'name': n, 'value': v}, bulk=True)
    if shard == 0:
        L = lib()
        ctx.count('tables', len(L.tables))
        for tid in L.tables:
            if tid not in CFG:
                ctx.count('table_without_namespace_config.%s' % tid)


def strategy(tier):
    pairs = all_pairs()
    # 'value' is only a hint for replays after a rename; the value compared is always the library's current one
    return st.sampled_from(pairs).map(lambda p: {'table': p[0], 'name': p[1], 'value': p[2]})


def evidence_extra(ctx):
    # registry-vs-registry disagreements on names the library uses
    L = lib()
    conflicts = {}
    for tid, t in L.tables.items():
        if t.kind == 'map':
            continue
        for n in t.byname:
            refs = references(t, n)
            if len(refs) > 1:
                conflicts['%s' % n] = {('%#x' % v): sorted({s for _, s in refs[v]}) for v in sorted(refs)}
    unref = {}
    marker = []
    for k, c in ctx.counters.items():
        if k.startswith('unreferenced_name|'):
            _, tid, n = k.split('|', 2)
            unref.setdefault(tid, []).append(n)
        elif k.startswith('count_marker|'):
            marker.append(k.split('|', 1)[1])
    return {'exhaustive': True,
            'exhaustive_note': 'every (table, name) pair of the listed library tables is evaluated exactly once by bulk(); '
                               'the Hypothesis draws only re-evaluate pairs of the same finite domain',
            'registry_conflicts_either_accepted': conflicts,
            'unreferenced_names': {k: sorted(v) for k, v in sorted(unref.items())},
            'excluded_count_markers': sorted(marker),
            'registry_entries': len(S.entries())}


def floors(ctx):
    out = []
    c = ctx.counters
    if c['pairs'] < 2500:
        out.append('only %d (table, name) pairs enumerated' % c['pairs'])
    if c['referenced'] < 2200:
        out.append('only %d pairs have a registry reference' % c['referenced'])
    if c['value2name_checked'] < 1800:
        out.append('only %d value->name comparisons' % c['value2name_checked'])
    for k in ('e2e.ehdr', 'e2e.shdr', 'e2e.phdr', 'e2e.dyn', 'e2e.sym', 'reporter.describe_reloc_type',
              'reporter.struct_adapter', 'reporter.reverse_map', 'reporter.descr_map', 'reporter.instruction_name'):
        if c[k] == 0:
            out.append('reporting path %s never exercised' % k)
    if c['reporter.adapter_not_found']:
        out.append('%d codes whose struct adapter was not found' % c['reporter.adapter_not_found'])
    for tid in ('elf.enums.ENUM_E_MACHINE', 'elf.enums.ENUM_RELOC_TYPE_AARCH64', 'elf.enums.ENUM_D_TAG_COMMON',
                'dwarf.enums.ENUM_DW_AT', 'dwarf.enums.ENUM_DW_TAG', 'dwarf.dwarf_expr.DW_OP_name2opcode', 'dwarf.constants',
                'elf.constants.E_FLAGS', 'elf.constants.SH_FLAGS'):
        if c['referenced.%s' % tid] == 0:
            out.append('no referenced constant in %s' % tid)
    return out

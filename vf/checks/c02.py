"""C02 - section/segment contents, string tables, address mapping, section-in-segment."""
import io
import os
import zlib

from vf.enc import elf as W
from vf import core, streams
from vf.ref import insegment as REF
from vf.choose import RndChooser, composite_from, HypChooser

ID = 'C02'
RULE = ('three case kinds. data: ELF models with raw sections of sizes {0,1,63,64,65,127..129,random}, SHT_NOBITS, '
        'SHF_COMPRESSED sections (ELF32/64 Elf_Chdr, zlib levels 0-9, sync-flush split streams, inconsistent variants), '
        'string tables with strings placed across the 64-byte read chunk and at EOF, PT_INTERP and plain segments; oracle = '
        'file slice / zero block / inflated payload / bytes up to NUL. addr: 1-8 PT_LOAD + decoys, address ranges inside, '
        'on both boundaries, straddling, in gaps, in memsz beyond filesz; oracle = offsets from exactly the PT_LOAD segments '
        'whose file-backed extent wholly contains the range, in program-header order. inseg: section x segment geometry '
        'decision table (segment type x section type x ALLOC/TLS flags x size {0,1,n} x offset/address relation x '
        'filesz/memsz classes; sampled in quick, complete in thorough) + random geometry; oracle = transcription of '
        'binutils ELF_SECTION_IN_SEGMENT_STRICT. Non-trivial: a compressed or NOBITS section, a string crossing a 64-byte '
        'chunk, a range touching a segment boundary, or a geometry cell on a boundary. Distinct by SHA-1 of the file + queries.')
N = {'quick': 2400, 'thorough': 120000}
ASSUMPTIONS = ['strings are valid UTF-8 and NUL-terminated inside the file; segment extents lie inside the file',
               'geometry values stay below 2^62 so that C unsigned wrap-around in the binutils macro cannot occur except filesz/memsz-1 at 0',
               'address_offsets: only the file-backed part (p_filesz) of a PT_LOAD can yield a file offset',
               'in-segment oracle transcribed from binutils 2.40 include/elf/internal.h and refereed against readelf -lW (vf.selfcheck)']

_c = {}


def lib():
    if not _c:
        from elftools.elf.elffile import ELFFile
        from elftools.common.exceptions import ELFError, ELFCompressionError
        _c.update(ELFFile=ELFFile, ELFError=ELFError, ELFCompressionError=ELFCompressionError)
    return _c


# ---------------------------------------------------------------------------
# kind 'data'

def zstream(payload, level, splits, wbits=15):
    # any window size a default inflater reads (2^9..2^15; the first byte of the stream is 0x78 only for the largest)
    c = zlib.compressobj(level, zlib.DEFLATED, wbits)
    out = b''
    pos = 0
    for sp in sorted(set(s for s in splits if 0 < s < len(payload))):
        out += c.compress(payload[pos:sp]) + c.flush(zlib.Z_SYNC_FLUSH)
        pos = sp
    out += c.compress(payload[pos:]) + c.flush()
    return out


def run_data(ctx, case):
    L = lib()
    m = dict(case['model'])
    cls, le = m['cls'], m['le']
    secs = []
    expect = []
    for s in m['sections']:
        s = dict(s)
        e = None
        kind = s.pop('ck', None)
        if kind == 'z':
            payload = s.pop('payload')
            if isinstance(payload, list):
                # ['run', n, head]: head + n zero bytes (kept symbolic so that the case stays small): near-maximal deflate expansion
                payload = bytes(payload[2]) + bytes(payload[1])
            stream = zstream(payload, s.pop('level'), s.pop('splits', []), s.pop('wbits', 15))
            variant = s.pop('variant', 'ok')
            ch_type = 1
            ch_size = len(payload)
            if variant == 'short':       # declared size smaller than the inflated size
                ch_size = len(payload) - s.pop('delta')
            elif variant == 'long':
                ch_size = len(payload) + s.pop('delta')
            elif variant == 'trunc':
                stream = stream[:max(0, len(stream) - s.pop('delta'))]
            elif variant == 'badtype':
                ch_type = s.pop('ch_type')
            align = s.pop('ch_addralign')
            s['data'] = W.enc_chdr(cls, le, ch_type, ch_size, align, s.pop('ch_reserved', 0)) + stream
            s['sh_flags'] = s.get('sh_flags', 0) | 0x800
            e = {'kind': 'z', 'variant': variant, 'payload': payload, 'ch_size': ch_size, 'align': align}
            if s.get('sh_type', 1) != 1:
                e['typed'] = s['sh_type']
        elif kind == 'nobits':
            s['data'] = b''
            s['sh_type'] = 8
            e = {'kind': 'nobits', 'size': s['size_override']}
        elif kind == 'raw':
            e = {'kind': 'raw'}
        elif kind == 'str':
            e = {'kind': 'str'}
        secs.append(s)
        expect.append(e)
    m['sections'] = secs
    data, R = W.build(m)
    nt = False
    try:
        st0, skind = streams.pick(data)        # BytesIO, minimal read/seek/tell object, memory map or real file
        ctx.count('stream.' + skind)
        ef = L['ELFFile'](st0)
    except Exception as e:  # noqa
        ctx.fail_exc('data|open', e, case)
        ctx.case(data, False)
        return
    for i, e in enumerate(expect):
        if e is None:
            continue
        h = R['sh'][i]
        try:
            sec = ef.get_section(i)
        except Exception as ex:  # noqa
            ctx.fail_exc('data|get_section|%s' % e['kind'], ex, case)
            continue
        if e['kind'] in ('raw', 'str'):
            exp = data[h['sh_offset']:h['sh_offset'] + h['sh_size']]
            _cmp_data(ctx, 'raw', sec, exp, h['sh_size'], h['sh_addralign'], False, case)
            ctx.count('sec.raw')
            if e['kind'] == 'str':
                nt |= _strings(ctx, sec, exp, m['sections'][i].get('queries', []), case)
        elif e['kind'] == 'nobits':
            nt = True
            _cmp_data(ctx, 'nobits', sec, b'\0' * e['size'], e['size'], h['sh_addralign'], False, case)
            ctx.count('sec.nobits')
        else:
            nt = True
            ctx.count('sec.z.' + e['variant'])
            if e.get('typed'):
                ctx.count('sec.z.specialised-type')
            inflated = None
            if e['variant'] == 'trunc':
                # a stream cut inside its trailer still inflates completely: only a size disagreement must be rejected
                try:
                    d = zlib.decompressobj()
                    inflated = d.decompress(data[h['sh_offset'] + W.CHDR_SIZE[cls]:h['sh_offset'] + h['sh_size']])
                except zlib.error:
                    inflated = None
            if e['variant'] == 'ok':
                _cmp_data(ctx, 'compressed', sec, e['payload'], len(e['payload']), e['align'], True, case)
            elif e['variant'] == 'trunc' and inflated is not None and len(inflated) == e['ch_size']:
                ctx.count('sec.z.trunc.trailer-only')
                _cmp_data(ctx, 'compressed', sec, e['payload'], len(e['payload']), e['align'], True, case)
            else:
                try:
                    got = sec.data()
                    ctx.fail('data|compressed|inconsistent-accepted|%s' % e['variant'],
                             'variant %s: declared ch_size=%d inflated=%d -> data() returned %d bytes instead of ELFCompressionError' % (
                                 e['variant'], e['ch_size'], len(e['payload']), len(got)), case)
                except L['ELFCompressionError']:
                    # the same object asked again (a caller that logs the error and goes on, a second consumer of the section object):
                    # what was rejected once stays rejected
                    for attempt in (2, 3):
                        try:
                            got = sec.data()
                            ctx.fail('data|compressed|inconsistent-accepted-when-asked-again|%s' % e['variant'],
                                     'variant %s: declared ch_size=%d inflated=%d: the first data() raised ELFCompressionError, call %d on the same object returned %d bytes' % (
                                         e['variant'], e['ch_size'], len(e['payload']), attempt, len(got)), case)
                            break
                        except L['ELFCompressionError']:
                            pass
                        except Exception as ex:  # noqa
                            ctx.fail_exc('data|compressed|asked-again|%s' % e['variant'], ex, case)
                            break
                    ctx.count('sec.z.rejected-and-asked-again')
                except zlib.error:
                    if e['variant'] != 'trunc':
                        ctx.fail('data|compressed|zlib.error|%s' % e['variant'], 'zlib.error escaped', case)
                except Exception as ex:  # noqa
                    ctx.fail_exc('data|compressed|%s' % e['variant'], ex, case)
    # containment of the real sections (compressed ones included: the rule speaks of the section as stored, sh_size) in the real segments
    try:
        for j, p in enumerate(R['ph']):
            sg = ef.get_segment(j)
            for i in range(1, len(R['sh'])):
                if expect[i] is None or expect[i].get('variant', 'ok') != 'ok':
                    continue
                exp_in = REF.in_segment_strict(R['sh'][i], p, 64)
                got_in = bool(sg.section_in_segment(ef.get_section(i)))
                ctx.count('data.inseg.pairs')
                if got_in != exp_in:
                    ctx.fail('inseg|real-section|%s' % ('compressed' if R['sh'][i]['sh_flags'] & 0x800 else 'plain'), 'segment %d (type %#x, filesz %d) section %d (type %#x flags %#x offset %d sh_size %d): library %r, binutils rule %r' % (
                        j, p['p_type'], p['p_filesz'], i, R['sh'][i]['sh_type'], R['sh'][i]['sh_flags'], R['sh'][i]['sh_offset'], R['sh'][i]['sh_size'], got_in, exp_in), case)
    except Exception as ex:  # noqa
        ctx.fail_exc('inseg|real-section', ex, case)
    # segments
    for j, p in enumerate(R['ph']):
        try:
            seg = ef.get_segment(j)
            got = seg.data()
        except Exception as ex:  # noqa
            ctx.fail_exc('data|segment', ex, case)
            continue
        exp = data[p['p_offset']:p['p_offset'] + p['p_filesz']]
        if got != exp:
            ctx.fail('data|segment|bytes', 'segment %d: %d bytes expected, got %d (first diff %s)' % (j, len(exp), len(got), _fd(exp, got)), case)
        ctx.count('seg.data')
        if p['p_type'] == 3:
            idx = data.find(b'\0', p['p_offset'])
            exps = data[p['p_offset']:idx].decode('utf-8')
            try:
                gs = seg.get_interp_name()
                if gs != exps:
                    ctx.fail('data|interp', 'expected %r got %r' % (exps, gs), case)
            except Exception as ex:  # noqa
                ctx.fail_exc('data|interp', ex, case)
            ctx.count('seg.interp')
            if len(exps) >= 63:
                nt = True
    ctx.case(data, nt, {'kind': 'data', 'cls': cls, 'le': le, 'sections': [e and e['kind'] + ('/' + e.get('variant', '') if e['kind'] == 'z' else '') for e in expect],
                        'file_len': len(data)})


def _fd(a, b):
    for i, (x, y) in enumerate(zip(a, b)):
        if x != y:
            return i
    return min(len(a), len(b))


def _cmp_data(ctx, what, sec, exp, size, align, compressed, case):
    try:
        got = sec.data()
    except Exception as ex:  # noqa
        ctx.fail_exc('data|%s' % what, ex, case)
        return
    if got != exp:
        ctx.fail('data|%s|bytes' % what, 'expected %d bytes got %d, first difference at %d' % (len(exp), len(got), _fd(exp, got)), case)
    if sec.data_size != size:
        ctx.fail('data|%s|data_size' % what, 'expected %d got %r' % (size, sec.data_size), case)
    if sec.data_alignment != align:
        ctx.fail('data|%s|data_alignment' % what, 'expected %d got %r' % (align, sec.data_alignment), case)
    if bool(sec.compressed) != compressed:
        ctx.fail('data|%s|compressed-flag' % what, 'got %r' % sec.compressed, case)


def _strings(ctx, sec, blob, queries, case):
    nt = False
    for q in queries:
        idx = blob.find(b'\0', q)
        if idx < 0:
            continue
        exp = blob[q:idx].decode('utf-8')
        try:
            got = sec.get_string(q)
        except Exception as ex:  # noqa
            ctx.fail_exc('data|get_string', ex, case)
            continue
        if got != exp:
            ctx.fail('data|get_string|value', 'offset %d len %d: expected %r got %r' % (q, idx - q, exp[:80], got[:80]), case)
        ctx.count('str.query')
        if idx - q >= 63:
            nt = True
            ctx.count('str.query.chunk+')
    return nt


WORDS = ['', 'a', 'main', '.text', 'é', '中文', 'libc.so.6', '/lib64/ld-linux-x86-64.so.2']


def utf8_string(ch, n):
    """valid UTF-8 string of exactly n bytes without NUL"""
    out = b''
    while len(out) < n:
        left = n - len(out)
        c = ch.choice(['a', 'Z', '_', '.', '7', 'é', 'ß', '中', '\U0001f600'])
        b = c.encode('utf-8')
        if len(b) <= left:
            out += b
    return out


def build_data(ch, tier):
    cls = ch.choice([32, 64])
    le = ch.bool()
    secs = [{'name': '', 'sh_type': 0}]
    nsec = ch.int(1, 6)
    for _ in range(nsec):
        k = ch.int(0, 9)
        if k <= 2:
            size = ch.choice([0, 1, 63, 64, 65, 127, 128, 129, ch.int(0, 300), ch.int(0, 5000 if tier == 'quick' else 65536)])
            secs.append({'ck': 'raw', 'name': '.d%d' % len(secs), 'sh_type': ch.choice([1, 1, 7, 14, 0x60000001]),
                         'sh_flags': ch.choice([0, 2, 3, 6]), 'sh_addralign': ch.choice([0, 1, 4, 16]), 'data': ch.bytes(size)})
        elif k == 3:
            secs.append({'ck': 'nobits', 'name': '.bss%d' % len(secs), 'sh_flags': 3, 'sh_addralign': ch.choice([1, 8, 32]),
                         'size_override': ch.choice([0, 1, 64, 4096, ch.int(0, 1 << 20)])})
        elif k <= 6:
            plen = ch.choice([0, 1, 63, 64, 100, ch.int(0, 3000), ch.int(0, 20000 if tier == 'quick' else 262144)])
            mode = ch.int(0, 2)
            payload = ch.bytes(plen) if mode == 0 or plen < 8 else (ch.bytes(7) * (plen // 7 + 1))[:plen] if mode == 1 else bytes(plen)
            # any section may be stored compressed, also those for which the library has a specialised class (the stored size then has
            # nothing to do with the entry size; the logical size comes from the compression header)
            ztype, zent = ch.choice([(1, 0), (1, 0), (1, 0), (9, 8 if cls == 32 else 16), (4, 12 if cls == 32 else 24), (19, cls // 8), (7, 0), (14, cls // 8)])
            s = {'ck': 'z', 'name': ch.choice(['.debug_info', '.debug_str', '.zz%d' % len(secs)]), 'sh_type': ztype, 'sh_entsize': zent, 'sh_flags': ch.choice([0, 0, 0x30]),
                 'payload': payload, 'level': ch.int(0, 9), 'wbits': ch.choice([15, 15, 15, 9, 11, 14]), 'splits': [ch.int(0, max(plen, 1)) for _ in range(ch.int(0, 3))],
                 'ch_addralign': ch.choice([0, 1, 4, 8, 1 << 20, (1 << cls) - 1]), 'sh_addralign': ch.choice([1, 4, 8]),
                 'ch_reserved': ch.choice([0, 0, 0xdeadbeef])}
            v = ch.int(0, 9)
            if v == 0 and plen >= 1:
                s.update(variant='short', delta=ch.choice([1, 1, plen, ch.int(1, plen)]))
            elif v == 1:
                s.update(variant='long', delta=ch.choice([1, 1, 1000, ch.int(1, 70000)]))
            elif v == 2 and plen >= 1:
                s.update(variant='trunc', delta=ch.choice([1, 4, 5, 8]))
            elif v == 3:
                s.update(variant='badtype', ch_type=ch.choice([0, 2, 3, 0x60000000, 0x70000001, 0xffffffff]))
            secs.append(s)
        else:
            # string table: strings with chosen lengths; queries at starts and inside
            strs = []
            for _ in range(ch.int(1, 8)):
                ln = ch.choice([0, 1, 5, 62, 63, 64, 65, 127, 128, 129, ch.int(0, 300), 639, 640, 641, 5000])
                strs.append(utf8_string(ch, ln))
            lead = ch.choice([b'\0', b'\0', b''])
            blob = lead
            queries = []
            for sbytes in strs:
                queries.append(len(blob))
                if len(sbytes) > 3 and ch.bool(0.5):
                    # an offset inside the string that still starts on a character boundary
                    k2 = ch.int(1, len(sbytes) - 1)
                    while k2 < len(sbytes) and (sbytes[k2] & 0xc0) == 0x80:
                        k2 += 1
                    queries.append(len(blob) + k2)
                blob += sbytes + b'\0'
            if lead:
                queries.append(0)
            secs.append({'ck': 'str', 'name': '.str%d' % len(secs), 'sh_type': 3, 'data': blob, 'queries': queries,
                         'file_align': ch.choice([1, 1, 64]), 'at_eof': ch.bool(0.4)})
    # name table
    secs.append({'name': '.shstrtab', 'sh_type': 3, 'data': b''})
    shstr = len(secs) - 1
    m = {'cls': cls, 'le': le, 'e_machine': ch.choice([62, 3, 40, 8]), 'e_type': 3, 'sections': secs, 'shstrndx': shstr,
         'shentsize_extra': ch.choice([0, 0, 8])}
    chunks = ['ph'] + [i for i in range(1, len(secs))] + ['sh']
    order = ch.perm(chunks)
    # a string table / compressed section flagged at_eof goes last with no tail
    eof = [i for i, s in enumerate(secs) if s.get('at_eof')]
    m['tail'] = ch.choice([0, 3])
    if eof:
        order.remove(eof[0])
        order.append(eof[0])
        m['tail'] = 0
    elif ch.bool(0.3):
        zs = [i for i, s in enumerate(secs) if s.get('ck') == 'z']
        if zs:
            order.remove(zs[0])
            order.append(zs[0])
            m['tail'] = 0
    m['order'] = order
    m['gaps'] = {str(c): ch.choice([0, 1, 7]) for c in chunks if ch.bool(0.3)}
    # segments: extents over sections (+ an interp over a string)
    segs = []
    for _ in range(ch.int(0, 4)):
        i = ch.int(1, len(secs) - 1)
        if secs[i].get('ck') == 'nobits':
            continue
        back = ch.choice([0, 0, 1, 5])
        segs.append({'p_type': ch.choice([1, 1, 4, 0x6474e551, 0x70000001]), 'p_flags': ch.int(0, 7),
                     'p_offset': ['sec_off', i, 0], 'p_vaddr': ch.word(cls), 'p_paddr': 0,
                     'p_filesz': ['sec_size', i, 0], 'p_memsz': ['sec_size', i, ch.choice([0, 0, 100])], 'p_align': ch.choice([1, 4096])})
    strsecs = [i for i, s in enumerate(secs) if s.get('ck') == 'str']
    if strsecs and ch.bool(0.7):
        i = ch.choice(strsecs)
        q = ch.choice(secs[i]['queries'])
        segs.append({'p_type': 3, 'p_flags': 4, 'p_offset': ['sec_off', i, q], 'p_vaddr': 0x1000, 'p_paddr': 0,
                     'p_filesz': ['sec_size', i, -q], 'p_memsz': ['sec_size', i, -q], 'p_align': 1})
    m['segments'] = segs
    for s in secs:
        s.pop('at_eof', None)
    return {'k': 'data', 'model': m}


# ---------------------------------------------------------------------------
# kind 'addr'

def run_addr(ctx, case):
    L = lib()
    m = case['model']
    data, R = W.build(m)
    try:
        st0, skind = streams.pick(data)        # BytesIO, minimal read/seek/tell object, memory map or real file
        ctx.count('stream.' + skind)
        ef = L['ELFFile'](st0)
    except Exception as e:  # noqa
        ctx.fail_exc('addr|open', e, case)
        return
    nt = False
    suspended = []      # partially consumed generators stay alive (a caller may abandon them at any point)
    for q in case['queries']:
        start, size = q[0], q[1]
        mode = q[2] if len(q) > 2 else 0
        end = start + size
        exp = [start - p['p_vaddr'] + p['p_offset'] for p in R['ph']
               if p['p_type'] == 1 and p['p_vaddr'] <= start and end <= p['p_vaddr'] + p['p_filesz']]
        if mode:
            # the idiom of the library's own callers: take the first offset only (next(..., None)) and drop the generator
            try:
                it = ef.address_offsets(start, size)
                first = next(it, None)
            except Exception as e:  # noqa
                ctx.fail_exc('addr|address_offsets|first-only', e, case)
                continue
            if mode == 2:
                suspended.append(it)
            ctx.count('addr.query.first-only')
            if first != (exp[0] if exp else None):
                ctx.fail('addr|address_offsets|first-only', 'range [%#x,+%d): expected first offset %r got %r' % (start, size, exp[:1], first), case)
            continue
        try:
            got = list(ef.address_offsets(start, size))
        except Exception as e:  # noqa
            ctx.fail_exc('addr|address_offsets', e, case)
            continue
        if got != exp:
            kind = 'missing' if len(got) < len(exp) else ('extra' if len(got) > len(exp) else 'value')
            ctx.fail('addr|address_offsets|%s' % kind, 'range [%#x,+%d): expected %r got %r' % (start, size, exp, got), case)
        touching = any(p['p_type'] == 1 and (start in (p['p_vaddr'], p['p_vaddr'] + p['p_filesz']) or end in (p['p_vaddr'], p['p_vaddr'] + p['p_filesz'], p['p_vaddr'] + p['p_memsz']))
                       for p in R['ph'])
        nt |= touching
        ctx.count('addr.query.' + ('boundary' if touching else ('hit' if exp else 'miss')))
        if len(exp) >= 2:
            ctx.count('addr.query.multi')
    ctx.case((data, case['queries']), nt, {'kind': 'addr', 'segments': [(p['p_type'], p['p_vaddr'], p['p_filesz'], p['p_memsz']) for p in R['ph']],
                                          'queries': case['queries'][:6]})


def build_addr(ch, tier):
    cls = ch.choice([32, 64])
    le = ch.bool()
    segs = []
    base = ch.choice([0, 0x1000, 0x400000, 0x7fff0000 if cls == 32 else 0x7fffffff0000])
    nload = ch.int(1, 8)
    queries = []
    for i in range(nload + ch.int(0, 3)):
        load = i < nload
        vaddr = base + ch.choice([0, 0x100, 0x1000 * ch.int(0, 20), ch.int(0, 0x20000)])
        filesz = ch.choice([0, 1, 0x10, 0x100, ch.int(0, 0x3000)])
        memsz = filesz + ch.choice([0, 0, 1, 0x100, 0x2000])
        off = ch.choice([0, 0x40, ch.int(0, 0x5000)])
        if ch.bool(0.15) and segs:   # overlapping / duplicate of an earlier segment
            vaddr = segs[ch.int(0, len(segs) - 1)]['p_vaddr'] + ch.choice([0, 0, 8])
        segs.append({'p_type': 1 if load else ch.choice([2, 4, 6, 7, 0x6474e552, 0]), 'p_flags': 5, 'p_offset': off, 'p_vaddr': vaddr,
                     'p_paddr': vaddr, 'p_filesz': filesz, 'p_memsz': memsz, 'p_align': 0x1000})
    segs = ch.perm(segs)
    for p in segs:
        v, f, ms = p['p_vaddr'], p['p_filesz'], p['p_memsz']
        for (s, z) in ((v, 1), (v, f), (v, f + 1), (v - 1, 1), (v - 1, 2), (v + f - 1, 1), (v + f - 1, 2), (v + f, 1), (v + f, 0), (v, 0),
                       (v + f // 2, 1), (v + f, ms - f), (v + ms - 1, 1), (v + 1, f - 1), (v + 1, f)):
            if s >= 0 and z >= 0 and ch.bool(0.7):
                queries.append([s, z])
    for _ in range(ch.int(0, 6)):
        queries.append([base + ch.int(0, 0x30000), ch.choice([1, 1, 4, 8, 0x100, ch.int(0, 0x2000)])])
    # consumption mode per query (0 = exhaust, 1 = first item only, 2 = first item only and keep the generator alive), random order
    queries = ch.perm([q + [ch.choice([0, 0, 0, 1, 2])] for q in queries])
    m = {'cls': cls, 'le': le, 'e_type': 2, 'sections': [], 'segments': segs, 'tail': 0x40,
         'phentsize_extra': ch.choice([0, 0, 8])}
    return {'k': 'addr', 'model': m, 'queries': queries}


# ---------------------------------------------------------------------------
# kind 'inseg'

SEG_TYPES = [1, 2, 3, 4, 6, 7, 0x6474e550, 0x6474e551, 0x6474e552, 0x6474e553, 0x6474e554, 0x6474e555, 0x6474e555 + 4095,
             0x6474e555 + 4096, 0x70000001, 0, 0x60000000]
SEC_TYPES = [1, 8, 7]
FLAGSETS = [0, 2, 0x400, 0x402, 3, 0x403]
P_OFF, P_VA = 0x1000, 0x400000


def rel_positions(ext):
    """offsets (relative to the segment start) for the relations
    before, at start, inside, ending at end(for size n), starting at end, after; ext = segment extent"""
    return sorted({-1, 0, 1, ext // 2, ext - 4, ext - 1, ext, ext + 1} - {None})


def geometry_cells(full):
    """Yield (seg dict, sec dict) over the decision table."""
    for ptype in SEG_TYPES:
        for (filesz, memsz) in ((0, 0), (0x100, 0x100), (0x100, 0x180), (0, 0x100), (0x100, 0)):
            seg = {'p_type': ptype, 'p_offset': P_OFF, 'p_vaddr': P_VA, 'p_filesz': filesz, 'p_memsz': memsz}
            for stype in SEC_TYPES:
                for flags in FLAGSETS:
                    for size in (0, 1, 4):
                        offs = [d for d in rel_positions(filesz)]
                        addrs = [d for d in rel_positions(memsz)]
                        if not full:
                            # sampled table: diagonal (same relation on both axes) + the two axis sweeps at 'inside'
                            pairs = {(o, a) for o, a in zip(offs, addrs)} | {(o, addrs[2]) for o in offs} | {(offs[2], a) for a in addrs}
                        else:
                            pairs = {(o, a) for o in offs for a in addrs}
                        for (o, a) in sorted(pairs):
                            yield seg, {'sh_type': stype, 'sh_flags': flags, 'sh_size': size, 'sh_offset': P_OFF + o, 'sh_addr': P_VA + a}


def run_inseg(ctx, case):
    L = lib()
    cls, le = case['cls'], case['le']
    secs = [{'name': '', 'sh_type': 0}]
    for k, s in enumerate(case['secs']):
        secs.append({'name': '.s%d' % k, 'sh_type': s['sh_type'], 'sh_flags': s['sh_flags'], 'sh_addr': s['sh_addr'], 'data': None,
                     'sh_offset': s['sh_offset'], 'sh_size': s['sh_size'], 'sh_addralign': 1})
    secs.append({'name': '.shstrtab', 'sh_type': 3, 'data': b''})
    segs = [{'p_type': p['p_type'], 'p_flags': 4, 'p_offset': p['p_offset'], 'p_vaddr': p['p_vaddr'], 'p_paddr': 0,
             'p_filesz': p['p_filesz'], 'p_memsz': p['p_memsz'], 'p_align': 1} for p in case['segs']]
    m = {'cls': cls, 'le': le, 'e_type': 3, 'e_machine': case.get('e_machine', 62), 'sections': secs, 'segments': segs,
         'shstrndx': len(secs) - 1}
    data, R = W.build(m)
    try:
        ef = L['ELFFile'](io.BytesIO(data))
        lsegs = [ef.get_segment(j) for j in range(len(segs))]
        lsecs = [ef.get_section(i + 1) for i in range(len(case['secs']))]
    except Exception as e:  # noqa
        ctx.fail_exc('inseg|open', e, case)
        return
    pairs = case.get('pairs')
    nt = 0
    n = 0
    if pairs is None:
        pairs = [(j, i) for j in range(len(segs)) for i in range(len(case['secs']))]
    for (j, i) in pairs:
        p, s = case['segs'][j], case['secs'][i]
        exp = REF.in_segment_strict(s, p, 64)
        try:
            got = bool(lsegs[j].section_in_segment(lsecs[i]))
        except Exception as e:  # noqa
            ctx.fail_exc('inseg|section_in_segment', e, case)
            continue
        n += 1
        boundary = (s['sh_offset'] - p['p_offset'] in (0, p['p_filesz'], p['p_filesz'] - s['sh_size']) or
                    s['sh_addr'] - p['p_vaddr'] in (0, p['p_memsz'], p['p_memsz'] - s['sh_size']) or s['sh_size'] == 0)
        nt += boundary
        if got != exp:
            ctx.fail('inseg|%s' % classify_inseg(s, p, got), 'segment %r section %r: library %r, binutils rule %r' % (p, s, got, exp),
                     {'k': 'inseg', 'cls': cls, 'le': le, 'segs': [p], 'secs': [s]})
    ctx.count('inseg.pairs', n)
    ctx.count('inseg.pairs.boundary', nt)
    ctx.evaluations += max(n - 1, 0)
    ctx.counters['bulk_nontrivial'] += 0
    ctx.case((cls, le, case['segs'], case['secs'], case.get('pairs')), nt > 0,
             {'kind': 'inseg', 'cls': cls, 'le': le, 'nseg': len(segs), 'nsec': len(case['secs']), 'first_seg': case['segs'][0], 'first_sec': case['secs'][0]})


def classify_inseg(s, p, got):
    """name the disagreement as narrowly as the inputs allow"""
    pt = p['p_type']
    alloc, tls = bool(s['sh_flags'] & 2), bool(s['sh_flags'] & 0x400)
    tag = 'lib-says-%s' % ('in' if got else 'out')
    if REF.tbss_special(s, p):
        return 'tbss-size-rule|' + tag
    if not alloc and (REF.PT_GNU_MBIND_LO <= pt <= REF.PT_GNU_MBIND_HI):
        return 'nonalloc-in-PT_GNU_MBIND|' + tag
    if not alloc and pt == REF.PT_GNU_SFRAME:
        return 'nonalloc-in-PT_GNU_SFRAME|' + tag
    if pt in (2, 4) and s['sh_size'] == 0 and p['p_memsz'] != 0:
        return 'empty-section-at-%s-edge|%s' % ('PT_DYNAMIC' if pt == 2 else 'PT_NOTE', tag)
    return 'other|ptype=%#x|stype=%d|alloc=%d|tls=%d|size0=%d|filesz0=%d|memsz0=%d|%s' % (
        pt if pt < 0x100 or pt >= 0x60000000 else pt, s['sh_type'], alloc, tls, s['sh_size'] == 0, p['p_filesz'] == 0, p['p_memsz'] == 0, tag)


def build_inseg(ch, tier):
    cls = ch.choice([32, 64])
    segs, secs = [], []
    for _ in range(ch.int(1, 8)):
        filesz = ch.choice([0, 1, 0x10, 0x100, ch.int(0, 0x400)])
        segs.append({'p_type': ch.choice(SEG_TYPES), 'p_offset': ch.choice([0, 0x40, P_OFF, ch.int(0, 0x2000)]),
                     'p_vaddr': ch.choice([0, P_VA, ch.int(0, 0x10000)]), 'p_filesz': filesz,
                     'p_memsz': ch.choice([filesz, filesz, filesz + ch.int(0, 0x100), 0, ch.int(0, 0x400)])})
    for _ in range(ch.int(1, 12)):
        p = ch.choice(segs)
        size = ch.choice([0, 0, 1, 4, ch.int(0, 0x200)])
        o = ch.choice([-1, 0, 1, p['p_filesz'] - size, p['p_filesz'], p['p_filesz'] + 1, p['p_filesz'] - 1, ch.int(-4, 0x400)])
        a = ch.choice([-1, 0, 1, p['p_memsz'] - size, p['p_memsz'], p['p_memsz'] + 1, p['p_memsz'] - 1, o, ch.int(-4, 0x400)])
        secs.append({'sh_type': ch.choice(SEC_TYPES + [1, 1, 14]), 'sh_flags': ch.choice(FLAGSETS + [ch.int(0, 0x7ff) & ~0x800]), 'sh_size': size,
                     'sh_offset': max(0, p['p_offset'] + o), 'sh_addr': max(0, p['p_vaddr'] + a)})
    return {'k': 'inseg', 'cls': cls, 'le': ch.bool(), 'segs': segs, 'secs': secs, 'e_machine': ch.choice([62, 62, 40, 3])}


# ---------------------------------------------------------------------------

def run_far(ctx, case):
    """contents, strings, segments and address mapping of a file whose sections / segments / header table sit at offsets at and beyond
    2**31, 2**32 ... (sparse stream: only the named byte ranges exist)"""
    from vf.enc.sparse import sparse_elf
    L = lib()
    cls, le, base = case['cls'], case['le'], case['base']
    raw = bytes(range(1, 200))
    strs = b'\0alpha\0' + b'b' * 70 + b'\0tail\0'
    zpayload = b'far compressed payload ' * 9
    zsec = W.enc_chdr(cls, le, 1, len(zpayload), 4) + zlib.compress(zpayload, 6)
    interp = b'/lib/ld-far.so.1\0'
    va = 0x400000
    secs = [{'name': '.raw', 'sh_type': 1, 'sh_flags': 2, 'sh_addr': va, 'offset': base, 'size': len(raw), 'chunks': {0: raw}},
            {'name': '.strs', 'sh_type': 3, 'sh_flags': 2, 'sh_addr': va + 0x1000, 'offset': base + 0x1000, 'size': len(strs), 'chunks': {0: strs}},
            {'name': '.bss', 'sh_type': 8, 'sh_flags': 3, 'offset': base + 0x2000, 'size': 0x1234},
            {'name': '.zdata', 'sh_type': 1, 'sh_flags': 0x800, 'offset': base + 0x3000, 'size': len(zsec), 'chunks': {0: zsec}},
            {'name': '.interp', 'sh_type': 1, 'offset': base + 0x4000, 'size': len(interp), 'chunks': {0: interp}}]
    segs = [{'p_type': 1, 'p_flags': 5, 'p_offset': base, 'p_vaddr': va, 'p_paddr': va, 'p_filesz': len(raw), 'p_memsz': len(raw) + 0x100, 'p_align': 1},
            {'p_type': 3, 'p_flags': 4, 'p_offset': base + 0x4000, 'p_vaddr': va + 0x4000, 'p_filesz': len(interp), 'p_memsz': len(interp), 'p_align': 1},
            {'p_type': 1, 'p_flags': 4, 'p_offset': base + 0x1000, 'p_vaddr': va + 0x1000, 'p_filesz': len(strs), 'p_memsz': len(strs), 'p_align': 1}]
    stream, _h = sparse_elf(cls, le, secs, segments=segs, shoff=(base + 0x8000) if case.get('far_table') else None)
    tag = 'far|base=%#x' % base
    try:
        ef = L['ELFFile'](stream)
        names = [s_.name for s_ in ef.iter_sections()]
        if names != ['', '.raw', '.strs', '.bss', '.zdata', '.interp', '.shstrtab']:
            ctx.fail(tag + '|sections', 'names %r' % (names,), case)
        else:
            if ef.get_section(1).data() != raw:
                ctx.fail(tag + '|data|raw', 'section at %#x' % base, case)
            st = ef.get_section(2)
            for off, want in ((0, ''), (1, 'alpha'), (3, 'pha'), (7, 'b' * 70), (78, 'tail'), (len(strs) - 1, '')):
                if st.get_string(off) != want:
                    ctx.fail(tag + '|string', 'offset %d: expected %r got %r' % (off, want, st.get_string(off)), case)
            b = ef.get_section(3)
            if b.data() != b'\0' * 0x1234 or b.data_size != 0x1234:
                ctx.fail(tag + '|data|nobits', 'size %r' % b.data_size, case)
            z = ef.get_section(4)
            if not z.compressed or z.data() != zpayload or z.data_size != len(zpayload) or z.data_alignment != 4:
                ctx.fail(tag + '|data|compressed', 'size %r alignment %r' % (z.data_size, z.data_alignment), case)
            if ef.get_segment(0).data() != raw:
                ctx.fail(tag + '|segment-data', 'PT_LOAD at %#x' % base, case)
            it = ef.get_segment(1)
            if type(it).__name__ != 'InterpSegment' or it.get_interp_name() != interp[:-1].decode():
                ctx.fail(tag + '|interp', repr(it), case)
            for a, n, want in ((va, 1, [base]), (va + 10, len(raw) - 10, [base + 10]), (va + len(raw), 1, []), (va + 0x1000 + 5, 3, [base + 0x1005]),
                               (va + 0x4000, 2, []), (va - 1, 2, [])):
                got = list(ef.address_offsets(a, n))
                if got != want:
                    ctx.fail(tag + '|address_offsets', 'range [%#x,+%d): expected %r got %r' % (a, n, want, got), case)
            for gi in range(3):
                want = [bool(REF.in_segment_strict({'sh_type': x['sh_type'], 'sh_flags': x.get('sh_flags', 0), 'sh_addr': x.get('sh_addr', 0),
                                                    'sh_offset': x['offset'], 'sh_size': x['size']}, segs[gi], 64)) for x in secs]
                got = [ef.get_segment(gi).section_in_segment(ef.get_section(i)) for i in range(1, 6)]
                if got != want:
                    ctx.fail(tag + '|section_in_segment', 'segment %d: expected %r got %r' % (gi, want, got), case)
    except Exception as e:  # noqa
        ctx.fail_exc(tag, e, case)
    ctx.count('far.files')
    ctx.case(('far', cls, le, base, bool(case.get('far_table'))), True, dict(case))


_CHILD = r'''
import sys, io, json, base64, locale
import elftools
from elftools.elf.elffile import ELFFile
doc = json.load(sys.stdin)
out = {'fsenc': sys.getfilesystemencoding(), 'pref': locale.getpreferredencoding(False), 'lib': elftools.__file__, 'files': []}
for item in doc['files']:
    r = {}
    try:
        ef = ELFFile(io.BytesIO(base64.b64decode(item['data'])))
        r['names'] = [s.name for s in ef.iter_sections()]
        r['strings'] = [[i, q, ef.get_section(i).get_string(q)] for i, q in item['queries']]
        r['interp'] = [seg.get_interp_name() for seg in ef.iter_segments() if type(seg).__name__ == 'InterpSegment']
    except Exception as e:
        r['exc'] = '%s: %s' % (type(e).__name__, e)
    out['files'].append(r)
sys.stdout.write(json.dumps(out))
'''


def bulk(ctx, tier, shard, nshards):
    """the decoded strings (section names, string-table look-ups, interpreter paths) of generated files in a child interpreter running
    under the C locale without UTF-8 mode: equal to what this process decodes (which run_case compares with the model)"""
    if shard != 0:
        return
    import base64
    from vf import childenv
    L = lib()
    files = []
    n = 40 if tier == 'quick' else 400
    for k in range(n):
        ch = RndChooser(909000 + k)
        case = build_data(ch, tier)
        m = dict(case['model'])
        secs = []
        for s in m['sections']:
            s = dict(s)
            kind = s.pop('ck', None)
            if kind not in (None, 'raw', 'str'):
                continue                     # names, string tables and interpreter paths are what is looked at here
            s.pop('queries', None)
            secs.append(s)
        # sections were dropped: rebuild a small file of the string tables with an interpreter segment over the first of them
        strsecs = [s for s in secs if s.get('sh_type') == 3 and s.get('data')]
        if not strsecs:
            continue
        body = [{'name': '', 'sh_type': 0}] + [dict(s, name=('.s%d-\u00e9\u4e2d' % i)) for i, s in enumerate(strsecs)] + [{'name': '.shstrtab', 'sh_type': 3, 'data': b''}]
        path = ('/lib/ld-\u00fc\u4e2d%d.so' % k).encode('utf-8') + b'\0'
        body.insert(1, {'name': '.interp', 'sh_type': 1, 'data': path})
        data, R = W.build({'cls': m['cls'], 'le': m['le'], 'e_type': 2, 'sections': body, 'shstrndx': len(body) - 1,
                           'segments': [{'p_type': 3, 'p_flags': 4, 'p_offset': ['sec_off', 1, 0], 'p_filesz': ['sec_size', 1, 0], 'p_memsz': ['sec_size', 1, 0]}]})
        queries = []
        for i, s in enumerate(body):
            if s.get('sh_type') == 3 and s.get('data'):
                d = s['data']
                starts = [0] + [j + 1 for j, b in enumerate(d[:-1]) if b == 0][:6]
                queries += [[i, q] for q in starts]
        files.append({'data': base64.b64encode(data).decode('ascii'), 'queries': queries, '_raw': data})
    _legacy_compare(ctx, files)


def _legacy_compare(ctx, files):
    import base64
    from vf import childenv
    L = lib()
    for f in files:
        if 'queries' not in f:          # a replayed case: look the string tables up again
            ef = L['ELFFile'](io.BytesIO(f['_raw']))
            f['data'] = base64.b64encode(f['_raw']).decode('ascii')
            f['queries'] = []
            for i, sec in enumerate(ef.iter_sections()):
                if type(sec).__name__ == 'StringTableSection' and sec['sh_size']:
                    d = sec.data()
                    f['queries'] += [[i, q] for q in [0] + [j + 1 for j, b in enumerate(d[:-1]) if b == 0][:6]]
    if not files:
        return
    try:
        res = childenv.run(_CHILD, {'files': [{'data': f['data'], 'queries': f['queries']} for f in files]}, core.REPO)
    except Exception as e:  # noqa
        raise core.HarnessError('C02 child interpreter: %s' % e)
    if os.path.realpath(os.path.dirname(os.path.dirname(res['lib']))) != os.path.realpath(core.REPO):
        raise core.HarnessError('child interpreter imported %s' % res['lib'])
    ctx.count('legacy-locale.fsenc.%s' % res['fsenc'].lower())
    for f, r in zip(files, res['files']):
        ef = L['ELFFile'](io.BytesIO(f['_raw']))
        want = {'names': [s.name for s in ef.iter_sections()], 'strings': [[i, q, ef.get_section(i).get_string(q)] for i, q in f['queries']],
                'interp': [seg.get_interp_name() for seg in ef.iter_segments() if type(seg).__name__ == 'InterpSegment']}
        case = {'k': 'legacy-locale', 'data': f['_raw']}
        if 'exc' in r:
            ctx.fail('legacy-locale|raises', 'under the C locale (file-system encoding %s) decoding raised %s; this process decodes %r' % (res['fsenc'], r['exc'][:120], want['interp']), case)
        else:
            for key in ('names', 'strings', 'interp'):
                if r[key] != want[key]:
                    ctx.fail('legacy-locale|%s-differ' % key, 'under the C locale (file-system encoding %s): %r; in this process: %r' % (res['fsenc'], r[key][:3], want[key][:3]), case)
        ctx.count('legacy-locale.files')
        ctx.evaluations += 1
        ctx.counters['bulk_nontrivial'] += 1


def run_case(ctx, case):
    k = case['k']
    if k == 'legacy-locale':
        _legacy_compare(ctx, [{'_raw': bytes(case['data'])}])
        ctx.case(('legacy-locale', bytes(case['data'])), True)
        return
    if k == 'far':
        run_far(ctx, case)
    elif k == 'data':
        run_data(ctx, case)
    elif k == 'addr':
        run_addr(ctx, case)
    else:
        run_inseg(ctx, case)


def build_any(ch, tier):
    k = ch.int(0, 9)
    if k <= 4:
        return build_data(ch, tier)
    if k <= 6:
        return build_addr(ch, tier)
    return build_inseg(ch, tier)


strategy = composite_from(build_any)


def sweep(tier):
    cases = []
    # decision table packed into files: group by segment, up to 256 sections per file
    full = tier == 'thorough'
    cur_seg, cur_secs = None, []
    n = 0
    def flush():
        nonlocal cur_seg, cur_secs, n
        if cur_seg is not None and cur_secs:
            n += 1
            cases.append({'k': 'inseg', 'cls': (32, 64)[n % 2], 'le': bool((n // 2) % 2), 'segs': [cur_seg], 'secs': cur_secs})
        cur_secs = []
    for seg, sec in geometry_cells(full):
        if seg is not cur_seg or len(cur_secs) >= 300:
            flush()
            cur_seg = seg
        cur_secs.append(sec)
    flush()
    # data: boundary sizes for every kind in every cell
    k = 0
    for cls in (32, 64):
        for le in (True, False):
            for size in (0, 1, 63, 64, 65, 127, 128, 129, 4096):
                k += 1
                ch = RndChooser(7000 + k)
                payload = ch.bytes(size)
                secs = [{'name': '', 'sh_type': 0},
                        {'ck': 'raw', 'name': '.r', 'sh_type': 1, 'sh_addralign': 4, 'data': payload},
                        {'ck': 'nobits', 'name': '.bss', 'sh_flags': 3, 'sh_addralign': 8, 'size_override': size},
                        {'ck': 'z', 'name': '.debug_x', 'sh_type': 1, 'payload': payload, 'level': k % 10, 'wbits': (15, 9, 12)[k % 3], 'splits': [size // 2],
                         'ch_addralign': 1 << (k % 7), 'sh_addralign': 1},
                        {'ck': 'str', 'name': '.st', 'sh_type': 3, 'data': b'\0' + utf8_string(ch, size) + b'\0', 'queries': [0, 1]},
                        {'name': '.shstrtab', 'sh_type': 3, 'data': b''}]
                m = {'cls': cls, 'le': le, 'e_type': 1, 'sections': secs, 'shstrndx': 5, 'order': ['sh', 5, 1, 2, 3, 'ph', 4], 'tail': 0,
                     'segments': [{'p_type': 3, 'p_offset': ['sec_off', 4, 1], 'p_filesz': ['sec_size', 4, -1], 'p_memsz': ['sec_size', 4, -1]},
                                  {'p_type': 1, 'p_offset': ['sec_off', 1, 0], 'p_filesz': ['sec_size', 1, 0], 'p_memsz': ['sec_size', 1, 0]}]}
                cases.append({'k': 'data', 'model': m})
                for variant, extra in (('short', {'delta': 1}), ('long', {'delta': 1}), ('trunc', {'delta': 4}), ('badtype', {'ch_type': 2})):
                    if size == 0 and variant in ('short', 'trunc'):
                        continue
                    s2 = [dict(s) for s in secs]
                    s2[3] = dict(s2[3], variant=variant, **extra)
                    cases.append({'k': 'data', 'model': dict(m, sections=s2)})
    # placement at and beyond 2**31 / 2**32 / 2**40 / 2**62 (sparse files)
    for k, (cls, base) in enumerate(((32, 0x7ffffff0), (32, 0x80000000), (32, 0xfffe0000), (64, 0x7ffffff0), (64, 0x80000000), (64, 0xfffffff0),
                                     (64, 1 << 32), (64, (1 << 40) + 8), (64, 1 << 62))):
        for far_table in (False, True):
            cases.append({'k': 'far', 'cls': cls, 'le': bool((k + far_table) % 2), 'base': base, 'far_table': far_table})
    # extremely redundant large payloads: deflate expands up to 1032:1, so a few KiB of stream carry several MiB (every zlib level)
    for k, (n, level) in enumerate(((4 << 20, 9), (4 << 20, 1), (3 << 20, 6), (8 << 20, 4)) if tier == 'quick' else
                                   ((4 << 20, 9), (4 << 20, 1), (3 << 20, 6), (8 << 20, 4), (32 << 20, 9), (20 << 20, 6), (5 << 20, 0))):
        secs = [{'name': '', 'sh_type': 0},
                {'ck': 'z', 'name': '.debug_str', 'sh_type': 1, 'payload': ['run', n, b'\0first\0second string\0'], 'level': level, 'splits': [],
                 'ch_addralign': 1, 'sh_addralign': 1},
                {'name': '.shstrtab', 'sh_type': 3, 'data': b''}]
        cases.append({'k': 'data', 'model': {'cls': (64, 32)[k % 2], 'le': bool(k % 3), 'e_type': 1, 'sections': secs, 'shstrndx': 2, 'segments': []}})
    return cases


def floors(ctx):
    c = ctx.counters
    need = ['far.files', 'sec.z.specialised-type', 'legacy-locale.files', 'legacy-locale.fsenc.ascii', 'sec.raw', 'sec.nobits', 'sec.z.ok', 'sec.z.short', 'sec.z.long', 'sec.z.trunc', 'sec.z.badtype', 'str.query.chunk+',
            'seg.interp', 'seg.data', 'addr.query.boundary', 'addr.query.hit', 'addr.query.miss', 'addr.query.multi', 'inseg.pairs.boundary']
    out = ['no case of class ' + k for k in need if c[k] == 0]
    if c['inseg.pairs'] < 5000:
        out.append('in-segment decision table too small: %d pairs' % c['inseg.pairs'])
    return out


def evidence_extra(ctx):
    return {'inseg_pairs_compared': ctx.counters['inseg.pairs'],
            'exhaustive': ctx.tier == 'thorough',
            'exhaustive_note': 'thorough enumerates the complete section-in-segment decision table defined in geometry_cells(full=True); '
                               'quick samples its diagonal and axis sweeps'}

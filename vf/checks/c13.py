"""C13 - address-range and name lookup tables resolve to the right compilation unit; unit lookup by offset.

Three families of cases (case['fam']):

  'aranges'  a .debug_aranges section written by vf/enc/c13_tables.py from a model of 0..8 sets, read back through
             DWARFInfo.get_aranges(): .entries against the multiset of encoded tuples (with their set headers) and
             cu_offset_at_addr against a brute-force search of the model at every range's first/last byte, the byte
             before/after, gap mid-points, 0, 2^32-1, 2^32, 2^64-1.
  'names'    .debug_pubnames / .debug_pubtypes sections from a model of 0..6 sets, read back through
             DWARFInfo.get_pubnames()/get_pubtypes(): the whole Mapping interface (every accessor also as the first call on a
             fresh object, because the table is loaded lazily) and get_cu_headers().
  'units'    a multi-unit .debug_info written by the independent writer vf/enc/dwarf.py (2..6 units of mixed version x
             DWARF32/64 x address size x v5 unit type), name tables that point at real entries of it and an aranges table that
             points at its 32-bit units; a random operation prefix (offset-exact lookups, containing lookups, partially
             consumed and resumed iter_CUs, get_DIE_from_lut_entry, get_DIE_from_refaddr) followed by get_CU_containing at
             EVERY offset 0..size-1 in several orders on the used and on fresh objects.
"""
import io
import random

from vf.enc import dwarf as D
from vf.enc import c13_tables as T
from vf.choose import RndChooser, composite_from
from vf import textpool

ID = 'C13'
RULE = ('(a) .debug_aranges: 0-8 sets (32-bit DWARF format, version 2, address size 4/8 incl. mixed in one section, set starts kept at '
        'multiples of the tuple size so that section-relative and set-relative padding coincide), non-overlapping ranges dealt to the '
        'sets in random (unsorted) order, adjacent ranges of different sets, empty sets, all-empty tables, a range starting at 0, a range '
        'ending at 2^32 / 2^64, zero-length ranges in gaps; written by an independent encoder (refereed by readelf and llvm-dwarfdump), '
        '.entries compared as a multiset of 7-tuples, cu_offset_at_addr queried at every first/last byte, byte before/after, gap middle, '
        '0, 2^32-1, 2^32, 2^64-1 against a brute-force model. (b) .debug_pubnames/.debug_pubtypes: 0-6 sets, 0-30 names (ASCII, Latin, '
        'CJK, non-BMP, long, empty), empty sets, both byte orders; ordered name -> (cu_ofs, cu_ofs+offset) through len/[]/in/iter/keys/'
        'values/items/get/get_entries, each also as first access of a fresh object, and get_cu_headers(); a duplicate-name family '
        'requires only that a name maps to one of its encoded entries. (c) 2-6 unit .debug_info (v2-5 x DWARF32/64 x addr 4/8 x v5 unit '
        'types, tail padding): operation prefix (get_CU_at, get_CU_containing at unit boundaries, partial/resumed iter_CUs, '
        'get_DIE_from_lut_entry, get_DIE_from_refaddr) then get_CU_containing at every offset 0..size-1 ascending/descending/'
        'middle-outwards/permuted on used and fresh objects, get_CU_at at every unit offset in permuted order, aranges -> get_CU_at. '
        'Non-trivial: >= 2 sets (with at least one range / name) or >= 2 units, and a boundary query (first/last byte of a range, '
        'first/last offset of a unit, first/last name of a set) was checked. Distinct by SHA-1 of the encoded sections + operations.')
N = {'quick': 3000, 'thorough': 100000}
ASSUMPTIONS = [
    'lookup tables use the 32-bit DWARF format, version 2, segment_selector_size 0; every aranges set starts at a multiple of 2*address_size',
    'address ranges of one table do not overlap (a zero-length range never lies inside or at the start of another range, except in the '
    'separate family zl_shadow, see EMPTY_RANGE_SHADOW); no (0,0) tuple and no name offset 0 other than the terminators',
    'names are valid UTF-8 without NUL; unique across a section except in the duplicate-name family',
    'name sets and aranges sets refer only to 32-bit-format units (DWARF v5 7.4: formats are not mixed within one unit\'s contributions)',
    'unit lookups use offsets 0..size-1 of a .debug_info that is tiled exactly by well-formed units; get_CU_at only at unit starts',
    'object identity of repeated lookups (caching) is not part of the property and is not compared',
]

# A zero-length range that starts where (or inside) a non-empty range of the table lies "contains" no address (DWARF v5 6.1.2 gives
# every tuple as a beginning address and a length), so the enclosing / following range must still be found.  These inputs are generated
# only in the sub-family zl_shadow and reported under their own bucket; set to False to drop the sub-family.
EMPTY_RANGE_SHADOW = True

TAG_NAME = {0x11: 'DW_TAG_compile_unit', 0x2e: 'DW_TAG_subprogram', 0x34: 'DW_TAG_variable', 0x24: 'DW_TAG_base_type',
            0x13: 'DW_TAG_structure_type', 0x0d: 'DW_TAG_member', 0x3c: 'DW_TAG_partial_unit', 0x41: 'DW_TAG_type_unit',
            0x4a: 'DW_TAG_skeleton_unit'}
ARANGE_FIELDS = ('begin_addr', 'length', 'info_offset', 'unit_length', 'version', 'address_size', 'segment_size')
NAME_HDR_FIELDS = ('unit_length', 'version', 'debug_info_offset', 'debug_info_length')


def run_case(ctx, case):
    fam = case['fam']
    if fam == 'aranges':
        run_aranges(ctx, case)
    elif fam == 'names':
        run_names(ctx, case)
    elif fam == 'units':
        run_units(ctx, case)
    elif fam == 'farunits':
        run_farunits(ctx, case)
    else:
        raise ValueError('unknown family %r' % fam)


# ---------------------------------------------------------------------------
# (d) units beyond 4 GiB: a .debug_info held by a sparse stream (only the unit headers and top entries exist, the rest reads as zeros,
#     i.e. as null entries); a 64-bit-format unit crosses offset 2**32 and two more units follow it

def run_farunits(ctx, case):
    from vf.enc.sparse import SparseStream
    from elftools.dwarf.dwarfinfo import DWARFInfo, DebugSectionDescriptor, DwarfConfig
    le, A = case['le'], case['addr_size']

    def header(fmt, ver, length):
        h = D.initial_length(le, fmt, length) + D.u(le, 2, ver)
        O = 4 if fmt == 32 else 8
        return h + (bytes([1, A]) + D.u(le, O, 0) if ver >= 5 else D.u(le, O, 0) + bytes([A])) + b'\x01'
    chunks, exp, pos = {}, [], 0
    for fmt, ver, length in case['units']:
        chunks[pos] = header(fmt, ver, length)
        size = length + (4 if fmt == 32 else 12)
        exp.append((pos, size))
        pos += size
    total = pos
    abbrev = b'\x01\x11\x00\x00\x00\x00'

    def mk():
        kw = {arg: None for arg in D.SECTION_ARGS.values()}
        kw['debug_info_sec'] = DebugSectionDescriptor(stream=SparseStream(total, chunks), name='.debug_info', global_offset=0, size=total, address=0)
        kw['debug_abbrev_sec'] = DebugSectionDescriptor(stream=io.BytesIO(abbrev), name='.debug_abbrev', global_offset=0, size=len(abbrev), address=0)
        return DWARFInfo(config=DwarfConfig(little_endian=le, machine_arch='x64', default_address_size=A), **kw)
    offs = [o for o, _ in exp]
    try:
        di = mk()
        got = [cu.cu_offset for cu in di.iter_CUs()]
        if got != offs:
            ctx.fail('farunits|iter_CUs', 'units at %r, iterated %r' % (offs, got), case)
        for order in (list(range(len(exp))), list(reversed(range(len(exp)))), case.get('perm') or [2, 0, 3, 1]):
            for fresh in (False, True):
                d2 = mk() if fresh else di
                for i in order:
                    o, size = exp[i % len(exp)]
                    cu = d2.get_CU_at(o)
                    if cu.cu_offset != o or cu.size != size:
                        ctx.fail('farunits|get_CU_at', 'get_CU_at(%#x): unit at %#x size %#x, expected size %#x' % (o, cu.cu_offset, cu.size, size), case)
                    for q in (o, o + 1, o + size // 2, o + size - 1):
                        c2 = d2.get_CU_containing(q)
                        if c2.cu_offset != o:
                            ctx.fail('farunits|get_CU_containing', 'offset %#x lies in the unit at %#x, got the unit at %#x (%s object, order %r)' % (
                                q, o, c2.cu_offset, 'fresh' if fresh else 'used', order), case)
                    top = cu.get_top_DIE()
                    if top.tag != 'DW_TAG_compile_unit' or top.offset != o + len(chunks[o]) - 1:
                        ctx.fail('farunits|top-DIE', 'unit at %#x: %r at %#x' % (o, top.tag, top.offset), case)
        if [cu.cu_offset for cu in di.iter_CUs()] != offs:
            ctx.fail('farunits|iter_CUs|after-lookups', 'units at %r' % (offs,), case)
    except Exception as e:  # noqa
        ctx.fail_exc('farunits', e, case)
    ctx.count('fam.farunits')
    ctx.case(('farunits', le, A, tuple(map(tuple, case['units']))), True, dict(case))


# ---------------------------------------------------------------------------
# (a) aranges

def _model_lookup(ranges, addr):
    """ranges: [(begin, length, info)] -> set of info offsets of the ranges containing addr"""
    return {info for (b, ln, info) in ranges if b <= addr < b + ln}


def _position(ranges, addr):
    for b, ln, _ in ranges:
        if ln and addr == b:
            return 'first'
    for b, ln, _ in ranges:
        if ln and addr == b + ln - 1:
            return 'last'
    for b, ln, _ in ranges:
        if b < addr < b + ln:
            return 'inner'
    for b, ln, _ in ranges:
        if ln and addr == b + ln:
            return 'end'
    for b, ln, _ in ranges:
        if ln and addr == b - 1:
            return 'before'
    return 'outside'


def aranges_queries(ranges, extra=()):
    qs = {0, 1, 0xffffffff, 0x100000000, (1 << 64) - 1, (1 << 63)}
    srt = sorted((b, ln) for (b, ln, _) in ranges)
    for b, ln in srt:
        for a in (b - 1, b, b + 1, b + ln // 2, b + ln - 1, b + ln, b + ln + 1):
            if 0 <= a < (1 << 64):
                qs.add(a)
    for (b0, l0), (b1, _l1) in zip(srt, srt[1:]):
        if b0 + l0 < b1:
            qs.add((b0 + l0 + b1) // 2)
    for a in extra:
        qs.add(a % (1 << 64))
    return sorted(qs)


def check_aranges(ctx, case, ar, sets, exp_entries, tagp='aranges'):
    """compare an ARanges object with the model; returns set of position classes that were queried on a hit"""
    ranges = [(e[0], e[1], e[2]) for e in exp_entries]
    # -- entries
    try:
        got = [tuple(getattr(e, f) for f in ARANGE_FIELDS) for e in ar.entries]
    except Exception as e:  # noqa
        ctx.fail_exc('%s.entries' % tagp, e, case)
        got = None
    if got is not None:
        if len(got) != len(exp_entries):
            ctx.fail('%s.entries|count' % tagp, 'encoded %d tuples in %d sets, .entries has %d: %r' % (
                len(exp_entries), len(sets), len(got), got[:6]), case)
        elif sorted(got) != sorted(exp_entries):
            ga, ea = sorted(got), sorted(exp_entries)
            fld = 'tuple'
            # name the first field that differs once the tuples are matched up by (begin, length)
            if sorted(g[:2] for g in ga) == sorted(e[:2] for e in ea):
                for g, e in zip(ga, ea):
                    d = [ARANGE_FIELDS[i] for i in range(7) if g[i] != e[i]]
                    if d:
                        fld = d[0]
                        break
            else:
                fld = 'begin_addr/length'
            ctx.fail('%s.entries|field=%s' % (tagp, fld), 'expected multiset %r got %r' % (ea[:8], ga[:8]), case)
        else:
            begins = [g[0] for g in got]
            if begins != sorted(begins):
                ctx.fail('%s.entries|not-sorted-by-begin_addr' % tagp, 'begin addresses %r' % begins[:12], case)
    # -- lookups
    seen = set()
    zero_len = [(b, ln) for (b, ln, _) in ranges if ln == 0]
    for addr in aranges_queries(ranges, case.get('queries', ())):
        exp = _model_lookup(ranges, addr)
        assert len(exp) <= 1, 'generator produced overlapping ranges'
        pos = _position(ranges, addr)
        try:
            g = ar.cu_offset_at_addr(addr)
        except Exception as e:  # noqa
            if not exp_entries and isinstance(e, IndexError):
                ctx.fail('%s.lookup|empty-table|IndexError' % tagp,
                         'table with %d sets and no ranges: cu_offset_at_addr(%#x) raised IndexError instead of returning None' % (
                             len(sets), addr), case)
                break       # every query fails alike
            ctx.fail_exc('%s.lookup|at=%s' % (tagp, pos), e, case, extra='addr=%#x' % addr)
            continue
        ctx.count('ar.q.' + pos)
        if exp:
            seen.add(pos)
        e1 = next(iter(exp)) if exp else None
        if g == e1 and (g is None or type(g) is int):
            continue
        if e1 is not None and g is None:
            hit = next((b, ln) for (b, ln, i) in ranges if b <= addr < b + ln)
            if any(hit[0] <= zb <= addr for zb, _ in zero_len):
                ctx.fail('%s.lookup|miss|shadowed-by-zero-length-range' % tagp,
                         'addr %#x lies in [%#x,+%#x) of unit %#x, got None; a zero-length tuple starts in [%#x,%#x]' % (
                             addr, hit[0], hit[1], e1, hit[0], addr), case)
            else:
                ctx.fail('%s.lookup|miss|at=%s' % (tagp, pos), 'addr %#x lies in [%#x,+%#x) of unit %#x, got None' % (addr, hit[0], hit[1], e1), case)
        elif e1 is None:
            ctx.fail('%s.lookup|false-hit|at=%s' % (tagp, pos), 'addr %#x is in no encoded range, got %r' % (addr, g), case)
        else:
            ctx.fail('%s.lookup|wrong-unit|at=%s' % (tagp, pos), 'addr %#x: expected unit %#x got %r' % (addr, e1, g), case)
    return seen


def run_aranges(ctx, case):
    sets = case['sets']
    fmt = case.get('fmt', 32)
    sec, exp_entries, layout = T.enc_aranges(case['le'], sets, fmt)
    key = ('aranges', case['le'], sec, tuple(case.get('queries', ())))
    ctx.count('ar.fmt%d' % fmt)
    nonempty_sets = sum(1 for s in sets if s['ranges'])
    ctx.count('fam.aranges')
    ctx.count('ar.sets.%d' % len(sets))
    ctx.count('ar.%s' % ('le' if case['le'] else 'be'))
    sizes = {s['A'] for s in sets}
    ctx.count('ar.addr.%s' % ('mixed' if len(sizes) > 1 else '-'.join(map(str, sizes)) or 'none'))
    if any(not s['ranges'] for s in sets):
        ctx.count('ar.has-empty-set')
    if any(s.get('slack') for s in sets[:-1]):
        ctx.count('ar.slack-behind-terminator')
    if sets and not exp_entries:
        ctx.count('ar.all-empty')
    if not sets:
        ctx.count('ar.no-sets')
    if any(ln == 0 for e in exp_entries for ln in (e[1],)):
        ctx.count('ar.zero-length-range')
    if case.get('zl_shadow'):
        ctx.count('ar.zl_shadow')
    srt = sorted((e[0], e[1], e[2]) for e in exp_entries if e[1])
    if any(a[0] + a[1] == b[0] and a[2] != b[2] for a, b in zip(srt, srt[1:])):
        ctx.count('ar.adjacent-different-units')
    if any(e[0] == 0 for e in exp_entries):
        ctx.count('ar.range-at-0')
    if any(e[0] + e[1] == (1 << (8 * e[5])) for e in exp_entries):
        ctx.count('ar.range-to-max')
    for s in sets:
        b = [r[0] for r in s['ranges']]
        if b != sorted(b):
            ctx.count('ar.unsorted-set')
            break
    try:
        di = D.make_dwarfinfo({'.debug_aranges': sec}, case['le'], case.get('default_addr', 8))
        if fmt == 32:
            ar = di.get_aranges()
        else:
            # a table in the 64-bit format is decoded by an ARanges object made with the public constructor and 64-bit structs
            # (get_aranges() hands the table the 32-bit structs of the DWARFInfo)
            from elftools.dwarf.aranges import ARanges
            from elftools.dwarf.structs import DWARFStructs
            ar = ARanges(io.BytesIO(sec), len(sec), DWARFStructs(little_endian=case['le'], dwarf_format=64, address_size=case.get('default_addr', 8)))
    except Exception as e:  # noqa
        ctx.fail_exc('aranges.parse', e, case)
        ctx.case(key, False)
        return
    if ar is None:
        ctx.fail('aranges.absent', 'get_aranges() returned None for a %d-byte section' % len(sec), case)
        ctx.case(key, False)
        return
    seen = check_aranges(ctx, case, ar, sets, exp_entries)
    try:
        if di.get_pubnames() is not None or di.get_pubtypes() is not None:
            ctx.fail('names.absent-section', 'get_pubnames()/get_pubtypes() is not None without such a section', case)
    except Exception as e:  # noqa
        ctx.fail_exc('names.absent-section', e, case)
    nt = nonempty_sets >= 2 and bool(seen & {'first', 'last'})
    ctx.case(key, nt, {'fam': 'aranges', 'le': case['le'], 'sets': [(s['A'], hex(s['info']), len(s['ranges'])) for s in sets],
                       'section_hex': sec[:96].hex()})


# ---------------------------------------------------------------------------
# (b) pubnames / pubtypes

ACCESSORS = ('len', 'getitem', 'iter', 'items', 'get', 'headers', 'get_entries', 'keys', 'values', 'contains')


def check_names(ctx, case, le, make_lut, sets, which, dup, absent=('', 'no such name', 'main\0')):
    """make_lut() -> fresh NameLUT.  Returns (expected ordered pairs, ok)"""
    sec, pairs, headers = T.enc_names(le, sets)
    tagp = 'names'
    by_name = {}
    for n, cu, die in pairs:
        by_name.setdefault(n, []).append((cu, die))
    order = [p[0] for p in pairs]
    distinct = list(by_name)      # first-occurrence order
    absent = [a for a in absent if a not in by_name]

    def ok_value(name, v):
        try:
            t = (v.cu_ofs, v.die_ofs)
        except Exception:  # noqa
            return False
        if tuple(v) != t:
            return False
        return t in by_name[name] if dup else t == by_name[name][0]

    def bad_value(name, v, via):
        exp = by_name[name]
        try:
            cu, die = v.cu_ofs, v.die_ofs
        except Exception:  # noqa
            ctx.fail('%s.value|not-an-entry' % tagp, '%s %s[%r] -> %r' % (which, via, name, v), case)
            return
        if cu not in [e[0] for e in exp]:
            fld = 'cu_ofs'
        else:
            fld = 'die_ofs'
        ctx.fail('%s.value|%s' % (tagp, fld), '%s %s[%r]: encoded (cu_ofs, cu_ofs+offset) %r, got (%r, %r)' % (
            which, via, name, exp if dup else exp[0], cu, die), case)

    def check_keys(keys, via):
        keys = list(keys)
        if dup:
            if sorted(keys) != sorted(distinct):
                ctx.fail('%s.keys|set' % tagp, '%s %s: expected names %r got %r' % (which, via, sorted(distinct)[:10], sorted(keys)[:10]), case)
                return False
            return True
        if keys != order:
            if sorted(keys, key=repr) == sorted(order, key=repr):
                ctx.fail('%s.keys|order' % tagp, '%s %s: encoded order %r got %r' % (which, via, order[:10], keys[:10]), case)
            else:
                ctx.fail('%s.keys|set' % tagp, '%s %s: encoded names %r got %r' % (which, via, order[:10], keys[:10]), case)
            return False
        return True

    for first in ACCESSORS:
        try:
            lut = make_lut()
        except Exception as e:  # noqa
            ctx.fail_exc('%s.open' % tagp, e, case)
            return pairs, False
        if lut is None:
            ctx.fail('%s.absent' % tagp, 'get_%s() returned None for a %d-byte section' % (which, len(sec)), case)
            return pairs, False
        seq = (first,) + tuple(a for a in ACCESSORS if a != first) if first == ACCESSORS[0] else (first,)
        for acc in seq:
            via = acc + ('(first access)' if acc == first else '')
            try:
                if acc == 'len':
                    n = len(lut)
                    if n != len(distinct):
                        ctx.fail('%s.len' % tagp, '%s: %d sets with %d names (%d distinct), len() = %r' % (which, len(sets), len(order), len(distinct), n), case)
                elif acc == 'getitem':
                    for name in distinct:
                        try:
                            v = lut[name]
                        except KeyError:
                            ctx.fail('%s.getitem|KeyError' % tagp, '%s %s: encoded name %r not found' % (which, via, name), case)
                            break
                        if not ok_value(name, v):
                            bad_value(name, v, via)
                            break
                    for a in absent:
                        try:
                            v = lut[a]
                            ctx.fail('%s.getitem|absent-name-found' % tagp, '%s[%r] -> %r' % (which, a, v), case)
                        except KeyError:
                            pass
                elif acc == 'iter':
                    check_keys(iter(lut), via)
                elif acc == 'keys':
                    check_keys(lut.keys(), via)
                elif acc == 'items':
                    items = list(lut.items())
                    if check_keys([k for k, _ in items], via):
                        for k, v in items:
                            if not ok_value(k, v):
                                bad_value(k, v, via)
                                break
                elif acc == 'values':
                    vals = list(lut.values())
                    if len(vals) != len(distinct):
                        ctx.fail('%s.values|count' % tagp, '%s: expected %d got %d' % (which, len(distinct), len(vals)), case)
                    elif not dup:
                        for name, v in zip(order, vals):
                            if not ok_value(name, v):
                                bad_value(name, v, via)
                                break
                elif acc == 'get':
                    for name in distinct:
                        v = lut.get(name)
                        if v is None:
                            ctx.fail('%s.get|None' % tagp, '%s %s: encoded name %r -> None' % (which, via, name), case)
                            break
                        if not ok_value(name, v):
                            bad_value(name, v, via)
                            break
                    sentinel = ('sentinel',)
                    for a in absent:
                        if lut.get(a) is not None or lut.get(a, sentinel) is not sentinel:
                            ctx.fail('%s.get|absent-name-found' % tagp, '%s.get(%r) -> %r' % (which, a, lut.get(a)), case)
                elif acc == 'contains':
                    for name in distinct:
                        if name not in lut:
                            ctx.fail('%s.contains|missing' % tagp, '%s %s: encoded name %r not in table' % (which, via, name), case)
                            break
                    for a in absent:
                        if a in lut:
                            ctx.fail('%s.contains|absent-name-found' % tagp, '%s: %r in table' % (which, a), case)
                elif acc == 'get_entries':
                    ents = lut.get_entries()
                    if check_keys(list(ents), via):
                        for k in distinct:
                            if not ok_value(k, ents[k]):
                                bad_value(k, ents[k], via)
                                break
                elif acc == 'headers':
                    hs = lut.get_cu_headers()
                    got = []
                    for h in hs:
                        got.append({f: h[f] for f in NAME_HDR_FIELDS})
                    if len(got) != len(headers):
                        ctx.fail('%s.headers|count' % tagp, '%s %s: %d sets encoded, %d headers' % (which, via, len(headers), len(got)), case)
                    else:
                        for i, (g, e) in enumerate(zip(got, headers)):
                            d = [f for f in NAME_HDR_FIELDS if g[f] != e[f]]
                            if d:
                                ctx.fail('%s.headers|field=%s' % (tagp, d[0]), '%s %s: set %d encoded %r got %r' % (which, via, i, e, g), case)
                                break
            except Exception as e:  # noqa
                ctx.fail_exc('%s.%s' % (tagp, acc), e, case, extra='(%s, %s)' % (which, via))
    # Mapping equality and the documented get_entries()/set_entries() round trip
    try:
        lut, lut2 = make_lut(), make_lut()
        if not dup and not (lut == {n: (cu, die) for n, cu, die in pairs}):
            ctx.fail('%s.eq' % tagp, '%s: table != dict of the encoded pairs' % which, case)
        ents, hdrs = lut.get_entries(), lut.get_cu_headers()
        lut2.set_entries(ents, hdrs)
        if len(lut2) != len(distinct) or lut2.get_cu_headers() is not hdrs or list(lut2.items()) != list(ents.items()):
            ctx.fail('%s.set_entries' % tagp, '%s: a table fed with set_entries() does not answer from those entries' % which, case)
    except Exception as e:  # noqa
        ctx.fail_exc('%s.set_entries' % tagp, e, case)
    return pairs, True


def run_names(ctx, case):
    le = case['le']
    secs = {}
    for which, sname in (('pubnames', '.debug_pubnames'), ('pubtypes', '.debug_pubtypes')):
        if case.get(which) is not None:
            secs[sname] = T.enc_names(le, case[which])[0]
    key = ('names', le, tuple(sorted(secs.items())))
    ctx.count('fam.names')
    ctx.count('nm.%s' % ('le' if le else 'be'))
    dup = bool(case.get('dup'))
    try:
        di = D.make_dwarfinfo(secs, le, case.get('default_addr', 8))
    except Exception as e:  # noqa
        ctx.fail_exc('names.open', e, case)
        ctx.case(key, False)
        return
    nt = False
    for which in ('pubnames', 'pubtypes'):
        sets = case.get(which)
        getter = getattr(di, 'get_' + which)
        if sets is None:
            ctx.count('nm.section-absent')
            try:
                if getter() is not None:
                    ctx.fail('names.absent-section', 'get_%s() is not None without such a section' % which, case)
            except Exception as e:  # noqa
                ctx.fail_exc('names.absent-section', e, case)
            continue
        ctx.count('nm.sets.%d' % len(sets))
        nn = sum(len(s['names']) for s in sets)
        ctx.count('nm.names.%s' % ('0' if nn == 0 else '1-5' if nn <= 5 else '6-15' if nn <= 15 else '16+'))
        if any(not s['names'] for s in sets):
            ctx.count('nm.has-empty-set')
        if any(s.get('slack') for s in sets[:-1]):
            ctx.count('nm.slack-behind-terminator')
        if sets and nn == 0:
            ctx.count('nm.all-empty')
        if any(any(ord(c) > 127 for c in n) for s in sets for _, n in s['names']):
            ctx.count('nm.non-ascii')
        if any(any(ord(c) > 0xffff for c in n) for s in sets for _, n in s['names']):
            ctx.count('nm.non-bmp')
        if any(n == '' for s in sets for _, n in s['names']):
            ctx.count('nm.empty-name')
        if dup:
            ctx.count('nm.duplicate-family')
        check_names(ctx, case, le, getter, sets, which, dup)
        if sum(1 for s in sets if s['names']) >= 2:
            nt = True
    try:
        if di.get_aranges() is not None:
            ctx.fail('aranges.absent-section', 'get_aranges() is not None without such a section', case)
    except Exception as e:  # noqa
        ctx.fail_exc('aranges.absent-section', e, case)
    ctx.case(key, nt, {'fam': 'names', 'le': le, 'pubnames': _names_summary(case.get('pubnames')), 'pubtypes': _names_summary(case.get('pubtypes')),
                       'pubnames_hex': secs.get('.debug_pubnames', b'')[:64].hex()})


def _names_summary(sets):
    if sets is None:
        return None
    return [(hex(s['info']), [n for _, n in s['names']][:4]) for s in sets][:4]


# ---------------------------------------------------------------------------
# (c) unit lookup

def _lib_ut():
    from elftools.dwarf import enums as E
    return E.ENUM_DW_UT


def cmp_unit(ctx, case, cu, eu, via):
    """-> True when cu is the expected unit (further discrepancies are reported but do not change the verdict)"""
    try:
        off = cu.cu_offset
    except Exception:  # noqa
        ctx.fail('units.%s|not-a-unit' % via, 'expected unit at %d, got %r' % (eu['offset'], cu), case)
        return False
    if off != eu['offset']:
        return False
    try:
        if cu.size != eu['size']:
            ctx.fail('units.%s|size' % via, 'unit at %d: encoded size %d got %r' % (off, eu['size'], cu.size), case)
        if cu.cu_die_offset != eu['die_offset']:
            ctx.fail('units.%s|cu_die_offset' % via, 'unit at %d (version %d, %d-bit): expected %d got %r' % (
                off, eu['header']['version'], eu['fmt'], eu['die_offset'], cu.cu_die_offset), case)
        if cu.dwarf_format() != eu['fmt']:
            ctx.fail('units.%s|dwarf_format' % via, 'unit at %d: expected %d got %r' % (off, eu['fmt'], cu.dwarf_format()), case)
        for k, v in eu['header'].items():
            g = cu.header[k]
            if k == 'unit_type':
                g = _lib_ut().get(g, g)
            if g != v:
                ctx.fail('units.%s|header|%s' % (via, k), 'unit at %d: encoded %r got %r' % (off, v, cu.header[k]), case)
    except Exception as e:  # noqa
        ctx.fail_exc('units.%s|header' % via, e, case)
    return True


def _rel(exp_units, ei, got_off):
    offs = [u['offset'] for u in exp_units]
    if got_off in offs:
        gi = offs.index(got_off)
        return 'previous-unit' if gi == ei - 1 else 'next-unit' if gi == ei + 1 else 'other-unit'
    return 'no-unit-start'


def _exp_index(exp_units, off):
    for i, u in enumerate(exp_units):
        if u['offset'] <= off < u['offset'] + u['size']:
            return i
    raise AssertionError('offset %d outside every unit (writer bug)' % off)


def q_containing(ctx, case, di, exp_units, off, phase):
    ei = _exp_index(exp_units, off)
    eu = exp_units[ei]
    try:
        cu = di.get_CU_containing(off)
    except Exception as e:  # noqa
        ctx.fail_exc('units.containing', e, case, extra='offset %d of %d, %s' % (off, exp_units[-1]['offset'] + exp_units[-1]['size'], phase))
        return False
    if not cmp_unit(ctx, case, cu, eu, 'containing'):
        g = getattr(cu, 'cu_offset', None)
        at = 'first-byte' if off == eu['offset'] else 'last-byte' if off == eu['offset'] + eu['size'] - 1 else 'inner'
        ctx.fail('units.containing|wrong-unit|got=%s|at=%s' % (_rel(exp_units, ei, g), at),
                 'get_CU_containing(%d) (%s): expected the unit [%d,%d), got the unit at %r' % (off, phase, eu['offset'], eu['offset'] + eu['size'], g), case)
        return False
    return True


def q_at(ctx, case, di, exp_units, ui, phase):
    eu = exp_units[ui]
    try:
        cu = di.get_CU_at(eu['offset'])
    except Exception as e:  # noqa
        ctx.fail_exc('units.at', e, case, extra='unit %d at %d, %s' % (ui, eu['offset'], phase))
        return False
    if not cmp_unit(ctx, case, cu, eu, 'at'):
        g = getattr(cu, 'cu_offset', None)
        ctx.fail('units.at|wrong-unit|got=%s' % _rel(exp_units, ui, g), 'get_CU_at(%d) (%s): got the unit at %r' % (eu['offset'], phase, g), case)
        return False
    return True


def cmp_die(ctx, case, die, rec, via):
    try:
        off, tag, size = die.offset, die.tag, die.size
    except Exception as e:  # noqa
        ctx.fail_exc('units.%s|die' % via, e, case)
        return
    if off != rec['offset']:
        ctx.fail('units.%s|die.offset' % via, 'expected the entry at %d, got the one at %r' % (rec['offset'], off), case)
        return
    if tag != TAG_NAME[rec['tag']]:
        ctx.fail('units.%s|die.tag' % via, 'entry at %d: encoded tag %#x (%s) got %r' % (off, rec['tag'], TAG_NAME[rec['tag']], tag), case)
    if size != rec['size']:
        ctx.fail('units.%s|die.size' % via, 'entry at %d: encoded %d bytes got %r' % (off, rec['size'], size), case)


def build_unit_tables(case, exp_units):
    """name tables and aranges derived from the written units.  -> (pubnames sets, pubtypes sets, lut entries, aranges sets)
    lut entries: [(which, name, unit index, record)]"""
    u32 = [i for i, u in enumerate(exp_units) if u['fmt'] == 32]
    per = {'n': {}, 't': {}}
    lut = []
    used = set()
    for k, (usel, dsel, name, which) in enumerate(case.get('names', [])):
        if not u32:
            break
        ui = u32[usel % len(u32)]
        dies = [r for r in exp_units[ui]['recs'] if not r['null']]
        r = dies[dsel % len(dies)]
        name = '%s#%d' % (name, k) if name in used else name
        used.add(name)
        per[which].setdefault(ui, []).append([r['offset'] - exp_units[ui]['offset'], name])
        lut.append(('pubnames' if which == 'n' else 'pubtypes', name, ui, r))
    out = []
    for which in ('n', 't'):
        order = sorted(per[which])
        if case.get('names_rev'):
            order.reverse()
        sets = [{'info': exp_units[ui]['offset'], 'info_len': exp_units[ui]['size'], 'names': per[which][ui]} for ui in order]
        if case.get('names_empty_sets'):
            # a set without names for every 32-bit unit that has none
            for ui in u32:
                if ui not in per[which]:
                    sets.append({'info': exp_units[ui]['offset'], 'info_len': exp_units[ui]['size'], 'names': []})
        out.append(sets)
    ar_sets = None
    if case.get('aranges'):
        ar_sets = []
        for j, ui in enumerate(u32):
            base = 0x10000 * (ui + 1)
            # 1 or 3 ranges: (n+1) even keeps every following set aligned to 16
            rs = [[base, 0x40], [base + 0x40 + 0x100 * len(u32), 0x10], [base + 0x8000, 1]] if (j + case['aranges']) % 2 else [[base + 0x100, 0x80]]
            if exp_units[ui]['header']['address_size'] == 8 and j % 2:
                rs = [[a + (1 << 40), ln] for a, ln in rs]
            ar_sets.append({'A': exp_units[ui]['header']['address_size'], 'info': exp_units[ui]['offset'], 'ranges': rs})
        # interleave: adjacent ranges of different units
        if len(ar_sets) >= 2 and len(ar_sets[0]['ranges']) == 1 and ar_sets[1]['A'] == ar_sets[0]['A'] == 4:
            a, ln = ar_sets[0]['ranges'][0]
            ar_sets[1]['ranges'] = list(ar_sets[1]['ranges'])
            ar_sets[1]['ranges'][0] = [a + ln, 4]
        if case.get('aranges_rev'):
            ar_sets.reverse()
        # alignment precondition
        pos = 0
        for s in ar_sets:
            if pos % (2 * s['A']):
                ar_sets = sorted(ar_sets, key=lambda s: -s['A'])
                break
            pos += 16 + 2 * s['A'] * (len(s['ranges']) + 1)
    return out[0], out[1], lut, ar_sets


def exhaustive_order(kind, size, seed):
    if kind == 'asc':
        return range(size)
    if kind == 'desc':
        return range(size - 1, -1, -1)
    if kind == 'mid':
        m = size // 2
        return list(range(m, -1, -1)) + list(range(m + 1, size))
    if kind == 'mid-out':
        m = size // 2
        out = []
        for d in range(size):
            if m - d >= 0:
                out.append(m - d)
            if d and m + d < size:
                out.append(m + d)
        return out
    if kind == 'perm':
        lst = list(range(size))
        random.Random(seed).shuffle(lst)
        return lst
    raise ValueError(kind)


def run_units(ctx, case):
    info_case = case['info']
    le = info_case['le']
    w = D.InfoWriter(info_case)
    exp_units = w.exp['units']
    nunits = len(exp_units)
    size = len(w.sections['.debug_info'])
    assert exp_units[-1]['offset'] + exp_units[-1]['size'] == size
    pn_sets, pt_sets, lut_entries, ar_sets = build_unit_tables(case, exp_units)
    secs = dict(w.sections)
    if pn_sets:
        secs['.debug_pubnames'] = T.enc_names(le, pn_sets)[0]
    if pt_sets:
        secs['.debug_pubtypes'] = T.enc_names(le, pt_sets)[0]
    ar_entries = []
    if ar_sets:
        secs['.debug_aranges'], ar_entries, _ = T.enc_aranges(le, ar_sets)
    ops = case.get('ops', [])
    orders = case.get('orders', ['asc'])
    key = ('units', le, tuple(sorted(secs.items())), ops, orders, case.get('perm_seed', 0))
    ctx.count('fam.units')
    ctx.count('un.units.%d' % nunits)
    ctx.count('un.%s' % ('le' if le else 'be'))
    for un in info_case['units']:
        ctx.count('un.cell.v%d.%d.a%d' % (un['version'], un['fmt'], un['addr_size']))
    if len({(un['version'], un['fmt'], un['addr_size']) for un in info_case['units']}) > 1:
        ctx.count('un.mixed')

    def fresh():
        return D.make_dwarfinfo(secs, le, case.get('default_addr', 8))

    try:
        di = fresh()
    except Exception as e:  # noqa
        ctx.fail_exc('units.open', e, case)
        ctx.case(key, False)
        return

    # --- name tables pointing into the section
    luts = {}
    for which, sets in (('pubnames', pn_sets), ('pubtypes', pt_sets)):
        try:
            luts[which] = getattr(di, 'get_' + which)()
        except Exception as e:  # noqa
            ctx.fail_exc('names.open', e, case)
            luts[which] = None
        if not sets:
            if luts[which] is not None:
                ctx.fail('names.absent-section', 'get_%s() is not None without such a section' % which, case)
            continue
        check_names(ctx, case, le, getattr(di, 'get_' + which), sets, which, False)

    def op_lut(j, phase, d=None):
        which, name, ui, rec = lut_entries[j % len(lut_entries)]
        d = d or di
        try:
            ent = luts[which][name]
            die = d.get_DIE_from_lut_entry(ent)
        except Exception as e:  # noqa
            ctx.fail_exc('units.lut', e, case, extra='%s[%r] -> entry at %d of unit %d (%s)' % (which, name, rec['offset'], ui, phase))
            return
        ctx.count('un.lut-entry')
        cmp_die(ctx, case, die, rec, 'lut')

    # --- operation prefix
    suspended = []       # [iterator, next expected index]
    for opi, op in enumerate(ops):
        kind = op[0]
        phase = 'op %d %r' % (opi, op)
        ctx.count('un.op.' + kind)
        if kind == 'at':
            q_at(ctx, case, di, exp_units, op[1] % nunits, phase)
        elif kind == 'cont':
            eu = exp_units[op[1] % nunits]
            off = [eu['offset'], eu['offset'] + eu['size'] - 1, eu['die_offset'], eu['die_offset'] - 1,
                   eu['offset'] + eu['size'] // 2, [r for r in eu['recs']][-1]['offset']][op[2] % 6]
            q_containing(ctx, case, di, exp_units, off, phase)
        elif kind == 'abs':
            q_containing(ctx, case, di, exp_units, op[1] % size, phase)
        elif kind in ('iter', 'resume'):
            try:
                if kind == 'iter' or not suspended:
                    suspended.append([di.iter_CUs(), 0])
                st = suspended[-1]
                for _ in range(op[1] % (nunits + 2)):
                    try:
                        cu = next(st[0])
                    except StopIteration:
                        if st[1] != nunits:
                            ctx.fail('units.iter|short', 'iter_CUs ended after %d of %d units (%s)' % (st[1], nunits, phase), case)
                        suspended.pop()
                        break
                    if st[1] >= nunits:
                        ctx.fail('units.iter|long', 'iter_CUs yields more than the %d encoded units (%s)' % (nunits, phase), case)
                        suspended.pop()
                        break
                    if not cmp_unit(ctx, case, cu, exp_units[st[1]], 'iter'):
                        ctx.fail('units.iter|wrong-unit', 'iter_CUs item %d: expected the unit at %d got %r (%s)' % (
                            st[1], exp_units[st[1]]['offset'], getattr(cu, 'cu_offset', None), phase), case)
                        suspended.pop()
                        break
                    st[1] += 1
            except Exception as e:  # noqa
                ctx.fail_exc('units.iter', e, case, extra=phase)
                if suspended:
                    suspended.pop()
        elif kind == 'lut':
            if lut_entries:
                op_lut(op[1], phase)
        elif kind == 'refaddr':
            eu = exp_units[op[1] % nunits]
            dies = [r for r in eu['recs'] if not r['null']]
            rec = dies[op[2] % len(dies)]
            try:
                die = di.get_DIE_from_refaddr(rec['offset'])
            except Exception as e:  # noqa
                ctx.fail_exc('units.refaddr', e, case, extra=phase)
                continue
            cmp_die(ctx, case, die, rec, 'refaddr')
        else:
            raise ValueError('unknown op %r' % (op,))

    # --- exhaustive get_CU_containing, first on the used object, then on fresh ones
    for oi, okind in enumerate(orders):
        d = di if oi == 0 else fresh()
        bad = 0
        phase = 'exhaustive %s%s' % (okind, ' after the operation prefix' if oi == 0 else ' on a fresh object')
        for off in exhaustive_order(okind, size, case.get('perm_seed', 0)):
            if not q_containing(ctx, case, d, exp_units, off, phase):
                bad += 1
                if bad >= 8:
                    break
        ctx.count('un.exhaustive.' + okind)
        ctx.count('un.exhaustive-offsets', size)
        # every unit offset, exact, in a permuted order; then the full iteration must still be right
        uo = list(range(nunits))
        random.Random(case.get('perm_seed', 0) + oi).shuffle(uo)
        for ui in uo:
            q_at(ctx, case, d, exp_units, ui, 'after exhaustive %s' % okind)
        try:
            offs = [cu.cu_offset for cu in d.iter_CUs()]
            if offs != [u['offset'] for u in exp_units]:
                ctx.fail('units.iter|after-lookups', 'iter_CUs offsets %r, encoded %r' % (offs, [u['offset'] for u in exp_units]), case)
        except Exception as e:  # noqa
            ctx.fail_exc('units.iter|after-lookups', e, case)

    # --- offset-exact lookups first on a fresh object, from the last unit backwards / permuted, then containing at the boundaries
    d = fresh()
    uo = list(range(nunits - 1, -1, -1))
    if case.get('perm_seed', 0) % 2:
        random.Random(case['perm_seed']).shuffle(uo)
    for ui in uo:
        q_at(ctx, case, d, exp_units, ui, 'exact lookups first, order %r' % uo)
        eu = exp_units[ui]
        for off in (eu['offset'] + eu['size'] - 1, eu['offset']):
            q_containing(ctx, case, d, exp_units, off, 'boundary after exact lookups, order %r' % uo)
    for j in range(len(lut_entries)):
        op_lut(j, 'every name on a fresh object', d=d if j % 2 else fresh())

    # --- aranges -> unit
    if ar_sets:
        try:
            ar = di.get_aranges()
            check_aranges(ctx, case, ar, ar_sets, ar_entries)
            d = fresh()
            for (b, ln, info, *_rest) in ar_entries:
                for a in (b, b + ln - 1):
                    o = ar.cu_offset_at_addr(a)
                    if o is None:
                        continue      # reported by check_aranges
                    cu = d.get_CU_at(o)
                    if cu.cu_offset != info:
                        ctx.fail('units.at|via-aranges', 'address %#x -> unit offset %r -> unit at %r, expected %d' % (a, o, cu.cu_offset, info), case)
                    ctx.count('un.aranges-to-unit')
        except Exception as e:  # noqa
            ctx.fail_exc('units.aranges', e, case)
    ctx.case(key, nunits >= 2 and bool(orders), {
        'fam': 'units', 'le': le, 'units': [(un['version'], un['fmt'], un['addr_size'], un.get('ut')) for un in info_case['units']],
        'unit_offsets': [u['offset'] for u in exp_units], 'size': size, 'ops': ops[:8], 'orders': orders,
        'names': len(lut_entries), 'info_hex': secs['.debug_info'][:48].hex()})


# ---------------------------------------------------------------------------
# generators

def gen_aranges(ch, tier):
    le = ch.bool()
    nsets = ch.choice([2, 3, 1, 4, ch.int(1, 8), ch.int(2, 8), 8])
    mode = ch.choice(['4', '8', '8', 'mixed'])
    As = [4 if mode == '4' else 8 if mode == '8' else ch.choice([4, 8]) for _ in range(nsets)]
    empties = ch.choice(['none', 'none', 'none', 'some', 'some', 'some', 'some', 'all'])
    counts = []
    for i in range(nsets):
        if empties == 'all' or (empties == 'some' and ch.bool(0.3)):
            counts.append(0)
        else:
            counts.append(ch.choice([2, 1, 3, ch.int(1, 8), ch.int(1, 8)]))
    # keep the start of every set a multiple of its tuple size: a 4-byte set followed by an 8-byte set needs an even
    # number of tuples including the terminator
    for i in range(nsets - 1):
        if As[i] == 4 and As[i + 1] == 8:
            pos = sum(16 + 2 * As[k] * (counts[k] + 1) for k in range(i + 1))
            if pos % 16:
                counts[i] += 1
    infos = []
    for i in range(nsets):
        v = ch.choice([0, 0xb, ch.int(0, 0xffff), ch.word(32)])
        if v in infos and ch.bool(0.8):
            v = (v + 1 + i) & 0xffffffff
        infos.append(v)
    # interval walk: strictly increasing, non-overlapping intervals dealt to the sets at random.  While a 4-byte set still has room
    # the walk stays below 2^32 (72 intervals x (gap <= 2^16 + length <= 2^20) from a start < 2^31 cannot reach it).
    total = sum(counts)
    remaining = list(counts)
    sets_ranges = [[] for _ in range(nsets)]
    state = {'cap4': sum(c for a, c in zip(As, counts) if a == 4), 'placed': 0}

    def put(i, begin, ln):
        assert remaining[i] > 0 and (begin, ln) != (0, 0) and begin + ln <= (1 << (8 * As[i])), (i, begin, ln)
        sets_ranges[i].append([begin, ln])
        remaining[i] -= 1
        state['placed'] += 1
        if As[i] == 4:
            state['cap4'] -= 1

    def cands():
        return [i for i in range(nsets) if remaining[i]]

    want_shadow = EMPTY_RANGE_SHADOW and total >= 3 and ch.bool(0.06)
    shadow_done = False
    cur = ch.choice([0, 0, 1, 0x1000, ch.int(0, 0x7fffffff)])
    high = False
    while state['placed'] < total:
        left = total - state['placed']
        if not high and state['cap4'] == 0 and ch.bool(0.3):
            high = True
            cur = max(cur, ch.choice([1 << 32, (1 << 32) - 1, 1 << 40, (1 << 63) - 5, (1 << 64) - (1 << 24)]))
        limit = (1 << 64) if state['cap4'] == 0 else (1 << 32)
        gap = ch.choice([0, 0, 1, 2, ch.int(0, 0x100), ch.int(0, 0x10000)])
        ln = ch.choice([1, 1, 2, 4, 0x10, ch.int(1, 0x1000), ch.int(1, 0x100000)])
        begin = cur + gap
        if begin + ln + 0x200000 * left >= limit:
            begin, ln, gap = cur, 1, 0        # running out of room near the top: pack tightly
        i = ch.choice(cands())
        if left == 1 and ch.bool(0.2):
            # the last range of the walk ends exactly at the top of the address space of its set
            top = 1 << (8 * As[i])
            if begin < top:
                ln = min(ch.choice([1, ch.int(1, 0x100)]), top - begin)
                begin = max(begin, top - ln)
                put(i, begin, top - begin)
                break
        if want_shadow and not shadow_done and state['placed'] >= 1 and left >= 2:
            # sub-family zl_shadow: a zero-length tuple that starts at the first byte of (or inside) the next non-empty range
            zb = begin + ch.choice([0, 0, ln // 2])
            if zb > 0:
                put(i, zb, 0)
                shadow_done = True
                i = ch.choice(cands())
                # ... and sometimes a second and a third one beside it (same address or the next ones), in the same or another set: neighbours
                # in the address-ordered view, all inside the one non-empty range that follows
                extra = ch.choice([0, 0, 1, 1, 2])
                while extra and left >= 2 + extra:
                    zb = min(zb + ch.choice([0, 1, 2]), begin + ln - 1)
                    put(i, zb, 0)
                    i = ch.choice(cands())
                    extra -= 1
        elif not want_shadow and begin > 0 and gap > 0 and left >= 1 and ch.bool(0.04):
            # a zero-length range strictly inside a gap: contains no address, must only show up in .entries
            put(i, begin, 0)
            cur = begin + 1
            continue
        put(i, begin, ln)
        cur = begin + ln
    sets = []
    for i in range(nsets):
        rs = sets_ranges[i]
        rs = ch.perm(rs) if len(rs) > 1 and ch.bool(0.7) else rs
        sets.append({'A': As[i], 'info': infos[i], 'ranges': [list(r) for r in rs]})
    if nsets > 1 and ch.bool(0.5):
        # set order is independent of address order - but alignment must survive the permutation
        p = ch.perm(list(range(nsets)))
        cand = [sets[k] for k in p]
        pos, ok = 0, True
        for s in cand:
            if pos % (2 * s['A']):
                ok = False
                break
            pos += 16 + 2 * s['A'] * (len(s['ranges']) + 1)
        if ok:
            sets = cand
    for s in sets:
        if ch.bool(0.2):
            s['slack'] = ch.choice([bytes(16), bytes(32), b'\xaa' * 16, ch.bytes(16, 16), b'\x01' + bytes(15)])
    case = {'fam': 'aranges', 'le': le, 'default_addr': ch.choice([4, 8]), 'sets': sets,
            'queries': [ch.word(64) for _ in range(ch.int(0, 3))]}
    if shadow_done:
        case['zl_shadow'] = True
    if mode != 'mixed' and ch.bool(0.25):
        case['fmt'] = 64          # one address size per table keeps every set on a multiple of its tuple size with the 24-byte header too
    return case


ALPHABETS = ['abcdefghijklmnopqrstuvwxyzABCXYZ_0123456789', 'abc_:<>(), *&~', 'äöüßéèñÜ', 'строка', '变量名称函数', '𝒳𝓎😀𐍈', 'aé变😀_', textpool.SPECIAL_ALPHABET]


def gen_name(ch):
    k = ch.int(0, 9)
    if k == 2 and ch.bool(0.5):
        return ch.choice(textpool.SPECIAL_NAMES)
    if k == 0:
        return ch.choice(['main', 'std::vector<int, std::allocator<int> >::operator[]', 'operator<<', '_ZN3foo3barEv', 'a', '~T', ' '])
    alpha = ch.choice(ALPHABETS)
    n = ch.choice([1, 2, 3, 5, 8, ch.int(1, 24), 100 if k == 1 else 4])
    return ''.join(ch.choice(alpha) for _ in range(n))


def gen_name_sets(ch, dup, used):
    nsets = ch.choice([2, 3, 1, 2, ch.int(0, 6), ch.int(2, 6), 6])
    budget = ch.choice([8, 3, 15, 30, 30, 0])
    sets = []
    pos = ch.choice([0, 0, 0xb, ch.int(0, 0xffff)])
    encoded = []
    for i in range(nsets):
        info_len = ch.choice([0xc, 0x20, 0x100, ch.int(0xc, 0xffff), ch.int(0xc, 0xffffff)])
        nn = 0 if (budget <= 0 or ch.bool(0.2)) else ch.int(1, max(1, min(budget, 12)))
        budget -= nn
        names = []
        for _ in range(nn):
            if dup and encoded and ch.bool(0.4):
                name = ch.choice(encoded)
            else:
                name = gen_name(ch)
                if ch.bool(0.01):
                    name = ''
                t = 0
                while name in used:
                    t += 1
                    name = '%s%d' % (name, t)
            used.add(name)
            encoded.append(name)
            off = ch.choice([0xb, 0xc, 1, info_len - 1, ch.int(1, info_len - 1), ch.int(1, info_len - 1)])
            names.append([off, name])
        sets.append({'info': pos, 'info_len': info_len, 'names': names})
        if ch.bool(0.25):
            sets[-1]['slack'] = ch.choice([b'\0', b'\0\0\0\0', b'\xaa\xbb\xcc', ch.bytes(1, 8)])
        pos += info_len + ch.choice([0, 0, ch.int(0, 0x1000)])
        if ch.bool(0.1) and pos + 0x1000000 < (1 << 32) - 0x2000000:
            pos = ch.int(pos, (1 << 32) - 0x2000000)
    if nsets > 1 and ch.bool(0.3):
        sets = ch.perm(sets)       # sets need not be in unit order
    return sets


def gen_names(ch, tier):
    le = ch.bool()
    dup = ch.bool(0.15)
    case = {'fam': 'names', 'le': le, 'default_addr': ch.choice([4, 8]), 'dup': dup}
    present = ch.choice(['both', 'both', 'n', 't'])
    usedn, usedt = set(), set()
    case['pubnames'] = gen_name_sets(ch, dup, usedn) if present in ('both', 'n') else None
    case['pubtypes'] = gen_name_sets(ch, dup, usedt) if present in ('both', 't') else None
    return case


ABTAB = [
    {'code': 1, 'tag': 0x11, 'children': True, 'attrs': [[0x03, 'DW_FORM_string', None], [0x13, 'DW_FORM_data1', None]]},
    {'code': 0x90, 'tag': 0x41, 'children': True, 'attrs': [[0x13, 'DW_FORM_data2', None]]},
    {'code': 3, 'tag': 0x3c, 'children': True, 'attrs': []},
    {'code': 4, 'tag': 0x4a, 'children': True, 'attrs': [[0x03, 'DW_FORM_strp', None]]},
    {'code': 5, 'tag': 0x2e, 'children': True, 'attrs': [[0x03, 'DW_FORM_strp', None], [0x11, 'DW_FORM_addr', None]]},
    {'code': 6, 'tag': 0x34, 'children': False, 'attrs': [[0x03, 'DW_FORM_string', None], [0x49, 'DW_FORM_ref4', None]]},
    {'code': 7, 'tag': 0x24, 'children': False, 'attrs': [[0x0b, 'DW_FORM_data1', None], [0x3e, 'DW_FORM_data1', None]]},
    {'code': 0x2001, 'tag': 0x13, 'children': True, 'attrs': [[0x0b, 'DW_FORM_udata', None]]},
    {'code': 9, 'tag': 0x0d, 'children': False, 'attrs': [[0x38, 'DW_FORM_data2', None], [0x49, 'DW_FORM_ref_addr', None]]},
]
ROOT_FOR_UT = {1: 0, 2: 1, 3: 2, 4: 3, 5: 0, 6: 1}
STRS = [b'int', b'main', 'Ünï'.encode(), b'x' * 40]


def _vals(ch, ab_i):
    out = []
    for (_at, f, _ic) in ABTAB[ab_i]['attrs']:
        if f == 'DW_FORM_string':
            out.append({'s': ch.choice([b'', b'a.c', b'name', b'y' * ch.int(0, 60)])})
        elif f == 'DW_FORM_strp':
            out.append({'si': ch.int(0, len(STRS) - 1), 'skip': 0})
        elif f in ('DW_FORM_data1', 'DW_FORM_data2'):
            out.append({'v': ch.int(0, 255)})
        elif f == 'DW_FORM_addr':
            out.append({'v': ch.int(0, 0xffffffff)})
        elif f == 'DW_FORM_ref4':
            out.append({'t': ch.int(0, 50)})
        elif f == 'DW_FORM_ref_addr':
            out.append({'tu': ch.int(0, 10), 't': ch.int(0, 50)})
        elif f == 'DW_FORM_udata':
            out.append({'v': ch.choice([0, 127, 128, 1 << 20]), 'pad': ch.choice([0, 0, 2])})
        else:
            raise ValueError(f)
    return out


def gen_unit(ch, cell=None):
    ver, fmt, A = cell or (ch.choice([2, 3, 4, 5, 5]), ch.choice([32, 32, 64]), ch.choice([4, 8]))
    un = {'version': ver, 'fmt': fmt, 'addr_size': A, 'abtab': 0, 'dwo_id': ch.word(64), 'sig': ch.word(64), 'type_die': ch.int(0, 5),
          'tail_pad': ch.choice([0, 0, 0, 1, 3, 7])}
    ut = 1
    if ver >= 5:
        ut = un['ut'] = ch.choice([1, 1, 2, 3, 4, 5, 6])
    root = ROOT_FOR_UT[ut]
    kids = []
    for _ in range(ch.choice([0, 1, 2, 3, ch.int(0, 6)])):
        ab = ch.choice([4, 5, 6, 7, 8])
        d = {'ab': ab, 'vals': _vals(ch, ab), 'kids': []}
        if ABTAB[ab]['children']:
            for _ in range(ch.choice([0, 1, 2])):
                ab2 = ch.choice([5, 6, 8])
                d['kids'].append({'ab': ab2, 'vals': _vals(ch, ab2), 'kids': []})
        kids.append(d)
    un['die'] = {'ab': root, 'vals': _vals(ch, root), 'kids': kids, 'npad': ch.choice([0, 0, 1])}
    return un


OPS = ['at', 'cont', 'abs', 'iter', 'resume', 'lut', 'refaddr']
ORDERS = ['asc', 'desc', 'mid', 'mid-out', 'perm']


def gen_units(ch, tier, cells=None):
    le = ch.bool()
    n = len(cells) if cells else ch.choice([2, 2, 3, 3, 4, ch.int(2, 6)])
    units = [gen_unit(ch, cells[i] if cells else None) for i in range(n)]
    info = {'le': le, 'default_addr': ch.choice([4, 8]), 'strs': list(STRS), 'lstrs': [], 'str_lead': b'\0', 'abtabs': [ABTAB],
            'units': units, 'tunits': []}
    ops = []
    for _ in range(ch.choice([0, 1, 2, 4, ch.int(0, 12)])):
        k = ch.choice(OPS)
        if k in ('at', 'lut'):
            ops.append([k, ch.int(0, 11)])
        elif k == 'abs':
            ops.append([k, ch.int(0, 5000)])
        elif k in ('iter', 'resume'):
            ops.append([k, ch.int(0, 7)])
        else:
            ops.append([k, ch.int(0, 11), ch.int(0, 11)])
    orders = [ch.choice(ORDERS)]
    for _ in range(ch.choice([1, 1, 2])):
        o = ch.choice(ORDERS)
        if o not in orders:
            orders.append(o)
    names = []
    used = set()
    for _ in range(ch.choice([0, 1, 3, ch.int(0, 10)])):
        nm = gen_name(ch)
        t = 0
        while nm in used or nm == '':
            t += 1
            nm = '%s%d' % (nm, t)
        used.add(nm)
        names.append([ch.int(0, 11), ch.int(0, 30), nm, ch.choice(['n', 'n', 't'])])
    return {'fam': 'units', 'info': info, 'default_addr': info['default_addr'], 'ops': ops, 'orders': orders, 'perm_seed': ch.int(0, 1 << 20),
            'names': names, 'names_rev': ch.bool(0.3), 'names_empty_sets': ch.bool(0.3),
            'aranges': ch.choice([0, 0, 1, 2]), 'aranges_rev': ch.bool(0.3)}


def build(ch, tier):
    k = ch.int(0, 9)
    if k < 4:
        return gen_aranges(ch, tier)
    if k < 7:
        return gen_names(ch, tier)
    return gen_units(ch, tier)


strategy = composite_from(build)


# ---------------------------------------------------------------------------
# deterministic sweep

def _aligned(sets):
    pos = 0
    for s in sets:
        if pos % (2 * s['A']):
            return False
        pos += 16 + 2 * s['A'] * (len(s['ranges']) + 1)
    return True


def sweep(tier):
    cases = []
    # (a) aranges: explicit boundary layouts x byte order x address size
    for le in (True, False):
        for A in (4, 8):
            top = 1 << (8 * A)
            layouts = {
                'no-sets': [],
                'one-empty': [[]],
                'all-empty-3': [[], [], []],
                'single': [[[0x1000, 0x10]]],
                'single-byte': [[[0x1000, 1]]],
                'at-zero': [[[0, 4]], [[4, 4]]],
                'to-top': [[[top - 0x10, 0x10]], [[top - 0x20, 0x10]]],
                'whole-space': [[[0, top - 1]], [[top - 1, 1]]],
                'adjacent-chain': [[[0x100, 0x10], [0x120, 0x10]], [[0x110, 0x10], [0x130, 1]], [[0x131, 1]]],
                'reverse-sorted': [[[0x3000, 8], [0x2000, 8], [0x1000, 8]], [[0x900, 1], [0x800, 1]]],
                'empty-first': [[], [[0x1000, 0x10]], [[0x2000, 0x10]]],
                'empty-middle': [[[0x1000, 0x10]], [], [[0x2000, 0x10]]],
                'empty-last': [[[0x1000, 0x10]], [[0x2000, 0x10]], []],
                'eight-sets': [[[0x100 * (8 - i), 0x80 + i]] for i in range(8)],
                'zero-length-in-gap': [[[0x1000, 0x10], [0x1800, 0]], [[0x2000, 0x10], [0x2010, 0]]],
                'same-unit-twice': [[[0x1000, 0x10]], [[0x1010, 0x10]]],
            }
            for name, lay in sorted(layouts.items()):
                sets = []
                for i, rs in enumerate(lay):
                    info = 0x40 if name == 'same-unit-twice' else [0, 0xb, 0x1234, 0xffffffff, 0x80, 0x7fffffff, 0x100, 0xc][i]
                    sets.append({'A': A, 'info': info, 'ranges': rs})
                c = {'fam': 'aranges', 'le': le, 'default_addr': 12 - A, 'sets': sets, 'queries': [], 'sweep': name}
                if name == 'no-sets':
                    # (the note also keeps this case from being the smallest representative of a bucket it shares with all-empty tables)
                    c['note'] = 'a .debug_aranges section of zero bytes: no sets at all, every lookup must answer None ' + '.' * 40
                cases.append(c)
        # mixed address sizes (alignment: 4-byte sets before an 8-byte set carry an odd number of ranges)
        mixed = [{'A': 4, 'info': 0x10, 'ranges': [[0x1000, 0x10]]}, {'A': 8, 'info': 0x20, 'ranges': [[0x1010, 0x10], [1 << 32, 1 << 32]]},
                 {'A': 4, 'info': 0x30, 'ranges': [[0xfffffff0, 0x10], [0x10, 4], [0x20, 4]]}, {'A': 8, 'info': 0x40, 'ranges': []},
                 {'A': 4, 'info': 0x50, 'ranges': [[0x1020, 1]]}]
        assert _aligned(mixed)
        cases.append({'fam': 'aranges', 'le': le, 'default_addr': 4, 'sets': mixed, 'queries': [], 'sweep': 'mixed'})
        if EMPTY_RANGE_SHADOW:
            cases.append({'fam': 'aranges', 'le': le, 'default_addr': 8, 'zl_shadow': True, 'sweep': 'zl-shadow', 'queries': [],
                          'sets': [{'A': 8, 'info': 0x10, 'ranges': [[0x1000, 0x10]]}, {'A': 8, 'info': 0x20, 'ranges': [[0x1000, 0], [0x2000, 4]]}]})
    # random aranges with a fixed seed
    for k in range(40 if tier == 'quick' else 400):
        cases.append(gen_aranges(RndChooser(130000 + k), tier))
    # (b) names
    for le in (True, False):
        S = lambda info, ln, names: {'info': info, 'info_len': ln, 'names': names}   # noqa
        layouts = {
            'no-sets': [],
            'one-empty': [S(0, 0x20, [])],
            'all-empty': [S(0, 0x20, []), S(0x20, 0x20, []), S(0x40, 0x20, [])],
            'single': [S(0, 0x40, [[0xb, 'main']])],
            'two-sets': [S(0, 0x40, [[0xb, 'main'], [0x20, 'x']]), S(0x40, 0x40, [[0xb, 'other'], [0x3f, 'last']])],
            'empty-between': [S(0, 0x40, [[0xb, 'a']]), S(0x40, 0x10, []), S(0x50, 0x40, [[0xc, 'b']])],
            'empty-first-last': [S(0, 0x10, []), S(0x10, 0x40, [[0xc, 'b'], [0xd, 'c']]), S(0x50, 0x10, [])],
            'non-ascii': [S(0x100, 0x100, [[0x10, 'Ünïcödé'], [0x20, '变量'], [0x30, '😀𝒳'], [0x40, 'строка']]), S(0x200, 0x80, [[0x7f, 'é']])],
            'long-and-odd': [S(0xb, 0x1000, [[1, 'n' * 300], [0xfff, ' '], [0x80, 'a b'], [0x81, '']]), S(0x2000, 0x20, [[0x1f, 'std::map<int, int>::~map']])],
            'high-offsets': [S(0xfffff000, 0x1000, [[0xfff, 'top'], [1, 'one']]), S(0x7fffffff, 0x100, [[0xff, 'mid']])],
            'reverse-unit-order': [S(0x300, 0x40, [[0xb, 'z'], [0xc, 'y']]), S(0x200, 0x40, [[0xb, 'x']]), S(0x100, 0x40, [[0xb, 'w'], [0xc, 'a']])],
            'six-sets': [S(0x40 * i, 0x40, [[0xb + j, 'n%d_%d' % (i, j)] for j in range(5)]) for i in range(6)],
        }
        for name, sets in sorted(layouts.items()):
            other = [S(0x10, 0x40, [[0xb, 'T']])]
            cases.append({'fam': 'names', 'le': le, 'default_addr': 8, 'dup': False, 'pubnames': sets, 'pubtypes': other, 'sweep': name})
            cases.append({'fam': 'names', 'le': le, 'default_addr': 4, 'dup': False, 'pubnames': None, 'pubtypes': sets, 'sweep': name})
        dups = [S(0, 0x40, [[0xb, 'f'], [0xc, 'g'], [0xd, 'f']]), S(0x40, 0x40, [[0xb, 'f'], [0x10, 'h']])]
        cases.append({'fam': 'names', 'le': le, 'default_addr': 8, 'dup': True, 'pubnames': dups, 'pubtypes': None, 'sweep': 'dups'})
    for k in range(30 if tier == 'quick' else 300):
        cases.append(gen_names(RndChooser(131000 + k), tier))
    # (c) units: every (previous cell, next cell) pair of header layouts appears as neighbours
    cells = [(v, f, a) for v in (2, 3, 4, 5) for f in (32, 64) for a in (4, 8)]
    k = 0
    for i, c0 in enumerate(cells):
        for step in (1, 3, 5, 7, 11):
            k += 1
            ch = RndChooser(132000 + k)
            trio = [c0, cells[(i + step) % len(cells)], cells[(i + 2 * step + 1) % len(cells)]]
            case = gen_units(ch, tier, cells=trio)
            case['orders'] = [ORDERS[k % len(ORDERS)], ORDERS[(k + 2) % len(ORDERS)]]
            cases.append(case)
    for k in range(20 if tier == 'quick' else 200):
        cases.append(gen_units(RndChooser(133000 + k), tier))
    # (d) unit offsets and extents beyond 2**31 / 2**32
    for k, big in enumerate(((1 << 32) + 0x100, (1 << 31) + 0x40, (1 << 32) - 0x30, (1 << 33) + 5)):
        cases.append({'fam': 'farunits', 'le': bool(k % 2), 'addr_size': (8, 4)[k % 2],
                      'units': [[32, 4, 0x20], [64, (4, 5, 3, 2)[k % 4], big], [64, 5, 0x40], [32, (3, 5)[k % 2], 0x30]], 'perm': [(k + j * 3) % 4 for j in range(4)]})
    return cases


def floors(ctx):
    c = ctx.counters
    need = ['fam.aranges', 'fam.names', 'fam.units', 'fam.farunits', 'ar.fmt64', 'nm.slack-behind-terminator', 'ar.slack-behind-terminator', 'ar.le', 'ar.be', 'ar.addr.4', 'ar.addr.8', 'ar.addr.mixed', 'ar.has-empty-set', 'ar.all-empty',
            'ar.no-sets', 'ar.adjacent-different-units', 'ar.range-at-0', 'ar.range-to-max', 'ar.unsorted-set', 'ar.zero-length-range', 'ar.sets.8',
            'ar.q.first', 'ar.q.last', 'ar.q.inner', 'ar.q.end', 'ar.q.before', 'ar.q.outside',
            'nm.le', 'nm.be', 'nm.sets.0', 'nm.sets.6', 'nm.has-empty-set', 'nm.all-empty', 'nm.non-ascii', 'nm.non-bmp', 'nm.duplicate-family',
            'nm.section-absent', 'nm.names.16+',
            'un.le', 'un.be', 'un.mixed', 'un.units.2', 'un.units.6', 'un.lut-entry', 'un.aranges-to-unit', 'un.exhaustive-offsets'] + \
           ['un.op.' + o for o in OPS] + ['un.exhaustive.' + o for o in ORDERS] + \
           ['un.cell.v%d.%d.a%d' % (v, f, a) for v in (2, 3, 4, 5) for f in (32, 64) for a in (4, 8)]
    if EMPTY_RANGE_SHADOW:
        need.append('ar.zl_shadow')
    return ['counter %s is 0' % k for k in need if c[k] == 0]

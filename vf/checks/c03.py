"""C03 - symbol tables enumerate exactly; name and hash lookups are complete and sound."""
import io
import struct

from vf import core, usage, streams, textpool
from vf.enc import elf as W
from vf.choose import RndChooser, composite_from

ID = 'C03'
RULE = ('symbol tables (SYMTAB / DYNSYM / SUNW_LDYNSYM, optional SYMTAB_SHNDX companion, SUNW_syminfo, SysV .hash and '
        '.gnu.hash over the table) with 0..400 (thorough 3000) entries whose names come from a pool built to collide in the SysV and '
        'GNU hash functions (full collisions, GNU hashes differing only in bit 0, shared buckets), incl. empty, duplicate, long and '
        'non-ASCII names, every st_info / st_other byte class and reserved st_shndx values; any nbucket>=1, symoffset in [1,n], '
        'bloom size 2^k, shift 0..31. Oracle = the model (entry by entry), exact name->symbols map, and hash lookups that must hit iff '
        'the name occurs in the hashed part. Non-trivial: >=2 symbols share a hash bucket, or a query collides (hash or bucket) with a '
        'present name, or an XINDEX symbol. Distinct by SHA-1 of the encoded file + queries.')
N = {'quick': 1600, 'thorough': 60000}
ASSUMPTIONS = ['names are valid UTF-8 without NUL (the library decodes with errors=replace, so invalid UTF-8 cannot round-trip by design)',
               'sh_entsize equals the Elf_Sym size; GNU bloom_size is a power of two (glibc requirement); the hashed part of a GNU table is sorted by bucket',
               'GNU symbol count is only asserted for self-describing tables (hashed part non-empty or symoffset == n)']

_c = {}


def lib():
    if not _c:
        from elftools.elf.elffile import ELFFile
        from elftools.elf import enums as E
        _c.update(ELFFile=ELFFile, E=E)
    return _c


# colliding suffix families --------------------------------------------------
# gnu_hash: h*33+c  => suffixes (x,y) and (x+1,y-33) collide fully; (x,y),(x,y^1) differ only in bit 0 (for suitable parity)
# sysv elf_hash: (h<<4)+c => (x,y) and (x+1,y-16) collide (no overflow for short names)
# CARRY_NAMES: names on which (h << 4) + c carries out of bit 31 (the 28-bit state is >= 0x0ffffff1 when a character is added).  The gABI
# value is a 32-bit word (Elf32_Word buckets; bfd_elf_hash returns h & 0xffffffff, glibc's _dl_elf_hash is uint32_t since BZ #29866), so an
# evaluation in wider integers that keeps the carry selects another bucket.  One name in about 2^24 random ones does this: found offline by a
# backward search over the transition (meet in the middle with all prefixes of <= 3 characters), verified below against the encoder's own
# hash (not the library's) every time the module is loaded; any continuation of such a name keeps the carry.
CARRY_NAMES = ['5tyjXyO@Ma', '0$Dyhvk$0Ml', '0$H9hvk$0M0', 'hmql9cYy$Ml', 'GuzZZTmA.N', 'fmkIm$MZ.T', 'OmxIjTcdoMC', '@8yijTz.g', 'tykKHqpMD', '$IxzZY@m.8', 'Yxyl8sm.z', '5tzZXyO@ML', '$$dxyiCb0MV', 'AGkL8ucp.d', 'xyl9l5LMq', 'Nvl9ifGOMZ', '8ykIjZ.V', '_HoJZRyLJ.g', 'FykL8x.Mw', 'txykHqpMa', '0$FYhvk$0Mu', '7yzZYglM.M', '0_KIl5tZ.3', '8xyl8yLMH', 'DwuzYh.zoMq', 'LnyihvJ$mv', 'UxyhzWOM_', '$5kKL6qpMg', 'atzZXv0olMu', '09l8zXJ.t', 'XxxxzWLMI', 'NvkIifGOMo', '$7yl8wd_.L', '$WlIjVqmM.e', '_IkJZTZ.5', 'DwxJYh.zoMG', '8xzZXyLMJ', 'Omy9jTcdoMO', '$VzijVqmM..', 'NykL8x$mb', '9kKKL99z', 'vyiil5Los', '5ykHyiN_5']
GNU_FAM = ['ab', 'bA', 'ac', 'bB', 'c!', 'aa', 'b@']
SYSV_FAM = ['ab', 'bR', 'cB', 'ac', 'bS']
# the symbol machinery is the same for every e_machine; the values of the gABI table that toolchains still emit, plus unassigned ones
MACHINES = [0, 1, 2, 3, 4, 7, 8, 10, 15, 18, 20, 21, 22, 23, 36, 40, 41, 42, 43, 50, 62, 75, 83, 88, 92, 94, 105, 106, 113, 164, 183, 189, 195,
            224, 243, 247, 252, 258, 0x9026, 0xa390, 0xfffe, 0x1234]
# 64-bit Alpha and s390x define the SysV hash table with 8-byte words (sh_entsize 8) against the gABI: no SysV table is generated there,
# neither reading is demanded
WIDE_HASH_MACHINES = (22, 41, 0x9026, 0xa390)
PREFIXES = ['', 'f', 'x_', 'sym', 'é', 'λ', 'very_long_symbol_name_' * 4]


def _sysv_unbounded(name):
    h = 0
    for c in name:
        h = (h << 4) + c
        g = h & 0xf0000000
        if g:
            h ^= g >> 24
        h &= ~g
    return h


def name_pool():
    pool = ['']
    for p in PREFIXES:
        for s in GNU_FAM + SYSV_FAM:
            pool.append(p + s)
    pool += ['a', 'b', 'c', 'd', 'aa', 'main', '_start', 'printf', '中文名字', 'Ünïcödé'] + textpool.SPECIAL_NAMES
    # long names with multi-byte characters across every plausible read boundary (64 .. 4096 bytes): the character straddles the boundary
    for k, b in enumerate((64, 128, 256, 512, 1024, 4096)):
        pool.append('L' * (b - 1) + 'é中'[k % 2] + 'tail%d' % k)
        if k % 2:
            pool.append('M' * (b - 2) + '\U0001f600' + 'x')
    for i, n in enumerate(CARRY_NAMES):
        assert _sysv_unbounded(n.encode()) != W.sysv_hash(n.encode()) == _sysv_unbounded(n.encode()) & 0xffffffff, n
        pool.append(n)
        if i % 3 == 0:
            pool.append(n + SYSV_FAM[i % len(SYSV_FAM)])
    out = []
    for n in pool:
        if n not in out:
            out.append(n)
    return out


POOL = name_pool()
MUST_BIND, MUST_TYPE, MUST_VIS = {0, 1, 2}, set(range(0, 7)), {0, 1, 2, 3}
MUST_SHNDX = {0: 'SHN_UNDEF', 0xfff1: 'SHN_ABS', 0xfff2: 'SHN_COMMON'}


def code_ok(got, enc, table, must):
    if isinstance(got, int) and not isinstance(got, bool):
        return got == enc and enc not in must
    return isinstance(got, str) and table.get(got) == enc


def build_file(case):
    cls, le = case['cls'], case['le']
    syms = case['syms']
    names = [s['name'] for s in syms]
    blob, offs = W.build_strtab(names, share_suffix=case.get('share_suffix', False))
    # sh_entsize may exceed the size of Elf_Sym (the gABI gives every table its entry size in the header): entries are then padded
    sympad = case.get('sympad', 0)
    symdata = b''.join(W.enc_sym(cls, le, offs[s['name']], s['value'], s['size'], s['info'], s['other'], s['shndx']) + bytes((0xa5 + k) & 0xff for k in range(sympad)) for s in syms)
    P = case.get('pad', 0)      # filler sections in front: the tables then sit at (and link to) large section indices
    secs = [{'name': '', 'sh_type': 0}] + [{'name': 'f%d' % (i % 9), 'sh_type': 1, 'data': None, 'sh_offset': 0, 'sh_size': 0} for i in range(P)] + [
            {'name': '.dynstr', 'sh_type': 3, 'data': blob},
            {'name': '.dynsym', 'sh_type': case['tabtype'], 'data': symdata, 'sh_entsize': W.SYM_SIZE[cls] + sympad, 'sh_link': P + 1, 'sh_info': 1}]
    idx = {}
    bnames = [n.encode('utf-8') for n in names]
    if case.get('shndx_table') is not None:
        idx['shndx'] = len(secs)
        secs.append({'name': '.symtab_shndx', 'sh_type': 18, 'sh_link': P + 2, 'sh_entsize': 4,
                     'data': struct.pack(W.E(le) + '%dI' % len(syms), *case['shndx_table'])})
    if case.get('sysv'):
        idx['sysv'] = len(secs)
        order = case['sysv'].get('order')
        key = (lambda i: order.index(i)) if order else None
        secs.append({'name': '.hash', 'sh_type': 5, 'sh_link': P + 2, 'sh_entsize': 4,
                     'data': W.enc_sysv_hash(le, bnames, case['sysv']['nbucket'], key) + bytes(case.get('hash_slack', 0))})
    if case.get('gnu'):
        g = case['gnu']
        idx['gnu'] = len(secs)
        secs.append({'name': '.gnu.hash', 'sh_type': 0x6ffffff6, 'sh_link': P + 2,
                     'data': W.enc_gnu_hash(cls, le, bnames, g['symoffset'], g['nbuckets'], g['bloom_size'], g['bloom_shift']) + bytes(case.get('hash_slack', 0))})
    if case.get('syminfo') is not None:
        idx['syminfo'] = len(secs)
        secs.append({'name': '.SUNW_syminfo', 'sh_type': 0x6ffffffc, 'sh_link': P + 2, 'sh_entsize': 4,
                     'data': b''.join(struct.pack(W.E(le) + 'HH', b, f) for (b, f) in case['syminfo'])})
    twin = case.get('twin')
    if twin:
        # neighbours of the table (round 8): an empty symbol table whose nominal offset is that of the real one (what a writer that lays
        # section bodies out one after another produces), or a second table of other symbols that shares the string table
        idx['twin'] = len(secs)
        if twin['kind'] == 'empty':
            secs.append({'name': '.symtab', 'sh_type': twin['type'], 'data': None, 'sh_offset': 0, 'sh_size': 0, 'sh_entsize': W.SYM_SIZE[cls],
                         'sh_link': P + 1, 'sh_info': 0})
        else:
            tsyms = [syms[i] for i in twin['pick']]
            secs.append({'name': '.symtab', 'sh_type': twin['type'], 'sh_entsize': W.SYM_SIZE[cls], 'sh_link': P + 1, 'sh_info': 1,
                         'data': b''.join(W.enc_sym(cls, le, offs[t['name']], t['value'], t['size'], t['info'], t['other'], t['shndx']) for t in tsyms)})
    secs.append({'name': '.shstrtab', 'sh_type': 3, 'data': b''})
    m = {'cls': cls, 'le': le, 'e_type': 3, 'e_machine': case.get('e_machine', 62), 'osabi': case.get('osabi', 0), 'sections': secs,
         'shstrndx': len(secs) - 1, 'order': case.get('order'), 'gaps': case.get('gaps', {}), 'tail': case.get('tail', 0)}
    data, R = W.build(m)
    if twin and twin['kind'] == 'empty':
        secs[idx['twin']]['sh_offset'] = R['sh'][P + 2]['sh_offset'] + (twin.get('at_end') and R['sh'][P + 2]['sh_size'] or 0)
        data, R = W.build(m)
    return data, R, idx


def run_far(ctx, case):
    """a symbol table far into a sparse file whose names sit at string-table offsets >= 2**31 (st_name is an unsigned word), with SysV and
    GNU hash sections built over it"""
    from vf.enc.sparse import sparse_elf
    L = lib()
    cls, le, far, nameoff = case['cls'], case['le'], case['far'], case['nameoff']
    names = ['', 'far_alpha', 'far_beta', 'far_alpha', 'x']
    offs, chunks, pos = {}, {0: b'\0'}, nameoff
    for nm in names[1:]:
        if nm not in offs:
            offs[nm] = pos
            chunks[pos] = nm.encode() + b'\0'
            pos += len(nm) + 1 + 7
    offs[''] = 0
    syms = b''.join(W.enc_sym(cls, le, offs[nm], 0x1000 + i, i, 0x12 if i else 0, 0, 1 if i else 0) for i, nm in enumerate(names))
    bn = [n.encode() for n in names]
    hashed = sorted(bn[1:], key=lambda b: W.gnu_hash(b) % 2)
    order = [b''] + hashed
    syms = b''.join(W.enc_sym(cls, le, offs[b.decode()], 0x1000 + i, i, 0x12 if i else 0, 0, 1 if i else 0) for i, b in enumerate(order))
    sysv = W.enc_sysv_hash(le, order, 3)
    gnu = W.enc_gnu_hash(cls, le, order, 1, 2, 1, 5)
    secs = [{'name': '.dynstr', 'sh_type': 3, 'offset': far, 'size': pos, 'chunks': chunks},
            {'name': '.dynsym', 'sh_type': 11, 'sh_link': 1, 'sh_info': 1, 'sh_entsize': W.SYM_SIZE[cls], 'offset': far + pos + 0x100, 'size': len(syms), 'chunks': {0: syms}},
            {'name': '.hash', 'sh_type': 5, 'sh_link': 2, 'sh_entsize': 4, 'offset': far + pos + 0x1000, 'size': len(sysv), 'chunks': {0: sysv}},
            {'name': '.gnu.hash', 'sh_type': 0x6ffffff6, 'sh_link': 2, 'offset': far + pos + 0x2000, 'size': len(gnu), 'chunks': {0: gnu}}]
    stream, _h = sparse_elf(cls, le, secs)
    tag = 'far|st_name>=%#x' % nameoff
    try:
        ef = L['ELFFile'](stream)
        tab = ef.get_section(2)
        got = [(sy.name, sy['st_value'], sy['st_name']) for sy in tab.iter_symbols()]
        want = [(b.decode(), 0x1000 + i, offs[b.decode()]) for i, b in enumerate(order)]
        if got != want or tab.num_symbols() != len(order):
            ctx.fail(tag + '|symbols', 'expected %r got %r' % (want, got), case)
        for q in ('far_alpha', 'far_beta', 'x', 'absent', ''):
            r = tab.get_symbol_by_name(q)
            n = sum(1 for b in order if b.decode() == q)
            if (len(r) if r else 0) != n:
                ctx.fail(tag + '|by_name', 'query %r: %d symbols bear the name, got %r' % (q, n, r and len(r)), case)
            for hi in (3, 4):
                hs = ef.get_section(hi)
                g = hs.get_symbol(q)
                present = q.encode() in order[1:]
                if (g is not None and g.name != q) or (g is None) == present:
                    ctx.fail(tag + '|%s-lookup' % ('sysv' if hi == 3 else 'gnu'), 'query %r: %s' % (q, 'None' if g is None else g.name), case)
                if hs.get_number_of_symbols() != len(order):
                    ctx.fail(tag + '|%s-count' % ('sysv' if hi == 3 else 'gnu'), 'got %r' % hs.get_number_of_symbols(), case)
    except Exception as e:  # noqa
        ctx.fail_exc(tag, e, case)
    ctx.count('far.tables')
    ctx.case(('far', cls, le, far, nameoff), True, dict(case))


def run_case(ctx, case):
    if case.get('far') is not None:
        return run_far(ctx, case)
    L = lib()
    E = L['E']
    T_BIND = {k: v for k, v in E.ENUM_ST_INFO_BIND.items() if isinstance(v, int)}
    T_TYPE = {k: v for k, v in E.ENUM_ST_INFO_TYPE.items() if isinstance(v, int)}
    T_VIS = {k: v for k, v in E.ENUM_ST_VISIBILITY.items() if isinstance(v, int)}
    T_SHN = {k: v for k, v in E.ENUM_ST_SHNDX.items() if isinstance(v, int)}
    T_BOUND = {k: v for k, v in E.ENUM_SUNW_SYMINFO_BOUNDTO.items() if isinstance(v, int)}
    data, R, idx = build_file(case)
    syms = case['syms']
    n = len(syms)
    cls = case['cls']
    M = (1 << cls) - 1
    try:
        st0, skind = streams.pick(data)        # BytesIO, minimal read/seek/tell object, memory map or real file
        ctx.count('stream.' + skind)
        ef = L['ELFFile'](st0)
        tab = ef.get_section(2 + case.get('pad', 0))
    except Exception as e:  # noqa
        ctx.fail_exc('open', e, case)
        ctx.case(data, False)
        return
    if type(tab).__name__ != 'SymbolTableSection':
        ctx.fail('symtab|class', type(tab).__name__, case)
        ctx.case(data, False)
        return
    try:
        if tab.num_symbols() != n:
            ctx.fail('symtab|num_symbols', 'encoded %d got %r' % (n, tab.num_symbols()), case)
    except Exception as e:  # noqa
        ctx.fail_exc('symtab|num_symbols', e, case)

    def check_sym(where, got, s):
        if got.name != s['name']:
            ctx.fail('%s|name' % where, 'expected %r got %r' % (s['name'], got.name), case)
        e = got.entry
        if e['st_value'] != s['value'] & M:
            ctx.fail('%s|st_value' % where, 'expected %#x got %r' % (s['value'] & M, e['st_value']), case)
        if e['st_size'] != s['size'] & M:
            ctx.fail('%s|st_size' % where, 'expected %#x got %r' % (s['size'] & M, e['st_size']), case)
        if not code_ok(e['st_info']['bind'], s['info'] >> 4, T_BIND, MUST_BIND):
            ctx.fail('%s|st_info.bind' % where, 'encoded %d got %r' % (s['info'] >> 4, e['st_info']['bind']), case)
        if not code_ok(e['st_info']['type'], s['info'] & 0xf, T_TYPE, MUST_TYPE):
            ctx.fail('%s|st_info.type' % where, 'encoded %d got %r' % (s['info'] & 0xf, e['st_info']['type']), case)
        if not code_ok(e['st_other']['visibility'], s['other'] & 7, T_VIS, MUST_VIS):
            ctx.fail('%s|st_other.visibility' % where, 'encoded %d got %r' % (s['other'] & 7, e['st_other']['visibility']), case)
        if e['st_other']['local'] != s['other'] >> 5:
            ctx.fail('%s|st_other.local' % where, 'encoded %d got %r' % (s['other'] >> 5, e['st_other']['local']), case)
        if not code_ok(e['st_shndx'], s['shndx'], T_SHN, set(MUST_SHNDX)):
            ctx.fail('%s|st_shndx' % where, 'encoded %#x got %r' % (s['shndx'], e['st_shndx']), case)

    # How a fresh table object is first used is a dimension of its own (the name map and every other lazily built state must not
    # depend on it): 0 = complete walk first; 1 = a walk abandoned after k items (generator kept alive), then the name lookups, then the
    # complete walk; 2 = name lookups first; 3 = name lookups from inside the loop body of the very first walk.
    first_use = core.digest(data)[0] % 4
    ctx.count('first-use.%d' % first_use)
    if case.get('sympad'):
        ctx.count('symtab.entries-padded')
    if case.get('hash_slack') and (case.get('gnu') or case.get('sysv')):
        ctx.count('hash.section-larger-than-table')
    keep_alive = []

    def sequential():
        # sequential and random access
        try:
            lst = list(tab.iter_symbols())
            if len(lst) != n:
                ctx.fail('symtab|iter|count', 'encoded %d yielded %d' % (n, len(lst)), case)
            for i, (g, s) in enumerate(zip(lst, syms)):
                check_sym('symtab|iter', g, s)
            # the same walk step by step, with the stream moved, a nested walk started and a lookup made between two steps
            if len(lst) == n and n <= 400:
                stepped = usage.stepwise(tab.iter_symbols, usage.disturber(ef.stream, tab.iter_symbols, (lambda: tab.get_symbol_by_name('main'), tab.num_symbols)))
                if [(g.name, dict(g.entry['st_info']), g.entry['st_value'], g.entry['st_shndx']) for g in stepped] != [(g.name, dict(g.entry['st_info']), g.entry['st_value'], g.entry['st_shndx']) for g in lst]:
                    ctx.fail('symtab|iter|interleaved-with-other-stream-use', 'a plain loop yields %d symbols; a step-by-step walk with other stream users in between %d (or different ones)' % (len(lst), len(stepped)), case)
                if n >= 2:
                    ctx.count('symtab.stepwise')
        except Exception as e:  # noqa
            ctx.fail_exc('symtab|iter', e, case)

    bynames = {}
    for i, s in enumerate(syms):
        bynames.setdefault(s['name'], []).append(i)
    queries = case['queries']

    def by_name():
        # name map
        for q in queries:
            try:
                got = tab.get_symbol_by_name(q)
            except Exception as e:  # noqa
                ctx.fail_exc('symtab|by_name', e, case)
                continue
            exp = bynames.get(q)
            if exp is None:
                if got is not None:
                    ctx.fail('symtab|by_name|absent', 'query %r returned %d symbols' % (q, len(got)), case)
            elif got is None:
                ctx.fail('symtab|by_name|missing', 'query %r present at %r' % (q, exp), case)
            elif len(got) != len(exp):
                ctx.fail('symtab|by_name|count', 'query %r: expected indices %r, got %d symbols' % (q, exp, len(got)), case)
            else:
                for g, i in zip(got, exp):
                    check_sym('symtab|by_name', g, syms[i])
                # the returned list belongs to the caller: whatever they do with it, the next lookup answers from the table
                del got[len(got) // 2:]
                got.append(None)
                try:
                    again = tab.get_symbol_by_name(q)
                    if again is None or len(again) != len(exp) or any(g is None or g.name != q for g in again):
                        ctx.fail('symtab|by_name|depends-on-caller-use-of-earlier-result', 'query %r: %d symbols bear the name, the second lookup returned %s' % (
                            q, len(exp), 'None' if again is None else '%d items' % len(again)), case)
                except Exception as e:  # noqa
                    ctx.fail_exc('symtab|by_name|second-lookup', e, case)

    if first_use == 1 and n >= 2:
        try:
            it = iter(tab.iter_symbols())
            for _ in range(1 + core.digest(data)[1] % (n - 1)):
                next(it)
            keep_alive.append(it)
        except Exception as e:  # noqa
            ctx.fail_exc('symtab|iter|abandoned-first-walk', e, case)
    if first_use == 3:
        try:
            for k, g in enumerate(tab.iter_symbols()):
                if k in (0, n // 2):
                    by_name()
        except Exception as e:  # noqa
            ctx.fail_exc('symtab|iter|lookups-inside-first-walk', e, case)
    def twin_by_name(when):
        tw = case.get('twin')
        if not tw:
            return
        try:
            t2 = ef.get_section(idx['twin'])
            tb = {}
            for k, i in enumerate(tw['pick'] if tw['kind'] == 'second' else []):
                tb.setdefault(syms[i]['name'], []).append(i)
            if t2.num_symbols() != len(tw.get('pick', [])):
                ctx.fail('twin|num_symbols|' + tw['kind'], '%s: expected %d got %r' % (when, len(tw.get('pick', [])), t2.num_symbols()), case)
            for q in queries:
                got = t2.get_symbol_by_name(q)
                exp = tb.get(q)
                if (got is None) != (exp is None) or (got is not None and (len(got) != len(exp) or any(
                        g.name != q or g['st_value'] != syms[i]['value'] & M for g, i in zip(got, exp)))):
                    ctx.fail('twin|by_name|%s|%s' % (tw['kind'], when), 'query %r on the neighbouring table (%s): expected the symbols %r of the main table, got %s' % (
                        q, tw['kind'], exp, 'None' if got is None else [(g.name, g['st_value']) for g in got]), case)
            ctx.count('twin.%s.%s' % (tw['kind'], when))
        except Exception as e:  # noqa
            ctx.fail_exc('twin|' + tw['kind'], e, case)

    if case.get('twin') and case['twin'].get('first'):
        twin_by_name('asked-first')
    if first_use in (1, 2):
        by_name()
        sequential()
    else:
        sequential()
        by_name()
    if case.get('twin'):
        twin_by_name('asked-after')
    for i in case.get('probe', []):
        if i < n:
            try:
                check_sym('symtab|get_symbol', tab.get_symbol(i), syms[i])
            except Exception as e:  # noqa
                ctx.fail_exc('symtab|get_symbol', e, case)

    # A look-up interrupted by a read error the caller catches (vf/streams.py FaultOnce) may be repeated: the repetition answers from the
    # whole table.
    if n >= 3 and queries and core.digest(data)[2] % 3 == 0:
        try:
            fst = streams.FaultOnce(data)
            tab2 = L['ELFFile'](fst).get_section(2 + case.get('pad', 0))
            fst.arm(2 + core.digest(data)[3] % (2 * n))
            try:
                tab2.get_symbol_by_name(queries[0])
            except Exception:  # noqa
                pass
            fst.disarm()
            if fst.faults:
                ctx.count('transient-fault.lookup-interrupted')
                for q in queries[:8]:
                    got = tab2.get_symbol_by_name(q)
                    exp = bynames.get(q)
                    if (got is None) != (exp is None) or (got is not None and len(got) != len(exp)):
                        ctx.fail('symtab|by_name|repeated-after-a-failed-attempt', 'query %r: %s symbols bear the name; after a look-up that a read error interrupted the table answers %s' % (
                            q, len(exp) if exp else 0, 'None' if got is None else len(got)), case)
                        break
        except Exception as e:  # noqa
            ctx.fail_exc('symtab|by_name|repeated-after-a-failed-attempt', e, case)
    nt = False
    # XINDEX companion
    if 'shndx' in idx:
        try:
            sx = ef.get_section(idx['shndx'])
            if type(sx).__name__ != 'SymbolTableIndexSection':
                ctx.fail('shndx|class', type(sx).__name__, case)
            for i, s in enumerate(syms):
                if s['shndx'] == 0xffff:
                    nt = True
                    got = sx.get_section_index(i)
                    if got != case['shndx_table'][i]:
                        ctx.fail('shndx|value', 'symbol %d: encoded %d got %r' % (i, case['shndx_table'][i], got), case)
                    ctx.count('xindex.symbol')
        except Exception as e:  # noqa
            ctx.fail_exc('shndx', e, case)

    # syminfo
    if 'syminfo' in idx:
        try:
            si = ef.get_section(idx['syminfo'])
            if si.num_symbols() != n - 1:
                ctx.fail('syminfo|num_symbols', 'expected %d got %r' % (n - 1, si.num_symbols()), case)
            lst = list(si.iter_symbols())
            if len(lst) != n - 1:
                ctx.fail('syminfo|iter|count', 'expected %d got %d' % (n - 1, len(lst)), case)
            for k, g in enumerate(lst):
                i = k + 1
                b, f = case['syminfo'][i]
                if g.name != syms[i]['name']:
                    ctx.fail('syminfo|name', 'entry %d expected %r got %r' % (i, syms[i]['name'], g.name), case)
                gb = g.entry['si_boundto']
                if not (gb == b or (isinstance(gb, str) and T_BOUND.get(gb) == b)):
                    ctx.fail('syminfo|si_boundto', 'entry %d encoded %#x got %r' % (i, b, gb), case)
                if g.entry['si_flags'] != f:
                    ctx.fail('syminfo|si_flags', 'entry %d encoded %#x got %r' % (i, f, g.entry['si_flags']), case)
            ctx.count('syminfo.table')
        except Exception as e:  # noqa
            ctx.fail_exc('syminfo', e, case)

    # hash tables
    bnames = [s['name'].encode('utf-8') for s in syms]
    for kind in ('sysv', 'gnu'):
        if kind not in idx:
            continue
        first = 1 if kind == 'sysv' else case['gnu']['symoffset']
        hashed = {}
        for i in range(first, n):
            hashed.setdefault(syms[i]['name'], []).append(i)
        hf = W.sysv_hash if kind == 'sysv' else W.gnu_hash
        nb = case['sysv']['nbucket'] if kind == 'sysv' else case['gnu']['nbuckets']
        hvals = {}
        for nm in hashed:
            hvals.setdefault(hf(nm.encode('utf-8')), set()).add(nm)
        buckets = {}
        for nm in hashed:
            buckets.setdefault(hf(nm.encode('utf-8')) % nb, set()).add(nm)
        if any(len(v) >= 2 for v in buckets.values()) or any(len(v) >= 2 for v in hashed.values()):
            nt = True
            ctx.count('%s.shared-bucket-table' % kind)
        try:
            hs = ef.get_section(idx[kind])
        except Exception as e:  # noqa
            ctx.fail_exc('%s|open' % kind, e, case)
            continue
        try:
            cnt = hs.get_number_of_symbols()
            if cnt != n:
                ctx.fail('%s|count' % kind, 'table has %d symbols, hash section reports %r (first hashed index %d)' % (n, cnt, first), case)
        except Exception as e:  # noqa
            ctx.fail_exc('%s|count' % kind, e, case)
        for q in queries:
            h = hf(q.encode('utf-8'))
            # classify the query
            full_coll = any(q != nm for nm in hvals.get(h, ()))
            bit0_coll = kind == 'gnu' and any(q != nm for nm in hvals.get(h ^ 1, ()))
            bucket_coll = any(q != nm for nm in buckets.get(h % nb, ()))
            if full_coll or bit0_coll or bucket_coll:
                nt = True
            try:
                got = hs.get_symbol(q)
            except Exception as e:  # noqa
                ctx.fail_exc('%s|lookup' % kind, e, case)
                continue
            tag = 'full-hash-collision' if full_coll else ('hash-equal-up-to-bit0' if bit0_coll else ('same-bucket' if bucket_coll else 'plain'))
            ctx.count('%s.query.%s.%s' % (kind, 'present' if q in hashed else 'absent', tag))
            if q in hashed:
                if got is None:
                    ctx.fail('%s|lookup|false-miss|%s' % (kind, tag), 'query %r is at indices %r (hash %#x, bucket %d of %d)' % (q, hashed[q], h, h % nb, nb), case)
                elif got.name != q:
                    ctx.fail('%s|lookup|wrong-symbol' % kind, 'query %r returned %r' % (q, got.name), case)
                else:
                    # must be one of the encoded symbols of that name
                    if not any(got.entry['st_value'] == syms[i]['value'] & M and got.entry['st_size'] == syms[i]['size'] & M for i in hashed[q]):
                        ctx.fail('%s|lookup|wrong-entry' % kind, 'query %r' % q, case)
            elif got is not None:
                ctx.fail('%s|lookup|false-hit|%s' % (kind, tag), 'query %r not in hashed part (first hashed index %d) but got %r' % (q, first, got.name), case)
    if case.get('gnu') and case['gnu'].get('groups_ascending') is False:
        ctx.count('gnu.bucket-groups-not-ascending')
    ctx.count('tab.%s' % {2: 'symtab', 11: 'dynsym'}.get(case['tabtype'], 'ldynsym'))
    ctx.count('cell.%d%s' % (cls, 'le' if case['le'] else 'be'))
    ctx.case((data, queries), nt, {'cls': cls, 'le': case['le'], 'nsyms': n, 'names': [s['name'] for s in syms[:8]],
                                  'sysv': case.get('sysv') and case['sysv']['nbucket'], 'gnu': case.get('gnu'), 'queries': queries[:8]})


# ---------------------------------------------------------------------------

def build_case(ch, tier, n=None):
    cls = ch.choice([32, 64])
    le = ch.bool()
    if n is None:
        n = ch.choice([1, 2, 3, 5, 8, ch.int(1, 40), ch.int(1, 400 if tier == 'quick' else 3000)])
    pool = POOL if ch.bool(0.8) else POOL[:12]
    names = [''] + [ch.choice(pool) for _ in range(n - 1)]
    if ch.bool(0.3):
        names = [''] + [nm if ch.bool(0.8) else nm + str(ch.int(0, 9)) for nm in names[1:]]
    gnu = None
    if ch.bool(0.75):
        symoffset = ch.choice([1, 1, n, ch.int(1, n)])
        nbuckets = ch.choice([1, 1, 2, 3, 7, ch.int(1, 64)])
        # hashed part must be sorted by bucket
        head, tail = names[:symoffset], names[symoffset:]
        # the symbols of one bucket are adjacent; the bucket groups themselves usually follow in ascending bucket order (every linker
        # writes them so), but no consumer needs that: lookups start at buckets[b] and stop at the end-of-chain bit
        gorder = ch.perm(list(range(nbuckets))) if nbuckets <= 64 and ch.bool(0.3) else list(range(nbuckets))
        tail.sort(key=lambda nm: gorder[W.gnu_hash(nm.encode('utf-8')) % nbuckets])
        names = head + tail
        gnu = {'symoffset': symoffset, 'nbuckets': nbuckets, 'bloom_size': ch.choice([1, 1, 2, 4, 8, 64]), 'bloom_shift': ch.choice([0, 1, 5, 6, 26, 31]),
               'groups_ascending': gorder == list(range(nbuckets))}
    syms = []
    xindex = False
    for i, nm in enumerate(names):
        if i == 0:
            syms.append({'name': '', 'value': 0, 'size': 0, 'info': 0, 'other': 0, 'shndx': 0})
            continue
        shndx = ch.choice([0, 1, 2, 5, 0xfeff, 0xff00, 0xff1f, 0xfff1, 0xfff2, 0xffff, ch.int(0, 0xffff)])
        xindex |= shndx == 0xffff
        syms.append({'name': nm, 'value': ch.word(cls), 'size': ch.word(cls), 'info': ch.choice([0x10, 0x11, 0x12, 0x20, 0x22, ch.int(0, 255)]),
                     'other': ch.choice([0, 1, 2, 3, ch.int(0, 255)]), 'shndx': shndx})
    case = {'cls': cls, 'le': le, 'syms': syms, 'tabtype': ch.choice([11, 11, 2, 0x6ffffff3]), 'gnu': gnu,
            'share_suffix': ch.bool(0.3), 'e_machine': ch.choice([62, 3, 40, 21, 2, ch.choice(MACHINES), ch.choice(MACHINES)]), 'osabi': ch.choice([0, 0, 6])}
    if ch.bool(0.15):
        case['sympad'] = ch.choice([8, 8, 16, 4, 24])
    if ch.bool(0.2):
        # the section that holds a hash table may be larger than the table (rounded up to its alignment, spare words): the table ends
        # where its own counts and chain end bits say
        case['hash_slack'] = ch.choice([4, 8, 12, 16])
    hashable = case['tabtype'] in (2, 11)     # hash / syminfo sections must link to SYMTAB or DYNSYM
    wide_hash = cls == 64 and case['e_machine'] in WIDE_HASH_MACHINES
    if not hashable:
        case['gnu'] = None
    if hashable and not wide_hash and ch.bool(0.7):
        nb = ch.choice([1, 1, 2, 3, 17, ch.int(1, 64)])
        sv = {'nbucket': nb}
        if ch.bool(0.3):
            sv['order'] = ch.perm(list(range(1, n)))
        case['sysv'] = sv
    if xindex or ch.bool(0.2):
        case['shndx_table'] = [ch.int(0, 0x20000) if s['shndx'] == 0xffff else 0 for s in syms]
    if hashable and ch.bool(0.3):
        case['syminfo'] = [[ch.choice([0xffff, 0xfffe, 0xfffd, 0xff00, ch.int(0, 0xffff)]), ch.word(16)] for _ in syms]
    if ch.bool(0.3):
        k = ch.choice(['empty', 'empty', 'second'])
        case['twin'] = {'kind': k, 'type': ch.choice([2, 11]), 'first': ch.bool(0.5)}
        if k == 'empty':
            case['twin']['at_end'] = ch.bool(0.3)
        else:
            case['twin']['pick'] = [0] + [i for i in ch.perm(list(range(1, n))) if ch.bool(0.5)][:40]
    present = sorted(set(names))
    qs = ch.perm(present)[:25]
    absent = [p for p in POOL if p not in present]
    if absent:
        qs += [ch.choice(absent) for _ in range(ch.int(1, 10))]
    qs += ['', 'absent_name', 'zz']
    case['queries'] = ch.perm(list(dict.fromkeys(qs)))
    case['probe'] = sorted({0, n - 1, ch.int(0, n - 1)})
    chunks = ['ph', 1, 2, 3, 4, 5, 6, 7, 'sh']
    if ch.bool(0.5):
        case['order'] = ch.perm(chunks)
    case['gaps'] = {str(c): ch.choice([0, 1, 4]) for c in chunks if ch.bool(0.2)}
    case['tail'] = ch.choice([0, 0, 9])
    return case


strategy = composite_from(build_case)


def sweep(tier):
    cases = []
    k = 0
    # every st_info byte and every st_other byte once, in each cell; collision families in dense tables
    for cls in (32, 64):
        for le in (True, False):
            k += 1
            syms = [{'name': '', 'value': 0, 'size': 0, 'info': 0, 'other': 0, 'shndx': 0}]
            for b in range(256):
                syms.append({'name': 's%d' % (b % 5), 'value': b, 'size': b * 3, 'info': b, 'other': (b * 37) & 0xff, 'shndx': (0, 1, 0xfff1, 0xfff2, 0xffff, 0xff00)[b % 6]})
            cases.append({'cls': cls, 'le': le, 'syms': syms, 'tabtype': 2, 'gnu': None, 'sysv': {'nbucket': 3},
                          'shndx_table': [(i * 1000 + 7) if s['shndx'] == 0xffff else 0 for i, s in enumerate(syms)],
                          'queries': ['s0', 's4', 's5', ''], 'probe': [0, 1, 255, 256]})
            fam = [p + s for p in ('', 'f', 'é') for s in GNU_FAM + SYSV_FAM]
            fam = list(dict.fromkeys(fam))
            for nb in (1, 2, 5):
                for symoffset in (1, 3, len(fam) + 1):
                    names = [''] + fam
                    head, tail = names[:symoffset], names[symoffset:]
                    tail.sort(key=lambda nm: W.gnu_hash(nm.encode('utf-8')) % nb)
                    names = head + tail
                    syms2 = [{'name': nm, 'value': i * 8, 'size': i, 'info': 0x12, 'other': 0, 'shndx': 1 if i else 0} for i, nm in enumerate(names)]
                    cases.append({'cls': cls, 'le': le, 'syms': syms2, 'tabtype': 11, 'sysv': {'nbucket': nb},
                                  'gnu': {'symoffset': symoffset, 'nbuckets': nb, 'bloom_size': (1, 2, 4)[nb % 3], 'bloom_shift': (6, 0, 31)[nb % 3]},
                                  'queries': names + ['bC', 'ad', 'zz', 'fbC', 'abab'], 'probe': [0, 1]})
    ch = RndChooser(31337)
    for n in (1, 2, 400):
        cases.append(build_case(ch, tier, n))
    # one small table with both hash sections for every e_machine of the list, in the class / byte order cells in turn
    fam = [''] + sorted(GNU_FAM[:6] + SYSV_FAM[:6], key=lambda nm: W.gnu_hash(nm.encode('utf-8')) % 3)
    for k, mach in enumerate(MACHINES):
        for cls in (32, 64):
            syms3 = [{'name': nm, 'value': i * 8, 'size': i, 'info': 0x12, 'other': 0, 'shndx': 1 if i else 0} for i, nm in enumerate(fam)]
            c = {'cls': cls, 'le': bool((k + cls // 32) % 2), 'syms': syms3, 'tabtype': 11, 'e_machine': mach, 'osabi': (0, 0, 6)[k % 3],
                 'gnu': {'symoffset': 1, 'nbuckets': 3, 'bloom_size': 2, 'bloom_shift': 6}, 'queries': fam + ['zz', 'abab'], 'probe': [0, 1]}
            if not (cls == 64 and mach in WIDE_HASH_MACHINES):
                c['sysv'] = {'nbucket': 3}
            cases.append(c)
    # string offsets >= 2**31 and tables far into the file (sparse files)
    for k, (cls, far, nameoff) in enumerate(((64, 0x1000, 0x7ffffff0), (64, 0x1000, 0x80000010), (64, 1 << 32, 0xfffffe00), (32, 0x1000, 0x7ffffff8),
                                             (32, 0x2000, 0x80000100), (64, (1 << 40) + 0x10, 0x90000000))):
        cases.append({'far': far, 'nameoff': nameoff, 'cls': cls, 'le': bool(k % 2)})
    # tables at section indices in and around 0xff00..0xffff (reserved values of 16-bit fields, ordinary values of the 32-bit sh_link)
    for k, pad in enumerate((0xfeff, 0xff00, 0xfffd, 0x10000) if tier == 'thorough' else (0xfeff, 0xfffd)):
        c = build_case(RndChooser(4242 + k), tier, 12)
        c.update(pad=pad, tabtype=(11, 2)[k % 2], sysv={'nbucket': 3}, syminfo=[[i, i] for i in range(12)])
        c.pop('order', None)
        c['gaps'] = {}
        if c.get('gnu') is None:
            names = sorted([s['name'] for s in c['syms'][1:]], key=lambda nm: W.gnu_hash(nm.encode('utf-8')) % 2)
            for s, nm in zip(c['syms'][1:], names):
                s['name'] = nm
            c['gnu'] = {'symoffset': 1, 'nbuckets': 2, 'bloom_size': 1, 'bloom_shift': 5}
        cases.append(c)
    return cases


def floors(ctx):
    c = ctx.counters
    need = ['gnu.query.present.full-hash-collision', 'gnu.query.present.hash-equal-up-to-bit0', 'gnu.query.absent.full-hash-collision',
            'gnu.query.absent.hash-equal-up-to-bit0', 'sysv.query.present.full-hash-collision', 'sysv.query.absent.full-hash-collision',
            'gnu.query.present.same-bucket', 'sysv.query.absent.same-bucket', 'xindex.symbol', 'syminfo.table', 'tab.symtab', 'tab.dynsym', 'tab.ldynsym',
            'cell.32le', 'cell.32be', 'cell.64le', 'cell.64be', 'far.tables', 'gnu.bucket-groups-not-ascending', 'symtab.stepwise']
    return ['no case of class ' + k for k in need if c[k] == 0]

"""C08 - relocation tables decode exactly; debug-section relocation follows the psABI."""
import io
import struct

from vf import usage
from vf.enc import elf as W
from vf.ref import c08_reloc as REF
from vf.ref import c08_corpus as CORP
from vf.choose import RndChooser, composite_from

ID = 'C08'
RULE = ('(a) REL/RELA sections and DT_REL/DT_RELA/DT_JMPREL tables (reached through a .dynamic section or a PT_DYNAMIC segment, one '
        'PT_LOAD per table with its own address bias): both classes x both byte orders, 0..200 (thorough 2000) entries, arbitrary r_offset / symbol '
        'index / type / negative addends, ELF64 MIPS packed r_sym/r_ssym/r_type3/r_type2/r_type; oracle = the model, field by field. '
        '(b) RELR sections and DT_RELR tables: any mix of even address entries and odd bitmap entries with arbitrary bit patterns '
        '(first entry an address); oracle = an expander written from the generic-ABI RELR proposal. (c) ET_REL objects for every '
        '(machine, type) pair of x86, x86-64, ARM ABS32, AArch64, MIPS o32 REL / n64 RELA, PPC64, S390x, LoongArch with psABI type '
        'numbers: 1..3 debug sections of 8..256 random bytes, 0..12 non-overlapping relocated fields at any offset (LoongArch ADDn/SUBn '
        'may pair on one field), boundary symbol values / addends / in-place values; get_dwarf_info(relocate_dwarf_sections=True|False) '
        'must give byte for byte the psABI result truncated to the field width in the file byte order, all other bytes unchanged. '
        '(d) unsupported type / wrong REL-RELA flavour / symbol index >= table size / unsupported machine / n64 composite relocation '
        'must raise ELFRelocationError. (e) 13 vendored clang-14 objects (aarch64/aarch64_be/armv7/armebv7/i386/mips/mipsel/mips64/mips64el/'
        'ppc64/ppc64le/s390x/x86-64, -g -O1), as compiled and with the RELA-relocated fields pre-filled, read by an independent mini ELF '
        'reader and relocated by the same oracle. Non-trivial: an applied relocation whose exact result is negative or wraps at the field width, a '
        'big-endian applied field, a RELR bitmap word with >= 2 relocation bits, or an error-path case. Distinct by SHA-1 of the file.')
N = {'quick': 6000, 'thorough': 300000}
ASSUMPTIONS = ['sh_entsize / DT_RELENT / DT_RELAENT / DT_RELRENT equal the entry size, table sizes are whole multiples of it; table addresses are non-zero and mapped by exactly one PT_LOAD',
               'RELR address entries are even (not necessarily word aligned) and small enough that no decoded address exceeds 2^class; a stream never starts with a bitmap',
               'relocatable objects: sh_addr = 0 (P = r_offset), symbols of every type but STT_FUNC (no Thumb/descriptor adjustments; FILE, COMMON, TLS, GNU_IFUNC and OS/processor-specific types included: S = st_value whatever the type), fields lie inside the section and do not overlap except LoongArch ADDn/SUBn pairs of equal width on one field',
               'the machine classes of A.5 (x86/ARM/MIPS-o32 ELF32, the others ELF64) plus ELFCLASS32 containers of x86-64 (x32), MIPS RELA (n32) and LoongArch (LA32); not AArch64 ILP32 (its own type numbers); both byte orders for every machine because the library is byte-order generic',
               'R_ARM_CALL, MIPS-RELA R_MIPS_NONE and BPF are neither required nor forbidden by the property and are not generated; an n64 composite counts only when r_type2 or r_type3 is non-zero',
               'a *_NONE relocation touches no byte, so it may sit anywhere in the section, also in its last bytes (generated only in dedicated cases, bucket apply|none-near-end)']

DEBUG_ATTR = {'.debug_info': 'debug_info_sec', '.debug_aranges': 'debug_aranges_sec', '.debug_abbrev': 'debug_abbrev_sec',
              '.debug_str': 'debug_str_sec', '.debug_line': 'debug_line_sec', '.debug_frame': 'debug_frame_sec',
              '.debug_loc': 'debug_loc_sec', '.debug_ranges': 'debug_ranges_sec', '.debug_pubtypes': 'debug_pubtypes_sec',
              '.debug_pubnames': 'debug_pubnames_sec', '.debug_addr': 'debug_addr_sec', '.debug_str_offsets': 'debug_str_offsets_sec',
              '.debug_line_str': 'debug_line_str_sec', '.debug_loclists': 'debug_loclists_sec', '.debug_rnglists': 'debug_rnglists_sec',
              '.debug_types': 'debug_types_sec', '.eh_frame': 'eh_frame_sec'}
OTHER_DEBUG = [n for n in DEBUG_ATTR if n != '.debug_info']
MACHINE_KEYS = list(REF.MACHINES)

DT_NULL, DT_PLTRELSZ, DT_STRTAB, DT_RELA, DT_RELASZ, DT_RELAENT, DT_STRSZ = 0, 2, 5, 7, 8, 9, 10
DT_REL, DT_RELSZ, DT_RELENT, DT_PLTREL, DT_JMPREL, DT_RELRSZ, DT_RELR, DT_RELRENT = 17, 18, 19, 20, 23, 35, 36, 37
NOISE_TAGS = [[21, 0], [30, 8], [0x6ffffffb, 1], [24, 0], [0x6ffffff9, 3], [0x6ffffffa, 2], [3, 0x1234], [12, 0x4000], [25, 0x5000], [27, 8]]

_c = {}


def lib():
    if not _c:
        from elftools.elf.elffile import ELFFile
        from elftools.elf.relocation import RelocationSection, RelrRelocationSection, RelocationTable, RelrRelocationTable
        from elftools.elf.dynamic import DynamicSection, DynamicSegment
        from elftools.common.exceptions import ELFRelocationError
        _c.update(ELFFile=ELFFile, RelocationSection=RelocationSection, RelrRelocationSection=RelrRelocationSection,
                  RelocationTable=RelocationTable, RelrRelocationTable=RelrRelocationTable, DynamicSection=DynamicSection,
                  DynamicSegment=DynamicSegment, ELFRelocationError=ELFRelocationError)
    return _c


def ent_size(cls, rela):
    return (8 if cls == 32 else 16) + ((4 if cls == 32 else 8) if rela else 0)


def enc_entries(cls, le, rela, mips64, entries):
    out = bytearray()
    for (off, sym, typ, addend, ssym, t3, t2) in entries:
        out += W.enc_rel(cls, le, off, sym, typ, addend if rela else None, (ssym, t3, t2) if mips64 else None)
    return bytes(out)


def enc_words(cls, le, words):
    return struct.pack(W.E(le) + '%d%s' % (len(words), 'I' if cls == 32 else 'Q'), *words)


# ---------------------------------------------------------------------------
# (a) + (b): tables

def build_table_file(case):
    """-> (data, R, sec index per table, table addresses)"""
    cls, le, em = case['cls'], case['le'], case['em']
    mips64 = cls == 64 and em == 8
    tabs = case['tables']
    dyn = case.get('dyn')
    secs = [{'name': '', 'sh_type': 0},
            {'name': '.dynsym', 'sh_type': 11, 'sh_link': 2, 'sh_info': 1, 'sh_entsize': W.SYM_SIZE[cls], 'sh_flags': 2,
             'data': W.enc_sym(cls, le, 0, 0, 0, 0, 0, 0)},
            {'name': '.dynstr', 'sh_type': 3, 'sh_flags': 2, 'data': b'\0libx.so\0'}]
    tidx = []
    for k, t in enumerate(tabs):
        tidx.append(len(secs))
        if t['kind'] == 'relr':
            secs.append({'name': t['name'], 'sh_type': 19, 'sh_flags': 2, 'sh_entsize': cls // 8, 'sh_addralign': cls // 8,
                         'data': enc_words(cls, le, t['words'])})
        else:
            secs.append({'name': t['name'], 'sh_type': 4 if t['rela'] else 9, 'sh_flags': 2, 'sh_link': 1, 'sh_info': t.get('info', 0),
                         'sh_entsize': ent_size(cls, t['rela']), 'data': enc_entries(cls, le, t['rela'], mips64, t['entries'])})
    dyn_idx = None
    segs = []
    addr = {}
    if dyn:
        dyn_idx = len(secs)
        ntags = len(dyn['tags'])
        if dyn['dynsec']:
            secs.append({'name': '.dynamic', 'sh_type': 6, 'sh_flags': 3, 'sh_addr': 0x700, 'sh_link': 2, 'sh_entsize': W.DYN_SIZE[cls], 'data': b'\0' * (ntags * W.DYN_SIZE[cls])})
        else:
            secs.append({'name': '.dyndata', 'sh_type': 1, 'sh_flags': 3, 'sh_addr': 0x700, 'data': b'\0' * (ntags * W.DYN_SIZE[cls])})
        # one PT_LOAD per referenced table (+ .dynstr), each with its own bias; PT_DYNAMIC over the tag array
        mapped = sorted({t[2] for t in dyn['tags'] if t[1] == 'addr'}, key=str)
        for n, key in enumerate(mapped):
            si = 2 if key == 'str' else tidx[key]
            lead = dyn['lead'][n % len(dyn['lead'])]
            v = dyn['vbase'] + n * 0x10000
            if dyn.get('touch') and n:
                # the table is the first thing in its segment, and the segment begins at the very address where the file-backed part of the
                # one before ends: adjacent in memory, apart in the file (a pointer equal to an end address belongs to the segment it starts)
                lead = 0
                v = prev_end
            prev_end = v + lead + dyn['pad'] + len(secs[si]['data'])
            segs.append({'p_type': 1, 'p_flags': 4, 'p_offset': ['sec_off', si, -lead], 'p_vaddr': v, 'p_paddr': v,
                         'p_filesz': ['sec_size', si, lead + dyn['pad']], 'p_memsz': ['sec_size', si, lead + dyn['pad']], 'p_align': 1})
            addr[key] = v + lead
        # PT_LOAD entries stay in ascending p_vaddr order (gABI); PT_DYNAMIC may sit anywhere among them
        segs.insert(min(dyn.get('dyn_pos', len(segs)), len(segs)),
                    {'p_type': 2, 'p_flags': 6, 'p_offset': ['sec_off', dyn_idx, 0], 'p_vaddr': 0x700, 'p_paddr': 0x700,
                     'p_filesz': ['sec_size', dyn_idx, 0], 'p_memsz': ['sec_size', dyn_idx, 0], 'p_align': cls // 8})
        payload = b''.join(W.enc_dyn(cls, le, t[0], addr[t[2]] if t[1] == 'addr' else t[2]) for t in dyn['tags'])
        secs[dyn_idx]['data'] = payload
    secs.append({'name': '.shstrtab', 'sh_type': 3, 'data': b''})
    m = {'cls': cls, 'le': le, 'e_type': 3, 'e_machine': em, 'sections': secs, 'segments': segs, 'shstrndx': len(secs) - 1,
         'order': case.get('order'), 'gaps': case.get('gaps', {}), 'tail': 16}
    data, R = W.build(m)
    return data, R, tidx, dyn_idx, addr


def exp_entry(cls, mips64, rela, e):
    off, sym, typ, addend, ssym, t3, t2 = e
    M = (1 << cls) - 1
    d = {'r_offset': off & M}
    if cls == 32:
        d.update(r_info=((sym & 0xffffff) << 8) | (typ & 0xff), r_info_sym=sym & 0xffffff, r_info_type=typ & 0xff)
    elif mips64:
        d.update(r_sym=sym, r_ssym=ssym, r_type3=t3, r_type2=t2, r_type=typ & 0xff, r_info_sym=sym, r_info_ssym=ssym,
                 r_info_type=typ & 0xff, r_info_type2=t2, r_info_type3=t3,
                 r_info=(sym << 32) | (ssym << 24) | (t3 << 16) | (t2 << 8) | (typ & 0xff))
    else:
        d.update(r_info=(sym << 32) | typ, r_info_sym=sym, r_info_type=typ)
    if rela:
        d['r_addend'] = addend
    return d


def _stream_of(tab):
    """the stream a relocation table reads from (public attribute of sections; tables of the dynamic view keep the file object)"""
    for attr in ('stream', '_stream'):
        if getattr(tab, attr, None) is not None:
            return getattr(tab, attr)
    for attr in ('elffile', '_elffile'):
        if getattr(tab, attr, None) is not None:
            return getattr(tab, attr).stream
    raise AttributeError('no stream on %r' % type(tab).__name__)


def check_reltable(ctx, case, where, tab, t, cls, mips64, summary=None):
    """tab: RelocationSection or RelocationTable; t: model.  Field mismatches are bucketed per field and cell
    (`table|<field>|<cell>`); with summary=<bucket> (dynamic view of a table whose section view was already found correct)
    every content mismatch goes to that one bucket instead, because the cause is then the table addressing, not the
    entry decoding.  Returns True when nothing was reported."""
    entries, rela = t['entries'], t['rela']
    n = len(entries)
    cell = 'cls=%d%s' % (cls, '|mips64' if mips64 else '')
    bad = []

    def fail(bucket, detail):
        bad.append(bucket)
        if summary:
            ctx.fail(summary, '%s: %s' % (bucket, detail), case)
        else:
            ctx.fail(bucket, '%s: %s' % (where, detail), case)

    keep_alive = []
    if n >= 2 and (n + len(where)) % 3 == 0:
        try:
            it = iter(tab.iter_relocations())
            for _ in range(1 + n % (n - 1)):
                next(it)
            keep_alive.append(it)
            ctx.count('first-use.abandoned-walk.reltable')
        except Exception as e:  # noqa
            bad.append('exc')
            ctx.fail_exc('%s|iter|abandoned-first-walk' % where, e, case)
    try:
        if bool(tab.is_RELA()) != rela:
            bad.append('is_RELA')
            ctx.fail('%s|is_RELA' % where, 'table flavour: expected %r got %r' % (rela, tab.is_RELA()), case)
        if tab.num_relocations() != n:
            bad.append('num')
            ctx.fail('%s|num_relocations' % where, 'encoded %d got %r' % (n, tab.num_relocations()), case)
    except Exception as e:  # noqa
        bad.append('exc')
        ctx.fail_exc('%s|num_relocations' % where, e, case)

    def cmp(got, e, i, tag):
        exp = exp_entry(cls, mips64, rela, e)
        if bool(got.is_RELA()) != rela:
            fail('table|entry.is_RELA', 'entry %d: expected %r' % (i, rela))
        ent = got.entry
        for k, v in exp.items():
            if k not in ent:
                fail('table|%s|missing|%s' % (k, cell), 'entry %d has no field %s' % (i, k))
            elif ent[k] != v or got[k] != v:
                fail('table|%s|%s%s' % (k, cell, tag), 'entry %d %r: expected %s=%#x got %r' % (i, e, k, v, ent[k]))
        if not rela and 'r_addend' in ent:
            fail('table|r_addend|present-in-REL', 'entry %d' % i)

    try:
        lst = list(tab.iter_relocations())
        if len(lst) != n:
            bad.append('count')
            ctx.fail('%s|iter|count' % where, 'encoded %d yielded %d' % (n, len(lst)), case)
        for i, (g, e) in enumerate(zip(lst, entries)):
            cmp(g, e, i, '')
    except Exception as e:  # noqa
        bad.append('exc')
        ctx.fail_exc('%s|iter' % where, e, case)
    if not bad:
        # the same walk consumed step by step with other stream users in between (a consumer that reads the relocated word after each entry)
        try:
            st = _stream_of(tab)
            again = usage.stepwise(tab.iter_relocations, usage.disturber(st, tab.iter_relocations, (tab.num_relocations,)))
            if [dict(r.entry) for r in again] != [dict(r.entry) for r in lst]:
                fail('table|iter|interleaved-with-other-stream-use', '%d entries; a step-by-step walk with seeks / a nested walk in between yields %d entries, first difference at %s' % (
                    len(lst), len(again), next((i for i, (x, y) in enumerate(zip(again, lst)) if dict(x.entry) != dict(y.entry)), min(len(again), len(lst)))))
            ctx.count('stepwise.reltable')
        except Exception as e:  # noqa
            bad.append('exc')
            ctx.fail_exc('%s|iter|interleaved-with-other-stream-use' % where, e, case)
        # random access must agree with the sequential walk (only meaningful when that one was right)
        for i in case.get('probe', []):
            if i < n:
                try:
                    cmp(tab.get_relocation(i), entries[i], i, '|get_relocation')
                except Exception as e:  # noqa
                    bad.append('exc')
                    ctx.fail_exc('%s|get_relocation' % where, e, case)
    return not bad


def check_relr(ctx, case, where, tab, t, cls, summary=None):
    """-> True when nothing was reported.  summary: see check_reltable."""
    exp = REF.relr_expand(t['words'], cls)
    cell = 'cls=%d' % cls
    first = case.get('relr_first', 'iter')
    bad = []

    def fail(bucket, detail):
        bad.append(bucket)
        if summary:
            ctx.fail(summary, '%s: %s' % (bucket, detail), case)
        else:
            ctx.fail(bucket, '%s: %s' % (where, detail), case)

    keep_alive = []
    try:
        early = tab.num_relocations() if first == 'num' else None
        if first in ('abandon', 'abandon-num') and len(exp) >= 2:
            # the very first use of the table object is a walk given up after k entries (a search loop with break); whatever the object
            # remembers of it must not be taken for the whole table afterwards
            it = iter(tab.iter_relocations())
            for _ in range(1 + len(t['words']) % (len(exp) - 1)):
                next(it)
            keep_alive.append(it)
            ctx.count('first-use.abandoned-walk.relr')
            if first == 'abandon-num':
                early = tab.num_relocations()
        got = [r['r_offset'] for r in tab.iter_relocations()]
        if got != exp:
            j = next((i for i, (a, b) in enumerate(zip(got, exp)) if a != b), min(len(got), len(exp)))
            fail('relr|offsets|%s' % cell, 'words %s: first difference at relocation %d: expected %s got %s (counts %d / %d)' % (
                hexl(t['words']), j, hexl(exp[j:j + 3]), hexl(got[j:j + 3]), len(exp), len(got)))
        else:
            # the memoised views must agree with the walk (only meaningful when the walk was right)
            for k in (early, tab.num_relocations()):
                if k is not None and k != len(exp):
                    fail('relr|num_relocations|%s' % cell, 'words %s: expected %d relocations got %r' % (hexl(t['words']), len(exp), k))
            for i in case.get('probe', []):
                if i < len(exp):
                    g = tab.get_relocation(i)['r_offset']
                    if g != exp[i]:
                        fail('relr|get_relocation|%s' % cell, 'index %d: expected %#x got %r' % (i, exp[i], g))
            again = [r['r_offset'] for r in tab.iter_relocations()]
            if again != got:
                fail('relr|second-pass', 'second iteration differs from the first')
            # step by step, with the consumer reading elsewhere after every entry (every RELR consumer reads the addend at the yielded address)
            st = _stream_of(tab)
            third = [r['r_offset'] for r in usage.stepwise(tab.iter_relocations, usage.disturber(st, tab.iter_relocations, (tab.num_relocations,)))]
            if third != got:
                j = next((i for i, (a, b) in enumerate(zip(third, got)) if a != b), min(len(third), len(got)))
                fail('relr|iter|interleaved-with-other-stream-use', 'words %s: a step-by-step walk with seeks / a nested walk in between differs at relocation %d: expected %s got %s (counts %d / %d)' % (
                    hexl(t['words']), j, hexl(got[j:j + 3]), hexl(third[j:j + 3]), len(got), len(third)))
            ctx.count('stepwise.relr')
    except Exception as e:  # noqa
        bad.append('exc')
        ctx.fail_exc('%s' % where, e, case)
    return not bad


def hexl(xs):
    return '[' + ','.join('%#x' % x for x in xs[:12]) + (',...' if len(xs) > 12 else '') + ']'


def run_tables(ctx, case):
    L = lib()
    cls, le, em = case['cls'], case['le'], case['em']
    mips64 = cls == 64 and em == 8
    data, R, tidx, dyn_idx, addr = build_table_file(case)
    nt = False
    sec_ok = {}
    try:
        ef = L['ELFFile'](io.BytesIO(data))
    except Exception as e:  # noqa
        ctx.fail_exc('open', e, case)
        ctx.case(data, False)
        return
    for k, t in enumerate(case['tables']):
        try:
            sec = ef.get_section(tidx[k])
        except Exception as e:  # noqa
            ctx.fail_exc('sec|%s|open' % t['kind'], e, case)
            continue
        if t['kind'] == 'relr':
            if not isinstance(sec, L['RelrRelocationSection']):
                ctx.fail('sec|relr|class', type(sec).__name__, case)
                continue
            sec_ok[k] = check_relr(ctx, case, 'sec|relr', sec, t, cls)
            ctx.count('relr.section')
            multi = sum(1 for w in t['words'] if w & 1 and bin(w >> 1).count('1') >= 2)
            if multi:
                nt = True
                ctx.count('relr.bitmap>=2bits', multi)
            if any(w == 1 for w in t['words']):
                ctx.count('relr.empty-bitmap')
            if any((a & 1) and (b & 1) for a, b in zip(t['words'], t['words'][1:])):
                ctx.count('relr.consecutive-bitmaps.%d' % cls)
        else:
            if not isinstance(sec, L['RelocationSection']):
                ctx.fail('sec|rel|class', type(sec).__name__, case)
                continue
            sec_ok[k] = check_reltable(ctx, case, 'sec|%s' % ('rela' if t['rela'] else 'rel'), sec, t, cls, mips64)
            ctx.count('table.section.%s' % ('rela' if t['rela'] else 'rel'))
            if any(e[3] < 0 for e in t['entries']) and t['rela']:
                ctx.count('table.negative-addend')
            ctx.count('table.entries', len(t['entries']))
    dyn = case.get('dyn')
    if dyn:
        d = None
        try:
            if dyn['via'] == 'section':
                d = ef.get_section(dyn_idx)
                if not isinstance(d, L['DynamicSection']):
                    ctx.fail('dyn|section-class', type(d).__name__, case)
                    d = None
            else:
                ds = [s for s in ef.iter_segments() if isinstance(s, L['DynamicSegment'])]
                if len(ds) != 1:
                    ctx.fail('dyn|segment-class', 'found %d DynamicSegment objects' % len(ds), case)
                else:
                    d = ds[0]
        except Exception as e:  # noqa
            ctx.fail_exc('dyn|open', e, case)
        if d is not None:
            try:
                got = d.get_relocation_tables()
            except Exception as e:  # noqa
                ctx.fail_exc('dyn|get_relocation_tables', e, case)
                got = None
            if got is not None:
                want = dyn['want']          # {'REL': table index, ...}
                if sorted(got) != sorted(want):
                    ctx.fail('dyn|keys', 'expected %r got %r' % (sorted(want), sorted(got)), case)
                for key in sorted(want):
                    if key not in got:
                        continue
                    t = case['tables'][want[key]]
                    if key == 'RELR':
                        if not isinstance(got[key], L['RelrRelocationTable']):
                            ctx.fail('dyn|RELR|class', type(got[key]).__name__, case)
                            continue
                        if sec_ok.get(want[key]):
                            check_relr(ctx, case, 'dyn|RELR', got[key], t, cls, summary='dyn|RELR|differs-from-section-view')
                        ctx.count('relr.dynamic')
                    else:
                        if not isinstance(got[key], L['RelocationTable']):
                            ctx.fail('dyn|%s|class' % key, type(got[key]).__name__, case)
                            continue
                        if sec_ok.get(want[key]):
                            check_reltable(ctx, case, 'dyn|%s' % key, got[key], t, cls, mips64, summary='dyn|%s|differs-from-section-view' % key)
                        ctx.count('table.dynamic.%s%s' % (key, ('.rela' if t['rela'] else '.rel') if key == 'JMPREL' else ''))
                ctx.count('dyn.via-%s%s' % (dyn['via'], '' if dyn['dynsec'] else '.nosection'))
    ctx.count('cell.%s.%d%s%s' % (case['kind'], cls, 'le' if le else 'be', '.mips64' if mips64 else ''))
    ctx.case(data, nt, {'kind': case['kind'], 'cls': cls, 'le': le, 'em': em,
                        'tables': [(t['name'], len(t.get('entries', t.get('words', [])))) for t in case['tables']],
                        'dyn': dyn and dyn['want'], 'file_hex_head': data[:64].hex()})


# ---------------------------------------------------------------------------
# (c) + (d): application

def build_apply_file(case):
    cls = case['cls']
    le = case['le']
    mips64 = cls == 64 and case['em'] == 8
    symvals = case['syms']
    decoy = case.get('decoy')       # a second symbol table of the other kind that no relocation section links to
    names = ['' if i == 0 else 's%d' % i for i in range(max(len(symvals), len(decoy['syms']) if decoy else 0))]
    strblob, offs = W.build_strtab(names)

    # sh_entsize of a symbol table may exceed the size of Elf_Sym: entries are then padded and the stride is the header's
    sympad = case.get('sympad', 0)

    def symtab(vals):
        return b''.join(W.enc_sym(cls, le, offs[nm], v, 0, 0 if i == 0 else case['syminfo'][i % len(case['syminfo'])], 0,
                                  0 if i == 0 else case['symshndx'][i % len(case['symshndx'])]) + bytes((0x5a + k) & 0xff for k in range(sympad))
                        for i, (nm, v) in enumerate(zip(names, vals)))
    symdata = symtab(symvals)
    real = '.dynsym' if decoy and decoy['real'] == 'dynsym' else '.symtab'
    named = []      # (name, dict, link name, info name)
    for t in case['targets']:
        tdata, tflags = t['data'], t.get('sh_flags', 0)
        if case.get('zcomp') and t['name'].startswith('.debug_') and t.get('sh_type', 1) == 1 and not tflags & 2:
            # the target stored SHF_COMPRESSED (gcc -gz / objcopy --compress-debug-sections on an object file): relocation offsets address the
            # inflated contents, whatever the stored size is
            import zlib
            tdata = W.enc_chdr(cls, le, 1, len(tdata), 1) + zlib.compress(bytes(tdata), 9)
            tflags |= 0x800
        named.append((t['name'], {'sh_type': t.get('sh_type', 1), 'sh_flags': tflags, 'sh_addralign': 1, 'data': tdata}, None, None))
        if t.get('relsec', True):
            rela = t['rela']
            ents = [(r['off'], r['sym'], r['type'], r.get('addend', 0)) + tuple(r.get('sub') or (0, 0, 0)) for r in t['relocs']]
            named.append((('.rela' if rela else '.rel') + t['name'],
                          {'sh_type': 4 if rela else 9, 'sh_flags': 0x40, 'sh_entsize': ent_size(cls, rela), 'sh_addralign': cls // 8,
                           'data': enc_entries(cls, le, rela, mips64, ents)}, real, t['name']))
    x = case.get('extra')
    if x:
        named.append((x['name'], {'sh_type': 1, 'sh_flags': 6 if x['name'] == '.text' else 0, 'data': x['data']}, None, None))
        ents = [(r['off'], r['sym'], r['type'], r.get('addend', 0), 0, 0, 0) for r in x['relocs']]
        named.append((('.rela' if x['rela'] else '.rel') + x['name'],
                      {'sh_type': 4 if x['rela'] else 9, 'sh_flags': 0x40, 'sh_entsize': ent_size(cls, x['rela']),
                       'data': enc_entries(cls, le, x['rela'], mips64, ents)}, real, x['name']))
    if decoy:
        other = '.symtab' if real == '.dynsym' else '.dynsym'
        named.append((other, {'sh_type': 2 if other == '.symtab' else 11, 'sh_entsize': W.SYM_SIZE[cls] + sympad, 'sh_info': 1, 'sh_addralign': cls // 8,
                              'data': symtab(decoy['syms'])}, '.strtab', None))
    named.append((real, {'sh_type': 2 if real == '.symtab' else 11, 'sh_entsize': W.SYM_SIZE[cls] + sympad, 'sh_info': 1, 'sh_addralign': cls // 8, 'data': symdata}, '.strtab', None))
    named.append(('.strtab', {'sh_type': 3, 'data': strblob}, None, None))
    named.append(('.shstrtab', {'sh_type': 3, 'data': b''}, None, None))
    perm = case.get('secperm')
    if perm:
        named = [named[i] for i in perm if i < len(named)] + [x for i, x in enumerate(named) if i not in perm]
    index = {nm: i + 1 for i, (nm, _, _, _) in enumerate(named)}
    secs = [{'name': '', 'sh_type': 0}]
    for nm, d, link, info in named:
        d = dict(d, name=nm)
        if link:
            d['sh_link'] = index[link]
        if info:
            d['sh_info'] = index[info]
        secs.append(d)
    m = {'cls': cls, 'le': le, 'e_type': 1, 'e_machine': case['em'], 'e_flags': case.get('e_flags', 0), 'sections': secs, 'segments': [],
         'shstrndx': index['.shstrtab'], 'gaps': case.get('gaps', {}), 'tail': case.get('tail', 0)}
    data, R = W.build(m)
    return data, R, index


def classify_value(f, got):
    """diagnose a wrong stored value against a few recognisable wrong formulas"""
    w = f['width']
    M = (1 << (8 * w)) - 1
    S, A, V, P = f['S'], f['A'], f['V'], f['off']
    cands = []
    if f['kind'] in (REF.ABS, REF.PCREL):
        base = f['exact']
        cands += [('got=expected+inplace', base + V), ('got=inplace-unchanged', V), ('got=S+A(no-P)', S + A), ('got=S+A+P', S + A + P),
                  ('got=S+V', S + V), ('got=S', S), ('got=expected-mod-2^32', base % (1 << 32))]
    else:
        cands += [('got=inplace-unchanged', V), ('got=S+A', S + A), ('got=V+S+A', V + S + A), ('got=V-S-A', V - S - A), ('got=V+S-A', V + S - A)]
    for name, v in cands:
        if v & M == got and v & M != f['stored']:
            return name
    return 'other'


def run_apply(ctx, case):
    L = lib()
    mk, em, cls, le = case['mk'], case['em'], case['cls'], case['le']
    data, R, index = build_apply_file(case)
    mlabel = mk or 'unsupported-machine'
    # expectation per target, in the order the library processes them (any error => the call must raise)
    reject = None
    expect = {}
    facts = {}
    for t in case['targets']:
        if not t.get('relsec', True):
            expect[t['name']] = t['data']
            facts[t['name']] = []
            continue
        try:
            expect[t['name']], facts[t['name']] = REF.apply_expected(mk, em, le, t['rela'], t['data'], t['relocs'], case['syms'])
        except REF.Reject as rj:
            if reject is None:
                reject = rj
    nt = reject is not None
    applied = [f for fl in facts.values() for f in fl if f['width']]
    if reject is None:
        for f in applied:
            if f['exact'] < 0:
                nt = True
                ctx.count('apply.negative-before-truncation')
            elif f['exact'] >> (8 * f['width']):
                nt = True
                ctx.count('apply.wraps-at-width')
            if not le and f['width'] >= 2:
                nt = True
            ctx.count('apply.%s.type%d.%s' % (mlabel, f['type'], 'le' if le else 'be'))
            ctx.count('apply.width%d' % f['width'])
            if f['off'] % f['width']:
                ctx.count('apply.unaligned-field')
        for fl in facts.values():
            for f in fl:
                if not f['width']:
                    ctx.count('apply.%s.type%d.%s' % (mlabel, f['type'], 'le' if le else 'be'))
    try:
        ef = L['ELFFile'](io.BytesIO(data))
    except Exception as e:  # noqa
        ctx.fail_exc('apply|open', e, case)
        ctx.case(data, False)
        return

    def fetch(di, name):
        sec = getattr(di, DEBUG_ATTR[name])
        if sec is None:
            return None
        return sec.stream.getvalue()

    # relocation disabled: every byte unchanged, never an error
    try:
        di = ef.get_dwarf_info(relocate_dwarf_sections=False)
        for t in case['targets']:
            got = fetch(di, t['name'])
            if got != t['data']:
                ctx.fail('apply|disabled|bytes-changed', 'section %s differs from the file contents with relocate_dwarf_sections=False' % t['name'], case)
        ctx.count('apply.mode.disabled')
    except Exception as e:  # noqa
        ctx.fail_exc('apply|disabled', e, case)

    # the same object file reached through a .gnu_debuglink of a stripped file: the caller's choice must reach the linked file
    if reject is None and not case.get('none_end'):
        try:
            import zlib
            fname = b'mod.debug'
            link = fname + b'\0' + b'\0' * (-(len(fname) + 1) % 4) + struct.pack(('<' if le else '>') + 'I', zlib.crc32(data) & 0xffffffff)
            stripped, _ = W.build({'cls': case['cls'], 'le': le, 'e_type': 1, 'e_machine': 0, 'shstrndx': 2,
                                   'sections': [{'name': '', 'sh_type': 0}, {'name': '.gnu_debuglink', 'sh_type': 1, 'data': link}, {'name': '.shstrtab', 'sh_type': 3, 'data': b''}]})
            for flag in (False, True):
                main = L['ELFFile'](io.BytesIO(stripped), lambda name: io.BytesIO(data))
                dil = main.get_dwarf_info(relocate_dwarf_sections=flag)
                for t in case['targets']:
                    got = fetch(dil, t['name'])
                    want = expect[t['name']] if flag else t['data']
                    if got != bytes(want):
                        ctx.fail('apply|through-debuglink|relocate_dwarf_sections=%s' % flag, 'section %s of the linked object file: %s' % (
                            t['name'], 'differs from the file contents' if not flag else 'differs from the relocated contents'), case)
                        break
            ctx.count('apply.through-debuglink')
        except Exception as e:  # noqa
            ctx.fail_exc('apply|through-debuglink', e, case)

    try:
        ef2 = L['ELFFile'](io.BytesIO(data))
        di = ef2.get_dwarf_info(relocate_dwarf_sections=True)
    except Exception as e:  # noqa
        if reject is not None:
            if isinstance(e, L['ELFRelocationError']):
                ctx.count('neg.%s.rejected' % reject.reason)
            else:
                ctx.fail_exc('neg|%s|%s|wrong-exception' % (reject.reason, mlabel), e, case, extra='(%s; ELFRelocationError required)' % reject)
        elif case.get('none_end'):
            ctx.fail_exc('apply|none-near-end', e, case, extra='(a *_NONE relocation in the last bytes of the section must not touch or read anything)')
        else:
            ctx.fail_exc('apply|%s' % mlabel, e, case)
        di = None
    if di is not None:
        if reject is not None:
            changed = [t['name'] for t in case['targets'] if fetch(di, t['name']) != t['data']]
            ctx.fail('neg|%s|%s|not-rejected' % (reject.reason, mlabel),
                     '%s: get_dwarf_info(relocate_dwarf_sections=True) returned normally (sections modified: %r); ELFRelocationError required' % (reject, changed), case)
        else:
            for t in case['targets']:
                name = t['name']
                got = fetch(di, name)
                exp = expect[name]
                if got is None or len(got) != len(exp):
                    ctx.fail('apply|section-length', 'section %s: expected %d bytes got %r' % (name, len(exp), None if got is None else len(got)), case)
                    continue
                if got == exp:
                    continue
                covered = bytearray(len(exp))
                for f in facts[name]:
                    w = f['width']
                    if not w:
                        continue
                    o = f['off']
                    for i in range(o, o + w):
                        covered[i] = 1
                    g = int.from_bytes(got[o:o + w], 'little' if le else 'big')
                    # the final contents of a shared (ADD/SUB pair) field are compared through the byte image below
                    final = int.from_bytes(exp[o:o + w], 'little' if le else 'big')
                    if g != final:
                        shared = sum(1 for h in facts[name] if h['width'] and h['off'] == o) > 1
                        if shared:
                            ctx.fail('apply|value|%s|add-sub-pair' % mlabel, 'section %s field @%d width %d: expected %#x got %#x' % (name, o, w, final, g), case)
                        else:
                            diag = classify_value(f, g)
                            key = 'apply|value|%s|%s' % (mlabel, diag) if diag != 'other' else 'apply|value|%s|type=%d|width=%d' % (mlabel, f['type'], w)
                            ctx.fail(key, 'section %s %s type %d @P=%d width %d %s: S=%#x A=%#x in-place=%#x: expected %s = %#x (stored %#x) got %#x' % (
                                name, 'RELA' if t['rela'] else 'REL', f['type'], o, w, 'LE' if le else 'BE', f['S'], f['A'], f['V'], f['kind'], f['exact'], f['stored'], g), case)
                coll = [i for i in range(len(exp)) if not covered[i] and got[i] != exp[i]]
                if coll:
                    ctx.fail('apply|collateral|%s' % mlabel, 'section %s: bytes outside every relocated field changed at offsets %r' % (name, coll[:8]), case)
            ctx.count('apply.mode.enabled')
    ctx.count('cell.apply.%s.%s' % (mlabel, 'le' if le else 'be'))
    if reject is not None:
        ctx.count('neg.%s' % reject.reason)
    ctx.case(data, nt, {'kind': 'apply', 'machine': mlabel, 'le': le, 'reject': reject and reject.reason,
                        'targets': [(t['name'], 'RELA' if t.get('rela') else 'REL', [(r['off'], r['sym'], r['type'], r.get('addend')) for r in t['relocs'][:6]]) for t in case['targets']],
                        'syms': case['syms'][:6], 'file_hex_head': data[:64].hex()})


EM_TO_MK = {(3, 32): 'x86', (62, 64): 'x64', (40, 32): 'arm', (183, 64): 'aarch64', (8, 32): 'mips_rel', (8, 64): 'mips_rela',
            (21, 64): 'ppc64', (22, 64): 's390', (258, 64): 'loongarch'}


def corpus_plan(data):
    """Independent reading of a compiler-produced object: -> (elf, mk, [(section name, contents, rela, relocs, symvals)])"""
    elf = CORP.read_elf(data)
    mk = EM_TO_MK.get((elf['em'], elf['cls']))
    plan = []
    seen = set()
    for s in elf['sections']:
        if s['name'] not in DEBUG_ATTR or s['name'] in seen:
            continue
        seen.add(s['name'])
        rs = next((r for r in elf['sections'] if r['type'] in (4, 9) and r['name'] in ('.rel' + s['name'], '.rela' + s['name'])), None)
        if rs is None:
            plan.append((s['name'], s['data'], None, [], []))
        else:
            plan.append((s['name'], s['data'], rs['type'] == 4, CORP.relocations(elf, rs), CORP.symbol_values(elf, elf['sections'][rs['link']])))
    return elf, mk, plan


def run_corpus(ctx, case):
    L = lib()
    data = case['file']
    elf, mk, plan = corpus_plan(data)
    le = elf['le']
    nt = False
    try:
        ef = L['ELFFile'](io.BytesIO(data))
        di0 = ef.get_dwarf_info(relocate_dwarf_sections=False)
        di1 = L['ELFFile'](io.BytesIO(data)).get_dwarf_info(relocate_dwarf_sections=True)
    except Exception as e:  # noqa
        ctx.fail_exc('corpus|%s' % mk, e, case)
        ctx.case(data, False)
        return
    for name, content, rela, relocs, symvals in plan:
        g0 = getattr(di0, DEBUG_ATTR[name]).stream.getvalue()
        if g0 != content:
            ctx.fail('corpus|disabled|bytes-changed', '%s: section %s differs from the file contents' % (case['name'], name), case)
        if rela is None:
            exp, facts = content, []
        else:
            exp, facts = REF.apply_expected(mk, elf['em'], le, rela, content, relocs, symvals)
        g1 = getattr(di1, DEBUG_ATTR[name]).stream.getvalue()
        ctx.count('corpus.relocations', len(facts))
        for f in facts:
            ctx.count('corpus.%s.type%d' % (mk, f['type']))
            if f['width'] and (not le or f['exact'] < 0 or f['exact'] >> (8 * f['width'])):
                nt = True
        if g1 == exp:
            continue
        for f in facts:
            o, w = f['off'], f['width']
            g = int.from_bytes(g1[o:o + w], 'little' if le else 'big')
            if w and g != f['stored']:
                diag = classify_value(f, g)
                ctx.fail('apply|value|%s|%s' % (mk, diag) if diag != 'other' else 'apply|value|%s|type=%d|width=%d' % (mk, f['type'], w),
                         'corpus object %s%s, section %s %s type %d @P=%d width %d: S=%#x A=%#x in-place=%#x: expected %s = %#x got %#x' % (
                             case['name'], ' (RELA fields pre-filled)' if case.get('poison') else '', name, 'RELA' if rela else 'REL', f['type'], o, w,
                             f['S'], f['A'], f['V'], f['kind'], f['stored'], g), case)
        cov = set()
        for f in facts:
            cov |= set(range(f['off'], f['off'] + f['width']))
        if len(g1) != len(exp) or any(g1[i] != exp[i] for i in range(len(exp)) if i not in cov):
            ctx.fail('apply|collateral|%s' % mk, 'corpus object %s section %s: bytes outside the relocated fields changed' % (case['name'], name), case)
    ctx.count('corpus.object%s' % ('.poisoned' if case.get('poison') else ''))
    ctx.case(data, nt, {'kind': 'corpus', 'name': case['name'], 'poison': case.get('poison'), 'sections': [(p[0], len(p[3])) for p in plan]})


def corpus_cases():
    """every vendored object as compiled, and (RELA objects) with the to-be-relocated fields pre-filled with 0xA5.. -- the
    gABI makes the previous contents irrelevant for RELA, so this is the same object as far as a consumer is concerned"""
    cases = []
    for name, data in CORP.corpus().items():
        cases.append({'kind': 'corpus', 'name': name, 'poison': False, 'file': data})
        elf, mk, plan = corpus_plan(data)
        buf = bytearray(data)
        touched = False
        for s in elf['sections']:
            for pname, content, rela, relocs, symvals in plan:
                if s['name'] == pname and rela:
                    for r in relocs:
                        w = REF.MACHINES[mk]['types'][r['type']][0]
                        for i in range(w):
                            buf[s['offset'] + r['off'] + i] = 0xA5 ^ i
                            touched = True
        if touched:
            cases.append({'kind': 'corpus', 'name': name, 'poison': True, 'file': bytes(buf)})
    return cases


def run_case(ctx, case):
    if case['kind'] == 'corpus':
        run_corpus(ctx, case)
    elif case['kind'] == 'apply':
        run_apply(ctx, case)
    else:
        run_tables(ctx, case)


# ---------------------------------------------------------------------------
# generators

def bounds(bits):
    return [v for v in (0, 1, (1 << 31) - 1, (1 << 31) + 1, (1 << 32) - 1, (1 << 32) + 1, (1 << 63) - 1, (1 << 63) + 1, (1 << bits) - 1,
                        1 << (bits - 1), 0x7f, 0x80, 0xff, 0x7fff, 0x8000) if v < (1 << bits)]


def uval(ch, bits):
    return ch.choice(bounds(bits)) if ch.bool(0.6) else ch.word(bits)


def sval(ch, bits):
    return REF.signed(uval(ch, bits), bits)


def bulk_chooser(ch, n, small=6):
    """Few elements are drawn one by one from the strategy (they shrink well); long tables are expanded from one drawn
    64-bit seed by the deterministic PRNG chooser (Hypothesis' per-example entropy budget does not hold hundreds of
    entries).  Either way the explicit elements are stored in the case."""
    return ch if n <= small else RndChooser(ch.int(0, (1 << 64) - 1))


def gen_entries(ch, cls, mips64, n):
    ch = bulk_chooser(ch, n)
    out = []
    for _ in range(n):
        off = ch.word(cls)
        sym = ch.word(24 if cls == 32 else 32)
        typ = ch.word(8 if (cls == 32 or mips64) else 32)
        add = REF.signed(ch.word(cls), cls)
        sub = ch.word(24) if mips64 else 0
        out.append([off, sym, typ, add, sub >> 16, (sub >> 8) & 0xff, sub & 0xff])
    return out


def gen_relr_words(ch, cls, n):
    ch = bulk_chooser(ch, n, 10)
    words = []
    top = (1 << cls) - (1 << 21)
    for i in range(n):
        if i == 0 or ch.bool(0.3):
            a = ch.word(cls) & ~1
            if a >= top:
                a = (a % top) & ~1
            words.append(a)
        else:
            k = ch.int(0, 5)
            if k == 0:
                w = ch.choice([1, 3, (1 << cls) - 1, (1 << (cls - 1)) | 1, (1 << (cls - 1)) | 3, 5, (1 << 32) - 1 if cls == 64 else 0x80000001])
            elif k == 1:
                w = (1 << ch.int(1, cls - 1)) | 1
            else:
                w = ch.word(cls) | 1
            words.append(w)
    return words


VBASE = {32: [0x1000, 0x8048000, 0x7fff0000, 0xfff00000], 64: [0x1000, 0x400000, 0x7ffff0000000, 0xffffffff80000000, 0xffffffffffe00000]}


def gen_tables(ch, tier, kind=None, cls=None, le=None, em=None, sizes=None):
    kind = kind or ch.choice(['table', 'relr'])
    cls = cls or ch.choice([32, 64])
    le = ch.bool() if le is None else le
    if em is None:
        em = ch.choice([8, 8, 3, 62, 40, 183, 21, 22, 258, 243, 0])
    mips64 = cls == 64 and em == 8
    big = 200 if tier == 'quick' else 2000

    def size():
        return ch.choice([0, 1, 2, 3, ch.int(0, 20), ch.int(0, 20), ch.int(0, big)])
    tables = []
    if kind == 'table':
        plan = ch.choice([['rel'], ['rela'], ['rel', 'rela'], ['rela', 'rel', 'plt'], ['rel', 'plt'], ['rela', 'plt'], ['rel', 'rela', 'plt', 'relr']])
    else:
        plan = ch.choice([['relr'], ['relr'], ['relr', 'rela'], ['relr', 'relr']])
    for p in plan:
        if p == 'relr':
            tables.append({'kind': 'relr', 'name': '.relr.dyn', 'words': gen_relr_words(ch, cls, size())})
        else:
            rela = p == 'rela' or (p == 'plt' and ch.bool())
            nm = ('.rela' if rela else '.rel') + ('.plt' if p == 'plt' else '.dyn')
            tables.append({'kind': 'rel', 'plt': p == 'plt', 'name': nm, 'rela': rela, 'info': ch.int(0, 3), 'entries': gen_entries(ch, cls, mips64, size())})
    case = {'kind': kind, 'cls': cls, 'le': le, 'em': em, 'tables': tables}
    if ch.bool(0.7):
        via = ch.choice(['section', 'segment'])
        dynsec = True if via == 'section' else ch.bool(0.6)
        want = {}
        tags = []
        for k, t in enumerate(tables):
            if t['kind'] == 'relr':
                if 'RELR' in want or ch.bool(0.15):
                    continue
                want['RELR'] = k
                tags += [[DT_RELR, 'addr', k], [DT_RELRSZ, 'val', len(t['words']) * (cls // 8)], [DT_RELRENT, 'val', cls // 8]]
            elif t['plt']:
                want['JMPREL'] = k
                tags += [[DT_JMPREL, 'addr', k], [DT_PLTRELSZ, 'val', len(t['entries']) * ent_size(cls, t['rela'])], [DT_PLTREL, 'val', 7 if t['rela'] else 17]]
            elif t['rela']:
                if 'RELA' in want or ch.bool(0.15):
                    continue
                want['RELA'] = k
                tags += [[DT_RELA, 'addr', k], [DT_RELASZ, 'val', len(t['entries']) * ent_size(cls, True)], [DT_RELAENT, 'val', ent_size(cls, True)]]
            else:
                if 'REL' in want or ch.bool(0.15):
                    continue
                want['REL'] = k
                tags += [[DT_REL, 'addr', k], [DT_RELSZ, 'val', len(t['entries']) * ent_size(cls, False)], [DT_RELENT, 'val', ent_size(cls, False)]]
        if not dynsec or ch.bool(0.5):
            tags += [[DT_STRTAB, 'addr', 'str'], [DT_STRSZ, 'val', 9]]
        for _ in range(ch.int(0, 3)):
            tags.append(list(ch.choice(NOISE_TAGS)[:1]) + ['val', ch.choice(NOISE_TAGS)[1]])
        tags = ch.perm(tags) + [[DT_NULL, 'val', 0]]
        nseg = len({t[2] for t in tags if t[1] == 'addr'}) + 1
        case['dyn'] = {'via': via, 'dynsec': dynsec, 'want': want, 'tags': tags, 'vbase': ch.choice(VBASE[cls]), 'touch': ch.bool(0.3), 'lead': [ch.choice([0, 1, 16, 40]) for _ in range(3)],
                       'pad': ch.choice([1, 1, 8]), 'dyn_pos': ch.int(0, nseg)}
    nmax = max([len(t.get('entries', t.get('words'))) for t in tables] + [1])
    case['probe'] = sorted({0, nmax - 1, ch.int(0, nmax - 1), ch.int(0, nmax - 1)})
    case['relr_first'] = ch.choice(['iter', 'num', 'abandon', 'abandon-num'])
    if ch.bool(0.4):
        case['gaps'] = {str(c): ch.choice([1, 3, 4, 7]) for c in range(1, 9) if ch.bool(0.4)}
    return case


def place_fields(ch, size, widths):
    """-> offsets (same order as widths) of non-overlapping fields, or fewer if they do not fit"""
    while sum(widths) > size:
        widths.pop()
    slack = size - sum(widths)
    offs = []
    cur = 0
    flush_right = ch.bool(0.3)
    for i, w in enumerate(widths):
        if flush_right and i == len(widths) - 1:
            gap = slack
        else:
            gap = min(slack, ch.choice([0, 0, 1, 3, ch.int(0, max(slack, 0))]))
        offs.append(cur + gap)
        cur += gap + w
        slack -= gap
    return offs


def put(data, off, width, v, le):
    data[off:off + width] = (v & ((1 << (8 * width)) - 1)).to_bytes(width, 'little' if le else 'big')


def gen_target(ch, tier, name, mk, spec_types, cls, le, rela, nsyms, neg, none_end=False, mips64=False, sizes=(8, 256)):
    data = bytearray(ch.bytes(sizes[0], sizes[1]))
    size = len(data)
    types = sorted(spec_types)
    real = [t for t in types if spec_types[t][0]]
    nrel = ch.choice([0, 1, 1, 2, 3, ch.int(0, 12), ch.int(4, 12)])
    if neg and nrel == 0:
        nrel = 1
    chosen = [ch.choice(real) for _ in range(nrel)] if real else []
    widths = [spec_types[t][0] for t in chosen]
    offs = place_fields(ch, size, widths)
    chosen = chosen[:len(offs)]
    relocs = []
    for t, o in zip(chosen, offs):
        w, kind = spec_types[t]
        if ch.bool(0.6):
            put(data, o, w, uval(ch, 8 * w), le)
        r = {'off': o, 'sym': ch.int(0, nsyms - 1), 'type': t, 'addend': sval(ch, cls) if rela else 0}
        if mips64:
            r['sub'] = [0, 0, 0]
        relocs.append(r)
        if kind in (REF.ADD, REF.SUB) and ch.bool(0.4):
            # the canonical usage: ADDn sym1 / SUBn sym2 on the same field
            other = {v: k for k, v in spec_types.items()}[(w, REF.SUB if kind == REF.ADD else REF.ADD)]
            relocs.append({'off': o, 'sym': ch.int(0, nsyms - 1), 'type': other, 'addend': sval(ch, cls)})
    nones = [t for t in types if not spec_types[t][0]]
    if nones and (none_end or ch.bool(0.2)):
        o = ch.int(max(0, size - REF.MAX_WIDTH + 1), size - 1) if none_end else ch.int(0, size - REF.MAX_WIDTH)
        relocs.append({'off': o, 'sym': ch.int(0, nsyms - 1), 'type': nones[0], 'addend': sval(ch, cls) if rela else 0})
    relocs = ch.perm(relocs)
    return {'name': name, 'data': bytes(data), 'rela': rela, 'relocs': relocs}


def bad_types(mk, cls, mips64):
    spec = REF.MACHINES[mk]
    ok = set(spec['types']) | REF.GREY.get(mk, set())
    lim = 256 if (cls == 32 or mips64) else 1 << 32
    cand = set()
    for t in spec['types']:
        cand |= {t - 1, t + 1, t + 2}
    cand |= {0, 3, 4, 5, 6, 7, 8, 9, 12, 24, 42, 100, 127, 128, 255, 256, 259, 260, 1024, 0xffffffff, 0x101 + 256}
    return sorted(t for t in cand if 0 <= t < lim and t not in ok)


def gen_apply(ch, tier, mk=None, le=None, neg='auto'):
    if neg == 'auto':
        neg = ch.choice([None] * 14 + ['type', 'flavour', 'symidx', 'machine', 'composite', 'none_end'])
    if mk is None:
        mk = ch.choice(MACHINE_KEYS)
    spec = REF.MACHINES[mk]
    cls = spec['cls']
    le = ch.bool() if le is None else le
    em = spec['em']
    mips64 = mk == 'mips_rela'
    if neg == 'composite' and not mips64:
        neg = None
    if neg == 'none_end' and not any(w == 0 for w, _ in spec['types'].values()):
        neg = None
    if neg == 'flavour' and mk in ('mips_rel', 'mips_rela', 'mips_rela_n32'):
        neg = None          # MIPS has both flavours
    rela = spec['rela']
    nsyms = ch.int(1, 6)
    syms = [0] + [uval(ch, cls) for _ in range(nsyms - 1)]
    names = ['.debug_info']
    k = ch.choice([0, 0, 0, 1, 2])
    pool = ch.perm(OTHER_DEBUG)
    names += pool[:k]
    targets = []
    for nm in names:
        targets.append(gen_target(ch, tier, nm, mk, spec['types'], cls, le, rela, nsyms, neg if nm == names[0] else None,
                                  none_end=(neg == 'none_end' and nm == names[0]), mips64=mips64))
    if len(targets) > 1 and ch.bool(0.3):
        targets[-1]['relsec'] = False
        targets[-1]['relocs'] = []
    case = {'kind': 'apply', 'mk': mk, 'em': em, 'cls': cls, 'le': le, 'syms': syms, 'targets': targets,
            'syminfo': [ch.choice([0x03, 0x00, 0x01, 0x10, 0x11, 0x04, 0x05, 0x06, 0x1a, 0x2d, 0x16, 0x0f]) for _ in range(3)], 'symshndx': [ch.choice([1, 2, 0xfff1]) for _ in range(3)]}
    if ch.bool(0.25):
        case['zcomp'] = True
    victim = targets[0]
    if neg == 'none_end':
        case['none_end'] = True
    elif neg == 'type':
        r = victim['relocs'][ch.int(0, len(victim['relocs']) - 1)]
        r['type'] = ch.choice(bad_types(mk, cls, mips64))
    elif neg == 'flavour':
        victim['rela'] = not rela
        for r in victim['relocs']:
            r['addend'] = sval(ch, cls) if victim['rela'] else 0
    elif neg == 'symidx':
        r = victim['relocs'][ch.int(0, len(victim['relocs']) - 1)]
        r['sym'] = ch.choice([nsyms, nsyms + 1, nsyms + ch.int(0, 300), (1 << (24 if cls == 32 else 32)) - 1])
    elif neg == 'machine':
        case['mk'] = None
        case['em'] = ch.choice(REF.UNSUPPORTED_EM)
    elif neg == 'composite':
        r = victim['relocs'][ch.int(0, len(victim['relocs']) - 1)]
        r['sub'] = ch.choice([[0, 0, 24], [0, 18, 24], [ch.int(0, 255), ch.int(0, 255), ch.int(1, 255)], [0, ch.int(1, 255), 0], [1, 0, 2]])
    # an unrelated relocation section with junk entries (must never be applied)
    if ch.bool(0.3):
        junk_rela = ch.bool()
        junk = [{'off': ch.int(0, 300), 'sym': ch.int(0, 50), 'type': ch.int(0, 255), 'addend': sval(ch, cls) if junk_rela else 0} for _ in range(ch.int(1, 4))]
        nm = ch.choice(['.text', '.debug_macro', '.debug_infox', '.data'])
        case['extra'] = {'name': nm, 'data': ch.bytes(4, 32), 'rela': junk_rela, 'relocs': junk}
    if ch.bool(0.3):
        case['decoy'] = {'real': ch.choice(['symtab', 'dynsym']), 'syms': [0] + [uval(ch, cls) for _ in range(ch.int(0, 7))]}
    if ch.bool(0.15):
        case['sympad'] = ch.choice([8, 16, 4, 24])
    nsec = 2 * len(targets) + 6
    if ch.bool(0.5):
        case['secperm'] = ch.perm(list(range(nsec)))
    if ch.bool(0.4):
        case['gaps'] = {str(c): ch.choice([1, 3, 5]) for c in range(1, nsec + 1) if ch.bool(0.3)}
    case['tail'] = ch.choice([0, 0, 7])
    return case


def build_case(ch, tier):
    k = ch.int(0, 3)
    if k == 0:
        return gen_tables(ch, tier, 'table')
    if k == 1:
        return gen_tables(ch, tier, 'relr')
    return gen_apply(ch, tier)


strategy = composite_from(build_case)


# ---------------------------------------------------------------------------
# systematic sweep

def _dyn_for(tables, cls, via, dynsec, vbase):
    want, tags = {}, []
    for k, t in enumerate(tables):
        if t['kind'] == 'relr':
            want['RELR'] = k
            tags += [[DT_RELR, 'addr', k], [DT_RELRSZ, 'val', len(t['words']) * (cls // 8)], [DT_RELRENT, 'val', cls // 8]]
        elif t['plt']:
            want['JMPREL'] = k
            tags += [[DT_JMPREL, 'addr', k], [DT_PLTRELSZ, 'val', len(t['entries']) * ent_size(cls, t['rela'])], [DT_PLTREL, 'val', 7 if t['rela'] else 17]]
        elif t['rela']:
            want['RELA'] = k
            tags += [[DT_RELA, 'addr', k], [DT_RELASZ, 'val', len(t['entries']) * ent_size(cls, True)], [DT_RELAENT, 'val', ent_size(cls, True)]]
        else:
            want['REL'] = k
            tags += [[DT_REL, 'addr', k], [DT_RELSZ, 'val', len(t['entries']) * ent_size(cls, False)], [DT_RELENT, 'val', ent_size(cls, False)]]
    tags += [[DT_STRTAB, 'addr', 'str'], [DT_STRSZ, 'val', 9], [DT_NULL, 'val', 0]]
    return {'via': via, 'dynsec': dynsec, 'want': want, 'tags': tags, 'vbase': vbase, 'lead': [0, 16, 1], 'pad': 1, 'dyn_pos': len(tables) % 3, 'touch': len(tables) % 2 == 0}


def sweep_tables():
    cases = []
    for cls in (32, 64):
        M = (1 << cls) - 1
        for le in (True, False):
            for em in ((3, 8) if cls == 32 else (62, 8)):
                mips64 = cls == 64 and em == 8
                symmax = 0xffffff if cls == 32 else 0xffffffff
                typmax = 0xff if (cls == 32 or mips64) else 0xffffffff
                OFF = [0, 1, M, 1 << (cls - 1)]
                SYM = [0, 1, symmax, (symmax >> 1) + 1]
                TYP = [0, 1, typmax, (typmax >> 1) + 1]
                ADD = [0, 1, -1, -(1 << (cls - 1)), (1 << (cls - 1)) - 1]
                SUB = [(0, 0, 0), (0xff, 0, 0), (0, 0xff, 0), (0, 0, 0xff), (0x12, 0x34, 0x56)]
                ents = []
                i = 0
                for rep in range(5):
                    for o in OFF:
                        for sy in SYM:
                            for ty in TYP:
                                sub = SUB[(i + rep) % 5] if mips64 else (0, 0, 0)
                                ents.append([o, sy, ty, ADD[(i + rep) % 5], sub[0], sub[1], sub[2]])
                                i += 1
                for vi, (via, dynsec) in enumerate([('section', True), ('segment', True), ('segment', False)]):
                    tables = [{'kind': 'rel', 'plt': False, 'name': '.rel.dyn', 'rela': False, 'info': 0, 'entries': ents},
                              {'kind': 'rel', 'plt': False, 'name': '.rela.dyn', 'rela': True, 'info': 1, 'entries': ents[::-1]},
                              {'kind': 'rel', 'plt': True, 'name': '.rela.plt' if vi != 1 else '.rel.plt', 'rela': vi != 1, 'info': 2, 'entries': ents[7:60]}]
                    cases.append({'kind': 'table', 'cls': cls, 'le': le, 'em': em, 'tables': tables, 'probe': [0, 1, 52, 319],
                                  'dyn': _dyn_for(tables, cls, via, dynsec, VBASE[cls][(vi + (0 if le else 2)) % len(VBASE[cls])])})
                cases.append({'kind': 'table', 'cls': cls, 'le': le, 'em': em, 'probe': [0],
                              'tables': [{'kind': 'rel', 'plt': False, 'name': '.rel.text', 'rela': False, 'info': 1, 'entries': []},
                                         {'kind': 'rel', 'plt': False, 'name': '.rela.text', 'rela': True, 'info': 1, 'entries': ents[:1]}]})
            # RELR streams
            A = 0x10000
            top = 1 << (cls - 1)
            allones = M
            streams = [[], [A], [A, 1], [A, allones], [A, 3], [A, top | 1], [A, top | 3, 5], [A, 1, 1, 3], [A, 5, 1, top | 1, 0x20002, 7],
                       [A, allones, allones, allones, A + 2, 0xaaaaaaab, 0x55555555], [0, 3], [2, 7, top, 9], [A - 2, A, A + 2, 0xf1],
                       [M - (1 << 21) & ~1, allones, allones]]
            for k, ws in enumerate(streams):
                tables = [{'kind': 'relr', 'name': '.relr.dyn', 'words': ws}]
                via, dynsec = [('section', True), ('segment', True), ('segment', False)][k % 3]
                cases.append({'kind': 'relr', 'cls': cls, 'le': le, 'em': 62 if cls == 64 else 3, 'tables': tables, 'probe': [0, 1, 2, 30, 31, 62, 63, 64],
                              'relr_first': ('iter', 'num', 'abandon', 'abandon-num')[k % 4], 'dyn': _dyn_for(tables, cls, via, dynsec, VBASE[cls][k % len(VBASE[cls])])})
    return cases


DESIGN_BOUNDS = [0, 1, (1 << 31) - 1, (1 << 31) + 1, (1 << 32) - 1, (1 << 32) + 1, (1 << 63) - 1, (1 << 63) + 1, -1]


def _apply_case(mk, le, data, relocs, syms, rela=None, em=None, name='.debug_info', **kw):
    spec = REF.MACHINES[mk]
    case = {'kind': 'apply', 'mk': mk if em is None else None, 'em': spec['em'] if em is None else em, 'cls': spec['cls'], 'le': le, 'syms': syms,
            'targets': [{'name': name, 'data': bytes(data), 'rela': spec['rela'] if rela is None else rela, 'relocs': relocs}],
            'syminfo': [3, 0, 1, 6, 0x1a, 4], 'symshndx': [1, 0xfff1, 2]}
    if (len(data) + len(relocs) + bool(le)) % 3 == 0:
        case['zcomp'] = True
    case.update(kw)
    return case


def sweep_apply():
    cases = []
    nfile = 0
    for mk in MACHINE_KEYS:
        spec = REF.MACHINES[mk]
        cls, rela = spec['cls'], spec['rela']
        mips64 = mk == 'mips_rela'
        Mc = (1 << cls) - 1
        svals = sorted({v & Mc for v in DESIGN_BOUNDS})
        for typ in sorted(spec['types']):
            w, kind = spec['types'][typ]
            for le in (True, False):
                if not w:
                    data = bytearray((i * 37 + 11) & 0xff for i in range(40))
                    rel = [{'off': o, 'sym': 1, 'type': typ, 'addend': -1 if rela else 0} for o in (0, 5, 40 - REF.MAX_WIDTH)]
                    cases.append(_apply_case(mk, le, data, rel, [0, 0x1234]))
                    continue
                Mw = (1 << (8 * w)) - 1
                avals = sorted({REF.signed(v, cls) for v in DESIGN_BOUNDS}) if rela else sorted({v & Mw for v in DESIGN_BOUNDS})
                vvals = sorted({v & Mw for v in DESIGN_BOUNDS})
                combos = [(si, a) for si in range(len(svals)) for a in avals]
                per = 12
                for g in range(0, len(combos), per):
                    grp = combos[g:g + per]
                    size = 1 + len(grp) * (w + 1) + (g // per) % 3
                    data = bytearray((i * 37 + 11 + nfile) & 0xff for i in range(size))
                    relocs = []
                    for k, (si, a) in enumerate(grp):
                        off = 1 + k * (w + 1) if (g // per) % 2 == 0 else size - (k + 1) * (w + 1) + 1
                        inplace = (a & Mw) if not rela else vvals[(k + g) % len(vvals)]
                        put(data, off, w, inplace, le)
                        r = {'off': off, 'sym': si + 1, 'type': typ, 'addend': a if rela else 0}
                        if mips64:
                            r['sub'] = [0, 0, 0]
                        relocs.append(r)
                    nfile += 1
                    extra = {}
                    if nfile % 3 == 0:
                        extra['secperm'] = [4, 3, 2, 1, 0]
                    if nfile % 4 == 0:
                        extra['gaps'] = {'1': 1, '2': 3}
                    if nfile % 5 == 0:
                        extra['decoy'] = {'real': 'dynsym' if nfile % 10 == 0 else 'symtab', 'syms': [0, 0x11, 0x22222222, 0x33]}
                    if nfile % 7 == 0:
                        extra['sympad'] = 8 if nfile % 2 else 16
                    cases.append(_apply_case(mk, le, data, relocs, [0] + svals, **extra))
        # error paths, one offending relocation per file
        w0 = min(w for w, _ in spec['types'].values() if w)
        t0 = sorted(t for t, (w, _) in spec['types'].items() if w == w0)[0]
        for le in (True, False):
            base = bytearray(range(1, 33))
            good = {'off': 4, 'sym': 1, 'type': t0, 'addend': 5 if rela else 0}
            if mips64:
                good['sub'] = [0, 0, 0]
            for bt in bad_types(mk, cls, mips64)[:8] + bad_types(mk, cls, mips64)[-2:]:
                cases.append(_apply_case(mk, le, base, [dict(good, off=16), dict(good, type=bt)], [0, 0x100]))
            if mk not in ('mips_rel', 'mips_rela', 'mips_rela_n32'):
                for t in sorted(spec['types']):
                    if spec['types'][t][0]:
                        cases.append(_apply_case(mk, le, base, [dict(good, type=t, addend=0 if rela else 5)], [0, 0x100], rela=not rela))
            for bad_sym in (2, 3, (1 << (24 if cls == 32 else 32)) - 1):
                cases.append(_apply_case(mk, le, base, [dict(good, sym=bad_sym)], [0, 0x100]))
            for em in REF.UNSUPPORTED_EM:
                cases.append(_apply_case(mk, le, base, [good], [0, 0x100], em=em))
            if mips64:
                for t in (2, 18):
                    for sub in ([0, 0, 24], [0, 18, 24], [3, 2, 2], [0, 5, 0]):
                        cases.append(_apply_case(mk, le, base, [dict(good, type=t, sub=sub)], [0, 0x100]))
            for t in sorted(spec['types']):
                if not spec['types'][t][0]:
                    for o in (31, 29, 25):
                        cases.append(_apply_case(mk, le, base, [dict(good, type=t, off=o)], [0, 0x100], none_end=True))
            # no relocation section at all / an empty one: nothing to do, nothing to reject
            cases.append(_apply_case(mk, le, base, [], [0]))
            cases.append(_apply_case(mk, le, base, [], [0], em=2))
    return cases


def sweep(tier):
    cases = sweep_tables() + sweep_apply() + corpus_cases()
    ch = RndChooser(8008)
    for mk in MACHINE_KEYS:
        for le in (True, False):
            for _ in range(3 if tier == 'quick' else 10):
                cases.append(gen_apply(ch, tier, mk=mk, le=le, neg=None))
    for cls in (32, 64):
        for le in (True, False):
            cases.append(gen_tables(ch, tier, 'table', cls=cls, le=le, em=8))
            cases.append(gen_tables(ch, tier, 'relr', cls=cls, le=le))
    return cases


def floors(ctx):
    c = ctx.counters
    need = []
    for mk, spec in REF.MACHINES.items():
        for t in spec['types']:
            for o in ('le', 'be'):
                need.append('apply.%s.type%d.%s' % (mk, t, o))
    need += ['neg.%s' % r for r in ('type', 'flavour', 'symidx', 'machine', 'composite')]
    need += ['apply.negative-before-truncation', 'apply.wraps-at-width', 'apply.width1', 'apply.width2', 'apply.width4', 'apply.width8',
             'apply.unaligned-field', 'apply.mode.enabled', 'apply.mode.disabled',
             'relr.bitmap>=2bits', 'relr.consecutive-bitmaps.32', 'relr.consecutive-bitmaps.64', 'relr.empty-bitmap', 'relr.section', 'relr.dynamic',
             'table.section.rel', 'table.section.rela', 'table.dynamic.REL', 'table.dynamic.RELA', 'table.dynamic.JMPREL.rel', 'table.dynamic.JMPREL.rela',
             'table.negative-addend', 'dyn.via-section', 'dyn.via-segment', 'dyn.via-segment.nosection']
    for k in ('table', 'relr'):
        for cell in ('32le', '32be', '64le', '64be'):
            need.append('cell.%s.%s' % (k, cell))
    need += ['cell.table.64le.mips64', 'cell.table.64be.mips64', 'corpus.object', 'corpus.object.poisoned', 'corpus.relocations']
    return ['no case of class ' + k for k in need if c[k] == 0]

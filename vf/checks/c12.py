"""C12 - DWARF expressions are split into exactly their operations and operands.

model (list of [opcode, operands, leb-pads]) -> own encoder (vf/enc/c12_expr.py, table transcribed from
DWARF v5 table 7.9 + GNU/WASM extensions) -> DWARFExprParser.parse_expr -> compare with the model.
"""
from hypothesis import strategies as st

from vf.enc import c12_expr as X
from vf.enc import leb
from vf.choose import RndChooser, HypChooser

ID = 'C12'
RULE = ('Expressions are generated as lists of operations over an independent transcription of the operation table '
        '(DWARF v5 7.7.1 table 7.9, GNU extensions, DW_OP_WASM_location), restricted to the operations the library '
        'lists by name, encoded by an own encoder (non-minimal LEB128 included) and parsed with '
        'DWARFExprParser(DWARFStructs(byte order, 32/64-bit DWARF, address size 4/8, version 2..5)).parse_expr. '
        'Sweep: every listed operation x 32 configuration cells x boundary operands (each width/sign edge, LEB group '
        'edges with 0..2 redundant groups, block lengths 0..4000, typed constants 0..255 bytes, entry_value nesting to '
        'depth 4, WASM kinds 0..3), every operation followed by a sentinel operation; plus the exhaustive 0..255 '
        'name<->opcode table comparison. Random: sequences of 0..200 operations (thorough: to 2000) with boundary-biased '
        'operands. Oracle: parsed (opcode, name, operands, offset) list == model, recursively (nested offsets relative to '
        'the nested block); re-encoding the parsed result reproduces the input bytes. Non-trivial: >= 3 operations of '
        'which one has a signed or >= 2-byte operand, or any nested-expression / block / typed-constant operation. '
        'Distinct by SHA-1 of (cell, encoded bytes).')
N = {'quick': 4000, 'thorough': 150000}
ASSUMPTIONS = [
    'operation table vf/enc/c12_expr.py transcribes DWARF v5 table 7.9 and the GNU/WASM extension definitions correctly '
    '(opcode numbers cross-checked against LLVM Dwarf.def; operand widths refereed by readelf 2.40 and llvm-dwarfdump 14 '
    'through vf/ref/c12_referee.py: 174 resp. 163 operations agree in 12 cells, none disagrees)',
    'only operations whose name the library lists (DW_OP_name2opcode) are generated; DW_OP_GNU_encoded_addr is never generated',
    'offsets of operations inside an entry_value block are relative to the start of that block',
    'operand domains follow the standard: deref_size/xderef_size <= address size; ULEB128 operands < 2^64, SLEB128 operands '
    'in [-2^63, 2^63); LEB128 encodings carry at most 5 redundant groups',
    'in version-2 cells with address size != offset size the operations with a section-offset operand (call_ref, '
    '[GNU_]implicit_pointer, GNU_variable_value) are not generated: GCC/binutils size that operand by the address size '
    'in version 2 (DWARF_REF_SIZE) while DWARF v3+ defines it by the format',
    'DW_OP_WASM_location kind 3 (u32) is generated in little-endian cells only (WebAssembly is little-endian)',
    'DW_OP_GNU_parameter_ref has a fixed 4-byte operand in both DWARF formats (GCC dwarf2out.c size_of_loc_descr: '
    '"size += 4"; binutils dwarf.c reads 4 bytes; confirmed with readelf on a 64-bit DWARF unit)',
]

MAX_DEPTH = 4
LIT0 = 0x30
PADDING = bytes([LIT0]) * 9     # longest fixed-width over-read is 8 bytes

_lib = None


def lib():
    global _lib
    if _lib is None:
        from elftools.dwarf import dwarf_expr as DE
        from elftools.dwarf.structs import DWARFStructs

        class L:
            pass
        L.DE = DE
        L.DWARFStructs = DWARFStructs
        L.n2o = DE.DW_OP_name2opcode
        L.o2n = DE.DW_OP_opcode2name
        L.parsers = {}
        L.pools = {}
        L.supported = sorted(c for c in X.OPS if 'X' not in X.SPEC[c] and X.NAME[c] in L.n2o)
        L.unlisted = sorted(X.NAME[c] for c in X.OPS if X.NAME[c] not in L.n2o)
        _lib = L
    return _lib


def parser_for(le, fmt, asz, ver):
    L = lib()
    key = (le, fmt, asz, ver)
    p = L.parsers.get(key)
    if p is None:
        p = L.DE.DWARFExprParser(L.DWARFStructs(little_endian=le, dwarf_format=fmt, address_size=asz, dwarf_version=ver))
        L.parsers[key] = p
    return p


# ---------------------------------------------------------------------------
# canonical form of a library result, directed by MY table

ARGKINDS = {}
for _c, _s in X.SPEC.items():
    _k = []
    for _x in _s:
        _k += ['u1', 'Wv'] if _x == 'W' else [_x]
    ARGKINDS[_c] = tuple(_k)


def canon(lst):
    if not isinstance(lst, list):
        return [['?', repr(lst)[:80]]]
    out = []
    for o in lst:
        try:
            code, name, args, off = o.op, o.op_name, o.args, o.offset
        except AttributeError:
            out.append(['?', repr(o)[:80]])
            continue
        kinds = ARGKINDS.get(code)
        if kinds is None or not isinstance(args, (list, tuple)):
            out.append([code, name, ['?', repr(args)[:80]], off])
            continue
        cargs = []
        for j, a in enumerate(args):
            k = kinds[j] if j < len(kinds) else '?'
            if k in ('B', 'T'):
                if isinstance(a, (bytes, bytearray)):
                    cargs.append(bytes(a))
                elif isinstance(a, (list, tuple)) and all(type(x) is int and 0 <= x <= 255 for x in a):
                    cargs.append(bytes(a))
                else:
                    cargs.append(('?', repr(a)[:80]))
            elif k == 'E':
                cargs.append(canon(a) if isinstance(a, list) else ('?', repr(a)[:80]))
            else:
                cargs.append(a if type(a) is int else ('?', repr(a)[:80]))
        out.append([code, name, cargs, off])
    return out


def reencode_from_lib(lst, ops, le, fmt, asz):
    """Re-encode what the library returned (raw DWARFExprOp objects), borrowing only the LEB paddings from
    the case.  Raises on unusable values."""
    out = bytearray()
    for o, op in zip(lst, ops):
        pads = op[2] if len(op) > 2 and op[2] else []
        kinds = ARGKINDS[o.op]
        if 'E' in kinds:
            nb = reencode_from_lib(o.args[0], op[1][0], le, fmt, asz)
            out += bytes([o.op]) + leb.uleb(len(nb), pads[0] if pads else 0) + nb
        else:
            vals = [bytes(a) if k in ('B', 'T') else a for k, a in zip(kinds, o.args)]
            out += X.encode_op([o.op, vals, pads], le, fmt, asz)[0]
    return bytes(out)


# ---------------------------------------------------------------------------
# classification of differences

def _prev_class(e, i):
    return X.op_class(e[i - 1][0]) if i else 'start'


def first_diff(g, e, where='top'):
    """bucket suffix + text for the first difference between canonical library result g and expectation e"""
    for i in range(min(len(g), len(e))):
        go, eo = g[i], e[i]
        if go == eo:
            continue
        if len(go) != 4:
            return 'shape|in=%s' % where, 'element %d is %r' % (i, go)
        if go[0] != eo[0] or go[1] != eo[1]:
            return ('op|in=%s|after=%s' % (where, _prev_class(e, i)),
                    'element %d: expected %s(%#x) at %d, got %r(%r) at %r' % (i, eo[1], eo[0], eo[3], go[1], go[0], go[3]))
        if go[3] != eo[3]:
            return ('offset|in=%s|after=%s' % (where, _prev_class(e, i)),
                    'element %d %s: expected offset %d got %r' % (i, eo[1], eo[3], go[3]))
        ga, ea = go[2], eo[2]
        if isinstance(ga, list) and len(ga) == len(ea):
            for j in range(len(ea)):
                if ga[j] != ea[j]:
                    if isinstance(ea[j], list) and isinstance(ga[j], list):
                        return first_diff(ga[j], ea[j], eo[1])
                    return 'args|%s' % fam(eo[1]), 'element %d %s: expected operands %s got %s (operand %d)' % (i, eo[1], _short(ea), _short(ga), j)
        return 'args|%s|count' % fam(eo[1]), 'element %d %s: expected operands %s got %s' % (i, eo[1], _short(ea), _short(ga))
    if len(g) != len(e):
        return ('len|in=%s|%s' % (where, 'short' if len(g) < len(e) else 'long'),
                'expected %d operations, got %d' % (len(e), len(g)))
    return None


def _short(a):
    r = repr(a)
    return r if len(r) <= 200 else r[:200] + '...'


def _arg_class(kind, got, exp):
    """robust classes only: the same root cause must not spread over several buckets"""
    if type(got) is int and type(exp) is int and got != exp:
        if kind in X.FIXED or kind in ('A', 'O', 'Wv'):
            bits = 8 * X.FIXED[kind][0] if kind in X.FIXED else None
            if bits and (got - exp) % (1 << bits) == 0:
                return 'sign'
            for nb in (2, 4, 8):
                try:
                    if got.to_bytes(nb, 'little', signed=got < 0) == exp.to_bytes(nb, 'big', signed=exp < 0):
                        return 'byteorder'
                except OverflowError:
                    pass
        if kind in ('U', 'S', 'Wv'):
            d = abs(got - exp)
            if d & (d - 1) == 0 and (d.bit_length() - 1) % 7 == 0:
                return 'sign'
    return 'value'


def fam(name):
    """bucket-key spelling: the three generated families share one key"""
    for pre in ('DW_OP_lit', 'DW_OP_reg', 'DW_OP_breg'):
        if name.startswith(pre) and name[len(pre):].isdigit():
            return pre + 'N'
    return name


def _parse1(cell, data):
    try:
        return canon(parser_for(*cell).parse_expr(list(data))), None
    except Exception as e:  # noqa
        return None, e


def diag_op(op, cell):
    """Parse one operation on its own and name what is wrong with it.  -> None | (bucket, detail)"""
    from vf.core import exc_site
    le, fmt, asz, ver = cell
    code = op[0]
    name = X.NAME[code]
    kname = fam(name)
    b, eargs = X.encode_op(op, le, fmt, asz)
    want = [code, name, eargs, 0]
    # one parse decides the common case: the operation followed by sentinel operations
    c2, err2 = _parse1(cell, b + PADDING)
    if err2 is None and c2 == [want] + [[LIT0, 'DW_OP_lit0', [], len(b) + i] for i in range(len(PADDING))]:
        return None
    c, err = _parse1(cell, b)
    if err is None and c == [want]:
        # fine on its own, but not the framing of what follows
        if err2 is not None:
            t, site = exc_site(err2)
            return 'op.trailing.exc|%s|%s' % (kname, t), '%s (%s) followed by %d x DW_OP_lit0 raised %s: %s' % (
                name, b[:40].hex(), len(PADDING), t, str(err2)[:200])
        return 'op.trailing|%s' % kname, 'operations after %s (%s) not parsed as %d x DW_OP_lit0: %s' % (
            name, b[:40].hex(), len(PADDING), _short(c2[1:]))
    if isinstance(err, KeyError) and err.args == (code,):
        t, site = exc_site(err)
        return 'op.exc|%s|%s|%s' % (kname, t, site), '%s (%s) raised KeyError: %s - listed by name, but no operand parser' % (name, b[:40].hex(), err)
    # how many bytes does the library take for this operation?  smallest prefix of (op + lit0 padding)
    # that parses as exactly one operation
    full = b + PADDING
    if len(b) <= 64:
        ks = range(1, len(full) + 1)
    else:
        ks = range(len(b) - 8, len(full) + 1)
    consumed, first = None, None
    for k in ks:
        if k == len(b):
            ck, ek = c, err
        else:
            ck, ek = _parse1(cell, full[:k])
        if ek is None and len(ck) == 1 and len(ck[0]) == 4:
            consumed, first = k, ck[0]
            break
    if consumed is None:
        if err is not None:
            t, site = exc_site(err)
            return 'op.exc|%s|%s|%s' % (kname, t, site), '%s (%s) raised %s: %s' % (name, b[:40].hex(), t, str(err)[:200])
        return 'op.shape|%s' % kname, 'parse of %s (%s) gave %s' % (name, b[:40].hex(), _short(c))
    if first[0] != code:
        return 'op.opcode|%s' % kname, 'opcode %#x reported as %r' % (code, first[0])
    if first[1] != name:
        return 'op.name|%s|got=%s' % (kname, fam(str(first[1]))), 'opcode %#x named %r, the table name is %s' % (code, first[1], name)
    if first[3] != 0:
        return 'op.offset0|%s' % kname, 'first operation at offset %r' % (first[3],)
    if consumed != len(b):
        d = consumed - len(b)
        variable = any(k in ('U', 'S', 'B', 'T', 'E', 'Wv') for k in ARGKINDS[code])
        ds = ('%+d' % d) if not variable else 'var'
        return ('op.width|%s|delta=%s' % (kname, ds),
                '%s encoded in %d bytes (%s), the library takes %d; operands expected %s got %s' % (
                    name, len(b), b[:40].hex(), consumed, _short(eargs), _short(first[2])))
    ga = first[2]
    if not isinstance(ga, list) or len(ga) != len(eargs):
        return 'op.args|%s|count' % kname, '%s (%s): expected operands %s got %s' % (name, b[:40].hex(), _short(eargs), _short(ga))
    for j in range(len(eargs)):
        if ga[j] != eargs[j]:
            if isinstance(eargs[j], list) and isinstance(ga[j], list):
                fd = first_diff(ga[j], eargs[j], name)
                return 'op.nested.%s' % fd[0], '%s (%s): %s' % (name, b[:40].hex(), fd[1])
            cls = _arg_class(ARGKINDS[code][j], ga[j], eargs[j])
            return ('op.args|%s|%s' % (kname, cls),
                    '%s (%s): expected operands %s got %s (operand %d)' % (name, b[:40].hex(), _short(eargs), _short(ga), j))
    return 'op.shape|%s' % kname, 'parse of %s (%s) gave %s' % (name, b[:40].hex(), _short(first))


def prune(ctx, ops, cell, case, seen):
    """Diagnose every operation on its own (inner ones first); report and drop the broken ones.
    -> (kept ops, number dropped)"""
    keep = []
    dropped = 0
    for op in ops:
        if 'E' in X.SPEC[op[0]]:
            inner, nd = prune(ctx, op[1][0], cell, case, seen)
            if nd:
                dropped += nd
                op = [op[0], [inner], op[2] if len(op) > 2 else []]
        d = diag_op(op, cell)
        if d is None:
            keep.append(op)
        else:
            dropped += 1
            if d[0] not in seen:
                seen.add(d[0])
                ctx.fail(d[0], d[1] + ' [cell le=%s fmt=%d asz=%d v%d]' % cell, case)
    return keep, dropped


# ---------------------------------------------------------------------------

def check_tables(ctx, case):
    L = lib()
    from vf import registry
    reg = registry.llvm_dwarf()
    n2o, o2n = dict(L.n2o), dict(L.o2n)
    by_code = {}
    for name in sorted(n2o):
        code = n2o[name]
        if type(code) is not int or not 0 <= code <= 255:
            ctx.fail('tables.value|%s' % name, '%s -> %r is not an opcode' % (name, code), case)
            continue
        if name in X.MARKERS:
            if code != X.MARKERS[name]:
                ctx.fail('tables.opcode|%s' % name, '%s is %#x, table 7.9 says %#x' % (name, code, X.MARKERS[name]), case)
            continue
        by_code.setdefault(code, []).append(name)
        if name in X.BY_NAME:
            ctx.count('tables.names_checked')
            if X.BY_NAME[name] != code:
                ctx.fail('tables.opcode|%s' % name, '%s is %#x in the library, %#x in table 7.9/extension definitions' % (
                    name, code, X.BY_NAME[name]), case)
        elif name in reg:
            ctx.count('tables.names_checked_llvm_only')
            if reg[name] != code:
                ctx.fail('tables.opcode|%s' % name, '%s is %#x in the library, %#x in LLVM Dwarf.def' % (name, code, reg[name]), case)
        else:
            ctx.count('tables.names_unknown_to_oracle')
    # one-to-one: no two operation names share an opcode ...
    for code in sorted(by_code):
        names = by_code[code]
        if len(names) > 1:
            ctx.fail('tables.not_injective|%#04x' % code, 'opcode %#x has names %s' % (code, names), case)
    # ... and the reverse map inverts the forward map on operations
    for code in range(256):
        nm = o2n.get(code)
        mine = X.NAME.get(code)
        ops_here = by_code.get(code, [])
        if nm is None:
            if ops_here:
                ctx.fail('tables.inverse_missing|%#04x' % code, 'no name for opcode %#x although %s maps to it' % (code, ops_here), case)
            elif mine is not None:
                ctx.count('tables.unlisted_operation')
            continue
        ctx.count('tables.opcodes_named')
        if nm in X.MARKERS:
            if ops_here:
                ctx.fail('tables.marker_shadows|%#04x' % code, 'opcode %#x is named %s although it is operation %s' % (code, nm, ops_here), case)
            continue
        if n2o.get(nm) != code:
            ctx.fail('tables.inverse|%#04x' % code, 'opcode %#x -> %s -> %r' % (code, nm, n2o.get(nm)), case)
        if mine is not None and nm != mine:
            ctx.fail('tables.name|%#04x' % code, 'opcode %#x is named %s, table says %s' % (code, nm, mine), case)
    ctx.case('tables', True, {'k': 'tables', 'names': len(n2o), 'unlisted': L.unlisted})
    ctx.count('kind.tables')


def _walk(ctx, ops, depth, st_):
    for op in ops:
        code = op[0]
        spec = X.SPEC[code]
        st_['nops'] += 1
        if 0x30 <= code < 0x50:
            ctx.count('op.lit')
        elif 0x50 <= code < 0x70:
            ctx.count('op.reg')
        elif 0x70 <= code < 0x90:
            ctx.count('op.breg')
        elif not spec:
            ctx.count('op.noarg')
        else:
            ctx.count('op.' + X.NAME[code][6:])
        if len(op) > 2 and any(op[2]):
            st_['padded'] += 1
        for k in spec:
            if k in ('s1', 's2', 's4', 's8', 'S', 'u2', 'u4', 'u8', 'A', 'O'):
                st_['wide'] = True
        vi = 0
        for k in spec:
            if k == 'W':
                ctx.count('wasm.kind%d' % op[1][vi])
                vi += 2
                continue
            v = op[1][vi]
            vi += 1
            if k == 'E':
                st_['special'] = True
                st_['maxdepth'] = max(st_['maxdepth'], depth + 1)
                _walk(ctx, v, depth + 1, st_)
            elif k in ('B', 'T'):
                st_['special'] = True
                n = len(v)
                ctx.count('blob.%s.%s' % (k, '0' if n == 0 else '1-127' if n < 128 else '128-255' if n < 256 else '256-4000'))
            elif k in ('U', 'S') and type(v) is int and not -64 <= v < 128:
                st_['wide'] = True


def run_after_errors(ctx, case):
    """One parser object (as a dumper keeps it for a whole process): n corrupt expressions whose defect sits inside nested blocks are
    rejected, then well-formed expressions - with nested blocks, also nested far deeper than anything a producer emits - must parse to
    the model as on a fresh parser."""
    L = lib()
    le, fmt, asz, ver = bool(case['le']), case['fmt'], case['asz'], case['ver']
    parser = L.DE.DWARFExprParser(L.DWARFStructs(little_endian=le, dwarf_format=fmt, address_size=asz, dwarf_version=ver))
    rejected = 0
    for k in range(case['n']):
        depth = 1 + k % 4
        if k % 2:
            ops = [0x31, []]
            for _ in range(depth):
                ops = [0xa3 if k % 4 == 1 else 0xf3, [[ops, [0x08, [k & 0xff]]]]]
            data, _exp = X.encode([ops], le, fmt, asz)
            bad = data[:-1] if k % 3 else data[:-2] + b'\x03'          # the outermost block is cut short: rejected before any nested block is entered
        else:
            # every declared block length is right; the defect is the last operation of the INNERMOST block (its operand is missing, its
            # LEB128 operand does not end, or the code names no operation), so the rejection happens depth levels down
            bad = (b'\x08', b'\x03', b'\x91', b'\x10\x80', b'\x02', b'\x50\x23')[(k // 2) % 6]
            for _ in range(depth):
                bad = bytes([0xa3 if k % 4 == 0 else 0xf3, len(bad)]) + bad
            bad = b'\x50' + bad
        try:
            parser.parse_expr(list(bad))
        except Exception:  # noqa   (which exception is not this check's business)
            rejected += 1
    good = [[0xa3, [[[0x50, []], [0x23, [8]]]]], [0x9f, []]]
    deep = [0x50, []]
    for _ in range(case.get('deep', 250)):
        deep = [0xa3, [[deep]]]
    for name, ops in (('nested', good), ('nested-%d-deep' % case.get('deep', 250), [deep, [0x9f, []]])):
        data, exp = X.encode(ops, le, fmt, asz)
        for who, p_ in (('used', parser), ('fresh', L.DE.DWARFExprParser(L.DWARFStructs(little_endian=le, dwarf_format=fmt, address_size=asz, dwarf_version=ver)))):
            try:
                g = canon(p_.parse_expr(list(data)))
                if g != exp:
                    ctx.fail('after-errors|%s|%s-parser|result-differs' % (name, who), 'after %d rejected expressions' % rejected, case)
            except Exception as e:  # noqa
                ctx.fail('after-errors|%s|%s-parser|raises=%s' % (name, who, type(e).__name__), 'a well-formed expression is refused after %d rejected ones: %s' % (rejected, str(e)[:100]), case)
    ctx.count('after-errors.parsers')
    ctx.count('after-errors.rejected', rejected)
    ctx.case(('after-errors', le, fmt, asz, ver, case['n']), True, dict(case))


def run_case(ctx, case):
    if case['k'] == 'tables':
        check_tables(ctx, case)
        return
    if case['k'] == 'after-errors':
        return run_after_errors(ctx, case)
    le, fmt, asz, ver = bool(case['le']), case['fmt'], case['asz'], case['ver']
    cell = (le, fmt, asz, ver)
    ops = case['ops']
    data, exp = X.encode(ops, le, fmt, asz)          # EncodeError here = generator bug = harness error
    parser = parser_for(*cell)
    arg = list(data) if case.get('aslist', True) else data

    st_ = {'nops': 0, 'padded': 0, 'wide': False, 'special': False, 'maxdepth': 0}
    _walk(ctx, ops, 0, st_)
    ctx.count('cell.%s.%d.a%d' % ('le' if le else 'be', fmt, asz))
    ctx.count('ver.%d' % ver)
    ctx.count('depth.%d' % st_['maxdepth'])
    n = len(ops)
    ctx.count('len.%s' % ('0' if n == 0 else '1-2' if n < 3 else '3-20' if n <= 20 else '21-200' if n <= 200 else '201+'))
    if st_['padded']:
        ctx.count('nonminimal_leb_ops', st_['padded'])
    nontrivial = (n >= 3 and st_['wide']) or st_['special']
    ctx.case(bytes([le, fmt, asz, ver]) + data, nontrivial,
             {'cell': {'le': le, 'fmt': fmt, 'asz': asz, 'ver': ver}, 'nops': st_['nops'], 'bytes': len(data),
              'hex': data[:48].hex(), 'names': [e[1] for e in exp[:8]]})
    ctx.count('kind.seq')

    # The same bytes are first handed to the parser of the sibling configuration (other offset size; operands of call_ref /
    # implicit_pointer then have another width, so its answer - or failure - is its own business): what this configuration's parser
    # answers afterwards must not depend on it.
    try:
        parser_for(le, 96 - fmt, asz, ver).parse_expr(list(data))
    except Exception:  # noqa
        pass
    try:
        got = parser.parse_expr(arg)
        err = None
    except Exception as e:  # noqa
        got, err = None, e
    if err is None:
        g = canon(got)
        if g == exp and n:
            # the result belongs to the caller: whatever they do to it, parsing the same bytes again gives the same answer
            try:
                _scribble(got)
                g3 = canon(parser.parse_expr(arg))
                if g3 != exp:
                    fd = first_diff(g3, exp)
                    ctx.fail('reparse-after-caller-modified-earlier-result|' + fd[0], fd[1] + ' [cell %r]' % (cell,), case)
                got = parser.parse_expr(arg)
            except Exception as e:  # noqa
                ctx.fail_exc('reparse-after-caller-modified-earlier-result', e, case)
                return
        if g == exp:
            # the parsed result re-encodes to the input
            try:
                again = reencode_from_lib(got, ops, le, fmt, asz)
            except Exception as e:  # noqa
                ctx.fail('reencode.exc|%s' % type(e).__name__, 'parsed result cannot be re-encoded: %s' % e, case)
                return
            if again != data:
                ctx.fail('reencode.bytes', 'input %s re-encoded as %s' % (data[:60].hex(), again[:60].hex()), case)
            return

    # slow path: find the operations that are wrong on their own, then look at the rest as a sequence
    ctx.count('slow_path_cases')
    seen = set()
    keep, dropped = prune(ctx, ops, cell, case, seen)
    if dropped:
        ctx.count('ops_excluded_after_individual_report', dropped)
        data2, exp2 = X.encode(keep, le, fmt, asz)
        try:
            got2 = parser.parse_expr(list(data2) if case.get('aslist', True) else data2)
        except Exception as e:  # noqa
            ctx.fail_exc('seq.exc', e, case, extra='(after removing %d individually broken operations)' % dropped)
            return
        g2 = canon(got2)
        if g2 != exp2:
            fd = first_diff(g2, exp2)
            ctx.fail('seq.' + fd[0], fd[1] + ' (after removing %d individually broken operations) [cell %r]' % (dropped, cell), case)
        return
    if err is not None:
        ctx.fail_exc('seq.exc', err, case, extra='every operation parses on its own; %d bytes' % len(data))
        return
    fd = first_diff(g, exp)
    ctx.fail('seq.' + fd[0], fd[1] + ' [cell %r]' % (cell,), case)


def _scribble(lst, depth=0):
    """deep in-place modification of a parse result (argument lists, blobs, nested expressions), as a consumer that rebases offsets or
    consumes operands would do"""
    for op in lst:
        args = getattr(op, 'args', None)
        if isinstance(args, list):
            for a in args:
                if isinstance(a, list):
                    if a and hasattr(a[0], 'args') and depth < 6:
                        _scribble(a, depth + 1)
                    del a[len(a) // 2:]
                    a.append(0x5a)
            for i, a in enumerate(args):
                if isinstance(a, int) and not isinstance(a, bool):
                    args[i] = a + 0x1000
            args.append('x')


# ---------------------------------------------------------------------------
# generators

def _mask(bits):
    return (1 << bits) - 1


def u_edges(bits):
    s = {0, 1, 0x7f, 0x80, 0xff, _mask(bits - 1), 1 << (bits - 1), _mask(bits), 0x0102030405060708 & _mask(bits)}
    return sorted(v for v in s if v <= _mask(bits))


def s_edges(bits):
    lo, hi = -(1 << (bits - 1)), _mask(bits - 1)
    s = {0, 1, -1, 0x7f, -0x80, 0x80, -0x81, 0xff, hi, lo, hi - 1, lo + 1, 0x0102030405060708 & _mask(bits - 1)}
    return sorted(v for v in s if lo <= v <= hi)


ULEB_EDGES = sorted({0, 1, 2} | {v for k in (7, 14, 21, 28, 32, 35, 42, 49, 56, 63, 64) for v in ((1 << k) - 1, 1 << k)
                                  if v < (1 << 64)} | {(1 << 31) - 1, 1 << 31, 0x1234, 0xdeadbeef})
SLEB_EDGES = sorted(v for v in ({0, 1, -1, 2, -2} | {s * (1 << k) + d for k in (6, 13, 20, 27, 31, 32, 34, 41, 48, 55, 62, 63)
                                                      for s in (1, -1) for d in (-1, 0, 1)})
                    if -(1 << 63) <= v < (1 << 63))
PADS = (0, 0, 0, 0, 0, 1, 1, 2, 5)


def _word(ch, bits):
    return ch.word(bits) & _mask(bits)


def g_uleb(ch):
    m = ch.int(0, 6)
    if m == 0:
        return ch.choice(ULEB_EDGES)
    if m <= 2:
        return ch.int(0, 0x7f)
    if m == 3:
        return ch.int(0x80, 0x3fff)
    if m == 4:
        return _word(ch, 32)
    return _word(ch, 64)


def g_sleb(ch):
    m = ch.int(0, 6)
    if m == 0:
        return ch.choice(SLEB_EDGES)
    if m <= 2:
        return ch.int(-64, 63)
    if m == 3:
        return ch.int(-8192, 8191)
    v = _word(ch, 32 if m == 4 else 64)
    bits = 32 if m == 4 else 64
    return v - (1 << bits) if v >> (bits - 1) else v


def g_blob(ch, maxlen):
    m = ch.int(0, 11)
    if m <= 5:
        return ch.bytes(0, min(12, maxlen))
    if m <= 8:
        n = ch.choice([x for x in (0, 1, 16, 63, 64, 127, 128, 129, 255, 256, 300, 1000, 4000) if x <= maxlen])
    else:
        n = ch.int(0, maxlen)
    mul = ch.choice([0, 1, 3, 7, 0x55, 0x81, 0xff])
    add = ch.int(0, 255)
    return bytes((i * mul + add) & 0xff for i in range(n))


def allowed_codes(cell):
    L = lib()
    le, fmt, asz, ver = cell
    if ver == 2 and asz * 8 != fmt:
        return [c for c in L.supported if c not in X.REFSIZE_OPS]
    return L.supported


def _pools(cell):
    L = lib()
    p = L.pools.get(cell)
    if p is None:
        allc = allowed_codes(cell)
        keepidx = (0, 1, 15, 16, 31)
        inter = [c for c in allc if not ((0x30 <= c < 0x50 or 0x50 <= c < 0x70 or 0x70 <= c < 0x90)
                                         and ((c - 0x30) % 32) not in keepidx)]
        witharg = [c for c in inter if X.SPEC[c]]
        nested = [c for c in allc if 'E' in X.SPEC[c]]
        p = (allc, inter, witharg, nested)
        L.pools[cell] = p
    return p


def gen_op(ch, cell, depth, code=None):
    le, fmt, asz, ver = cell
    allc, inter, witharg, nested = _pools(cell)
    if code is None:
        m = ch.int(0, 9)
        if depth and depth < MAX_DEPTH and nested and m <= 2:
            code = ch.choice(nested)
        elif m <= 5:
            code = ch.choice(witharg)
        elif m <= 8:
            code = ch.choice(inter)
        else:
            code = ch.choice(allc)
    spec = X.SPEC[code]
    if 'E' in spec and depth >= MAX_DEPTH:
        code = 0x11          # consts: keeps a signed LEB in play at the depth limit
        spec = X.SPEC[code]
    vals, pads = [], []
    for k in spec:
        if k in X.FIXED:
            nb, sg = X.FIXED[k]
            if code in (0x94, 0x95):
                vals.append(ch.int(0, asz))
            else:
                v = _word(ch, 8 * nb)
                vals.append(v - (1 << (8 * nb)) if sg and v >> (8 * nb - 1) else v)
        elif k == 'A':
            vals.append(_word(ch, 8 * asz))
        elif k == 'O':
            vals.append(_word(ch, fmt))
        elif k == 'U':
            vals.append(g_uleb(ch))
            pads.append(ch.choice(PADS))
        elif k == 'S':
            vals.append(g_sleb(ch))
            pads.append(ch.choice(PADS))
        elif k == 'B':
            vals.append(g_blob(ch, 4000))
            pads.append(ch.choice(PADS))
        elif k == 'T':
            vals.append(g_blob(ch, 255))
        elif k == 'E':
            vals.append(ch_list(ch, lambda c: gen_op(c, cell, depth + 1), 0, 5 if depth < 2 else 3))
            pads.append(ch.choice(PADS))
        elif k == 'W':
            kind = ch.int(0, 3 if le else 2)
            vals.append(kind)
            if kind == 3:
                vals.append(_word(ch, 32))
            else:
                vals.append(g_uleb(ch))
                pads.append(ch.choice(PADS))
    if not any(pads):
        pads = []
    return [code, vals, pads]


def ch_list(ch, fn, lo, hi):
    """list of fn(chooser) of length lo..hi; through st.lists under Hypothesis so that the shrinker can delete
    elements (a count drawn up front is not shrinkable)"""
    if isinstance(ch, HypChooser):
        @st.composite
        def one(draw):
            return fn(HypChooser(draw))
        return ch.draw(st.lists(one(), min_size=lo, max_size=hi))
    return [fn(ch) for _ in range(ch.int(lo, hi))]


def gen_cell(ch):
    return (ch.bool(), ch.choice([32, 64]), ch.choice([4, 8]), ch.choice([2, 3, 4, 5]))


def mk_case(cell, ops, aslist=True):
    return {'k': 'seq', 'le': cell[0], 'fmt': cell[1], 'asz': cell[2], 'ver': cell[3], 'aslist': aslist, 'ops': ops}


def build(ch, tier):
    cell = gen_cell(ch)
    m = ch.int(0, 19)
    if m == 0:
        lo, hi = 0, 2
    elif m <= 11:
        lo, hi = 3, 12
    elif m <= 16:
        lo, hi = 13, 40
    else:
        # long sequences are expanded from a drawn 64-bit seed (keeps the Hypothesis choice sequence short)
        seed = ch.int(0, (1 << 64) - 1)
        n = ch.int(41, 200) if tier == 'quick' or m < 19 else ch.int(201, 2000)
        r = RndChooser(seed)
        ops = [gen_op(r, cell, 0) for _ in range(n)]
        return mk_case(cell, ops, ch.bool(0.8))
    ops = ch_list(ch, lambda c: gen_op(c, cell, 0), lo, hi)
    return mk_case(cell, ops, ch.bool(0.8))


def strategy(tier):
    @st.composite
    def s(draw):
        return build(HypChooser(draw), tier)
    return s()


# ---------------------------------------------------------------------------
# deterministic sweep

CELLS = [(le, fmt, asz, ver) for le in (True, False) for fmt in (32, 64) for asz in (4, 8) for ver in (2, 3, 4, 5)]


def _kind_edges(k, cell, code):
    le, fmt, asz, ver = cell
    if k in X.FIXED:
        nb, sg = X.FIXED[k]
        if code in (0x94, 0x95):
            return list(range(0, asz + 1))
        return s_edges(8 * nb) if sg else u_edges(8 * nb)
    if k == 'A':
        return u_edges(8 * asz)
    if k == 'O':
        return u_edges(fmt)
    if k == 'U':
        return ULEB_EDGES
    if k == 'S':
        return SLEB_EDGES
    raise KeyError(k)


def _pat(n, mul=7, add=3):
    return bytes((i * mul + add) & 0xff for i in range(n))


def sweep_ops_for(code, cell, tier):
    """list of ops exercising `code` with boundary operands in `cell`"""
    le, fmt, asz, ver = cell
    spec = X.SPEC[code]
    res = []
    if not spec:
        return [[code, [], []]]
    if spec == ('E',):
        chain = [[0x11, [-129], [1]]]
        for d in range(MAX_DEPTH - 1):
            chain = [[0x30 + d, [], []], [code, [chain], [d % 3] if d % 3 else []], [0x91, [-(1 << (7 * d + 6)) - 1], []]]
        big = [[0x9e, [_pat(130)], []], [0x08, [0xff], []]]
        for inner, pad in (([], 0), ([], 2), ([[0x30, [], []]], 0), ([[0x55, [], []], [0x91, [-8], [1]]], 1),
                           (chain, 0), (big, 0), (big, 1),
                           ([[0x0b, [-2], []], [0x92, [300, -300], [0, 2]], [0xa4, [5, _pat(4)], []]], 0)):
            res.append([code, [inner], [pad] if pad else []])
        return res
    if spec == ('B',):
        lens = [0, 1, 2, 127, 128, 129, 255, 256, 4000]
        for i, n in enumerate(lens):
            res.append([code, [_pat(n, 7 + 2 * i, i)], [(0, 0, 1, 0, 2, 0, 0, 1, 0)[i]]])
        res.append([code, [bytes([0x80] * 9)], []])
        res.append([code, [bytes([0xff] * 3)], [5]])
        return res
    if spec == ('U', 'T'):
        for i, n in enumerate((0, 1, 2, 4, 8, 16, 127, 128, 255)):
            res.append([code, [ULEB_EDGES[(3 * i) % len(ULEB_EDGES)], _pat(n, 5, 0x7e + i)], [i % 3]])
        return res
    if spec == ('W',):
        for kind in (0, 1, 2):
            for i, v in enumerate(ULEB_EDGES):
                res.append([code, [kind, v], [(i + kind) % 3]])
        if le:
            for v in u_edges(32):
                res.append([code, [3, v], []])
        return res
    lists = [_kind_edges(k, cell, code) for k in spec]
    nleb = sum(1 for k in spec if k in 'US')
    m = max(len(x) for x in lists)
    rows = []
    for i in range(m):
        rows.append([lst[i % len(lst)] for lst in lists])
    if len(spec) == 2:
        # asymmetric pairs (operand order witnesses) and min/max crossings
        a, b = lists
        rows += [[a[-1], b[0]], [a[0], b[-1]], [a[len(a) // 2], b[-1]], [a[-1], b[len(b) // 2]], [a[1], b[2 % len(b)]]]
    for i, row in enumerate(rows):
        pads = [((i + j) % 3) if (i % 2) else 0 for j in range(nleb)]
        res.append([code, row, pads if any(pads) else []])
    return res


def _listed_only(ops, ok):
    """drop operations the library does not list (the hand-written nested bodies use fixed opcodes)"""
    out = []
    for op in ops:
        if op[0] not in ok:
            continue
        if 'E' in X.SPEC[op[0]]:
            op = [op[0], [_listed_only(op[1][0], ok)], op[2] if len(op) > 2 else []]
        out.append(op)
    return out


def sweep(tier):
    L = lib()
    cases = [{'k': 'tables'}]
    r = RndChooser(12)
    for ci, cell in enumerate(CELLS):
        allowed = allowed_codes(cell)
        cases.append(mk_case(cell, []))
        # all operand-less operations in one expression, twice (forward, backward)
        noarg = [c for c in allowed if not X.SPEC[c]]
        cases.append(mk_case(cell, [[c, [], []] for c in noarg] + [[c, [], []] for c in reversed(noarg)], aslist=bool(ci % 2)))
        for code in allowed:
            if not X.SPEC[code]:
                continue
            ops = []
            for i, op in enumerate(sweep_ops_for(code, cell, tier)):
                ops.append(op)
                ops.append([0x30 + (i % 32), [], []])          # sentinel: framing after the operation
            cases.append(mk_case(cell, _listed_only(ops, set(allowed)), aslist=bool((ci + code) % 3)))
        # interaction: every operation with operands once, random boundary-biased operands, shuffled
        codes = r.perm([c for c in allowed if X.SPEC[c]])
        cases.append(mk_case(cell, [gen_op(r, cell, 0, c) for c in codes]))
        # one long expression per cell
        n = 200 if tier == 'quick' else 2000
        cases.append(mk_case(cell, [gen_op(r, cell, 0) for _ in range(n)]))
        if cell[3] == 5 and cell[2] == 8:
            cases.append({'k': 'after-errors', 'le': cell[0], 'fmt': cell[1], 'asz': cell[2], 'ver': cell[3], 'n': 300 if tier == 'quick' else 3000, 'deep': 250})
    return cases


def evidence_extra(ctx):
    L = lib()
    return {'exhaustive': True,
            'exhaustive_note': 'name<->opcode tables compared for all opcodes 0..255 and all listed names; every listed '
                               'operation is swept in all 32 cells',
            'operations_in_oracle_table': len(X.OPS),
            'operations_listed_by_library': len(L.supported),
            'operations_not_listed_by_library': L.unlisted,   # in the oracle table, never generated
            'cells': '2 byte orders x DWARF32/64 x address size 4/8 x version 2..5'}


def floors(ctx):
    L = lib()
    out = []
    c = ctx.counters
    if c['kind.tables'] == 0:
        out.append('table comparison did not run')
    if c['tables.names_checked'] < 150:
        out.append('only %d library names compared with the table' % c['tables.names_checked'])
    for code in L.supported:
        spec = X.SPEC[code]
        if spec and not 0x70 <= code < 0x90:
            if c['op.' + X.NAME[code][6:]] == 0:
                out.append('operation %s never generated' % X.NAME[code])
    for k in ('op.lit', 'op.reg', 'op.breg', 'op.noarg', 'depth.3', 'depth.4', 'blob.B.256-4000', 'blob.B.0', 'blob.T.128-255',
              'blob.T.0', 'nonminimal_leb_ops', 'len.0', 'len.21-200', 'wasm.kind0', 'wasm.kind3', 'random_cases'):
        if c[k] == 0 and not (k.startswith('wasm') and 0xed not in L.supported):
            out.append('no case of class %s' % k)
    for le in ('le', 'be'):
        for fmt in (32, 64):
            for asz in (4, 8):
                if c['cell.%s.%d.a%d' % (le, fmt, asz)] == 0:
                    out.append('cell %s/%d/%d empty' % (le, fmt, asz))
    if ctx.tier == 'thorough' and c['len.201+'] == 0:
        out.append('no expression longer than 200 operations')
    if len(L.supported) < 150:
        out.append('library lists only %d operations of the table' % len(L.supported))
    return out

"""C04 - debugging-information entries are decoded into exactly the encoded tree."""
import zlib
from vf import usage
from vf.enc import dwarf as D
from vf import registry
from vf.choose import RndChooser, composite_from

ID = 'C04'
RULE = ('unit sequences (1-6 units of mixed version 2-5 x DWARF32/64 x address size 4/8 in one section, v5 unit types '
        'compile/partial/skeleton/split_compile/type/split_type, v4 .debug_types units) with shared or per-unit abbreviation tables '
        '(arbitrary multi-byte codes, known and unknown tags/attributes), random trees (DW_AT_sibling in every reference form or absent) '
        'and every attribute form of DWARF v5 table 7.6 + GNU alt forms incl. indirect chains, implicit_const, strx/addrx/loclistx/'
        'rnglistx with base attributes before and after their users, non-minimal LEB128, empty/large blocks, strings at arbitrary pool '
        'offsets; written by an independent encoder and compared entry by entry (offset, size, code, tag, child flag, attribute name/'
        'form/raw/value/offset/indirection length, tiling, children/parent, reference resolution). Plus a sweep of every form x every '
        'configuration cell x boundary operands. Non-trivial: a unit with >=3 DIEs using >=4 distinct forms incl. one of {indirect, '
        'implicit_const, index forms, ref_addr, ref_sig8, data16, block*, exprloc}, or a section with units of differing parameters. '
        'Distinct by SHA-1 of the encoded sections.')
N = {'quick': 1500, 'thorough': 100000}
ASSUMPTIONS = ['forms are only used in units whose version defines them (GNU alt forms: any version); DW_FORM_ref (DWARF1) and GNU_addr_index/GNU_str_index are outside the domain',
               'attribute names are unique within an abbreviation; DW_AT_sibling always designates the next sibling or the closing null entry',
               'ref_sig8 is resolved only against v4 .debug_types units; DW_FORM_ref_addr is address-sized in v2 and offset-sized in v3+',
               'a name reported for a tag/attribute is accepted when the vendored LLVM Dwarf.def (or, for names it lacks, the library table) maps it to the encoded number']

SPECIAL = {'indirect', 'implicit_const', 'index', 'ref_addr', 'ref_sig8', 'data16', 'block', 'exprloc'}

V2 = ['DW_FORM_addr', 'DW_FORM_block2', 'DW_FORM_block4', 'DW_FORM_data2', 'DW_FORM_data4', 'DW_FORM_data8', 'DW_FORM_string',
      'DW_FORM_block', 'DW_FORM_block1', 'DW_FORM_data1', 'DW_FORM_flag', 'DW_FORM_sdata', 'DW_FORM_strp', 'DW_FORM_udata',
      'DW_FORM_ref_addr', 'DW_FORM_ref1', 'DW_FORM_ref2', 'DW_FORM_ref4', 'DW_FORM_ref8', 'DW_FORM_ref_udata', 'DW_FORM_indirect',
      'DW_FORM_GNU_ref_alt', 'DW_FORM_GNU_strp_alt']
V4 = V2 + ['DW_FORM_sec_offset', 'DW_FORM_exprloc', 'DW_FORM_flag_present', 'DW_FORM_ref_sig8']
V5 = V4 + ['DW_FORM_strx', 'DW_FORM_addrx', 'DW_FORM_ref_sup4', 'DW_FORM_strp_sup', 'DW_FORM_data16', 'DW_FORM_line_strp',
           'DW_FORM_implicit_const', 'DW_FORM_loclistx', 'DW_FORM_rnglistx', 'DW_FORM_ref_sup8', 'DW_FORM_strx1', 'DW_FORM_strx2',
           'DW_FORM_strx3', 'DW_FORM_strx4', 'DW_FORM_addrx1', 'DW_FORM_addrx2', 'DW_FORM_addrx3', 'DW_FORM_addrx4']
FORMS_BY_VERSION = {2: V2, 3: V2, 4: V4, 5: V5}
INDEX_FORMS = set(D.STRX) | set(D.ADDRX) | {'DW_FORM_loclistx', 'DW_FORM_rnglistx'}

TAGS = [0x11, 0x2e, 0x34, 0x24, 0x0f, 0x13, 0x0d, 0x05, 0x0b, 0x1d, 0x3c, 0x41, 0x48, 0x4b, 0x4109, 0x4106, 0x8765, 0x7fff, 0xffff, 0x3fff]
ATS = [0x03, 0x0b, 0x11, 0x12, 0x10, 0x1b, 0x25, 0x13, 0x3a, 0x3b, 0x49, 0x02, 0x1c, 0x27, 0x3f, 0x40, 0x58, 0x6e, 0x87, 0x8a,
       0x2107, 0x2111, 0x2137, 0x3fe5, 0x3fff, 0x4000, 0x7777, 0x31, 0x47, 0x55, 0x1d]
assert len(set(ATS)) == len(ATS)
EXCLUDED_ATS = {0x01, 0x72, 0x73, 0x74, 0x8c}

_c = {}


def env():
    if not _c:
        from elftools.dwarf import enums as E
        _c['reg'] = registry.llvm_dwarf()
        _c['lib_tag'] = {k: v for k, v in E.ENUM_DW_TAG.items() if isinstance(v, int)}
        _c['lib_at'] = {k: v for k, v in E.ENUM_DW_AT.items() if isinstance(v, int)}
        _c['lib_ut'] = {k: v for k, v in E.ENUM_DW_UT.items() if isinstance(v, int)}
    return _c


def name_ok(got, enc, prefix, libtab):
    E = env()
    if isinstance(got, int) and not isinstance(got, bool):
        return got == enc and enc not in libtab.values()
    if not isinstance(got, str) or not got.startswith(prefix):
        return False
    rv = E['reg'].get(got)
    if rv is not None:
        return rv == enc
    return libtab.get(got) == enc


# ---------------------------------------------------------------------------

def canon(v):
    if isinstance(v, (bytes, bytearray)):
        return bytes(v)
    if isinstance(v, (list, tuple)):
        return [canon(x) for x in v]
    return v


def build_bigunit(case):
    """Two units written by hand; the first one's unit_length is exactly case['unit_length'].  The bulk is one DW_FORM_block4 attribute of
    an entry inside a subtree that carries DW_AT_sibling, so that a reader navigating by siblings never has to materialise it."""
    le, fmt, ver, A, L = case['le'], case['fmt'], case['version'], case['addr_size'], case['unit_length']
    O = 4 if fmt == 32 else 8
    ab = bytearray()
    for code, tag, ch, attrs in ((1, 0x11, 1, [(0x03, 0x08)]), (2, 0x2e, 1, [(0x01, 0x13)]), (3, 0x34, 0, [(0x03, 0x08)]),
                                 (4, 0x34, 0, [(0x1c, 0x04)]), (5, 0x34, 0, [(0x49, 0x10)])):
        ab += bytes([code, tag, ch]) + b''.join(bytes(a) for a in attrs) + b'\0\0'
    ab += b'\0'

    def header(length):
        h = D.initial_length(le, fmt, length) + D.u(le, 2, ver)
        return h + (bytes([1, A]) + D.u(le, O, 0) if ver >= 5 else D.u(le, O, 0) + bytes([A]))
    hl = len(header(0))
    root = b'\x01cu\0'
    # fixed parts: root, A(sibling ref4), filler head (code + block4 length), null, B, null
    fixed = len(root) + 5 + 5 + 1 + len(b'\x03last\0') + 1
    n = L - (hl - (4 if fmt == 32 else 12)) - fixed
    assert n >= 0
    a_off = hl + len(root)
    b_off = a_off + 5 + 5 + n + 1
    body = root + b'\x02' + D.u(le, 4, b_off) + b'\x04' + D.u(le, 4, n) + bytes(n) + b'\0' + b'\x03last\0' + b'\0'
    u0 = header(L) + body
    assert len(u0) == L + (4 if fmt == 32 else 12)
    ra = A if ver == 2 else O
    body1 = b'\x01cu2\0' + b'\x05' + D.u(le, ra, b_off) + b'\0'
    u1 = header(len(header(0)) - (4 if fmt == 32 else 12) + len(body1)) + body1
    return {'.debug_info': u0 + u1, '.debug_abbrev': bytes(ab)}, {'a_off': a_off, 'b_off': b_off, 'cu1': len(u0), 'ref_die': len(u0) + hl + 5}


def run_bigunit(ctx, case):
    secs, x = build_bigunit(case)
    L = case['unit_length']
    tag = 'bigunit|unit_length=%#x|%d' % (L, case['fmt'])
    try:
        di = D.make_dwarfinfo(secs, case['le'], case['addr_size'])
        cus = list(di.iter_CUs())
        if [cu.cu_offset for cu in cus] != [0, x['cu1']] or cus[0]['unit_length'] != L:
            ctx.fail(tag + '|units', 'expected units at [0, %d] with unit_length %#x, got %r / %r' % (
                x['cu1'], L, [cu.cu_offset for cu in cus], cus and cus[0]['unit_length']), case)
        else:
            kids = [d.offset for d in cus[0].get_top_DIE().iter_children()]
            if kids != [x['a_off'], x['b_off']]:
                ctx.fail(tag + '|children', 'expected %r got %r' % ([x['a_off'], x['b_off']], kids), case)
            b = di.get_DIE_from_refaddr(x['b_off'])
            if b.tag != 'DW_TAG_variable' or b.attributes['DW_AT_name'].value != b'last':
                ctx.fail(tag + '|by-offset', 'entry at %d: %r' % (x['b_off'], b), case)
            if di.get_CU_containing(x['b_off']).cu_offset != 0:
                ctx.fail(tag + '|get_CU_containing', 'offset %d' % x['b_off'], case)
            r = di.get_DIE_from_refaddr(x['ref_die'])
            t = r.get_DIE_from_attribute('DW_AT_type')
            if t.offset != x['b_off']:
                ctx.fail(tag + '|ref_addr-into-big-unit', 'expected %d got %r' % (x['b_off'], t.offset), case)
    except Exception as e:  # noqa
        ctx.fail_exc(tag, e, case)
    ctx.count('bigunit')
    if L >= 1 << 24:
        ctx.count('bigunit.16MiB')
    ctx.case(('bigunit', L, case['fmt'], case['version'], case['le'], case['addr_size']), True, dict(case))


def run_farinfo(ctx, case):
    """64-bit DWARF whose section offsets really need 64 bits: abbreviation table, strings and a second unit beyond 4 GiB (sparse
    streams).  The first unit spans the gap (the bytes between its entries and its end read as zeros)"""
    import io
    from vf.enc.sparse import SparseStream
    from elftools.dwarf.dwarfinfo import DWARFInfo, DebugSectionDescriptor, DwarfConfig
    le, A, ver, far = case['le'], case['addr_size'], case['version'], case['far']
    A0, S0, U1 = far + 0x10, far + 0x20, far + 0x40
    ab = bytes([1, 0x11, 1, 0x03, 0x0e, 0, 0]) + bytes([2, 0x34, 0, 0x03, 0x0e, 0x49, 0x10, 0, 0]) + b'\0'

    def header(length):
        h = D.initial_length(le, 64, length) + D.u(le, 2, ver)
        return h + (bytes([1, A]) + D.u(le, 8, A0) if ver >= 5 else D.u(le, 8, A0) + bytes([A]))
    hl = len(header(0))
    # unit 0: root(name -> far string), child(name -> near string, type -> child of unit 1), null
    c0 = hl + 9                      # offset of unit 0's child
    c1 = U1 + hl + 9                 # offset of unit 1's child
    u0 = header(U1 - 12) + b'\x01' + D.u(le, 8, S0) + b'\x02' + D.u(le, 8, 1) + D.u(le, 8, c1) + b'\0'
    body1 = b'\x01' + D.u(le, 8, 1) + b'\x02' + D.u(le, 8, S0) + D.u(le, 8, c0) + b'\0'
    u1 = header(hl - 12 + len(body1)) + body1
    total = U1 + len(u1)

    def sec(name, stream, size):
        return DebugSectionDescriptor(stream=stream, name=name, global_offset=0, size=size, address=0)
    kw = {arg: None for arg in D.SECTION_ARGS.values()}
    kw['debug_info_sec'] = sec('.debug_info', SparseStream(total, {0: u0, U1: u1}), total)
    kw['debug_abbrev_sec'] = sec('.debug_abbrev', SparseStream(A0 + len(ab), {A0: ab}), A0 + len(ab))
    kw['debug_str_sec'] = sec('.debug_str', SparseStream(S0 + 4, {0: b'\0near\0', S0: b'far\0'}), S0 + 4)
    tag = 'farinfo|far=%#x' % far
    try:
        di = DWARFInfo(config=DwarfConfig(little_endian=le, machine_arch='x64', default_address_size=A), **kw)
        cus = list(di.iter_CUs())
        if [cu.cu_offset for cu in cus] != [0, U1] or any(cu['debug_abbrev_offset'] != A0 for cu in cus):
            ctx.fail(tag + '|units', 'expected units at [0, %#x] with abbreviations at %#x; got %r' % (U1, A0, [(cu.cu_offset, cu['debug_abbrev_offset']) for cu in cus]), case)
        else:
            for cu, nm, cn, coff, tgt in ((cus[0], b'far', b'near', c0, c1), (cus[1], b'near', b'far', c1, c0)):
                top = cu.get_top_DIE()
                kids = list(top.iter_children())
                if top.attributes['DW_AT_name'].value != nm or len(kids) != 1 or kids[0].offset != coff or kids[0].attributes['DW_AT_name'].value != cn:
                    ctx.fail(tag + '|entries', 'unit at %#x: top name %r, children %r' % (cu.cu_offset, top.attributes['DW_AT_name'].value, [(k.offset, k.attributes) for k in kids][:2]), case)
                    continue
                t = kids[0].get_DIE_from_attribute('DW_AT_type')
                if t.offset != tgt or t.cu.cu_offset != (U1 if tgt == c1 else 0):
                    ctx.fail(tag + '|ref_addr', 'entry at %#x: DW_AT_type -> %#x, expected %#x' % (coff, t.offset, tgt), case)
            d = di.get_DIE_from_refaddr(c1)
            if d.tag != 'DW_TAG_variable' or di.get_CU_containing(c1).cu_offset != U1 or di.get_CU_containing(far - 5).cu_offset != 0:
                ctx.fail(tag + '|by-offset', 'entry at %#x' % c1, case)
    except Exception as e:  # noqa
        ctx.fail_exc(tag, e, case)
    ctx.count('farinfo')
    ctx.case(('farinfo', far, le, A, ver), True, dict(case))


def run_case(ctx, case):
    if case.get('kind') == 'bigunit':
        return run_bigunit(ctx, case)
    if case.get('kind') == 'farinfo':
        return run_farinfo(ctx, case)
    E = env()
    w = D.InfoWriter(case)
    secs = w.sections
    try:
        di = D.make_dwarfinfo(secs, case['le'], case.get('default_addr', 4))
    except Exception as e:  # noqa
        ctx.fail_exc('open', e, case)
        return
    feats = set()
    total_dies = 0
    for which, it in (('units', di.iter_CUs), ('tunits', di.iter_TUs)):
        exp_units = w.exp[which]
        if which == 'tunits' and not exp_units:
            continue
        try:
            cus = list(it())
        except Exception as e:  # noqa
            ctx.fail_exc('%s|iter' % which, e, case)
            continue
        if len(cus) != len(exp_units):
            ctx.fail('%s|count' % which, 'encoded %d units, iterated %d' % (len(exp_units), len(cus)), case)
        for ui, (cu, eu) in enumerate(zip(cus, exp_units)):
            tag0 = '%s' % which
            if cu.cu_offset != eu['offset']:
                ctx.fail('%s|cu_offset' % tag0, 'unit %d: expected %d got %r' % (ui, eu['offset'], cu.cu_offset), case)
                continue
            if cu.cu_die_offset != eu['die_offset']:
                ctx.fail('%s|cu_die_offset' % tag0, 'unit %d: expected %d got %r (version %d fmt %d)' % (
                    ui, eu['die_offset'], cu.cu_die_offset, eu['header']['version'], eu['fmt']), case)
            if cu.size != eu['size']:
                ctx.fail('%s|size' % tag0, 'unit %d: expected %d got %r' % (ui, eu['size'], cu.size), case)
            if cu.dwarf_format() != eu['fmt']:
                ctx.fail('%s|dwarf_format' % tag0, 'unit %d: expected %d got %r' % (ui, eu['fmt'], cu.dwarf_format()), case)
            for k, v in eu['header'].items():
                try:
                    g = cu.header[k]
                except Exception:  # noqa
                    ctx.fail('%s|header|missing|%s' % (tag0, k), 'unit %d' % ui, case)
                    continue
                if k == 'unit_type':
                    if not name_ok(g, v, 'DW_UT_', E['lib_ut']):
                        ctx.fail('%s|header|unit_type' % tag0, 'encoded %d got %r' % (v, g), case)
                elif g != v:
                    ctx.fail('%s|header|%s' % (tag0, k), 'unit %d (version %d fmt %d): encoded %r decoded %r' % (
                        ui, eu['header']['version'], eu['fmt'], v, g), case)
            recs = eu['recs']
            try:
                dies = list(cu.iter_DIEs())
            except Exception as e:  # noqa
                ctx.fail_exc('%s|iter_DIEs' % tag0, e, case, extra=_form_hint(recs))
                continue
            total_dies += len(dies)
            if len(dies) != len(recs):
                ctx.fail('%s|die-count' % tag0, 'unit %d: encoded %d entries (incl. nulls), iterated %d' % (ui, len(recs), len(dies)), case)
            okseq = True
            for d, r in zip(dies, recs):
                if not _cmp_die(ctx, tag0, d, r, case, feats):
                    okseq = False
                    break
            if okseq and len(dies) == len(recs):
                tot = sum(d.size for d in dies)
                end = eu['offset'] + eu['size']
                pad = case[which][ui].get('tail_pad', 0)
                if eu['die_offset'] + tot + pad != end:
                    ctx.fail('%s|tiling' % tag0, 'unit %d: sizes sum to %d, unit body has %d bytes (+%d pad)' % (
                        ui, tot, end - eu['die_offset'], pad), case)
                _navigation(ctx, tag0, di, cu, dies, recs, w, case, which)
                # the same walk on a fresh object, step by step, with the section streams moved and a nested walk started between two steps
                if len(dies) <= 300:
                    try:
                        di3 = D.make_dwarfinfo(secs, case['le'], case.get('default_addr', 4))
                        cu3 = next(c for c in (di3.iter_CUs() if which == 'units' else di3.iter_TUs()) if c.cu_offset == cu.cu_offset)
                        sec3 = di3.debug_info_sec if which == 'units' or eu['header']['version'] >= 5 else di3.debug_types_sec
                        stepped = usage.stepwise(cu3.iter_DIEs, usage.disturber(sec3.stream, cu3.iter_DIEs, (lambda: di3.debug_abbrev_sec.stream.seek(1), cu3.get_top_DIE)))
                        if [(d.offset, d.tag, d.size) for d in stepped] != [(d.offset, d.tag, d.size) for d in dies]:
                            ctx.fail('%s|iter_DIEs|interleaved-with-other-stream-use' % tag0, 'unit %d: a plain loop yields %d entries, a step-by-step walk with other stream users in between %d (or different ones)' % (
                                ui, len(dies), len(stepped)), case)
                        ctx.count('stepwise.iter_DIEs')
                    except Exception as e:  # noqa
                        ctx.fail_exc('%s|iter_DIEs|interleaved-with-other-stream-use' % tag0, e, case)
    # the type-unit entry points on a fresh object: presence, lookup of a unit and of its type entry by signature, unknown signature
    try:
        di4 = D.make_dwarfinfo(secs, case['le'], case.get('default_addr', 4))
        tus = w.exp['tunits']
        if bool(di4.has_debug_types()) != ('.debug_types' in secs and bool(secs['.debug_types'])):
            ctx.fail('tunits|has_debug_types', 'section present: %r, reported %r' % ('.debug_types' in secs, di4.has_debug_types()), case)
        sigs = [u['header']['signature'] for u in tus]
        for u in reversed(tus):
            sig = u['header']['signature']
            if sigs.count(sig) != 1:
                continue
            tu = di4.get_TU_by_sig8(sig)
            if tu.tu_offset != u['offset']:
                ctx.fail('tunits|get_TU_by_sig8', 'signature %#x: unit at %d, got the unit at %r' % (sig, u['offset'], tu.tu_offset), case)
            d = di4.get_DIE_by_sig8(sig)
            if d.offset != u['offset'] + u['header']['type_offset']:
                ctx.fail('tunits|get_DIE_by_sig8', 'signature %#x: type entry at %d, got %r' % (sig, u['offset'] + u['header']['type_offset'], d.offset), case)
            ctx.count('tunits.by-signature')
        if tus:
            absent = next(x for x in (0x0123456789abcdef, 1, 2) if x not in sigs)
            try:
                r = di4.get_TU_by_sig8(absent)
                ctx.fail('tunits|get_TU_by_sig8|absent', 'unknown signature %#x returned %r' % (absent, r), case)
            except KeyError:
                pass
    except Exception as e:  # noqa
        ctx.fail_exc('tunits|by-signature', e, case)
    # A by-signature look-up or an entry walk interrupted by a read error the caller catches (vf/streams.py FaultOnce) may be repeated: the
    # repetition answers as an undisturbed object does.
    try:
        tus5 = w.exp['tunits']
        if (len(tus5) >= 2 or w.exp['units']) and zlib.crc32(secs['.debug_info'] or b'') % 3 == 0:
            from vf import streams
            di5 = D.make_dwarfinfo(secs, case['le'], case.get('default_addr', 4), stream_cls=streams.FaultOnce)
            if len(tus5) >= 2 and di5.debug_types_sec is not None:
                st5 = di5.debug_types_sec.stream
                sig = tus5[-1]['header']['signature']
                st5.arm(2 + zlib.crc32(secs['.debug_info'] or b'') % 9)
                try:
                    di5.get_TU_by_sig8(sig)
                except Exception:  # noqa
                    pass
                st5.disarm()
                if st5.faults and [u['header']['signature'] for u in tus5].count(sig) == 1:
                    ctx.count('transient-fault.by-signature-interrupted')
                    try:
                        tu = di5.get_TU_by_sig8(sig)
                        if tu.tu_offset != tus5[-1]['offset']:
                            ctx.fail('tunits|get_TU_by_sig8|repeated-after-a-failed-attempt', 'signature %#x: unit at %d, got %r' % (sig, tus5[-1]['offset'], tu.tu_offset), case)
                    except KeyError:
                        ctx.fail('tunits|get_TU_by_sig8|repeated-after-a-failed-attempt', 'signature %#x of the unit at %d is reported unknown after a look-up that a read error interrupted' % (sig, tus5[-1]['offset']), case)
            if w.exp['units']:
                eu = w.exp['units'][-1]
                st5 = di5.debug_info_sec.stream
                st5.arm(3 + zlib.crc32(secs['.debug_info']) % max(4, 3 * len(eu['recs'])))
                try:
                    list(di5.get_CU_at(eu['offset']).iter_DIEs())
                except Exception:  # noqa
                    pass
                st5.disarm()
                if st5.faults:
                    ctx.count('transient-fault.walk-interrupted')
                    got = [(d.offset, d.size, d.abbrev_code) for d in di5.get_CU_at(eu['offset']).iter_DIEs()]
                    want = [(r['offset'], r['size'], r['abbrev_code'] if not r['null'] else 0) for r in eu['recs']]
                    if got != want:
                        ctx.fail('units|iter_DIEs|repeated-after-a-failed-attempt', 'unit at %d: %d entries encoded; a walk repeated after one that a read error interrupted yields %d%s' % (
                            eu['offset'], len(want), len(got), '' if len(got) != len(want) else ' (different ones)'), case)
    except Exception as e:  # noqa
        ctx.fail_exc('repeated-after-a-failed-attempt', e, case)
    # the abbreviation declarations as the library hands them out: attribute specifications in encoded order
    try:
        for ui, eu in enumerate(w.exp['units'][:3]):
            cu = di4.get_CU_at(eu['offset'])
            tab = cu.get_abbrev_table()
            seen = set()
            for r in eu['recs']:
                if r['null'] or r['abbrev_code'] in seen:
                    continue
                seen.add(r['abbrev_code'])
                decl = tab.get_abbrev(r['abbrev_code'])
                got = [(n_, f_) for n_, f_ in decl.iter_attr_specs()]
                want = [a['decl_form'] for a in r['attrs']]
                if [f_ for _, f_ in got] != want or decl.has_children() != r['has_children']:
                    ctx.fail('abbrev|iter_attr_specs', 'unit %d code %d: encoded forms %r children %r; declared %r children %r' % (ui, r['abbrev_code'], want, r['has_children'], got, decl.has_children()), case)
            ctx.count('abbrev.iter_attr_specs')
    except Exception as e:  # noqa
        ctx.fail_exc('abbrev|iter_attr_specs', e, case)
    # a second, fresh object: parent queries before any iteration, reference following first
    if w.exp['units'] and case.get('fresh_nav', True):
        try:
            di2 = D.make_dwarfinfo(secs, case['le'], case.get('default_addr', 4))
            for ui, eu in enumerate(w.exp['units']):
                cu = di2.get_CU_at(eu['offset'])
                recs = [r for r in eu['recs'] if not r['null']]
                for r in (recs[-1], recs[len(recs) // 2]):
                    d = cu.get_DIE_from_refaddr(r['offset'])
                    p = d.get_parent()
                    ep = r['parent']
                    if (p.offset if p is not None else None) != (ep['offset'] if ep is not None else None):
                        ctx.fail('nav|get_parent|fresh', 'DIE at %d: expected parent %r got %r' % (
                            r['offset'], ep and ep['offset'], p and p.offset), case)
        except Exception as e:  # noqa
            ctx.fail_exc('nav|fresh', e, case)
    # a third fresh object: children first - the children of the unit entry (then of every child that has children, nearest first) are
    # listed before anything else was walked, so that sibling subtrees have to be skipped by parsing them on demand; compile and type units
    if case.get('fresh_nav', True):
        try:
            di6 = D.make_dwarfinfo(secs, case['le'], case.get('default_addr', 4))
            for which, it in (('units', di6.iter_CUs), ('tunits', di6.iter_TUs)):
                if not w.exp[which]:
                    continue
                for cu, eu in zip(list(it()), w.exp[which]):
                    recs = [r for r in eu['recs'] if not r['null']]
                    if not recs or cu.cu_offset != eu['offset']:
                        continue
                    todo = [(cu.get_top_DIE(), recs[0])]
                    seen = 0
                    while todo and seen < 40:
                        d, r = todo.pop(0)
                        seen += 1
                        kids = list(d.iter_children())
                        exp = [k['offset'] for k in r['kids']]
                        if [k.offset for k in kids] != exp:
                            ctx.fail('nav|iter_children|children-first|%s' % which, 'entry@%d of a fresh object: expected children %r got %r' % (
                                r['offset'], exp, [k.offset for k in kids]), case)
                            break
                        todo += [(k, kr) for k, kr in zip(kids, r['kids']) if kr['kids']]
                    ctx.count('nav.children-first.%s' % which)
        except Exception as e:  # noqa
            ctx.fail_exc('nav|children-first', e, case)
    # a fourth fresh object: the LAST unit is fetched by offset first (what a consumer of .debug_aranges / .debug_pubnames does), so that the
    # unit cache is sparse; the earlier units are then walked lazily and their references followed - also those into skipped units
    if case.get('fresh_nav', True) and len(w.exp['units']) >= 3:
        try:
            di7 = D.make_dwarfinfo(secs, case['le'], case.get('default_addr', 4))
            eus = w.exp['units']
            di7.get_CU_at(eus[-1]['offset'])
            for eu in eus[:-1]:
                cu = di7.get_CU_at(eu['offset'])
                dies = list(cu.iter_DIEs())
                if len(dies) == len(eu['recs']):
                    _navigation(ctx, 'units', di7, cu, dies, eu['recs'], w, case, 'units')
            ctx.count('nav.sparse-unit-cache')
        except Exception as e:  # noqa
            ctx.fail_exc('nav|sparse-unit-cache', e, case)
    units = case['units']
    mixed = len({(u['version'], u['fmt'], u['addr_size']) for u in units}) > 1
    nt = mixed or (total_dies >= 3 and len({f for f in feats if f.startswith('DW_FORM')}) >= 4 and bool(feats & SPECIAL))
    for f in feats:
        ctx.count('form.' + f if f.startswith('DW_FORM') else 'feat.' + f)
    for un in units:
        ctx.count('cell.v%d.%d.a%d.%s' % (un['version'], un['fmt'], un['addr_size'], 'le' if case['le'] else 'be'))
        if un['version'] >= 5:
            ctx.count('ut.%d' % un.get('ut', 1))
    if case.get('tunits'):
        ctx.count('feat.debug_types')
    if mixed:
        ctx.count('feat.mixed-units')
    ctx.case(tuple(sorted(secs.items())), nt, {'le': case['le'], 'units': [(u['version'], u['fmt'], u['addr_size'], u.get('ut')) for u in units],
                                               'n_entries': total_dies, 'forms': sorted(f for f in feats if f.startswith('DW_FORM'))[:12],
                                               'info_hex': secs['.debug_info'][:48].hex(), 'abbrev_hex': secs['.debug_abbrev'][:32].hex()})


def _form_hint(recs):
    return 'forms=' + ','.join(sorted({a['decl_form'] for r in recs for a in r['attrs']}))[:300]


def _cmp_die(ctx, tag0, d, r, case, feats):
    E = env()
    where = 'entry@%d' % r['offset']
    if not hasattr(d, 'offset'):
        ctx.fail('%s|die|not-an-entry|%s' % (tag0, 'null' if r['null'] else 'die'), '%s: iteration yielded %r' % (where, d), case)
        return False
    if d.offset != r['offset']:
        ctx.fail('%s|die|offset' % tag0, '%s: got offset %r (previous entry mis-sized?)' % (where, d.offset), case)
        return False
    ok = True
    if d.abbrev_code != r['abbrev_code']:
        ctx.fail('%s|die|abbrev_code' % tag0, '%s: encoded %d got %r' % (where, r['abbrev_code'], d.abbrev_code), case)
        ok = False
    if r['null']:
        if not d.is_null() or d.tag is not None:
            ctx.fail('%s|die|null' % tag0, '%s: null entry decoded as tag %r' % (where, d.tag), case)
            ok = False
        if d.size != r['size']:
            ctx.fail('%s|die|null-size' % tag0, '%s: encoded %d got %r' % (where, r['size'], d.size), case)
            ok = False
        return ok
    if not name_ok(d.tag, r['tag'], 'DW_TAG_', E['lib_tag']):
        ctx.fail('%s|die|tag' % tag0, '%s: encoded %#x got %r' % (where, r['tag'], d.tag), case)
    if bool(d.has_children) != r['has_children']:
        ctx.fail('%s|die|has_children' % tag0, '%s: encoded %r got %r' % (where, r['has_children'], d.has_children), case)
        ok = False
    got_attrs = list(d.attributes.items())
    if len(got_attrs) != len(r['attrs']):
        ctx.fail('%s|die|attr-count' % tag0, '%s: encoded %d got %d' % (where, len(r['attrs']), len(got_attrs)), case)
        ok = False
    prev = 'abbrev-code'
    for (gname, g), a in zip(got_attrs, r['attrs']):
        f = a['form']
        fkey = a['decl_form'] if a['decl_form'] in ('DW_FORM_indirect', 'DW_FORM_implicit_const') else f
        if g.offset != a['offset']:
            # everything from here on is shifted: name the attribute that was mis-sized and stop
            ctx.fail('%s|attr|offset|after=%s' % (tag0, prev), '%s attr %#x: offset encoded %d got %r' % (where, a['at'], a['offset'], g.offset), case)
            return False
        prev = fkey
        feats.add(f)
        if a['decl_form'] == 'DW_FORM_indirect':
            feats.update({'indirect', 'DW_FORM_indirect'})
        if f == 'DW_FORM_implicit_const':
            feats.add('implicit_const')
        if f in INDEX_FORMS:
            feats.add('index')
        if f in ('DW_FORM_ref_addr', 'DW_FORM_ref_sig8', 'DW_FORM_data16', 'DW_FORM_exprloc'):
            feats.add(f[8:])
        if f.startswith('DW_FORM_block'):
            feats.add('block')
        if not name_ok(gname, a['at'], 'DW_AT_', E['lib_at']) or g.name != gname:
            ctx.fail('%s|attr|name' % tag0, '%s: attribute %#x reported as %r' % (where, a['at'], gname), case)
        if g.form != f:
            ctx.fail('%s|attr|form|%s' % (tag0, fkey), '%s: final form %s reported %r' % (where, f, g.form), case)
            ok = False
        if g.indirection_length != a['ind']:
            ctx.fail('%s|attr|indirection_length' % tag0, '%s: encoded %d got %r' % (where, a['ind'], g.indirection_length), case)
        if f != 'DW_FORM_flag_present' and canon(g.raw_value) != canon(a['raw']):
            ctx.fail('%s|attr|raw_value|%s' % (tag0, fkey), '%s attr %#x form %s: encoded %r got %r' % (
                where, a['at'], f, _short(a['raw']), _short(g.raw_value)), case)
            ok = False
        elif canon(g.value) != canon(a['value']):
            ctx.fail('%s|attr|value|%s' % (tag0, fkey), '%s attr %#x form %s: expected %r got %r' % (
                where, a['at'], f, _short(a['value']), _short(g.value)), case)
    if d.size != r['size']:
        ctx.fail('%s|die|size|last=%s' % (tag0, prev), '%s: encoded %d got %r (forms %s)' % (where, r['size'], d.size, [a['decl_form'] for a in r['attrs']]), case)
        ok = False
    return ok


def _short(v):
    s = repr(v)
    return s if len(s) < 80 else s[:77] + '...'


def _navigation(ctx, tag0, di, cu, dies, recs, w, case, which):
    by_off = {r['offset']: r for r in recs}
    for d, r in zip(dies, recs):
        if r['null']:
            continue
        try:
            kids = [c.offset for c in d.iter_children()]
            exp = [k['offset'] for k in r['kids']]
            if kids != exp:
                ctx.fail('nav|iter_children', 'entry@%d: expected children %r got %r' % (r['offset'], exp, kids), case)
            p = d.get_parent()
            ep = r['parent']
            if (p.offset if p is not None else None) != (ep['offset'] if ep is not None else None):
                ctx.fail('nav|get_parent', 'entry@%d: expected parent %r got %r' % (r['offset'], ep and ep['offset'], p and p.offset), case)
        except Exception as e:  # noqa
            ctx.fail_exc('nav|children-parent', e, case)
        for (name, _g), a in zip(list(d.attributes.items()), r['attrs']):
            f = a['form']
            try:
                if f in D.UREF:
                    t = d.get_DIE_from_attribute(name)
                    exp = cu.cu_offset + a['raw']
                    if exp in by_off and not by_off[exp]['null'] and t.offset != exp:
                        ctx.fail('nav|ref|unit-relative', 'entry@%d: expected target %d got %r' % (r['offset'], exp, t.offset), case)
                    ctx.count('ref.unit')
                elif f == 'DW_FORM_ref_addr' and (which == 'units' or w.exp['units']) and not (a.get('spec') or {}).get('sib'):
                    t = d.get_DIE_from_attribute(name)
                    # the target is an entry of .debug_info also when the referring entry sits in a .debug_types unit
                    tr = next((x for eu in w.exp['units'] for x in eu['recs'] if x['offset'] == a['raw']), None)
                    if t.offset != a['raw']:
                        ctx.fail('nav|ref|ref_addr', 'entry@%d: expected target %d got %r' % (r['offset'], a['raw'], t.offset), case)
                    elif tr is not None and not tr['null'] and (t.abbrev_code != tr['abbrev_code'] or t.size != tr['size'] or t.cu.cu_offset != next(
                            eu['offset'] for eu in w.exp['units'] if any(x is tr for x in eu['recs']))):
                        ctx.fail('nav|ref|ref_addr|%s|not-the-debug_info-entry' % which, 'entry@%d of %s: target %d must be the .debug_info entry with abbreviation code %d, size %d; got code %r size %r in the unit at %r' % (
                            r['offset'], which, a['raw'], tr['abbrev_code'], tr['size'], t.abbrev_code, t.size, t.cu.cu_offset), case)
                    else:
                        # the target must be the same entry as in the owning unit's own iteration
                        ctx.count('ref.addr')
                        if which == 'tunits':
                            ctx.count('ref.addr.from-debug_types')
                elif f == 'DW_FORM_ref_sig8' and w.exp['tunits'] and 'tu' in (a.get('spec') or {}):
                    t = d.get_DIE_from_attribute(name)
                    tu = next(u for u in w.exp['tunits'] if u['header']['signature'] == a['raw'])
                    exp = tu['offset'] + tu['header']['type_offset']
                    if t.offset != exp:
                        ctx.fail('nav|ref|sig8', 'entry@%d: expected target %d in .debug_types got %r' % (r['offset'], exp, t.offset), case)
                    ctx.count('ref.sig8')
            except Exception as e:  # noqa
                ctx.fail_exc('nav|ref|%s' % f, e, case)


# ---------------------------------------------------------------------------
# generator

def rand_value(ch, form, unit, case, nstr, ntu, depth=0):
    A = unit['addr_size']
    if form == 'DW_FORM_indirect':
        allowed = [f for f in FORMS_BY_VERSION[unit['version']] if f not in ('DW_FORM_implicit_const', 'DW_FORM_indirect')
                   and (f not in INDEX_FORMS or _aux_ok(unit, f))]
        real = ch.choice(allowed)
        return {'chain': ch.choice([1, 1, 2, 3]), 'form': real, 'fpad': ch.choice([0, 0, 1]), 'val': rand_value(ch, real, unit, case, nstr, ntu, 1)}
    if form == 'DW_FORM_addr':
        return {'v': ch.word(8 * A)}
    if form in ('DW_FORM_udata',):
        return {'v': ch.choice([0, 1, 127, 128, 16383, 16384, ch.word(32), ch.word(64), (1 << 64) - 1]), 'pad': ch.choice([0, 0, 0, 1, 3])}
    if form == 'DW_FORM_sdata':
        v = ch.choice([0, 1, -1, 63, 64, -64, -65, 8191, -8192, -8193, ch.word(63), -ch.word(63), -(1 << 63)])
        return {'v': v, 'pad': ch.choice([0, 0, 0, 1, 3])}
    if form == 'DW_FORM_string':
        return {'s': ch.choice([b'', b'a', b'main', ch.bytes(0, 80).replace(b'\0', b'_'), b'x' * ch.choice([63, 64, 65, 130])])}
    if form in ('DW_FORM_strp', 'DW_FORM_line_strp'):
        n = nstr if form == 'DW_FORM_strp' else len(case['lstrs'])
        si = ch.int(0, n - 1)
        s = case['strs' if form == 'DW_FORM_strp' else 'lstrs'][si]
        return {'si': si, 'skip': ch.choice([0, 0, 0, ch.int(0, len(s))])}
    if form in ('DW_FORM_block1', 'DW_FORM_block2', 'DW_FORM_block4', 'DW_FORM_block', 'DW_FORM_exprloc'):
        ln = ch.choice([0, 0, 1, 2, 16, 127, 128, 255, ch.int(0, 300)])
        if form == 'DW_FORM_block1':
            ln = min(ln, 255)
        return {'b': ch.bytes(ln), 'pad': ch.choice([0, 0, 1, 2])}
    if form == 'DW_FORM_data16':
        return {'b': ch.bytes(16)}
    if form == 'DW_FORM_flag_present':
        return {}
    if form in D.UREF:
        return {'t': ch.int(0, 1000)}
    if form == 'DW_FORM_ref_addr':
        return {'tu': ch.int(0, 20), 't': ch.int(0, 1000)}
    if form == 'DW_FORM_ref_sig8':
        return {'tu': ch.int(0, 20)} if ntu and ch.bool(0.7) else {'v': ch.word(64)}
    if form in INDEX_FORMS:
        key = 'strx' if form in D.STRX else 'addrx' if form in D.ADDRX else form[8:]
        n = len(unit['aux'][key])
        lim = {1: 256, 2: 65536}.get(D.FIXED.get(form, 0), 1 << 30)
        return {'i': ch.int(0, min(n, lim) - 1), 'pad': ch.choice([0, 0, 1])}
    n = D.FIXED.get(form)
    if n:
        return {'v': ch.word(8 * n)}
    if form in D.OFFSET_FORMS:
        return {'v': ch.word(32 if unit['fmt'] == 32 else 64)}
    raise ValueError(form)


def _aux_ok(unit, form):
    aux = unit.get('aux') or {}
    key = 'strx' if form in D.STRX else 'addrx' if form in D.ADDRX else form[8:]
    return bool(aux.get(key))


def build_case(ch, tier, forced=None):
    le = ch.bool()
    nunits = ch.choice([1, 1, 2, 3, ch.int(1, 6)])
    strs = [b'', b'a', b'int', 'Ünï'.encode(), b'long_' * 30] + [ch.bytes(1, 40).replace(b'\0', b'.') for _ in range(ch.int(0, 4))]
    lstrs = [b'/usr/src', b'file.c', b'']
    case = {'le': le, 'default_addr': ch.choice([4, 8]), 'strs': strs, 'lstrs': lstrs, 'str_lead': ch.choice([b'\0', b'', b'\0pad\0']),
            'abbrev_pad': ch.choice([0, 0, 3]), 'abbrev_lead': ch.choice([0, 0, 5])}
    ntab = ch.int(1, nunits)
    units = []
    for i in range(nunits):
        ver = ch.choice([2, 3, 4, 5, 5])
        un = {'version': ver, 'fmt': ch.choice([32, 32, 64]), 'addr_size': ch.choice([4, 8]), 'abtab': ch.int(0, ntab - 1) if i >= ntab else i,
              'dwo_id': ch.word(64), 'sig': ch.word(64), 'type_die': ch.int(0, 50), 'tail_pad': ch.choice([0, 0, 0, 0, 1, 3])}
        if ver >= 5:
            un['ut'] = ch.choice([1, 1, 2, 3, 4, 5, 6])
            if ch.bool(0.6):
                aux = {'gap': ch.choice([0, 0, 4])}
                if ch.bool(0.7):
                    aux['strx'] = [ch.int(0, len(strs) - 1) for _ in range(ch.choice([1, 3, 300]))]
                if ch.bool(0.7):
                    aux['addrx'] = [ch.word(64) for _ in range(ch.choice([1, 3, 300]))]
                if ch.bool(0.5):
                    aux['loclistx'] = [ch.int(0, 0xffff) for _ in range(ch.int(1, 5))]
                if ch.bool(0.5):
                    aux['rnglistx'] = [ch.int(0, 0xffff) for _ in range(ch.int(1, 5))]
                un['aux'] = aux
        units.append(un)
    ntu = ch.choice([0, 0, 1, 2])
    tunits = []
    for i in range(ntu):
        tunits.append({'version': 4, 'fmt': ch.choice([32, 64]), 'addr_size': ch.choice([4, 8]), 'abtab': ch.int(0, ntab - 1),
                       'sig': (0x1111111111111111 * (i + 1)) ^ ch.word(32), 'type_die': ch.int(0, 50), 'tail_pad': 0})
    # abbreviation tables: allowed forms = those valid in every unit that uses the table
    abtabs = []
    for t in range(ntab):
        users = [u for u in units + tunits if u['abtab'] == t]
        minver = min([u['version'] for u in users] or [2])
        allowed = [f for f in FORMS_BY_VERSION[minver] if f not in INDEX_FORMS or all(_aux_ok(u, f) for u in users)]
        if forced:
            allowed = [f for f in allowed if f in forced] or allowed
        nab = ch.int(2, 8)
        codes = ch.perm([1, 2, 3, 4, 5, 6, 7, 8, 9, 10, 126, 127, 128, 129, 300, 16383, 16384, 2097152, 0xffffffff])[:nab + 1]
        tab = []
        for a in range(nab + 1):
            root = a == 0      # abbreviation 0 of every table is used for unit DIEs
            nat = ch.int(0, 6)
            ats = [x for x in ch.perm(ATS) if x not in EXCLUDED_ATS][:nat]
            attrs = []
            for at in ats:
                f = ch.choice(allowed)
                attrs.append([at, f, ch.choice([0, 1, -1, 63, -64, 64, 1 << 40, -(1 << 40)]) if f == 'DW_FORM_implicit_const' else None])
            children = root or ch.bool(0.5)
            if not root and ch.bool(0.4):
                attrs.insert(ch.int(0, len(attrs)), [0x01, ch.choice(['DW_FORM_ref1', 'DW_FORM_ref2', 'DW_FORM_ref4', 'DW_FORM_ref8', 'DW_FORM_ref_udata', 'DW_FORM_ref_addr']), None])
            if root:
                # base attributes for every index table any user has, at random positions (before and after their users)
                need = set()
                for u in users:
                    for key, at in (('strx', 0x72), ('addrx', 0x73), ('rnglistx', 0x74), ('loclistx', 0x8c)):
                        if (u.get('aux') or {}).get(key) is not None:
                            need.add(at)
                for at in sorted(need):
                    attrs.insert(ch.int(0, len(attrs)), [at, 'DW_FORM_sec_offset', None])
            tab.append({'code': codes[a], 'cpad': ch.choice([0, 0, 1]), 'tag': ch.choice(TAGS) if not root else ch.choice([0x11, 0x3c, 0x41, 0x4a]),
                        'children': children, 'attrs': attrs})
        abtabs.append(tab)
    case['abtabs'] = abtabs
    budget = [ch.choice([1, 3, 8, 20, 40 if tier == 'quick' else 300])]

    def make_die(un, ab_i, depth):
        ab = abtabs[un['abtab']][ab_i]
        vals = []
        for (at, f, ic) in ab['attrs']:
            if f == 'DW_FORM_implicit_const':
                vals.append(None)
            elif at == 0x01:
                vals.append({'sib': True})
            elif at in (0x72, 0x73, 0x74, 0x8c) and ab_i == 0:
                key = {0x72: 'str_offsets_base', 0x73: 'addr_base', 0x74: 'rnglists_base', 0x8c: 'loclists_base'}[at]
                vals.append({'base': key})
            else:
                vals.append(rand_value(ch, f, un, case, len(strs), ntu))
        d = {'ab': ab_i, 'vals': vals, 'kids': [], 'cpad': ch.choice([0, 0, 0, 1]), 'npad': ch.choice([0, 0, 0, 1])}
        if ab['children'] and depth < 8:
            nk = ch.choice([0, 1, 2, 3, ch.int(0, 8)])
            for _ in range(nk):
                if budget[0] <= 0:
                    break
                budget[0] -= 1
                d['kids'].append(make_die(un, ch.int(1, len(abtabs[un['abtab']]) - 1), depth + 1))
        return d
    for un in units + tunits:
        budget[0] = ch.choice([1, 3, 8, 20, 40 if tier == 'quick' else 300])
        un['die'] = make_die(un, 0, 0)
    case['units'] = units
    case['tunits'] = tunits
    return case


def resolve_bases(case):
    """base-attribute placeholders {'base': key} need the aux-section offsets, which only the writer knows:
    run the writer's aux pass on a copy, then substitute plain sec_offset values."""
    import copy
    probe = D.InfoWriter.__new__(D.InfoWriter)
    probe.case = copy.deepcopy(case)
    probe.le = case['le']
    probe.sections = {}
    probe.str_sec, probe.str_offs = D.pool(case.get('strs', []), case.get('str_lead', b'\0'))
    probe._aux_sections()
    for which in ('units', 'tunits'):
        for un, pu in zip(case.get(which, []), probe.case.get(which, [])):
            res = pu.get('aux_resolved') or {}
            for i, v in enumerate(un['die']['vals']):
                if isinstance(v, dict) and 'base' in v:
                    un['die']['vals'][i] = {'v': res.get(v['base'], 0)}
    return case


def build(ch, tier):
    return resolve_bases(build_case(ch, tier))


strategy = composite_from(build)


def sweep(tier):
    """every form x every cell, each followed by a sentinel attribute so that a wrong width mis-tiles the unit"""
    cases = []
    k = 0
    for ver in (2, 3, 4, 5):
        for fmt in (32, 64):
            for A in (4, 8):
                for le in (True, False):
                    for form in FORMS_BY_VERSION[ver]:
                        k += 1
                        ch = RndChooser(40000 + k)
                        un = {'version': ver, 'fmt': fmt, 'addr_size': A, 'abtab': 0, 'dwo_id': 7, 'sig': 9, 'type_die': 1, 'tail_pad': 0}
                        if ver >= 5:
                            un['ut'] = (1, 2, 3, 4, 5, 6)[k % 6]
                            un['aux'] = {'strx': [0, 1, 2, 3], 'addrx': [0x1000, 0xffffffffffffffff, 5], 'loclistx': [12, 40], 'rnglistx': [12, 99]}
                        strs = [b'', b'abc', 'ü'.encode(), b'y' * 70]
                        case = {'le': le, 'default_addr': A, 'strs': strs, 'lstrs': [b'dir', b'f.c'], 'str_lead': b'\0'}
                        tun = {'version': 4, 'fmt': fmt, 'addr_size': A, 'abtab': 0, 'sig': 0xabcdef0123456789, 'type_die': 1, 'tail_pad': 0}
                        ic = -5 if form == 'DW_FORM_implicit_const' else None
                        root_attrs = [[0x03, 'DW_FORM_string', None]]
                        if ver >= 5:
                            root_attrs = [[0x72, 'DW_FORM_sec_offset', None], [0x73, 'DW_FORM_sec_offset', None], [0x03, form if form in INDEX_FORMS else 'DW_FORM_string', None],
                                          [0x74, 'DW_FORM_sec_offset', None], [0x8c, 'DW_FORM_sec_offset', None]]
                        tab = [{'code': 1, 'tag': 0x11, 'children': True, 'attrs': root_attrs},
                               {'code': 2 + (k % 3) * 127, 'tag': 0x34, 'children': False, 'attrs': [[0x49, form, ic], [0x3a, 'DW_FORM_data1', None]]},
                               {'code': 9, 'tag': 0x13, 'children': True, 'attrs': [[0x01, form if form in D.UREF or form == 'DW_FORM_ref_addr' else 'DW_FORM_ref4', None], [0x0b, 'DW_FORM_data2', None]]}]
                        case['abtabs'] = [tab]

                        def vals_root(un_):
                            out = []
                            for (at, f, _) in root_attrs:
                                if at in (0x72, 0x73, 0x74, 0x8c):
                                    out.append({'base': {0x72: 'str_offsets_base', 0x73: 'addr_base', 0x74: 'rnglists_base', 0x8c: 'loclists_base'}[at]})
                                elif f == 'DW_FORM_string':
                                    out.append({'s': b'cu'})
                                else:
                                    out.append(rand_value(ch, f, un_, case, len(strs), 1))
                            return out
                        kids = []
                        for rep in range(4):
                            v = None if form == 'DW_FORM_implicit_const' else rand_value(ch, form, un, case, len(strs), 1)
                            kids.append({'ab': 1, 'vals': [v, {'v': 0xa5}], 'kids': []})
                            kids.append({'ab': 2, 'vals': [{'sib': True}, {'v': 0x1234}], 'kids': [{'ab': 1, 'vals': [v, {'v': 0x5a}], 'kids': []}]})
                        un['die'] = {'ab': 0, 'vals': vals_root(un), 'kids': kids}
                        tun['die'] = {'ab': 0, 'vals': [{'s': b'tu'}] if ver < 5 else None, 'kids': [{'ab': 1, 'vals': [v if form != 'DW_FORM_implicit_const' else None, {'v': 1}], 'kids': []}]}
                        case['units'] = [un]
                        case['tunits'] = [tun] if ver == 4 else []
                        cases.append(resolve_bases(case))
    # unit sizes at and around the powers of 256 (the width boundaries of the length field and of every offset into the unit)
    k = 0
    for L in (0xff, 0x100, 0xffff, 0x10000, 0xffffff, 0x1000000) + ((0xfffffe, 0x1000001, 0x2000000) if tier == 'thorough' else ()):
        for fmt in ((32, 64) if L < 0x100000 or tier == 'thorough' else (32,)):
            k += 1
            cases.append({'kind': 'bigunit', 'unit_length': L, 'fmt': fmt, 'version': (4, 5, 3, 2)[k % 4], 'addr_size': (8, 4)[k % 2], 'le': bool(k % 3)})
    # section offsets that need more than 31 / 32 bits (64-bit DWARF on sparse streams)
    for k, far in enumerate((0x7fffff00, 0xffffff00, 1 << 32, (1 << 40) + 0x100)):
        cases.append({'kind': 'farinfo', 'far': far, 'version': (4, 5, 3, 5)[k % 4], 'addr_size': (8, 4)[k % 2], 'le': bool(k % 2)})
    return cases


def floors(ctx):
    c = ctx.counters
    out = []
    for f in V5:
        if f != 'DW_FORM_implicit_const' and c['form.' + f] == 0:
            out.append('form never exercised: ' + f)
    for k in ('feat.indirect', 'feat.implicit_const', 'feat.debug_types', 'feat.mixed-units', 'ref.unit', 'ref.addr', 'ref.sig8', 'bigunit.16MiB', 'farinfo'):
        if c[k] == 0:
            out.append('no case with ' + k)
    for ver in (2, 3, 4, 5):
        for fmt in (32, 64):
            for A in (4, 8):
                for e in ('le', 'be'):
                    if c['cell.v%d.%d.a%d.%s' % (ver, fmt, A, e)] == 0:
                        out.append('cell never exercised: v%d/%d/a%d/%s' % (ver, fmt, A, e))
    return out

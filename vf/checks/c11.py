"""C11 - the DWARF view is invariant under container encoding of the same debug data."""
import io
import os
import zlib
import struct

from vf import core, dump
from vf.enc import elf as W
from vf.enc import dwarf as D
from vf.choose import RndChooser, composite_from

ID = 'C11'
RULE = ('debug payloads = (i) the debug sections of every shipped test file that has DWARF (read once through the library, after relocation) and (ii) '
        'generated payloads (DIE trees of C04, line programs of C05, CFI of C06); each payload is wrapped by an independent ELF writer into containers: '
        'plain, SHF_COMPRESSED + Elf_Chdr (all / some sections, zlib levels 0-9), legacy .zdebug_* ("ZLIB" + 8-byte big-endian size), stripped main file + '
        '.gnu_debuglink (CRC-32 of the debug file, right and wrong) served by an in-memory stream_loader, supplementary file via .gnu_debugaltlink and '
        '.debug_sup with and without loader; x ELF class/byte order x follow_links. Oracle (metamorphic): the canonical dump (units, DIEs with resolved '
        'values, line tables, CFI tables, aranges, pubnames) of every container equals that of the plain one; has_dwarf_info truth table over section-name '
        'subsets x strict; wrong CRC and declared!=inflated sizes are rejected. Non-trivial: a payload with >=1 unit and >=1 line or frame table compared '
        'under >=3 transforms. Distinct by SHA-1 of the payload + transform list.')
N = {'quick': 250, 'thorough': 40000}
ASSUMPTIONS = ['corpus payload bytes are obtained from the library itself on the unmodified file (Section data after relocation); the check then compares containers built from those bytes with each other and with the original',
               'the PIC phantom-byte file and files without .debug_info are not used as payloads; dumps are capped at 3000 DIEs and 2000 line entries per unit',
               'in a .zdebug container every debug section is renamed (the all-sections form); the mixed form objcopy produces for incompressible sections is a separate, counted family',
               'rejection of a .zdebug size mismatch may surface as AssertionError (as the property observes)']

_c = {}


def lib():
    if not _c:
        from elftools.elf.elffile import ELFFile
        from elftools.common.exceptions import ELFError, ELFCompressionError
        _c.update(ELFFile=ELFFile, ELFError=ELFError, ELFCompressionError=ELFCompressionError)
    return _c


DEBUG_NAMES = ('.debug_info', '.debug_aranges', '.debug_abbrev', '.debug_str', '.debug_line', '.debug_frame', '.debug_loc', '.debug_ranges',
               '.debug_pubtypes', '.debug_pubnames', '.debug_addr', '.debug_str_offsets', '.debug_line_str', '.debug_loclists', '.debug_rnglists',
               '.debug_types', '.eh_frame')


# ---------------------------------------------------------------------------
# containers

def deflate(data, level, wbits=15, strategy=0):
    """a zlib stream (RFC 1950): any level, any window size 2^9..2^15 (the first byte of the stream is 0x78 only for the largest), any
    strategy - whatever an inflater with the default window reads back to the same bytes"""
    co = zlib.compressobj(level, zlib.DEFLATED, wbits, 8, strategy)
    return co.compress(data) + co.flush()


def chdr_section(cls, le, data, level, ch_size=None, wbits=15, strategy=0):
    return W.enc_chdr(cls, le, 1, len(data) if ch_size is None else ch_size, 1) + deflate(data, level, wbits, strategy)


def zdebug_section(data, level, size=None, wbits=15, strategy=0):
    return b'ZLIB' + struct.pack('>Q', len(data) if size is None else size) + deflate(data, level, wbits, strategy)


def build_container(payload, meta, tr, extra_sections=()):
    """payload: {name: bytes}; meta: {'cls','le','e_machine','eh_addr'}; tr: transform spec.
    -> {'main': bytes, 'files': {name bytes: bytes}}
    tr['stray_link'] (any transform but 'link'): the file keeps its own debug sections AND carries a .gnu_debuglink naming another file
    (what objcopy --add-gnu-debuglink leaves in an unstripped file); that other file has no debug information ('ok': right CRC) or does
    not match the CRC ('badcrc'), so consulting it instead of the file's own sections shows."""
    if tr.get('stray_link') and tr['t'] != 'link':
        decoy = _build_container({'.comment': b'decoy\0'}, meta, {'t': 'plain'})['main']
        crc = zlib.crc32(decoy) & 0xffffffff
        if tr['stray_link'] == 'badcrc':
            crc ^= 0x10
        fname = b'other.debug'
        link = fname + b'\0' + b'\0' * (-(len(fname) + 1) % 4) + D.u(meta['le'], 4, crc)
        c = _build_container(payload, meta, tr, list(extra_sections) + [('.gnu_debuglink', link, 0)])
        c['files'] = dict(c['files'])
        c['files'][fname] = decoy
        return c
    return _build_container(payload, meta, tr, extra_sections)


def _build_container(payload, meta, tr, extra_sections=()):
    cls, le = meta['cls'], meta['le']

    def elf(sections):
        secs = [{'name': '', 'sh_type': 0}, {'name': '.text', 'sh_type': 1, 'sh_flags': 6, 'sh_addr': 0x1000, 'data': b'\x90' * 16}]
        for (name, data, flags) in sections:
            s = {'name': name, 'sh_type': 1, 'sh_flags': flags, 'data': data, 'sh_addralign': 1}
            if name == '.eh_frame':
                s.update(sh_addr=meta.get('eh_addr', 0), sh_flags=flags | 2)
            secs.append(s)
        secs.append({'name': '.shstrtab', 'sh_type': 3, 'data': b''})
        m = {'cls': cls, 'le': le, 'e_type': 2, 'e_machine': meta['e_machine'], 'e_flags': meta.get('e_flags', 0), 'sections': secs, 'shstrndx': len(secs) - 1,
             'tail': 0 if tr.get('at_eof') else 4}
        if tr.get('at_eof'):
            # last debug section is the last thing in the file
            m['order'] = ['ph', 'sh', len(secs) - 1] + list(range(1, len(secs) - 1))
        return W.build(m)[0]

    t = tr['t']
    which = tr.get('which', 'all')
    def chosen(name, i):
        if name == '.eh_frame':
            return False            # loaded into the process image: never compressed
        return which == 'all' or (which == 'some' and (i + tr.get('phase', 0)) % 2 == 0)
    if t == 'plain':
        return {'main': elf([(n, d, 0) for n, d in payload.items()] + list(extra_sections)), 'files': {}}
    if t == 'gabi':
        secs = []
        for i, (n, d) in enumerate(payload.items()):
            if chosen(n, i):
                secs.append((n, chdr_section(cls, le, d, tr.get('level', 6), tr.get('bad_size') and max(0, len(d) + tr['bad_size']) if (n == '.debug_info' or not tr.get('bad_size')) else None, tr.get('wbits', 15), tr.get('strategy', 0)), 0x800))
            else:
                secs.append((n, d, 0))
        return {'main': elf(secs + list(extra_sections)), 'files': {}}
    if t == 'zdebug':
        secs = []
        for i, (n, d) in enumerate(payload.items()):
            if n == '.eh_frame':
                secs.append((n, d, 0))
            elif which == 'all' or (n == '.debug_info' and not tr.get('info_plain')) or (n != '.debug_info' and chosen(n, i)):
                secs.append(('.z' + n[1:], zdebug_section(d, tr.get('level', 6), tr.get('bad_size') and max(0, len(d) + tr['bad_size']) if (n == '.debug_info' or not tr.get('bad_size')) else None, tr.get('wbits', 15), tr.get('strategy', 0)), 0))
            else:
                secs.append((n, d, 0))       # mixed naming (incompressible section left alone)
        return {'main': elf(secs + list(extra_sections)), 'files': {}}
    if t == 'link':
        inner = tr.get('inner', {'t': 'plain'})
        # (link sections given by the caller go where a distribution puts them: into the debug file the link leads to)
        dbg = build_container(payload, meta, inner, extra_sections=extra_sections)['main']
        fname = tr.get('fname', b'x.debug')
        crc = zlib.crc32(dbg) & 0xffffffff
        if not tr.get('crc_ok', True):
            crc ^= tr.get('crc_xor', 1)
        link = fname + b'\0' + b'\0' * (-(len(fname) + 1) % 4) + D.u(le, 4, crc)
        keep = [(n, d, 0) for n, d in payload.items() if n == '.eh_frame' and tr.get('keep_eh')]
        main = elf(keep + [('.gnu_debuglink', link, 0)])
        return {'main': main, 'files': {fname: dbg}}
    raise ValueError(t)


def open_container(c, follow_links=True, loader=True):
    L = lib()
    def ld(name):
        name = name if isinstance(name, bytes) else name.encode()
        return io.BytesIO(c['files'][name])
    ef = L['ELFFile'](io.BytesIO(c['main']), ld if loader else None)
    return ef


# ---------------------------------------------------------------------------

def payload_from_file(path):
    L = lib()
    with open(path, 'rb') as f:
        data = f.read()
    ef = L['ELFFile'](io.BytesIO(data))
    if not ef.has_dwarf_info(strict=True) or ef.has_phantom_bytes():
        return None
    di = ef.get_dwarf_info(follow_links=False)
    payload = {}
    for attr, name in (('debug_info_sec', '.debug_info'), ('debug_aranges_sec', '.debug_aranges'), ('debug_abbrev_sec', '.debug_abbrev'),
                       ('debug_str_sec', '.debug_str'), ('debug_line_sec', '.debug_line'), ('debug_frame_sec', '.debug_frame'),
                       ('debug_loc_sec', '.debug_loc'), ('debug_ranges_sec', '.debug_ranges'), ('debug_pubtypes_sec', '.debug_pubtypes'),
                       ('debug_pubnames_sec', '.debug_pubnames'), ('debug_addr_sec', '.debug_addr'), ('debug_str_offsets_sec', '.debug_str_offsets'),
                       ('debug_line_str_sec', '.debug_line_str'), ('debug_loclists_sec', '.debug_loclists'), ('debug_rnglists_sec', '.debug_rnglists'),
                       ('debug_types_sec', '.debug_types'), ('eh_frame_sec', '.eh_frame')):
        sec = getattr(di, attr)
        if sec is not None:
            payload[name] = sec.stream.getvalue()[:sec.size]
    eh = ef.get_section_by_name('.eh_frame')
    meta = {'cls': ef.elfclass, 'le': ef.little_endian, 'e_machine': _em(ef), 'eh_addr': eh['sh_addr'] if eh is not None else 0,
            'e_flags': ef['e_flags']}
    return payload, meta, ef


def _em(ef):
    from elftools.elf.enums import ENUM_E_MACHINE
    m = ef['e_machine']
    return ENUM_E_MACHINE[m] if isinstance(m, str) else m


def corpus_files():
    out = []
    for d in ('test/testfiles_for_unittests', 'test/testfiles_for_readelf', 'test/testfiles_for_dwarfdump'):
        p = os.path.join(core.REPO, d)
        if not os.path.isdir(p):
            continue
        for fn in sorted(os.listdir(p)):
            fp = os.path.join(p, fn)
            if os.path.isfile(fp) and 0 < os.path.getsize(fp) < 3000000:
                with open(fp, 'rb') as f:
                    if f.read(4) == b'\x7fELF':
                        out.append(os.path.join(d, fn))
    return out


def safe_dump(ef, follow_links=True, cap=3000):
    try:
        di = ef.get_dwarf_info(follow_links=follow_links)
        return dump.dwarf_dump(di, die_cap=cap)
    except AssertionError as e:
        return {'exc': ('AssertionError', str(e)[:80])}
    except Exception as e:  # noqa
        return {'exc': (type(e).__name__, core.exc_site(e)[1])}


ATTR_OF = {'.debug_info': 'debug_info_sec', '.debug_aranges': 'debug_aranges_sec', '.debug_abbrev': 'debug_abbrev_sec', '.debug_str': 'debug_str_sec',
           '.debug_line': 'debug_line_sec', '.debug_frame': 'debug_frame_sec', '.debug_loc': 'debug_loc_sec', '.debug_ranges': 'debug_ranges_sec',
           '.debug_pubtypes': 'debug_pubtypes_sec', '.debug_pubnames': 'debug_pubnames_sec', '.debug_addr': 'debug_addr_sec',
           '.debug_str_offsets': 'debug_str_offsets_sec', '.debug_line_str': 'debug_line_str_sec', '.debug_loclists': 'debug_loclists_sec',
           '.debug_rnglists': 'debug_rnglists_sec', '.debug_types': 'debug_types_sec', '.eh_frame': 'eh_frame_sec'}


def check_pickup(ctx, ef, payload, meta, name, case):
    """absolute part of the oracle: every payload section reaches DWARFInfo with exactly its logical bytes"""
    try:
        di = ef.get_dwarf_info()
    except Exception:  # noqa  (reported by the dump comparison)
        return
    for sec, attr in ATTR_OF.items():
        d = getattr(di, attr)
        if sec not in payload:
            if d is not None:
                ctx.fail('pickup|phantom-section|%s' % sec, 'transform %s: section not in the payload but present in DWARFInfo' % name, case)
            continue
        if d is None:
            ctx.fail('pickup|missing|%s|%s' % (sec, name.split('/')[0]), 'transform %s: payload section did not reach DWARFInfo' % name, case)
            continue
        got = d.stream.getvalue()
        if got != payload[sec] or d.size != len(payload[sec]):
            ctx.fail('pickup|bytes|%s|%s' % (sec, name.split('/')[0]), 'transform %s: %d payload bytes, descriptor has %d (size %r)' % (name, len(payload[sec]), len(got), d.size), case)
        want_addr = meta.get('eh_addr', 0) if sec == '.eh_frame' else 0
        if d.address != want_addr:
            ctx.fail('pickup|address|%s' % sec, 'transform %s: expected %#x got %r' % (name, want_addr, d.address), case)


def compare_transforms(ctx, payload, meta, transforms, case, ref=None, what='gen'):
    base = build_container(payload, meta, {'t': 'plain'})
    check_pickup(ctx, open_container(base), payload, meta, 'plain', case)
    d0 = safe_dump(open_container(base))
    if 'exc' in d0:
        ctx.fail('%s|plain-container|%s|%s' % (what, d0['exc'][0], d0['exc'][1]), 'the plain container cannot be dumped: %r' % (d0['exc'],), case)
        return 0
    if ref is not None and ref != d0:
        ctx.fail('%s|original-vs-plain-container|%s' % (what, ','.join(dump.diff_keys(ref, d0))), 'dump of the original file differs from the dump of its payload in a plain container', case)
    n = 0
    for tr in transforms:
        name = tr['t'] + ('/' + tr['which'] if tr.get('which') and tr['which'] != 'all' else '') + ('/info-plain' if tr.get('info_plain') else '') + ('/inner=' + tr['inner']['t'] if tr.get('inner') else '')
        if tr.get('stray_link') and tr['t'] != 'link':
            name += '+stray-debuglink'
        try:
            c = build_container(payload, meta, tr)
            ef = open_container(c)
        except Exception as e:  # noqa
            ctx.fail_exc('%s|open|%s' % (what, name), e, case)
            continue
        ctx.count('transform.' + name)
        if tr.get('bad_size'):
            d = safe_dump(ef)
            if 'exc' not in d:
                ctx.fail('reject|%s|size-mismatch-accepted|%s' % (tr['t'], 'declared>inflated' if tr['bad_size'] > 0 else 'declared<inflated'), 'container with a wrong declared size was read without error', case)
            elif d['exc'][0] not in ('ELFCompressionError', 'AssertionError') and not (tr['t'] == 'zdebug' and d['exc'][0] == 'ELFError'):
                ctx.fail('reject|%s|size-mismatch|raises=%s' % (tr['t'], d['exc'][0]), 'rejected with %r' % (d['exc'],), case)
            ctx.count('reject.size.' + tr['t'])
            # asked again on the same file object (a caller that reports the error and goes on): what was rejected stays rejected
            d2 = safe_dump(ef)
            if 'exc' in d and 'exc' not in d2:
                ctx.fail('reject|%s|size-mismatch-accepted-when-asked-again' % tr['t'], 'the first get_dwarf_info()/dump was rejected with %r, the second on the same ELFFile was not' % (d['exc'],), case)
            if tr['t'] == 'gabi':
                # ... and on the same section objects
                for sec in list(ef.iter_sections()):
                    if not sec.compressed:
                        continue
                    outcomes = []
                    for _ in range(3):
                        try:
                            outcomes.append(('ok', len(sec.data())))
                        except Exception as e:  # noqa
                            outcomes.append(('exc', type(e).__name__))
                    if outcomes[0][0] == 'exc' and any(o[0] == 'ok' for o in outcomes[1:]):
                        ctx.fail('reject|gabi|size-mismatch-accepted-when-asked-again|same-section-object', 'section %s: data() three times on one object: %r' % (sec.name, outcomes), case)
            continue
        if tr['t'] == 'link' and not tr.get('crc_ok', True):
            d = safe_dump(ef)
            if 'exc' not in d or d['exc'][0] != 'ELFError':
                ctx.fail('reject|debuglink|wrong-crc', 'expected ELFError, got %r' % (d.get('exc'),), case)
            ctx.count('reject.crc')
            continue
        # presence
        strict = ef.has_dwarf_info(strict=True)
        if tr['t'] == 'link':
            if strict:
                ctx.fail('presence|stripped-main-file', 'has_dwarf_info(strict=True) on a file with only .gnu_debuglink', case)
            if not ef.has_dwarf_link():
                ctx.fail('link|has_dwarf_link', 'False', case)
            try:
                lk = ef.get_dwarf_link()
            except Exception as e:  # noqa
                ctx.fail_exc('link|get_dwarf_link', e, case)
                continue
            if lk is None or bytes(lk.filename) != tr.get('fname', b'x.debug') or lk.checksum != (zlib.crc32(c['files'][tr.get('fname', b'x.debug')]) & 0xffffffff):
                ctx.fail('link|get_dwarf_link', 'got %r' % (lk,), case)
            # without following the link there is no debug info to see
            try:
                di_nf = ef.get_dwarf_info(follow_links=False)
                if di_nf.has_debug_info:
                    ctx.fail('link|follow_links=False|has_debug_info', 'True', case)
            except Exception as e:  # noqa
                ctx.fail_exc('link|follow_links=False', e, case)
        elif strict != ('.debug_info' in payload):
            ctx.fail('presence|%s' % name, 'has_dwarf_info(strict=True) = %r' % strict, case)
        if tr['t'] != 'link' or tr.get('keep_eh') or '.eh_frame' not in payload:
            check_pickup(ctx, ef, payload if tr['t'] != 'link' else payload, meta, name, case)
        d = safe_dump(ef)
        if 'exc' in d:
            ctx.fail('%s|dump|%s|%s|%s' % (what, name, d['exc'][0], d['exc'][1]), 'container cannot be dumped: %r' % (d['exc'],), case)
            continue
        if d != d0:
            ctx.fail('%s|differs|%s|%s' % (what, name, ','.join(dump.diff_keys(d0, d))), 'dump differs from the plain container', case)
        n += 1
    return n


def run_case(ctx, case):
    k = case['k']
    if k == 'corpus':
        path = os.path.join(core.REPO, case['file'])
        try:
            r = payload_from_file(path)
        except Exception:  # noqa   (the corpus contains deliberately corrupt fixtures: not payloads)
            ctx.count('corpus.unreadable')
            ctx.case(case['file'], False)
            return
        if r is None:
            ctx.count('corpus.skipped')
            ctx.case(case['file'], False)
            return
        payload, meta, ef = r
        ref = safe_dump(ef, follow_links=False)
        n = compare_transforms(ctx, payload, meta, case['transforms'], case, ref=ref, what='corpus')
        nt = bool(payload.get('.debug_line') or payload.get('.debug_frame') or payload.get('.eh_frame')) and n >= 3
        ctx.count('corpus.file')
        ctx.case((case['file'], case['transforms']), nt, {'k': 'corpus', 'file': case['file'], 'sections': sorted(payload), 'transforms': [t['t'] for t in case['transforms']]})
    elif k == 'gen':
        payload = gen_payload(case)
        meta = {'cls': case['cls'], 'le': case['le'], 'e_machine': case.get('e_machine', 62), 'eh_addr': case.get('eh_addr', 0x2000)}
        n = compare_transforms(ctx, payload, meta, case['transforms'], case, what='gen')
        nt = bool(payload.get('.debug_line') or payload.get('.debug_frame') or payload.get('.eh_frame')) and n >= 3
        ctx.count('gen.payload')
        ctx.case((sorted(payload.items()), case['transforms']), nt, {'k': 'gen', 'cls': case['cls'], 'le': case['le'], 'sections': {n_: len(v) for n_, v in payload.items()},
                                                                     'transforms': [t['t'] for t in case['transforms']]})
    elif k == 'presence':
        run_presence(ctx, case)
    elif k == 'sup':
        run_sup(ctx, case)
    else:
        raise ValueError(k)


def gen_payload(case):
    from vf.checks import c04, c05, c06
    w = D.InfoWriter(case['info'])
    payload = dict(w.sections)
    if case.get('line'):
        secs, _ = c05.build_sections(case['line'])
        # line programs come with their own CUs: use them as the .debug_info of this payload instead
        payload = dict(secs)
    if case.get('frame'):
        try:
            data, _ = c06.build_section(case['frame'])
            payload['.eh_frame' if case['frame']['kind'] == 'eh_frame' else '.debug_frame'] = data
        except (c06.Unencodable, AssertionError):
            pass        # pointer not representable after adapting the frame model to this container: payload without frame section
    return {k: v for k, v in payload.items() if v is not None}


def run_presence(ctx, case):
    L = lib()
    names = case['names']
    meta = {'cls': case['cls'], 'le': case['le'], 'e_machine': 62}
    secs = [(n, b'\0' * 16, 0) for n in names]
    cls, le = meta['cls'], meta['le']
    m_secs = [{'name': '', 'sh_type': 0}] + [{'name': n, 'sh_type': 1, 'data': d} for (n, d, _) in secs] + [{'name': '.shstrtab', 'sh_type': 3, 'data': b''}]
    data, _ = W.build({'cls': cls, 'le': le, 'e_type': 2, 'e_machine': 62, 'sections': m_secs, 'shstrndx': len(m_secs) - 1})
    ef = L['ELFFile'](io.BytesIO(data))
    has_info = '.debug_info' in names or '.zdebug_info' in names
    for strict in (True, False):
        want = has_info or (not strict and '.eh_frame' in names)
        try:
            got = bool(ef.has_dwarf_info(strict=strict))
        except Exception as e:  # noqa
            ctx.fail_exc('presence|table', e, case)
            continue
        if got != want:
            ctx.fail('presence|table|strict=%s|%s' % (strict, '+'.join(sorted(names)) or 'none'), 'expected %r got %r' % (want, got), case)
    ctx.count('presence.cell')
    ctx.case(('presence', tuple(names), cls, le), True, case)


def run_sup(ctx, case):
    """strings moved to a supplementary file: values with a loader == the strings, without == raw offsets"""
    L = lib()
    le, cls = case['le'], case['cls']
    strs = [bytes(s) for s in case['strs']]
    sup_str, offs = D.pool(strs, b'\0')
    form = case['form']
    ver = 5 if form == 'DW_FORM_strp_sup' else case.get('version', 4)
    fmt = case.get('fmt', 32)
    A = cls // 8
    tab = [{'code': 1, 'tag': 0x11, 'children': True, 'attrs': [[0x03, 'DW_FORM_string', None]]},
           {'code': 2, 'tag': 0x34, 'children': False, 'attrs': [[0x03, form, None], [0x3a, 'DW_FORM_data1', None]]}]
    kids = [{'ab': 1, 'vals': [{'v': offs[i]}, {'v': i & 0xff}], 'kids': []} for i in range(len(strs))]
    main_info = {'le': le, 'strs': [], 'lstrs': [], 'abtabs': [tab], 'units': [{'version': ver, 'fmt': fmt, 'addr_size': A, 'ut': 1, 'abtab': 0, 'dwo_id': 0, 'sig': 0,
                                                                          'die': {'ab': 0, 'vals': [{'s': b'main'}], 'kids': kids}}], 'tunits': []}
    w = D.InfoWriter(main_info)
    payload = {'.debug_info': w.sections['.debug_info'], '.debug_abbrev': w.sections['.debug_abbrev']}
    sup_tab = [{'code': 1, 'tag': 0x3c, 'children': False, 'attrs': [[0x03, 'DW_FORM_string', None]]}]
    ws = D.InfoWriter({'le': le, 'strs': [], 'lstrs': [], 'abtabs': [sup_tab], 'units': [{'version': 4, 'fmt': 32, 'addr_size': A, 'abtab': 0, 'dwo_id': 0, 'sig': 0,
                                                                                       'die': {'ab': 0, 'vals': [{'s': b'sup'}], 'kids': []}}], 'tunits': []})
    meta = {'cls': cls, 'le': le, 'e_machine': 62}
    fname = b'sup.dwz'
    sup_payload = {'.debug_info': ws.sections['.debug_info'], '.debug_abbrev': ws.sections['.debug_abbrev'], '.debug_str': sup_str}
    if case['style'] == 'altlink':
        extra = [('.gnu_debugaltlink', fname + b'\0' + bytes(range(20)), 0)]
        sup_extra = []
    else:
        extra = [('.debug_sup', D.u(le, 2, 5) + b'\0' + fname + b'\0' + b'\x00', 0)]
        sup_extra = [('.debug_sup', D.u(le, 2, 5) + b'\x01' + b'main.elf\0' + b'\x00', 0)]
    # container transforms compose: the main file's (and the supplementary file's) own debug sections may be stored plainly, gABI-compressed or
    # in the .zdebug naming (all or some sections) while the link section stays what it is
    main_tr = case.get('main_tr') or {'t': 'plain'}
    sup_tr = case.get('sup_tr') or {'t': 'plain'}
    ctx.count('sup.main-container.%s%s' % (main_tr['t'], '' if main_tr.get('which', 'all') == 'all' else '.some'))
    main = build_container(payload, meta, main_tr, extra_sections=extra)['main']
    sup = build_container(sup_payload, meta, sup_tr, extra_sections=sup_extra)['main']
    c = {'main': main, 'files': {fname: sup}}
    for loader, follow in ((True, True), (False, True), (True, False)):
        try:
            ef = open_container(c, loader=loader)
            di = ef.get_dwarf_info(follow_links=follow)
            cu = next(di.iter_CUs())
            vals = [d.attributes['DW_AT_name'].value for d in cu.iter_DIEs() if not d.is_null() and d.tag == 'DW_TAG_variable']
        except Exception as e:  # noqa
            ctx.fail_exc('sup|%s|loader=%s|follow=%s' % (case['style'], loader, follow), e, case)
            continue
        resolved = loader and follow
        want = strs if resolved else [offs[i] for i in range(len(strs))]
        got = [bytes(v) if isinstance(v, (bytes, bytearray)) else v for v in vals]
        if got != want:
            ctx.fail('sup|%s|%s|%s' % (case['style'], form, 'resolved' if resolved else 'unresolved'), 'loader=%s follow_links=%s: expected %r got %r' % (loader, follow, want[:3], got[:3]), case)
        if (di.supplementary_dwarfinfo is not None) != resolved:
            ctx.fail('sup|%s|supplementary_dwarfinfo-presence' % case['style'], 'loader=%s follow_links=%s -> %r' % (loader, follow, di.supplementary_dwarfinfo), case)
    # the two kinds of link composed (the layout of distribution debug packages): a stripped file whose .gnu_debuglink leads to the debug file,
    # which in turn carries the supplementary link - the view through the stripped file resolves the supplementary strings as well
    try:
        c2 = build_container(payload, meta, {'t': 'link', 'crc_ok': True, 'inner': main_tr, 'fname': b'main.debug'}, extra_sections=extra)
        c2['files'][fname] = sup
        di = open_container(c2, loader=True).get_dwarf_info(follow_links=True)
        cu = next(di.iter_CUs())
        got = [bytes(d.attributes['DW_AT_name'].value) if isinstance(d.attributes['DW_AT_name'].value, (bytes, bytearray)) else d.attributes['DW_AT_name'].value
               for d in cu.iter_DIEs() if not d.is_null() and d.tag == 'DW_TAG_variable']
        if got != strs or di.supplementary_dwarfinfo is None:
            ctx.fail('sup|%s|behind-a-debuglink' % case['style'], 'stripped file -> .gnu_debuglink -> debug file -> supplementary file: expected %r got %r (supplementary view %s)' % (
                strs[:3], got[:3], 'present' if di.supplementary_dwarfinfo is not None else 'absent'), case)
        ctx.count('sup.behind-a-debuglink')
    except Exception as e:  # noqa
        ctx.fail_exc('sup|%s|behind-a-debuglink' % case['style'], e, case)
    # the same pair on disk, reached through ELFFile.load_from_path and the library's own relative loader: dwz-style link name with '..',
    # the directory of the main file reached through its real path and through a directory symlink of another depth (the operating system
    # resolves the symlink before '..'); a namesake with other strings sits where a textual collapse of 'link/..' would look
    try:
        import shutil
        import tempfile
        root = tempfile.mkdtemp(prefix='vfc11_', dir='/dev/shm' if os.path.isdir('/dev/shm') else None)
        try:
            rel = b'../.dwz/sup.dwz'
            if case['style'] == 'altlink':
                extra_d = [('.gnu_debugaltlink', rel + b'\0' + bytes(range(20)), 0)]
            else:
                extra_d = [('.debug_sup', D.u(le, 2, 5) + b'\0' + rel + b'\0' + b'\x00', 0)]
            main_d = build_container(payload, meta, main_tr, extra_sections=extra_d)['main']
            decoy_str = bytes((b ^ 0x01) if b else 0 for b in sup_str)
            decoy = build_container(dict(sup_payload, **{'.debug_str': decoy_str}), meta, {'t': 'plain'}, extra_sections=sup_extra)['main']
            os.makedirs(os.path.join(root, 'real', 'a', 'bin'))
            os.makedirs(os.path.join(root, 'real', 'a', '.dwz'))
            os.makedirs(os.path.join(root, '.dwz'))
            for pth, blob in ((('real', 'a', 'bin', 'main.elf'), main_d), (('real', 'a', '.dwz', 'sup.dwz'), sup), (('.dwz', 'sup.dwz'), decoy)):
                with open(os.path.join(root, *pth), 'wb') as fh:
                    fh.write(blob)
            os.symlink(os.path.join('real', 'a', 'bin'), os.path.join(root, 'lnk'))
            for via, pth in (('real-path', os.path.join(root, 'real', 'a', 'bin', 'main.elf')), ('directory-symlink', os.path.join(root, 'lnk', 'main.elf'))):
                ef = L['ELFFile'].load_from_path(pth)
                try:
                    di = ef.get_dwarf_info()
                    cu = next(di.iter_CUs())
                    got = [bytes(d.attributes['DW_AT_name'].value) if isinstance(d.attributes['DW_AT_name'].value, (bytes, bytearray)) else d.attributes['DW_AT_name'].value
                           for d in cu.iter_DIEs() if not d.is_null() and d.tag == 'DW_TAG_variable']
                    if got != strs:
                        ctx.fail('sup|%s|on-disk|%s' % (case['style'], via), 'load_from_path(%s): expected %r got %r' % (via, strs[:3], got[:3]), case)
                finally:
                    ef.close()
                ctx.count('sup.on-disk.%s' % via)
        finally:
            shutil.rmtree(root, ignore_errors=True)
    except Exception as e:  # noqa
        ctx.fail_exc('sup|%s|on-disk' % case['style'], e, case)
    ctx.count('sup.%s.%s' % (case['style'], form))
    ctx.case(('sup', main, sup), True, {'k': 'sup', 'style': case['style'], 'form': form, 'cls': cls, 'le': le, 'n': len(strs)})


# ---------------------------------------------------------------------------
# generators

SUP_CONTAINERS = [{'t': 'plain'}, {'t': 'gabi', 'which': 'all', 'level': 6}, {'t': 'zdebug', 'which': 'all', 'level': 6},
                  {'t': 'zdebug', 'which': 'some', 'phase': 0, 'info_plain': False, 'level': 1}, {'t': 'zdebug', 'which': 'some', 'phase': 1, 'info_plain': True, 'level': 9},
                  {'t': 'gabi', 'which': 'some', 'phase': 1, 'level': 1}]


def rand_transforms(ch, allow_link=True):
    out = []
    for _ in range(ch.int(3, 5)):
        t = ch.choice(['gabi', 'gabi', 'zdebug', 'link', 'link'] if allow_link else ['gabi', 'zdebug'])
        if t == 'gabi':
            out.append({'t': 'gabi', 'which': ch.choice(['all', 'all', 'some']), 'phase': ch.int(0, 1), 'level': ch.int(0, 9), 'at_eof': ch.bool(0.3),
                        'wbits': ch.choice([15, 15, 9, 10, 12, 14]), 'strategy': ch.choice([0, 0, 1, 2, 3, 4])})
            if ch.bool(0.25):
                out[-1]['stray_link'] = ch.choice(['ok', 'badcrc'])
        elif t == 'zdebug':
            if ch.bool(0.4):
                # mixed naming: GNU tools rename only the sections that shrink (either .debug_info or its siblings may stay plain)
                out.append({'t': 'zdebug', 'which': 'some', 'phase': ch.int(0, 1), 'info_plain': ch.bool(), 'level': ch.int(0, 9)})
            else:
                out.append({'t': 'zdebug', 'which': 'all', 'level': ch.int(0, 9), 'at_eof': ch.bool(0.3), 'wbits': ch.choice([15, 15, 9, 11, 13]), 'strategy': ch.choice([0, 0, 2, 4])})
            if ch.bool(0.35):
                out[-1]['stray_link'] = ch.choice(['ok', 'badcrc'])
        else:
            out.append({'t': 'link', 'crc_ok': True, 'inner': ch.choice([{'t': 'plain'}, {'t': 'gabi', 'which': 'all', 'level': 6}, {'t': 'zdebug', 'which': 'all', 'level': 1}]),
                        'fname': ch.choice([b'x.debug', b'a', b'ab', b'abc', b'abcd', b'dir/file.debug']), 'keep_eh': ch.bool()})
    out.append({'t': 'link', 'crc_ok': False, 'crc_xor': ch.choice([1, 0x80000000, 0xffffffff]), 'fname': b'x.debug'})
    out.append({'t': ch.choice(['gabi', 'zdebug']), 'which': 'all', 'bad_size': ch.choice([1, -1, 100])})
    return out


def build_case(ch, tier):
    from vf.checks import c04, c05, c06
    k = ch.int(0, 9)
    if k == 0:
        return {'k': 'sup', 'cls': ch.choice([32, 64]), 'le': ch.bool(), 'style': ch.choice(['altlink', 'debug_sup']),
                'form': ch.choice(['DW_FORM_GNU_strp_alt', 'DW_FORM_strp_sup']), 'fmt': ch.choice([32, 64]), 'version': ch.choice([2, 3, 4, 5]),
                'strs': [ch.choice([b'a', b'', b'name', b'n' * 70, 'ü'.encode()]) + bytes([0x41 + i]) for i in range(ch.int(1, 6))],
                'main_tr': ch.choice(SUP_CONTAINERS), 'sup_tr': ch.choice(SUP_CONTAINERS)}
    cls = ch.choice([32, 64])
    le = ch.bool()
    info = c04.build(ch, 'quick')
    info['le'] = le
    case = {'k': 'gen', 'cls': cls, 'le': le, 'info': info, 'e_machine': ch.choice([62, 3, 40, 183, 8])}
    if ch.bool(0.5):
        line = c05.build_case(ch, 'quick')
        line['le'] = le
        case['line'] = line
        case['info'] = {'le': le, 'strs': [], 'lstrs': [], 'abtabs': [], 'units': [], 'tunits': []}
    if ch.bool(0.6):
        fr = c06.build_case(ch, 'quick')
        fr['le'] = le
        fr['addr_size'] = cls // 8
        # keep pointers representable for the container's address size
        if cls == 32:
            for e in fr['entries']:
                if e['t'] == 'fde':
                    e['loc'] &= 0x7fffffff
                    e['range'] &= 0x7fffffff
                    if e.get('lsda') is not None:
                        e['lsda'] &= 0x7fffffff
        case['frame'] = fr
        case['eh_addr'] = fr.get('sec_addr', 0)
    case['transforms'] = rand_transforms(ch)
    return case


strategy = composite_from(build_case)


def _frame_ok(fr):
    """regenerate-free sanity: the frame section must build (pc-relative values must stay encodable after masking)"""
    from vf.checks import c06
    try:
        c06.build_section(fr)
        return True
    except Exception:  # noqa
        return False


def sweep(tier):
    cases = []
    # has_dwarf_info truth table
    import itertools
    pool = ['.debug_info', '.zdebug_info', '.eh_frame', '.debug_line', '.zdebug_str', '.debug_frame']
    k = 0
    for r in range(0, 4):
        for names in itertools.combinations(pool, r):
            k += 1
            cases.append({'k': 'presence', 'names': list(names), 'cls': (32, 64)[k % 2], 'le': bool((k // 2) % 2)})
    # corpus x transforms
    files = corpus_files()
    fixed = [{'t': 'zdebug', 'which': 'some', 'phase': 0, 'info_plain': True, 'level': 6}, {'t': 'zdebug', 'which': 'some', 'phase': 1, 'level': 6},
             {'t': 'gabi', 'which': 'all', 'level': 6}, {'t': 'gabi', 'which': 'some', 'phase': 1, 'level': 1, 'at_eof': True}, {'t': 'zdebug', 'which': 'all', 'level': 9},
             {'t': 'gabi', 'which': 'all', 'level': 6, 'wbits': 9}, {'t': 'gabi', 'which': 'all', 'level': 9, 'wbits': 12, 'strategy': 2}, {'t': 'zdebug', 'which': 'all', 'level': 6, 'wbits': 10},
             {'t': 'link', 'crc_ok': True, 'inner': {'t': 'plain'}, 'fname': b'f.debug', 'keep_eh': True},
             {'t': 'link', 'crc_ok': True, 'inner': {'t': 'gabi', 'which': 'all', 'level': 3}, 'fname': b'abc'},
             {'t': 'link', 'crc_ok': False, 'crc_xor': 1, 'fname': b'f.debug'},
             {'t': 'plain', 'stray_link': 'ok'}, {'t': 'zdebug', 'which': 'all', 'level': 6, 'stray_link': 'badcrc'}, {'t': 'gabi', 'which': 'all', 'level': 6, 'stray_link': 'ok'},
             {'t': 'zdebug', 'which': 'some', 'phase': 0, 'info_plain': True, 'level': 6, 'stray_link': 'ok'},
             {'t': 'gabi', 'which': 'all', 'bad_size': 1}, {'t': 'gabi', 'which': 'all', 'bad_size': -1},
             {'t': 'zdebug', 'which': 'all', 'bad_size': 1}, {'t': 'zdebug', 'which': 'all', 'bad_size': -1}]
    if tier == 'quick':
        files = [f for i, f in enumerate(files) if os.path.getsize(os.path.join(core.REPO, f)) < 400000]
    for f in files:
        cases.append({'k': 'corpus', 'file': f, 'transforms': fixed})
    # supplementary family
    for cls in (32, 64):
        for le in (True, False):
            for style in ('altlink', 'debug_sup'):
                for form, ver in (('DW_FORM_GNU_strp_alt', 4), ('DW_FORM_GNU_strp_alt', 2), ('DW_FORM_strp_sup', 5)):
                    for fmt in (32, 64):
                        k = len(cases)
                        cases.append({'k': 'sup', 'cls': cls, 'le': le, 'style': style, 'form': form, 'version': ver, 'fmt': fmt,
                                      'strs': [b'', b'alpha', b'b' * 65, 'é'.encode()],
                                      'main_tr': SUP_CONTAINERS[k % len(SUP_CONTAINERS)], 'sup_tr': SUP_CONTAINERS[(k // 5) % len(SUP_CONTAINERS)]})
    # mixed .zdebug naming (what objcopy produces when a section does not shrink)
    ch = RndChooser(110011)
    from vf.checks import c04
    for i in range(6):
        info = c04.build(ch, 'quick')
        cases.append({'k': 'gen', 'cls': (32, 64)[i % 2], 'le': info['le'], 'info': info,
                      'transforms': [{'t': 'zdebug', 'which': 'some', 'phase': i % 2, 'level': 6}, {'t': 'zdebug', 'which': 'some', 'phase': i % 2, 'info_plain': True, 'level': 6},
                                     {'t': 'zdebug', 'which': 'some', 'phase': (i + 1) % 2, 'info_plain': True, 'level': 1},
                                     {'t': 'gabi', 'which': 'all', 'level': 0}, {'t': 'zdebug', 'which': 'all', 'level': 0}]})
    return cases


def floors(ctx):
    c = ctx.counters
    need = ['transform.gabi', 'transform.gabi/some', 'transform.zdebug', 'transform.zdebug/some', 'transform.zdebug/some/info-plain', 'transform.link/inner=plain', 'transform.link/inner=gabi', 'reject.crc', 'reject.size.gabi',
            'reject.size.zdebug', 'presence.cell', 'corpus.file', 'gen.payload', 'sup.altlink.DW_FORM_GNU_strp_alt', 'sup.debug_sup.DW_FORM_strp_sup']
    out = ['no case with ' + k for k in need if c[k] == 0]
    if c['corpus.file'] < 20:
        out.append('only %d corpus payloads' % c['corpus.file'])
    return out

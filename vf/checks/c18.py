"""C18 - the readelf clone (scripts/readelf.py) prints what GNU readelf prints.

    file (shipped corpus | synthesized by vf.enc.elf / vf.enc.dwarf from ONE entry of a description table | random combination)
       --> /usr/bin/readelf <option> <file>                    (deciding oracle, stdout only, LC_ALL=C, TZ=UTC)
       --> ReadElf(file, StringIO).display_*()                 (the clone, in-process, same calls as its main())
       --> the project's own compare_output() (test/run_readelf_tests.py, loaded by path from the tree under test)

The two outputs are first compared as a whole by compare_output.  Only when that fails are they aligned line by
line (difflib on whitespace-free lower-case lines; lines only one tool prints are findings) and compare_output is
re-run after neutralising each line it reports, so that every differing line is classified on its own:
  * outside the envelope      the clone says it does not know the code (<unknown>, unrecognized, Unknown AT value, ...)
  * oracle-does-not-know      GNU readelf 2.40 says it does not know the code while the clone prints a name (2.41 feature
                              or a name GNU never had) - not compared, counted per table entry (skip.oracle_unknown|...)
  * discrepancy               bucketed by (option, table entry that produced the line) when the line belongs to the marked
                              entity of a synthesized file, by the ELF-header field value for header lines, and by
                              (option, class of line) otherwise; -e lines are keyed as the -h/-S/-l line they are
An exception escaping the clone is a discrepancy, too (main() only catches ELFError, and then exits 1, which the project's
runner counts as a failure): bucket clone.exception|<option>|<type>|<innermost library frame>.
"""
import io
import os
import re
import ast
import sys
import zlib
import struct
import difflib
import inspect
import tempfile
import subprocess
import importlib.util

from hypothesis import strategies as st

from vf import core
from vf.enc import elf as W
from vf.choose import HypChooser

ID = 'C18'
READELF = '/usr/bin/readelf'
CORPUS_DIR = 'test/testfiles_for_readelf'

RULE = ('(i) every non-empty *.elf of test/testfiles_for_readelf x the option list parsed out of test/run_readelf_tests.py '
        '(+ -h, -l, -S on their own), minus exactly the exclusions coded in that runner and the documented binutils-2.40 '
        'effects. (ii) one tiny file per entry of the clone\'s description tables, written by the independent writers '
        'vf.enc.elf / vf.enc.dwarf / vf.enc.c12_expr and compared under the matching option: -h every ENUM_E_MACHINE, '
        'ENUM_EI_OSABI (x 3 machines), e_type, e_version value and every E_FLAGS constant of the 5 machines whose flags the '
        'clone decodes; -S every sh_type of every per-machine enum (both classes), every named sh_flags bit + combinations, '
        'numeric column widths, long names; -l every p_type per machine, p_flags 0..7 and mask bits, counts, numeric widths; '
        '-s symbol type/bind 0..15 (3 machine/OSABI contexts), visibility 0..7, PPC64 local-entry bits, st_shndx specials incl. '
        'SHN_XINDEX, numeric widths, long names, dynsym with versions; -d every d_tag per machine / OS ABI with a value of the '
        'right kind, every DT_FLAGS / DT_FLAGS_1 / DT_MIPS_FLAGS bit, DT_PLTREL values; -n GNU note types, ABI-tag OS values, GNU '
        'property types x every bit of the clone\'s bit tables x 4 machines; -r every relocation type of the 9 machines the clone '
        'describes as REL and RELA (ELF64 MIPS with Type2/Type3); -V version flag combinations in verdef and vernaux; '
        '--debug-dump=info every DW_TAG, DW_AT, DW_FORM (DWARF 2-5, 32/64-bit), DW_LANG, DW_ATE, access/visibility/virtuality/'
        'id-case/calling-convention/inline/ordering value, every DW_OP the library names (operands from an independent '
        'operation table) and every named DWARF register of x86, x86-64, AArch64; --debug-dump=frames and frames-interp every '
        'DW_CFA opcode the library names (CIE versions 1/3/4). (iii) random files (Hypothesis) that combine entries on which '
        'the tools agree with arbitrary numeric fields, counts, names, payload bytes, classes and byte orders, compared under '
        '-h/-S/-l/-e/-s/-d/-r/-x<sec>/-p<sec>. The clone runs in-process exactly as its main() does, GNU readelf as a subprocess; '
        'outputs are compared with the project\'s compare_output, then line by line for bucketing. Non-trivial: a (file, option) '
        'pair in which >= 3 non-header lines (containing a digit, not ending in ":") were compared. Distinct by SHA-1 of file '
        'bytes + option.')
N = {'quick': 2000, 'thorough': 100000}

ASSUMPTIONS = [
    'the deciding oracle is /usr/bin/readelf = GNU binutils 2.40 (the project pins 2.41); only stdout is compared, '
    'stderr (warnings) of both tools is ignored like in the project runner; a pair for which GNU readelf exits non-zero '
    'is counted (oracle.rc_nonzero) and not decided; more than 5% such pairs is a harness error',
    'project exclusions applied verbatim from run_test_on_file: dwarf_debug_types.elf x frames/frames-interp/aranges; '
    '"core" in the file name x -n; dwarf_v4cie x frames-interp/aranges; -A/--arch-specific only for "-eabi-" files',
    '2.40 effect (not decided): --debug-dump=loc / =Ranges on files that contain .debug_loclists / .debug_rnglists '
    '(2.40 prints an older, incompatible layout); counted as excluded.v240.lists',
    '2.40 effect (not decided): the --debug-dump options on EM_LOONGARCH relocatable objects (2.40 cannot apply the '
    'ADD/SUB relocations of the debug sections); counted as excluded.v240.loongarch_debug',
    '2.40 effect (not compared, counted per entry as skip.oracle_unknown): names readelf 2.40 does not have, e.g. '
    'R_LARCH_* 101..109',
    'envelope: a differing line in which the clone prints one of its own "do not know" texts (<unknown>, <unknown ...>, '
    'unrecognized, Unknown note type:, Unknown AT value:, (Unknown: ..), (unknown ...), ": <??>", or a LOOS+/LOPROC+/LOUSER+ '
    'fall-through where GNU prints a name) is outside the envelope (envelope.clone_unknown); a differing line in which GNU '
    'readelf prints one of its "do not know" texts (<unknown..., unrecognized, unsupported, Operating System specific:, '
    'Processor Specific:, Unknown note type:, <procesor-specific type, Unknown AT value:, Unknown TAG value:, User TAG value:, '
    '(Unknown: ..), (unknown ...), (user defined type), (implementation defined: ..), (unknown location op ..), (rN) for a DWARF '
    'register outside ARM, LOOS+/LOPROC+ where the clone prints a name) is oracle-does-not-know (envelope.oracle_unknown); '
    'neither is compared',
    'the synthesized domain is the clone\'s own tables: flag bits, e_flags fields, property bits, register numbers, note owners '
    'and reserved section indices that no table of the clone names are not generated (GNU names many of them; the clone prints '
    'nothing or a number for them, so the <unknown> rule would not exclude them)',
    'synthesized files are well formed for what the option reads: typed sections carry a valid (possibly empty) payload, the '
    'right sh_entsize and sh_link; -d / versioned files are shared objects whose PT_LOAD maps the file at vaddr == offset and '
    'whose PT_DYNAMIC covers .dynamic (GNU readelf only finds the dynamic section through the program headers); dynamic '
    'strings live in .dynstr; every file has a section header table',
    'synthesized -n files are not core files (the project excludes core notes), GNU properties have the data length their ABI '
    'prescribes and 4/8-byte padding by class; symbol tables keep st_shndx special or < e_shnum, STT_SECTION symbols point to '
    'a section; relocation types are only generated when they fit the r_info type field of the class',
    'DW_AT sweep: attributes the clone decodes as expressions carry DW_FORM_exprloc, DW_AT_import a reference, all others '
    'DW_FORM_data1 = 1 (both tools print a value by its form); attributes whose constant GNU annotates from a table the clone '
    'lacks (decimal_sign, defaulted, endianity, discr_list) are not generated; DW_OP_fbreg sits in a subprogram with a frame base',
    '-p is only applied to sections holding printable ASCII strings and NULs (GNU escapes control and non-ASCII characters in '
    'ways the clone does not claim to reproduce)',
    'empty corpus files (many_sections.o.elf is emptied in this tree) are skipped and counted',
    'in-process run resets elftools.dwarf.descriptions._MACHINE_ARCH and _DWARF_EXPR_DUMPER_CACHE (keyed by id()) before every '
    'file, which is the state a fresh `python scripts/readelf.py` process starts with; sys.stderr is captured',
    'compare_output itself raises ValueError on some differing DW_AT_const_value lines; the differing line is then located '
    'by comparing line by line with compare_output (counted compare_output.raised)',
]

DEFAULT_OPTIONS = [
    '-e', '-d', '-s', '-n', '-r', '-x.text', '-p.shstrtab', '-V',
    '--debug-dump=info', '--debug-dump=decodedline',
    '--debug-dump=frames', '--debug-dump=frames-interp',
    '--debug-dump=aranges', '--debug-dump=pubtypes',
    '--debug-dump=pubnames', '--debug-dump=loc',
    '--debug-dump=Ranges', '--arch-specific',
]
EXTRA_OPTIONS = ['-h', '-l', '-S']

MAX_LINE_FINDINGS = 25      # per (file, option): stop classifying after this many differing lines
NEUTRAL = 'c18 neutralised line'

# ---------------------------------------------------------------------------
# project pieces, loaded by path from the tree under test

_P = {}


def _load_by_path(path, name):
    spec = importlib.util.spec_from_file_location(name, path)
    mod = importlib.util.module_from_spec(spec)
    spec.loader.exec_module(mod)
    return mod


def proj():
    """-> dict(compare_output, ReadElf, options, dwarf_descr)"""
    if _P:
        return _P
    core.use_repo()
    repo = core.REPO
    testdir = os.path.join(repo, 'test')
    saved_path = list(sys.path)
    saved_utils = sys.modules.get('utils')
    try:
        sys.path.insert(0, testdir)
        sys.modules.pop('utils', None)
        rrt = _load_by_path(os.path.join(testdir, 'run_readelf_tests.py'), 'c18_run_readelf_tests')
        clone = _load_by_path(os.path.join(repo, 'scripts', 'readelf.py'), 'c18_readelf_clone')
    finally:
        sys.path[:] = saved_path
        sys.modules.pop('utils', None)
        if saved_utils is not None:
            sys.modules['utils'] = saved_utils
    try:
        rrt.testlog.handlers[:] = []
    except Exception:
        pass
    opts = None
    try:
        tree = ast.parse(inspect.getsource(rrt.run_test_on_file))
        for node in ast.walk(tree):
            if (isinstance(node, ast.Assign) and len(node.targets) == 1 and isinstance(node.targets[0], ast.Name)
                    and node.targets[0].id == 'options' and isinstance(node.value, ast.List)):
                v = ast.literal_eval(node.value)
                if len(v) > 1 and all(isinstance(x, str) for x in v):
                    opts = v
                    break
    except Exception:
        opts = None
    import elftools.dwarf.descriptions as dd
    _P.update(compare_output=rrt.compare_output, ReadElf=clone.ReadElf, clone_mod=clone,
              options=list(opts or DEFAULT_OPTIONS), options_from_runner=opts is not None, dwarf_descr=dd)
    return _P


def project_exclusion(filename, option):
    """Transcription of the skips in run_test_on_file (test/run_readelf_tests.py); returns a reason or None."""
    if filename.endswith('dwarf_debug_types.elf') and option in ('--debug-dump=frames', '--debug-dump=frames-interp',
                                                                  '--debug-dump=aranges'):
        return 'dwarf_debug_types'
    if 'core' in filename and option == '-n':
        return 'core_notes'
    if 'dwarf_v4cie' in filename and option in ('--debug-dump=frames-interp', '--debug-dump=aranges'):
        return 'dwarf_v4cie'
    if option in ('-A', '--arch-specific') and '-eabi-' not in filename:
        return 'arch_specific_non_eabi'
    return None


# ---------------------------------------------------------------------------
# a minimal independent look at a file (for the version-effect exclusions and bucket qualifiers)

def peek(data):
    """-> dict(cls, le, e_type, e_machine, osabi, e_flags, names=set of section names) or None"""
    if len(data) < 52 or data[:4] != b'\x7fELF' or data[4] not in (1, 2) or data[5] not in (1, 2):
        return None
    cls = 32 if data[4] == 1 else 64
    e = '<' if data[5] == 1 else '>'
    try:
        if cls == 32:
            (e_type, e_machine, _v, _entry, _phoff, shoff, flags, _eh, _phes, _phn, shes, shn, shstr) = \
                struct.unpack_from(e + 'HHIIIIIHHHHHH', data, 16)
        else:
            (e_type, e_machine, _v, _entry, _phoff, shoff, flags, _eh, _phes, _phn, shes, shn, shstr) = \
                struct.unpack_from(e + 'HHIQQQIHHHHHH', data, 16)
    except struct.error:
        return None
    names = set()
    try:
        if shoff and shn and shstr < shn and shes >= (40 if cls == 32 else 64):
            def shdr(i):
                if cls == 32:
                    f = struct.unpack_from(e + '10I', data, shoff + i * shes)
                else:
                    f = struct.unpack_from(e + 'IIQQQQIIQQ', data, shoff + i * shes)
                return f
            so, ss = shdr(shstr)[4], shdr(shstr)[5]
            tab = data[so:so + ss]
            for i in range(shn):
                n = shdr(i)[0]
                end = tab.find(b'\0', n)
                if 0 <= n < len(tab) and end >= 0:
                    names.add(tab[n:end].decode('latin-1'))
    except struct.error:
        pass
    return dict(cls=cls, le=(e == '<'), e_type=e_type, e_machine=e_machine, osabi=data[7], e_flags=flags, names=names)


EM_LOONGARCH = 258


def version_exclusion(info, option):
    """2.40-vs-2.41 effects that make a (file, option) pair undecidable on this image."""
    if info is None:
        return None
    if option == '--debug-dump=loc' and ('.debug_loclists' in info['names'] or '.debug_loclists.dwo' in info['names']):
        return 'lists'
    if option == '--debug-dump=Ranges' and ('.debug_rnglists' in info['names'] or '.debug_rnglists.dwo' in info['names']):
        return 'lists'
    if option.startswith('--debug-dump=') and info['e_machine'] == EM_LOONGARCH and info['e_type'] == 1:
        return 'loongarch_debug'
    return None


# ---------------------------------------------------------------------------
# running the two tools

def run_clone(path, option):
    """Same calls as main() of scripts/readelf.py makes for `option`.  -> text (raises what the clone raises)."""
    P = proj()
    dd = P['dwarf_descr']
    dd._MACHINE_ARCH = None
    if hasattr(dd, '_DWARF_EXPR_DUMPER_CACHE'):
        dd._DWARF_EXPR_DUMPER_CACHE.clear()
    out = io.StringIO()
    saved_err = sys.stderr
    sys.stderr = io.StringIO()
    try:
        with open(path, 'rb') as f:
            r = P['ReadElf'](f, out)
            if option == '-e':
                r.display_file_header()
                r.display_section_headers(show_heading=False)
                r.display_program_headers(show_heading=False)
            elif option == '-h':
                r.display_file_header()
            elif option == '-S':
                r.display_section_headers(show_heading=True)
            elif option == '-l':
                r.display_program_headers(show_heading=True)
            elif option == '-d':
                r.display_dynamic_tags()
            elif option == '-s':
                r.display_symbol_tables()
            elif option == '-n':
                r.display_notes()
            elif option == '-r':
                r.display_relocations()
            elif option == '-V':
                r.display_version_info()
            elif option in ('-A', '--arch-specific'):
                r.display_arch_specific()
            elif option.startswith('-x'):
                r.display_hex_dump(option[2:])
            elif option.startswith('-p'):
                r.display_string_dump(option[2:])
            elif option.startswith('--debug-dump='):
                r.display_debug_dump(option[len('--debug-dump='):])
            else:
                raise core.HarnessError('unmapped option %r' % option)
    finally:
        sys.stderr = saved_err
    return out.getvalue()


def have_readelf():
    return os.path.isfile(READELF) and os.access(READELF, os.X_OK)


_VER = {}


def readelf_version():
    if 'v' not in _VER:
        try:
            r = subprocess.run([READELF, '--version'], stdout=subprocess.PIPE, stderr=subprocess.PIPE,
                               env=dict(os.environ, LC_ALL='C'))
            _VER['v'] = r.stdout.decode('latin-1').splitlines()[0].strip()
        except Exception:
            _VER['v'] = 'absent'
    return _VER['v']


def run_gnu(path, option):
    r = subprocess.run([READELF, option, path], stdout=subprocess.PIPE, stderr=subprocess.PIPE,
                       env=dict(os.environ, LC_ALL='C', TZ='UTC'))
    return r.returncode, r.stdout.decode('latin-1')


def write_tmp(data):
    """The synthesized file as a named file for the readelf subprocess; the caller unlinks it."""
    fd, path = tempfile.mkstemp(prefix='vf_c18_', suffix='.elf')
    with os.fdopen(fd, 'wb') as f:
        f.write(data)
    return path


# ---------------------------------------------------------------------------
# line handling

def prep(s):
    # identical to prepare_lines() inside the project's compare_output
    return [line for line in s.lower().splitlines() if line.strip()]


def squeeze(line):
    return ''.join(line.split())


def is_nonheader(line):
    return (not line.rstrip().endswith(':')) and any(ch.isdigit() for ch in line)


_RE_MISMATCH = re.compile(r'Mismatch on line #(\d+):')
_CLONE_UNKNOWN = ('<unknown>', '<unknown ', 'unrecognized', 'unknown note type:', 'unknown at value:', '(unknown: ', '(unknown ',
                  ': <??>')
_GNU_UNKNOWN = ('<unknown', 'unrecognized', 'unsupported', '(operating system specific: ', '(processor specific: ',
                'unknown note type:', '-specific type 0x', 'unknown at value:', 'unknown tag value:', 'user tag value:',
                '(unknown: ', '(unknown ', '(unknown location op', '(user defined type)', '(implementation defined: ')
# both tools print a code nobody names as <range>+offset; such a text is "I do not know this code" as well
_RANGE_FALLTHROUGH = re.compile(r'\b(loos|loproc|louser)\+')
_STRUCTURAL = re.compile(r'heading|title|columns|\.key$|none$')


def lineclass(opt, g, c):
    """Class of a line (lower case; g = GNU's, c = the clone's; one may be None)."""
    l = g if g is not None else c
    s = l.strip()
    o = opt
    if o in ('-h', '-e') or o == '-S' or o == '-l':
        if o in ('-h', '-e'):
            m = re.match(r"^\s{2}([a-z][a-z/ '\-]*?):", l)
            if m and not s.startswith('['):
                return 'header.' + m.group(1).replace(' ', '_')
            if s == 'elf header:':
                return 'header.title'
        if s.startswith('there are') or s.startswith('there is'):
            if 'section header' in s:
                return 'sections.heading'
            if 'program header' in s:
                return 'segments.heading.count'
            if 'no sections' in s:
                return 'sections.none'
            return 'heading'
        if s.startswith('elf file type is'):
            return 'segments.heading.filetype'
        if s.startswith('entry point'):
            return 'segments.heading.entry'
        if s.startswith('section header'):
            return 'sections.title'
        if s.startswith('program headers:'):
            return 'segments.title'
        if s.startswith('[nr]') or s.startswith('size ') and 'entsize' in s:
            return 'sections.columns'
        if s.startswith('type ') and 'offset' in s or s.startswith('filesiz'):
            return 'segments.columns'
        if re.match(r'^\[\s*\d+\]', s):
            return 'sections.entry'
        if s.startswith('key to flags') or '(write)' in s or '(link order)' in s or '(compressed)' in s or \
                'processor specific' in s or '(mbind)' in s or '(large)' in s or '(purecode)' in s:
            return 'sections.key'
        if s.startswith('[requesting program interpreter'):
            return 'segments.interp'
        if s.startswith('section to segment mapping') or s.startswith('segment sections'):
            return 'segments.mapping.title'
        if re.match(r'^\d\d(\s|$)', s):
            return 'segments.mapping'
        if re.match(r'^[0-9a-f]{16}\s+[0-9a-f]{16}', s):
            return 'sections.entry2'
        if re.match(r'^0x[0-9a-f]{16}\s+0x[0-9a-f]{16}(\s|$)', s) and len(s.split()) <= 6:
            return 'segments.entry2'
        if re.match(r'^[a-z_+<>0-9:]+\s+0x[0-9a-f]+\s+0x[0-9a-f]+', s):
            return 'segments.entry'
        return 'line'
    if o == '-s':
        if s.startswith('symbol table'):
            return 'heading'
        if s.startswith('num:'):
            return 'columns'
        if re.match(r'^\d+:', s):
            return 'entry'
        return 'line'
    if o == '-d':
        if s.startswith('dynamic section at'):
            return 'heading'
        if s.startswith('tag '):
            return 'columns'
        if re.match(r'^0x[0-9a-f]+\s+\(', s):
            return 'entry'
        if s.startswith('there is no dynamic'):
            return 'none'
        return 'line'
    if o == '-n':
        if s.startswith('displaying notes'):
            return 'heading'
        if s.startswith('owner'):
            return 'columns'
        if re.match(r'^\S+\s+0x[0-9a-f]{8}\s', s):
            return 'note'
        return 'detail'
    if o == '-r':
        if s.startswith('relocation section'):
            return 'heading'
        if s.startswith('offset'):
            return 'columns'
        if s.startswith('type2:') or s.startswith('type3:'):
            return 'entry2'
        if re.match(r'^[0-9a-f]+\s+[0-9a-f]+\s', s):
            return 'entry'
        if s.startswith('there are no relocations'):
            return 'none'
        return 'line'
    if o == '-V':
        if 'section' in s and 'contains' in s:
            return 'heading'
        if s.startswith('addr:'):
            return 'addr'
        if re.match(r'^[0-9a-f]{3}:', s):
            return 'versym'
        if 'rev:' in s:
            return 'verdef'
        if 'parent' in s:
            return 'verdaux'
        if 'file:' in s:
            return 'verneed'
        if 'name:' in s and 'flags:' in s:
            return 'vernaux'
        if s.startswith('no version information'):
            return 'none'
        return 'line'
    if o.startswith('-x') or o.startswith('-p'):
        if 'dump of section' in s:
            return 'heading'
        if 'has no data to dump' in s:
            if g is not None and c is not None and 'has no data to dump' in g and 'has no data to dump' in c:
                return 'nodata.section_name'      # both say so, but name the section differently
            return 'nodata'
        if 'no strings found' in s:
            return 'nostrings'
        if re.match(r'^0x[0-9a-f]+\s', s):
            return 'row'
        if re.match(r'^\[\s*[0-9a-f]+\]', s):
            return 'string'
        return 'line'
    if o.startswith('--debug-dump='):
        m = re.search(r'\b(dw_(?:at|cfa|op|tag|form|lne|lns)_[a-z0-9_]+)', s)
        if m:
            return m.group(1)
        if re.match(r'^<\d+><[0-9a-f]+>', s):
            return 'die'
        if s.endswith(':'):
            return 'heading'
        return 'line'
    if o in ('-A', '--arch-specific'):
        m = re.match(r'^"?(tag_[a-z0-9_]+)', s)
        if m:
            return m.group(1)
        return 'line'
    return 'line'


def optkey(opt):
    if opt.startswith('-x'):
        return '-x'
    if opt.startswith('-p'):
        return '-p'
    return opt


EM_NAMES = {0: 'NONE', 3: '386', 8: 'MIPS', 20: 'PPC', 21: 'PPC64', 22: 'S390', 40: 'ARM', 62: 'X86_64', 105: 'MSP430',
            183: 'AARCH64', 243: 'RISCV', 258: 'LOONGARCH'}


def header_bucket(cl, info):
    """ELF-header lines are a function of single header fields: name the field value, not the file."""
    if info is None:
        return cl
    m = EM_NAMES.get(info['e_machine'], str(info['e_machine']))
    if cl == 'header.machine':
        return 'e_machine|%s' % m
    if cl == 'header.os/abi':      # GNU names values below 64 independently of the machine
        return 'ei_osabi|%d' % info['osabi'] if info['osabi'] < 64 else 'ei_osabi|m=%s|%d' % (m, info['osabi'])
    if cl == 'header.type':
        return 'e_type|0x%x' % info['e_type']
    if cl == 'header.flags':
        return 'e_flags|m=%s|0x%x' % (m, info['e_flags'])
    return cl


def project_compare(ctx, g, c):
    """compare_output on two lists of prepared lines of equal length -> (True, None) | (False, index of the line it
    reports).  compare_output itself can raise on a differing line (it parses the last token of a DW_AT_const_value line
    as a number); the line is then located by comparing line by line."""
    cmp_out = proj()['compare_output']
    try:
        ok, msg = cmp_out('\n'.join(g), '\n'.join(c))
        if ok:
            return True, None
        m = _RE_MISMATCH.search(msg)
        if not m:
            raise core.HarnessError('compare_output gave an unexpected message: %r' % msg[:200])
        return False, int(m.group(1))
    except core.HarnessError:
        raise
    except Exception:
        ctx.count('compare_output.raised')
        for i, (a, b) in enumerate(zip(g, c)):
            try:
                ok, _m = cmp_out(a, b)
            except Exception:
                ok = False
            if not ok:
                return False, i
        return True, None


def compare(ctx, case, opt, gnu_out, clone_out, what=None, mark=None, tag='', info=None):
    """Compare the two outputs; record buckets.  -> number of compared non-header lines."""
    g, c = prep(gnu_out), prep(clone_out)
    ok = len(g) == len(c) and project_compare(ctx, g, c)[0]
    ko = optkey(opt)

    def okey(cl):       # -e prints what -h, -S and -l print: name the part, so that one root cause has one key
        if ko != '-e':
            return ko
        return '-h' if cl.startswith('header.') else '-S' if cl.startswith('sections.') else '-l' if cl.startswith('segments.') else ko
    if ok:
        ctx.count('pairs.equal_whole')
        ctx.count('lines.compared', len(g))
        return sum(1 for l in g if is_nonheader(l))
    ctx.count('pairs.analysed_by_line')
    nfind = 0
    # 1. alignment when the line counts differ
    if len(g) != len(c):
        gs, cs = [squeeze(l) for l in g], [squeeze(l) for l in c]
        if len(g) * len(c) > 4000 * 4000:
            ctx.fail('%s|line_count' % ko, '%s %s: %d lines from GNU readelf, %d from the clone (too large to align)'
                     % (tag, opt, len(g), len(c)), case)
            return 0
        sm = difflib.SequenceMatcher(None, gs, cs, autojunk=False)
        g2, c2 = [], []
        after0 = None
        if isinstance(mark, dict) and what:
            after0 = next((k for k, l in enumerate(g) if re.search(mark['after'], l)), len(g))
        for op, i1, i2, j1, j2 in sm.get_opcodes():
            if op == 'equal':
                g2 += g[i1:i2]
                c2 += c[j1:j2]
                continue
            k = min(i2 - i1, j2 - j1)
            g2 += g[i1:i1 + k]
            c2 += c[j1:j1 + k]
            marked = after0 is not None and i1 >= after0
            for l in g[i1 + k:i2]:
                nfind += 1
                if nfind <= MAX_LINE_FINDINGS:
                    ctx.count('lines.missing')
                    ctx.fail(('%s|%s' % (ko, what)) if marked else
                             '%s|missing|%s' % (okey(lineclass(opt, l, None)), lineclass(opt, l, None)),
                             '%s %s: line printed by GNU readelf only: %r' % (tag, opt, l), case)
            for l in c[j1 + k:j2]:
                nfind += 1
                if nfind <= MAX_LINE_FINDINGS:
                    ctx.count('lines.extra')
                    ctx.fail(('%s|%s' % (ko, what)) if marked else
                             '%s|extra|%s' % (okey(lineclass(opt, None, l)), lineclass(opt, None, l)),
                             '%s %s: line printed by the clone only: %r' % (tag, opt, l), case)
        g, c = g2, c2
    # 2. project comparison, neutralising one reported line at a time
    compared = len(g)
    g0 = list(g)
    after_idx = None
    rounds = 0
    while True:
        ok, i = project_compare(ctx, g, c)
        if ok:
            break
        lg, lc = g[i], c[i]
        compared -= 1
        rf_g, rf_c = bool(_RANGE_FALLTHROUGH.search(lg)), bool(_RANGE_FALLTHROUGH.search(lc))
        if info and info['e_machine'] != 40 and not rf_g and re.search(r'dw_op_\w+: \d+ \(r\d+\)', lg) and not re.search(r'\(r\d+\)', lc):
            rf_g = True         # GNU's text for a DWARF register number it has no name for (rN is a real name on ARM only)
        # e_flags values are synthesized from fields and bits the clone's own tables name: there an "<unknown>" of the clone that GNU does
        # not print is a difference like any other, not the edge of the envelope
        # (its "<unrecognized EABI>" for ARM EABI versions other than 5 stays outside: the clone does not claim those)
        own_domain = bool(what) and what.startswith('e_flags|') and '<unknown>' in lc and 'unrecognized' not in lc and not any(t in lg for t in _GNU_UNKNOWN)
        if (any(t in lc for t in _CLONE_UNKNOWN) or (rf_c and not rf_g)) and not own_domain:
            ctx.count('envelope.clone_unknown|%s' % ko)
        elif any(t in lg for t in _GNU_UNKNOWN) or (rf_g and not rf_c):
            ctx.count('envelope.oracle_unknown|%s' % ko)
            if what:
                ctx.count('skip.oracle_unknown|%s|%s' % (ko, what))
        else:
            nfind += 1
            cl = lineclass(opt, lg, lc)
            on_mark = False
            if isinstance(mark, dict):
                if after_idx is None:
                    after_idx = next((k for k, l in enumerate(g0) if re.search(mark['after'], l)), len(g0))
                on_mark = i >= after_idx
            elif mark is not None and not _STRUCTURAL.search(cl):
                lo = i
                if cl.endswith('entry2'):
                    lo = max(0, i - 2)
                for k in range(lo, i + 1):
                    if re.search(mark, g[k]) or re.search(mark, c[k]):
                        on_mark = True
            if cl.startswith('header.'):
                bucket = '%s|%s' % (okey(cl), header_bucket(cl, info))
            elif ko == '-r' and cl == 'entry2':
                # the Type2:/Type3: continuation lines of ELF64 MIPS are printed by one piece of code for every type
                bucket = '-r|mips64_type2_type3_line'
            elif on_mark and what:
                bucket = '%s|%s' % (ko, what)
            else:
                bucket = '%s|%s' % (okey(cl), cl)
            ctx.count('lines.differ')
            ctx.fail(bucket, '%s %s: GNU readelf %r, the clone %r' % (tag, opt, lg, lc), case)
        g[i] = c[i] = NEUTRAL
        rounds += 1
        if nfind >= MAX_LINE_FINDINGS or rounds > 400:
            ctx.count('pairs.truncated_analysis')
            break
    ctx.count('lines.compared', max(compared, 0))
    return sum(1 for l in g if l != NEUTRAL and is_nonheader(l))


# ---------------------------------------------------------------------------
# run_case

def run_pair(ctx, case):
    """Two ReadElf objects of files of different machines alive in one process, their debug dumps interleaved: every dump equals the dump a
    fresh object gives for the same file and option (which the corpus layer compares with GNU readelf)."""
    P = proj()
    paths = [os.path.join(core.REPO, case['fileA']), os.path.join(core.REPO, case['fileB'])]
    if any(not os.path.isfile(p) or os.path.getsize(p) == 0 for p in paths):
        ctx.count('pair.skipped-empty-file')
        ctx.case(core.dumps(case), False)
        return
    fresh = {}

    def fresh_dump(i, what):
        if (i, what) not in fresh:
            try:
                fresh[(i, what)] = run_clone(paths[i], '--debug-dump=' + what)
            except Exception as e:  # noqa
                fresh[(i, what)] = 'raises %s' % type(e).__name__
        return fresh[(i, what)]
    for i in (0, 1):
        for what in case['dumps']:
            fresh_dump(i, what)
    dd = P['dwarf_descr']
    dd._MACHINE_ARCH = None
    saved_err = sys.stderr
    sys.stderr = io.StringIO()
    fa, fb = open(paths[0], 'rb'), open(paths[1], 'rb')
    try:
        outs = [io.StringIO(), io.StringIO()]
        objs = [P['ReadElf'](fa, outs[0]), P['ReadElf'](fb, outs[1])]
        for step, (i, what) in enumerate(case['history']):
            before = len(outs[i].getvalue())
            try:
                objs[i].display_debug_dump(what)
                got = outs[i].getvalue()[before:]
            except Exception as e:  # noqa
                got = 'raises %s' % type(e).__name__
            if got != fresh_dump(i, what):
                g, f_ = got.splitlines(), fresh_dump(i, what).splitlines()
                k = next((n for n, (x, y) in enumerate(zip(g, f_)) if x != y), min(len(g), len(f_)))
                ctx.fail('pair|--debug-dump=%s|differs-from-a-fresh-object' % what, 'step %d (%s of %s, after dumps of the other file): line %d is %r, a fresh object prints %r' % (
                    step, what, os.path.basename(paths[i]), k, g[k] if k < len(g) else None, f_[k] if k < len(f_) else None), case)
                break
    finally:
        sys.stderr = saved_err
        fa.close()
        fb.close()
        dd._MACHINE_ARCH = None
    ctx.count('pair.histories')
    ctx.case(core.dumps(case), True, {'kind': 'pair', 'files': [case['fileA'], case['fileB']], 'steps': len(case['history'])})


def run_case(ctx, case):
    if case.get('kind') == 'pair':
        return run_pair(ctx, case)
    P = proj()
    if not have_readelf():
        ctx.count('oracle.absent')
        ctx.case(core.dumps(case), False)
        return
    opt = case['opt']
    kind = case['kind']
    if kind == 'corpus':
        rel = case['file']
        path = os.path.join(core.REPO, rel)
        ctx.count('kind.corpus')
        if not os.path.isfile(path):
            raise core.HarnessError('corpus file missing: %s' % path)
        if os.path.getsize(path) == 0:
            ctx.count('excluded.empty_file')
            ctx.case(core.dumps(case), False)
            return
        why = project_exclusion(os.path.basename(rel), opt)
        if why:
            ctx.count('excluded.project.%s' % why)
            ctx.case(core.dumps(case), False)
            return
        with open(path, 'rb') as f:
            data = f.read()
        tag = os.path.basename(rel)
        what = mark = None
    else:
        data, _R = W.build(case['model'])
        path = None         # written below, only when the pair is going to be decided
        ctx.count('kind.%s' % kind)
        what, mark = case.get('what'), case.get('mark')
        tag = '%s[%s]' % (kind, what or '')
        if what:
            ctx.count('table.%s' % what.split('|')[0])
        elif case.get('family'):
            ctx.count('table.%s' % case['family'])
    info = peek(data)
    why = version_exclusion(info, opt)
    if why:
        ctx.count('excluded.v240.%s' % why)
        ctx.case(core.dumps(case), False)
        return
    key = core.digest(data, opt)
    tmp = None
    if path is None:
        path = tmp = write_tmp(data)
    try:
        rc, gnu_out = run_gnu(path, opt)
        if rc != 0:
            ctx.count('oracle.rc_nonzero')
            ctx.count('oracle.rc_nonzero|%s' % optkey(opt))
            ctx.case(key, False)
            return
        try:
            clone_out = run_clone(path, opt)
        except core.HarnessError:
            raise
        except Exception as e:  # what main() would turn into "ELF error" + exit 1, or a traceback
            ctx.count('clone.exception')
            ctx.fail_exc('clone.exception|%s' % optkey(opt), e, case, extra=tag)
            ctx.case(key, False)
            return
    finally:
        if tmp is not None:
            try:
                os.unlink(tmp)
            except OSError:
                pass
    ctx.count('opt.%s' % optkey(opt))
    n = compare(ctx, case, opt, gnu_out, clone_out, what=what, mark=mark, tag=tag, info=info)
    if n >= 3:
        ctx.count('nontrivial.%s' % kind)
    ctx.case(key, n >= 3, {'kind': kind, 'opt': opt, 'what': what or case.get('file'), 'lines': n,
                           'file_hex': data[:96].hex() if kind != 'corpus' else None})


# ---------------------------------------------------------------------------
# (ii) synthesized files: one per entry of the clone's description tables

CELLS = [(64, True), (32, True), (64, False), (32, False)]

# hand-written machine numbers (gABI / psABI registries), used for the files the sweep builds
EM = dict(NONE=0, I386=3, MIPS=8, PPC=20, PPC64=21, S390=22, ARM=40, X86_64=62, AARCH64=183, RISCV=243, LOONGARCH=258)

SHT_NULL, SHT_PROGBITS, SHT_SYMTAB, SHT_STRTAB, SHT_RELA, SHT_HASH, SHT_DYNAMIC, SHT_NOTE, SHT_NOBITS, SHT_REL = range(10)
SHT_DYNSYM, SHT_SYMTAB_SHNDX, SHT_RELR = 11, 18, 19
SHT_GNU_HASH, SHT_GNU_verdef, SHT_GNU_verneed, SHT_GNU_versym = 0x6ffffff6, 0x6ffffffd, 0x6ffffffe, 0x6fffffff
SHT_SUNW_LDYNSYM, SHT_SUNW_syminfo = 0x6ffffff3, 0x6ffffffc
SHT_PROC_ATTRIBUTES = 0x70000003
PT_LOAD, PT_DYNAMIC = 1, 2
SHF_WRITE, SHF_ALLOC, SHF_EXECINSTR = 1, 2, 4


def sec(name, typ, flags=0, addr=0, link=0, info=0, align=1, entsize=0, data=b'', **kw):
    d = dict(name=name, sh_type=typ, sh_flags=flags, sh_addr=addr, sh_link=link, sh_info=info, sh_addralign=align,
             sh_entsize=entsize, data=data)
    d.update(kw)
    return d


def elf_model(cls, le, machine, secs, segs=(), e_type=1, osabi=0, e_flags=0, e_entry=0, abiver=0, e_version=1,
              ei_version=1):
    sections = [dict(name='', sh_type=0, data=None)] + list(secs) + [sec('.shstrtab', SHT_STRTAB)]
    return {'cls': cls, 'le': le, 'osabi': osabi, 'abiver': abiver, 'ei_version': ei_version, 'e_type': e_type,
            'e_machine': machine, 'e_version': e_version, 'e_entry': e_entry, 'e_flags': e_flags,
            'sections': sections, 'segments': list(segs), 'shstrndx': len(sections) - 1}


def text_sec():
    return sec('.text', SHT_PROGBITS, SHF_ALLOC | SHF_EXECINSTR, addr=0x1000, align=4, data=b'\x90\x90\x90\xc3')


def synth(opt, what, mark, model):
    return {'kind': 'synth', 'opt': opt, 'what': what, 'mark': mark, 'model': model}


def tables():
    """The clone's tables (names -> codes), imported from the tree under test."""
    core.use_repo()
    import elftools.elf.enums as en
    import elftools.elf.constants as co
    import elftools.elf.descriptions as de
    return en, co, de


def enum_items(d):
    return sorted(((k, v) for k, v in d.items() if isinstance(v, int) and not k.startswith('_')), key=lambda kv: (kv[1], kv[0]))


def uniq_codes(d):
    """[(code, 'NAME1/NAME2')] sorted by code"""
    by = {}
    for k, v in enum_items(d):
        by.setdefault(v, []).append(k)
    return [(v, '/'.join(sorted(ks))) for v, ks in sorted(by.items())]


# ---- -h

def header_cases():
    en, co, de = tables()
    out = []
    n = 0
    for code, name in uniq_codes(en.ENUM_E_MACHINE):
        cls, le = CELLS[n % 4]
        n += 1
        out.append(synth('-h', 'e_machine|%s(%d)' % (name, code), r'^\s*machine:',
                         elf_model(cls, le, code, [text_sec()])))
    osabi_machines = [('EM_X86_64', EM['X86_64']), ('EM_ARM', EM['ARM']), ('EM_MSP430', 105)]
    for code, name in uniq_codes(en.ENUM_EI_OSABI):
        for mname, m in osabi_machines:
            cls, le = (32, True) if m == EM['ARM'] else (64, True)
            out.append(synth('-h', 'ei_osabi|m=%s|%s(%d)' % (mname, name, code), r'^\s*os/abi:',
                             elf_model(cls, le, m, [text_sec()], osabi=code,
                                       e_flags=0x05000000 if m == EM['ARM'] else 0)))
    for code, name in uniq_codes(en.ENUM_E_TYPE) + [(0xfe00, 'ET_LOOS'), (0xfeff, 'ET_HIOS'), (5, 'unassigned'), (0xff80, 'proc')]:
        if code == 3:
            continue   # ET_DYN: see dyn_type_cases (needs a dynamic section to be well formed)
        cls, le = CELLS[n % 4]
        n += 1
        out.append(synth('-h', 'e_type|%s(0x%x)' % (name, code), r'^\s*type:',
                         elf_model(cls, le, EM['X86_64'], [text_sec()], e_type=code)))
    # ET_DYN with a dynamic section, with and without DF_1_PIE, and (well formed, too) without any dynamic section
    for pie in (False, True):
        for cls, le in ((64, True), (32, False)):
            out.append(synth('-h', 'e_type|ET_DYN(3)|pie=%d' % pie, r'^\s*type:', dyn_model(
                cls, le, EM['X86_64'] if cls == 64 else EM['I386'], [(0x6ffffffb, 0x08000001 if pie else 1)], e_type=3,
                with_segment=True)))
    out.append(synth('-h', 'e_type|ET_DYN(3)|no_dynamic_section', r'^\s*type:',
                     elf_model(64, True, EM['X86_64'], [text_sec()], e_type=3)))
    for ev in (0, 1):
        out.append(synth('-h', 'e_version|%d' % ev, r'^\s*version:', elf_model(64, True, EM['X86_64'], [text_sec()], e_version=ev)))
    for ev in (0, 1):
        out.append(synth('-h', 'ei_version|%d' % ev, r'^\s*version:', elf_model(32, True, EM['I386'], [text_sec()], ei_version=ev)))
    for abiver in (0, 1, 255):
        out.append(synth('-h', 'ei_abiversion|%d' % abiver, r'^\s*abi version:', elf_model(64, False, EM['PPC64'], [text_sec()], abiver=abiver)))
    # e_flags: the values of the library's own E_FLAGS / E_FLAGS_MASKS constants per machine (the clone's envelope), alone
    # and - for ARM, whose flags are only decoded under EABI version 5 - together with EF_ARM_EABI_VER5, plus a few
    # typical combinations of those constants; 0 for every machine
    def consts(prefixes):
        vals = set()
        for klass in (co.E_FLAGS, co.E_FLAGS_MASKS):
            for k, v in vars(klass).items():
                if isinstance(v, int) and k.startswith(prefixes) and 'MASK' not in k and \
                        k not in ('EF_MIPS_ARCH', 'EF_RISCV_FLOAT_ABI', 'EFM_MIPS_ABI'):
                    vals.add(v)
        return sorted(vals)
    ef = []
    armc = consts(('EF_ARM_',))
    arm = set([0] + armc + [v | 0x05000000 for v in armc if v < 0x01000000] + [0x05800400, 0x05400200])
    # every pair of the flags the clone decodes under EABI version 5 (a flag must not change how another one is described)
    low = [v for v in armc if v < 0x01000000]
    arm |= {a | b | 0x05000000 for i, a in enumerate(low) for b in low[i + 1:]}
    ef += [('EM_ARM', EM['ARM'], 32, v) for v in sorted(arm)]
    ef += [('EM_PPC64', EM['PPC64'], 64, v) for v in sorted(set([0] + consts(('EF_PPC64_',))))]
    mips = set([0] + consts(('EF_MIPS_', 'EFM_MIPS_')) + [0x70001007, 0x80000027, 0x50001105, 0x10000001, 0x60000024])
    ef += [('EM_MIPS', EM['MIPS'], 32, v) for v in sorted(mips)]
    ef += [('EM_MIPS', EM['MIPS'], 64, v) for v in (0, 0x80000007, 0x20000024, 0x60000001)]
    riscv = set([0] + consts(('EF_RISCV_',)) + [5, 0x1b, 3])
    ef += [('EM_RISCV', EM['RISCV'], 64, v) for v in sorted(riscv)]
    ef += [('EM_RISCV', EM['RISCV'], 32, v) for v in (0, 1, 9)]
    la = set([0] + consts(('EF_LOONGARCH_',)) + [0x41, 0x42, 0x43])
    ef += [('EM_LOONGARCH', EM['LOONGARCH'], 64, v) for v in sorted(la)]
    ef += [('EM_LOONGARCH', EM['LOONGARCH'], 32, v) for v in (0, 0x41)]
    ef += [('EM_X86_64', EM['X86_64'], 64, v) for v in (0, 1, 0xffffffff)]
    ef += [('EM_AARCH64', EM['AARCH64'], 64, v) for v in (0, 1)]
    ef += [('EM_386', EM['I386'], 32, v) for v in (0, 0x80000000)]
    for mname, m, cls, v in ef:
        out.append(synth('-h', 'e_flags|m=%s|c=%d|0x%x' % (mname, cls, v), r'^\s*flags:',
                         elf_model(cls, True, m, [text_sec()], e_flags=v)))
    return out


# ---- -S

def strtab_symtab(cls, le, names=()):
    """-> [.strtab, .symtab] with a null symbol only (+ names as global NOTYPE symbols in section 1)"""
    blob, offs = W.build_strtab(list(names))
    syms = W.enc_sym(cls, le, 0, 0, 0, 0, 0, 0)
    for nm in names:
        syms += W.enc_sym(cls, le, offs[nm], 0x1000, 0, 0x10, 0, 1)
    return blob, offs, syms


def sh_payload(cls, le, typ, machine_name):
    """Well-formed minimal payload for a section of the given type in the -S file, whose fixed neighbours are
    [1]=target  [2]=.strtab  [3]=.symtab(link 2)  -> dict(link, info, entsize, data, align)"""
    word = 4 if cls == 32 else 8
    symsz, dynsz = W.SYM_SIZE[cls], W.DYN_SIZE[cls]
    if typ in (SHT_SYMTAB, SHT_DYNSYM, SHT_SUNW_LDYNSYM):
        return dict(link=2, info=1, entsize=symsz, data=W.enc_sym(cls, le, 0, 0, 0, 0, 0, 0), align=word)
    if typ == SHT_STRTAB:
        return dict(data=b'\0c18\0')
    if typ == SHT_RELA:
        return dict(link=3, info=0, entsize=3 * word, data=b'', align=word)
    if typ == SHT_REL:
        return dict(link=3, info=0, entsize=2 * word, data=b'', align=word)
    if typ == SHT_RELR:
        return dict(entsize=word, data=b'', align=word)
    if typ == SHT_HASH:
        return dict(link=3, entsize=4, data=W.enc_sysv_hash(le, [b''], 1), align=word)
    if typ == SHT_GNU_HASH:
        return dict(link=3, data=W.enc_gnu_hash(cls, le, [b''], 1, 1, 1, 0), align=word)
    if typ == SHT_DYNAMIC:
        return dict(link=2, entsize=dynsz, data=W.enc_dyn(cls, le, 0, 0), align=word)
    if typ == SHT_NOTE:
        return dict(data=W.enc_note(le, b'GNU\0', b'\x01' * 20, 3), align=4)
    if typ == SHT_SYMTAB_SHNDX:
        return dict(link=3, entsize=4, data=struct.pack(W.E(le) + 'I', 0), align=4)
    if typ == SHT_GNU_versym:
        return dict(link=3, entsize=2, data=struct.pack(W.E(le) + 'H', 0), align=2)
    if typ in (SHT_GNU_verdef, SHT_GNU_verneed):
        return dict(link=2, info=0, data=b'', align=word)
    if typ == SHT_SUNW_syminfo:
        return dict(link=3, entsize=4, data=b'\0\0\0\0', align=4)
    if typ == SHT_PROC_ATTRIBUTES and machine_name in ('EM_ARM', 'EM_RISCV'):
        vendor = b'aeabi\0' if machine_name == 'EM_ARM' else b'riscv\0'
        sub = b'\x01' + struct.pack(W.E(le) + 'I', 5)
        return dict(data=b'A' + struct.pack(W.E(le) + 'I', 4 + len(vendor) + len(sub)) + vendor + sub)
    if typ == SHT_NOBITS:
        return dict(data=b'', size_override=0x20)
    if typ == 17:       # SHT_GROUP: flag word + one member, signature = symbol 0 of .symtab
        return dict(link=3, info=0, entsize=4, data=struct.pack(W.E(le) + 'II', 1, 2), align=4)
    return dict(data=b'\x00\x01\x02\x03\x04\x05\x06\x07')


def section_file(cls, le, machine, mname, typ, flags, osabi=0):
    p = sh_payload(cls, le, typ, mname)
    if flags & 0x800 and typ == SHT_PROGBITS:      # SHF_COMPRESSED: a real compression header + zlib stream
        raw = bytes(range(64))
        p = dict(p, data=W.enc_chdr(cls, le, 1, len(raw), 1) + zlib.compress(raw), align=4 if cls == 32 else 8)
    extra = {}
    if 'size_override' in p:
        extra['size_override'] = p['size_override']
    blob, offs, syms = strtab_symtab(cls, le)
    target = sec('.c18t', typ, flags, addr=0xc18000 if flags & SHF_ALLOC else 0, link=p.get('link', 0),
                 info=p.get('info', 0), align=p.get('align', 1), entsize=p.get('entsize', 0), data=p['data'], **extra)
    secs = [target, sec('.strtab', SHT_STRTAB, data=blob),
            sec('.symtab', SHT_SYMTAB, link=2, info=1, entsize=W.SYM_SIZE[cls], align=4 if cls == 32 else 8, data=syms)]
    return elf_model(cls, le, machine, secs, osabi=osabi, e_flags=0x05000000 if machine == EM['ARM'] else 0)


def section_cases():
    en, co, de = tables()
    out = []
    per_machine = [('EM_386', EM['I386'], en.ENUM_SH_TYPE_BASE), ('EM_X86_64', EM['X86_64'], en.ENUM_SH_TYPE_AMD64),
                   ('EM_ARM', EM['ARM'], en.ENUM_SH_TYPE_ARM), ('EM_AARCH64', EM['AARCH64'], en.ENUM_SH_TYPE_AARCH64),
                   ('EM_MIPS', EM['MIPS'], en.ENUM_SH_TYPE_MIPS), ('EM_RISCV', EM['RISCV'], en.ENUM_SH_TYPE_RISCV)]
    natural = {'EM_386': 32, 'EM_X86_64': 64, 'EM_ARM': 32, 'EM_AARCH64': 64, 'EM_MIPS': 32, 'EM_RISCV': 64}
    base_codes = set(v for _k, v in enum_items(en.ENUM_SH_TYPE_BASE))
    n = 0
    for mname, m, table in per_machine:
        for code, name in uniq_codes(table):
            if mname not in ('EM_386', 'EM_X86_64') and code in base_codes and code < 0x60000000 and code not in (0, 1):
                continue    # the generic low codes are exercised on the two x86 machines (both classes)
            classes = (32, 64) if (mname in ('EM_386', 'EM_X86_64', 'EM_MIPS') or code >= 0x70000000) else (natural[mname],)
            if mname == 'EM_386':
                classes = (32,)
            if mname == 'EM_X86_64':
                classes = (64,)
            for cls in classes:
                le = (n % 3 != 2) if mname in ('EM_ARM', 'EM_MIPS') else True
                n += 1
                what = 'sh_type|m=%s|%s(0x%x)' % (mname, name, code) if code >= 0x70000000 else 'sh_type|%s(0x%x)' % (name, code)
                out.append(synth('-S', what, r'\.c18t', section_file(cls, le, m, mname, code, 0)))
    # unnamed codes next to the named ranges: the fall-through texts of describe_sh_type
    for mname, m, cls in (('EM_X86_64', EM['X86_64'], 64), ('EM_ARM', EM['ARM'], 32)):
        for code in (12, 13, 20, 0x5fffffff, 0x60000001, 0x6fffff00, 0x6ffffff4, 0x6ffffff8, 0x6ffffffb, 0x70000000,
                     0x70000005, 0x7fffffff, 0x80000001):
            out.append(synth('-S', 'sh_type|m=%s|c=%d|unnamed(0x%x)' % (mname, cls, code), r'\.c18t',
                             section_file(cls, True, m, mname, code, 0)))
    # flags: every entry of the clone's _DESCR_SH_FLAGS and every single-bit SH_FLAGS constant of the library alone, the
    # two masks through representative values, and combinations of those bits.  Bits nobody names are outside the envelope,
    # and so are the GNU/x86-64 specific meanings of bits inside the masks (mbind, retain, large).
    known = set(k for k in de._DESCR_SH_FLAGS if isinstance(k, int))
    known |= set(v for k, v in vars(co.SH_FLAGS).items() if k.startswith('SHF_') and isinstance(v, int))
    single = sorted(v for v in known if v and v & (v - 1) == 0)
    combos = [0, 3, 6, 7, 0x30, 0x32, 0x42, 0x82, 0x202, 0x403, 0x7f7, 0x80000002, 0x00100000, 0x0ff00000, 0x40000000,
              0x0ff007f7, 0x8ff007f7, 0xc0000000]
    for mname, m, cls in (('EM_X86_64', EM['X86_64'], 64), ('EM_ARM', EM['ARM'], 32), ('EM_386', EM['I386'], 32)):
        vals = single + combos + ([0x20000000, 0x70000000] if mname != 'EM_X86_64' else [])
        for v in vals:
            what = 'sh_flags|0x%x' % v if not (mname == 'EM_ARM' and v & 0x20000000) else 'sh_flags|m=%s|0x%x' % (mname, v)
            out.append(synth('-S', what, r'\.c18t', section_file(cls, True, m, mname, SHT_PROGBITS, v)))
    # numeric columns of one entry: link/info/align/entsize/size/offset widths
    for cls, le in CELLS:
        big = (1 << cls) - 1
        for i, (addr, size, es, lk, inf, al) in enumerate([
                (0, 0, 0, 0, 0, 0), (0x1234, 0x10, 1, 2, 3, 4), (big, 0x123456, 0xff, 3, 0xffff, 0x1000),
                (0x80000000, 0xfffff, 0x100, 2, 0x10000, 1 << (cls - 1)), (0xabcdef, 0x7654321, 0x18, 1, 999, 16)]):
            t = sec('.c18t', SHT_NOBITS, 3, addr=addr, link=lk, info=inf, align=al, entsize=es, data=b'', size_override=size)
            out.append(synth('-S', 'sh_numeric|c=%d|le=%d|row=%d' % (cls, le, i), r'\.c18t',
                             elf_model(cls, le, EM['X86_64'] if cls == 64 else EM['I386'], [t, sec('.b', SHT_PROGBITS, data=b'x'), sec('.c', SHT_PROGBITS, data=b'y')])))
    # long / odd section names
    for nm in ('.c18t_a_rather_long_section_name', '.c18t.exactly17ch', '.c18t.sixteen_ch'):
        t = sec(nm, SHT_PROGBITS, 2, addr=0x2000, data=b'abcd')
        for cls in (32, 64):
            out.append(synth('-S', 'sh_name|c=%d|len=%d' % (cls, len(nm)), r'\.c18t',
                             elf_model(cls, True, EM['X86_64'] if cls == 64 else EM['I386'], [t])))
    return out


# ---- -l

def segment_file(cls, le, machine, p_type, p_flags, e_type=2, blob=b'/lib/ld-c18.so.1\0'):
    secs = [text_sec(), sec('.c18d', SHT_PROGBITS, SHF_ALLOC, addr=0xc18000, align=1, data=blob)]
    segs = [
        {'p_type': PT_LOAD, 'p_flags': 5, 'p_offset': ['sec_off', 1, 0], 'p_vaddr': 0x1000, 'p_paddr': 0x1000,
         'p_filesz': ['sec_size', 1, 0], 'p_memsz': ['sec_size', 1, 0], 'p_align': 0x1000},
        {'p_type': p_type, 'p_flags': p_flags, 'p_offset': ['sec_off', 2, 0], 'p_vaddr': 0xc18000, 'p_paddr': 0xc18000,
         'p_filesz': ['sec_size', 2, 0], 'p_memsz': ['sec_size', 2, 0], 'p_align': 1},
    ]
    return elf_model(cls, le, machine, secs, segs, e_type=e_type, e_entry=0x1000,
                     e_flags=0x05000000 if machine == EM['ARM'] else 0)


def segment_cases():
    en, co, de = tables()
    out = []
    per_machine = [('EM_386', EM['I386'], en.ENUM_P_TYPE_BASE, 32), ('EM_X86_64', EM['X86_64'], en.ENUM_P_TYPE_BASE, 64),
                   ('EM_ARM', EM['ARM'], en.ENUM_P_TYPE_ARM, 32), ('EM_AARCH64', EM['AARCH64'], en.ENUM_P_TYPE_AARCH64, 64),
                   ('EM_MIPS', EM['MIPS'], en.ENUM_P_TYPE_MIPS, 32), ('EM_MIPS', EM['MIPS'], en.ENUM_P_TYPE_MIPS, 64),
                   ('EM_RISCV', EM['RISCV'], en.ENUM_P_TYPE_RISCV, 64), ('EM_RISCV', EM['RISCV'], en.ENUM_P_TYPE_RISCV, 32)]
    base_codes = set(v for _k, v in enum_items(en.ENUM_P_TYPE_BASE))
    n = 0
    for mname, m, table, cls in per_machine:
        codes = uniq_codes(table)
        if mname in ('EM_386', 'EM_X86_64'):
            # codes nobody names: the fall-through texts (one root cause per range => one key per range)
            codes += [(8, 'unnamed'), (0x60000001, 'unnamed_os'), (0x6ffffffa, 'unnamed_os'), (0x70000000, 'unnamed_proc'),
                      (0x7fffffff, 'unnamed_proc'), (0x80000000, 'unnamed'), (0xffffffff, 'unnamed')]
        for code, name in codes:
            if mname not in ('EM_386', 'EM_X86_64') and code in base_codes and code not in (1,):
                continue
            le = (n % 3 != 2) if mname in ('EM_ARM', 'EM_MIPS') else True
            n += 1
            what = 'p_type|m=%s|%s(0x%x)' % (mname, name, code)
            if name.startswith('unnamed'):
                what = 'p_type|%s' % name
            elif code < 0x70000000:
                what = 'p_type|%s(0x%x)' % (name, code)
            out.append(synth('-l', what, r'c18000', segment_file(cls, le, m, code, 4)))
    for cls, le in CELLS:
        m = EM['X86_64'] if cls == 64 else EM['I386']
        for fl in list(range(8)) + [8, 0x00100000, 0x0ff00000, 0x10000000, 0xf0000000, 0xffffffff, 0xfffffff8]:
            out.append(synth('-l', 'p_flags|c=%d|le=%d|0x%x' % (cls, le, fl), r'c18000', segment_file(cls, le, m, PT_LOAD, fl)))
    # the interpreter path is the NUL-terminated string at the start of the segment, whatever else the extent holds behind the terminator
    for cls, le in CELLS:
        m = EM['X86_64'] if cls == 64 else EM['I386']
        for k, blob in enumerate((b'/lib/ld.so\0nux-x86-64.so.2\0', b'/lib/ld-c18.so.1\0\0\0\0', b'/' + b'd' * 200 + b'/ld.so\0', b'a\0b\0c\0',
                                  b'/lib/ld-c18.so.1\0\xff\xfe garbage')):
            out.append(synth('-l', 'interp|content=%d' % k, r'c18000|nterpreter', segment_file(cls, le, m, 3, 4, blob=blob)))
    # count wording and numeric columns
    for cls in (32, 64):
        m = EM['X86_64'] if cls == 64 else EM['I386']
        big = (1 << cls) - 1
        one = elf_model(cls, True, m, [text_sec()], [{'p_type': PT_LOAD, 'p_flags': 5, 'p_offset': ['sec_off', 1, 0], 'p_vaddr': 0xc18000,
                        'p_paddr': 0xc18000, 'p_filesz': 4, 'p_memsz': 4, 'p_align': 4}], e_type=2, e_entry=0xc18000)
        out.append(synth('-l', 'ph_count|c=%d|n=1' % cls, r'c18000', one))
        for i, (off, va, pa, fs, ms, al) in enumerate([(0, 0xc18000, 0, 0, 0, 0), (0x123456, 0xc18000, big, 0x100000, 0x1234567, 0x10000),
                                                      (big, 0xc18000, 0x80000000, big, big, big), (1, 0xc18000, 2, 0xfffff, 0xffffff, 1 << (cls - 1))]):
            segs = [{'p_type': PT_LOAD, 'p_flags': 6, 'p_offset': off, 'p_vaddr': va, 'p_paddr': pa, 'p_filesz': fs, 'p_memsz': ms, 'p_align': al},
                    {'p_type': PT_LOAD, 'p_flags': 5, 'p_offset': ['sec_off', 1, 0], 'p_vaddr': 0x1000, 'p_paddr': 0x1000,
                     'p_filesz': ['sec_size', 1, 0], 'p_memsz': ['sec_size', 1, 0], 'p_align': 0x1000}]
            out.append(synth('-l', 'ph_numeric|c=%d|row=%d' % (cls, i), r'c18000', elf_model(cls, cls == 64, m, [text_sec()], segs, e_type=2, e_entry=big)))
        # no sections / no segments
        out.append(synth('-l', 'ph_none|c=%d' % cls, r'c18000', elf_model(cls, True, m, [text_sec()], [], e_type=1)))
        # section-to-segment mapping at the edges of a segment: empty sections at the start, at the end of the file extent (with and without
        # a memory-only tail) and at the end of the memory extent
        for gi, (memsz_extra, bss) in enumerate(((0x20, True), (0, False), (0x20, False))):
            secs = [text_sec(), sec('.c18first', SHT_PROGBITS, 3, addr=0xc18000, data=b''),
                    sec('.c18data', SHT_PROGBITS, 3, addr=0xc18000, data=bytes(range(16))),
                    sec('.c18empty', SHT_PROGBITS, 3, addr=0xc18010, data=b'')]
            if bss:
                secs.append(sec('.c18bss', SHT_NOBITS, 3, addr=0xc18010, data=b'', size_override=0x20))
            secs.append(sec('.c18last', SHT_PROGBITS, 3, addr=0xc18010 + memsz_extra, data=b''))
            segs = [{'p_type': PT_LOAD, 'p_flags': 5, 'p_offset': ['sec_off', 1, 0], 'p_vaddr': 0x1000, 'p_paddr': 0x1000,
                     'p_filesz': ['sec_size', 1, 0], 'p_memsz': ['sec_size', 1, 0], 'p_align': 0x1000},
                    {'p_type': PT_LOAD, 'p_flags': 6, 'p_offset': ['sec_off', 3, 0], 'p_vaddr': 0xc18000, 'p_paddr': 0xc18000,
                     'p_filesz': 16, 'p_memsz': 16 + memsz_extra, 'p_align': 1}]
            out.append(synth('-l', 'mapping|edge-sections|c=%d|geometry=%d' % (cls, gi), r'c18', elf_model(cls, True, m, secs, segs, e_type=2, e_entry=0x1000)))
    return out


# ---- -s

def symbol_file(cls, le, machine, st_info, st_other, st_shndx, value=0xc18, size=8, osabi=0, name='c18sym', dyn=False,
                shndx_table=None, e_flags=None):
    blob, offs = W.build_strtab([name, 'fill_a', 'fill_b'])
    syms = W.enc_sym(cls, le, 0, 0, 0, 0, 0, 0) + W.enc_sym(cls, le, offs[name], value, size, st_info, st_other, st_shndx)
    syms += W.enc_sym(cls, le, offs['fill_a'], 0x1000, 4, 0x12, 0, 1) + W.enc_sym(cls, le, offs['fill_b'], 0, 0, 0x10, 0, 0)
    word = 4 if cls == 32 else 8
    secs = [text_sec(), sec('.dynstr' if dyn else '.strtab', SHT_STRTAB, data=blob),
            sec('.dynsym' if dyn else '.symtab', SHT_DYNSYM if dyn else SHT_SYMTAB, SHF_ALLOC if dyn else 0, link=2, info=1,
                entsize=W.SYM_SIZE[cls], align=word, data=syms)]
    if shndx_table is not None:
        secs.append(sec('.symtab_shndx', SHT_SYMTAB_SHNDX, link=3, entsize=4, align=4,
                        data=struct.pack(W.E(le) + '4I', *(list(shndx_table) + [0, 0]))))
    if e_flags is None:
        e_flags = 0x05000000 if machine == EM['ARM'] else 0
    return elf_model(cls, le, machine, secs, osabi=osabi, e_flags=e_flags)


def symbol_cases():
    en, co, de = tables()
    out = []
    tnames = dict((v, k) for k, v in reversed(enum_items(en.ENUM_ST_INFO_TYPE)))
    bnames = dict((v, k) for k, v in reversed(enum_items(en.ENUM_ST_INFO_BIND)))
    vnames = dict((v, k) for k, v in reversed(enum_items(en.ENUM_ST_VISIBILITY)))
    machines = [('EM_X86_64', EM['X86_64'], 64, 0), ('EM_ARM', EM['ARM'], 32, 0), ('EM_386', EM['I386'], 32, 3)]
    for mname, m, cls, osabi in machines:
        for t in range(16):
            out.append(synth('-s', ('st_type|%s(%d)' % (tnames.get(t, 'unnamed'), t)) if t < 10 else
                             ('st_type|m=%s|osabi=%d|%s(%d)' % (mname, osabi, tnames.get(t, 'unnamed'), t)), r'c18sym',
                             symbol_file(cls, True, m, (1 << 4) | t, 0, 1, osabi=osabi)))
        for b in range(16):
            out.append(synth('-s', ('st_bind|%s(%d)' % (bnames.get(b, 'unnamed'), b)) if b < 10 else
                             ('st_bind|m=%s|osabi=%d|%s(%d)' % (mname, osabi, bnames.get(b, 'unnamed'), b)), r'c18sym',
                             symbol_file(cls, True, m, (b << 4) | 1, 0, 1, osabi=osabi)))
    for mname, m, cls in (('EM_X86_64', EM['X86_64'], 64), ('EM_386', EM['I386'], 32)):
        for v in range(8):
            out.append(synth('-s', 'st_visibility|%s(%d)' % (vnames.get(v, 'unnamed'), v), r'c18sym',
                             symbol_file(cls, cls == 64, m, 0x12, v, 1)))
    # st_other bits 5-7: the clone describes them (describe_symbol_local) as the PPC64 ELFv2 local entry offset; values 1..6
    # are assigned by that psABI, so only PPC64 files carry them here (other machines give the bits other meanings)
    for hi in range(1, 7):
        for vis in (0, 2):
            out.append(synth('-s', 'st_other_local|m=EM_PPC64|%d' % hi, r'c18sym',
                             symbol_file(64, hi % 2 == 0, EM['PPC64'], 0x12, (hi << 5) | vis, 1, e_flags=2)))
    # section index column: the clone's table (UND/ABS/COM), ordinary indices; reserved processor/OS indices are features
    # the clone does not claim to describe
    sh = [(0, 'SHN_UNDEF'), (1, 'index'), (3, 'index_last'), (0xfff1, 'SHN_ABS'), (0xfff2, 'SHN_COMMON')]
    for mname, m, cls in (('EM_X86_64', EM['X86_64'], 64), ('EM_MIPS', EM['MIPS'], 32), ('EM_386', EM['I386'], 32)):
        for code, name in sh:
            out.append(synth('-s', 'st_shndx|%s(0x%x)' % (name, code), r'c18sym',
                             symbol_file(cls, True, m, 0x11, 0, code)))
    for cls, le in CELLS:
        m = EM['X86_64'] if cls == 64 else EM['I386']
        out.append(synth('-s', 'st_shndx|c=%d|le=%d|SHN_XINDEX(0xffff)' % (cls, le), r'c18sym',
                         symbol_file(cls, le, m, 0x11, 0, 0xffff, shndx_table=[0, 1])))
        big = (1 << cls) - 1
        for i, (val, size) in enumerate([(0, 0), (big, 99999), (0x1234, 100000), (1 << (cls - 1), big), (7, 1234567)]):
            out.append(synth('-s', 'st_numeric|c=%d|le=%d|row=%d' % (cls, le, i), r'c18sym',
                             symbol_file(cls, le, m, 0x12, 0, 1, value=val, size=size)))
        out.append(synth('-s', 'st_section_sym|c=%d|le=%d' % (cls, le), r'^\s*1:',
                         symbol_file(cls, le, m, 0x03, 0, 1, value=0, size=0, name='')))
        out.append(synth('-s', 'dynsym|c=%d|le=%d' % (cls, le), r'c18sym', symbol_file(cls, le, m, 0x12, 0, 1, dyn=True)))
    # GNU readelf 2.40 prints names of up to 21 characters in full and longer ones as 16 characters + "[...]" (the project's
    # comparison then only looks at what precedes the dots): the boundary lengths, in both classes
    for nm in ('c18sym_with_a_name_of_more_than_25_characters', 'c18sym_exactly_25_chars__', 'c18sym\x01\x1f', 'c18sym@plt',
               'c18sym_twenty_one_chr', 'c18sym_twenty_two_chrs', 'c18sym_twenty_chars_'):
        for cls in (64, 32):
            out.append(synth('-s', 'st_name|len=%d' % len(nm), r'c18sym',
                             symbol_file(cls, True, EM['X86_64'] if cls == 64 else EM['I386'], 0x12, 0, 1, name=nm)))
    return out


# ---- -d

def dyn_model(cls, le, machine, tags, osabi=0, e_type=3, with_segment=True, strings=('libc18.so.1',)):
    """tags: [(tag, val | ('str', name))]; DT_STRTAB/DT_STRSZ (when with_segment) and DT_NULL are appended.
    with_segment: PT_LOAD maps the whole file at vaddr == file offset, PT_DYNAMIC covers .dynamic."""
    blob, offs = W.build_strtab(list(strings))
    word = 4 if cls == 32 else 8

    def build_model(addr):
        dyn = b''
        for t, v in tags:
            if isinstance(v, (tuple, list)):
                v = offs[v[1]]
            dyn += W.enc_dyn(cls, le, t if t < (1 << 63) else t - (1 << 64), v)
        if with_segment:
            dyn += W.enc_dyn(cls, le, 5, addr[2]) + W.enc_dyn(cls, le, 10, len(blob))
        dyn += W.enc_dyn(cls, le, 0, 0)
        secs = [sec('.text', SHT_PROGBITS, SHF_ALLOC | SHF_EXECINSTR, addr=addr[1], align=4, data=b'\x90\x90\x90\xc3', file_align=4),
                sec('.dynstr', SHT_STRTAB, SHF_ALLOC, addr=addr[2], data=blob),
                sec('.dynamic', SHT_DYNAMIC, SHF_ALLOC | SHF_WRITE, addr=addr[3], link=2, entsize=W.DYN_SIZE[cls], align=word,
                    data=dyn, file_align=8)]
        segs = []
        if with_segment:
            segs = [{'p_type': PT_LOAD, 'p_flags': 7, 'p_offset': 0, 'p_vaddr': 0, 'p_paddr': 0, 'p_filesz': ['file_len', 0],
                     'p_memsz': ['file_len', 0], 'p_align': 0x1000},
                    {'p_type': PT_DYNAMIC, 'p_flags': 6, 'p_offset': ['sec_off', 3, 0], 'p_vaddr': ['sec_off', 3, 0],
                     'p_paddr': ['sec_off', 3, 0], 'p_filesz': ['sec_size', 3, 0], 'p_memsz': ['sec_size', 3, 0], 'p_align': word}]
        return elf_model(cls, le, machine, secs, segs, e_type=e_type, osabi=osabi,
                         e_flags=0x05000000 if machine == EM['ARM'] else 0)

    if not with_segment:
        return build_model([0, 0x1000, 0x2000, 0x3000])
    _d, R = W.build(build_model([0] * 4))
    return build_model([h['sh_offset'] for h in R['sh'][:4]])


STRING_TAGS = (1, 14, 15, 29, 0x7ffffffd, 0x7fffffff, 0x6ffffefa, 0x6ffffefb, 0x6ffffefc, 0x6000000d, 0x6000000f)
# realistic values for tags whose value is not an address/size: flags words with named bits only, value-less marker tags = 0
TAG_VALUES = {16: 0, 22: 0, 24: 0, 21: 0, 20: 7, 30: 0x8, 0x6ffffffb: 0x1, 0x70000005: 0x3}


def dynamic_cases():
    en, co, de = tables()
    out = []
    ctxs = [('generic', EM['X86_64'], 0, en.ENUM_D_TAG_COMMON, (64, 32)),
            ('EM_MIPS', EM['MIPS'], 0, en.ENUM_D_TAG_MIPS, (32, 64)),
            ('EM_AARCH64', EM['AARCH64'], 0, en.ENUM_D_TAG_AARCH64, (64,)),
            ('solaris', EM['X86_64'], 6, en.ENUM_D_TAG_SOLARIS, (64,))]
    n = 0
    for cname, m, osabi, table, classes in ctxs:
        for code, name in uniq_codes(table):
            if code == 0:
                continue
            for cls in classes:
                mm = m if not (cname == 'generic' and cls == 32) else EM['I386']
                le = (n % 4 != 3) if cname == 'EM_MIPS' else True
                n += 1
                val = ('str', 'libc18.so.1') if (code in STRING_TAGS or (cname == 'EM_MIPS' and code == 0x70000004)) else 0x1c18
                if not (cname == 'EM_AARCH64' and code == 0x70000005):
                    val = TAG_VALUES.get(code, val)
                fill = [(12, 0x40), (13, 0x44)]
                out.append(synth('-d', 'd_tag|%s|%s(0x%x)' % (cname, name, code), r'^\s*0x0*%x\s' % code,
                                 dyn_model(cls, le, mm, [(code, val)] + fill, osabi=osabi)))
    for code in (39, 0x70000001):      # a code nobody names: the fall-through of describe_dyn_tag
        out.append(synth('-d', 'd_tag|generic|unnamed(0x%x)' % code, r'^\s*0x0*%x\s' % code,
                         dyn_model(64, True, EM['X86_64'], [(code, 0x1c18), (12, 0x40), (13, 0x44)])))
    fl = [v for v, _n in uniq_codes(en.ENUM_DT_FLAGS)]
    for v in [0] + fl + [0x1f, 0x3]:
        out.append(synth('-d', 'dt_flags|0x%x' % v, r'^\s*0x0*1e\s', dyn_model(64, True, EM['X86_64'], [(30, v), (12, 0x40), (13, 0x44)])))
    fl1 = [v for v, _n in uniq_codes(en.ENUM_DT_FLAGS_1)]
    for v in [0] + fl1 + [0x3, 0x08000001, 0x0fffffff]:
        out.append(synth('-d', 'dt_flags_1|0x%x' % v, r'^\s*0x0*6ffffffb\s', dyn_model(64, True, EM['X86_64'], [(0x6ffffffb, v), (12, 0x40), (13, 0x44)], e_type=2)))
    rh = sorted(set(v for k, v in vars(co.RH_FLAGS).items() if k.startswith('RHF_')))
    for v in rh + [0x3, 0x7fff]:
        for cls in (32,):
            out.append(synth('-d', 'dt_mips_flags|0x%x' % v, r'^\s*0x0*70000005\s', dyn_model(cls, False, EM['MIPS'], [(0x70000005, v), (12, 0x40), (13, 0x44)])))
    for v in (7, 17, 0, 5):
        out.append(synth('-d', 'dt_pltrel|%d' % v, r'^\s*0x0*14\s', dyn_model(64, True, EM['X86_64'], [(20, v), (12, 0x40), (13, 0x44)])))
    # value formats of the size/count style tags in both classes + several entries
    for cls, le in CELLS:
        m = EM['X86_64'] if cls == 64 else EM['I386']
        big = (1 << cls) - 1
        tags = [(1, ('str', 'libc18.so.1')), (2, 0x18), (10, big), (11, 24), (0x6ffffff9, 3), (0x6ffffffd, 1), (12, big), (25, 0)]
        out.append(synth('-d', 'dyn_mixed|c=%d|le=%d' % (cls, le), r'^\s*0x', dyn_model(cls, le, m, tags)))
        out.append(synth('-d', 'dyn_none|c=%d|le=%d' % (cls, le), r'^\s*0x', elf_model(cls, le, m, [text_sec()])))
    return out


# ---- -n

def note_file(cls, le, machine, notes, secname='.note.c18', align=4, e_type=1):
    data = b''.join(notes)
    secs = [text_sec(), sec(secname, SHT_NOTE, SHF_ALLOC, addr=0x2000, align=align, data=data)]
    return elf_model(cls, le, machine, secs, e_type=e_type)


def enc_prop(cls, le, ptype, data):
    al = 4 if cls == 32 else 8
    b = struct.pack(W.E(le) + 'II', ptype, len(data)) + data
    return b + b'\0' * (-len(b) % al)


def note_cases():
    en, co, de = tables()
    out = []
    e = W.E
    for cls, le in ((64, True), (32, False)):
        m = EM['X86_64'] if cls == 64 else EM['I386']
        for code, name in uniq_codes(en.ENUM_NOTE_ABI_TAG_OS) + [(6, 'unnamed'), (0x100, 'unnamed')]:
            desc = struct.pack(e(le) + '4I', code, 2, 6, 32)
            out.append(synth('-n', 'note_abi_tag_os|%s(%d)' % (name, code), r'.',
                             note_file(cls, le, m, [W.enc_note(le, b'GNU\0', desc, 1)], '.note.ABI-tag')))
        out.append(synth('-n', 'note_type|NT_GNU_HWCAP(2)', r'.',
                         note_file(cls, le, m, [W.enc_note(le, b'GNU\0', struct.pack(e(le) + 'II', 1, 2) + b'\0hw\0', 2)])))
        for blen in (20, 16, 8, 1, 33):
            out.append(synth('-n', 'note_type|NT_GNU_BUILD_ID(3)|len=%d' % blen, r'.',
                             note_file(cls, le, m, [W.enc_note(le, b'GNU\0', bytes(range(0xa0, 0xa0 + blen)), 3)], '.note.gnu.build-id')))
        out.append(synth('-n', 'note_type|NT_GNU_GOLD_VERSION(4)', r'.',
                         note_file(cls, le, m, [W.enc_note(le, b'GNU\0', b'gold 1.18', 4)], '.note.gnu.gold-version')))
        for t in (0, 6, 0x7f):
            out.append(synth('-n', 'note_type|GNU|unnamed(0x%x)' % t, r'.',
                             note_file(cls, le, m, [W.enc_note(le, b'GNU\0', b'\x01\x02\x03\x04', t)])))
        # the one foreign owner the clone claims to describe
        d = struct.pack(e(le) + 'I', 0x18) + b'r25\0' + b'\0' * 8
        out.append(synth('-n', 'note_owner|Android|type=1', r'.', note_file(cls, le, m, [W.enc_note(le, b'Android\0', d, 1)], '.note.android.ident')))
    # GNU properties: every type of the clone's table with every bit of the clone's bit tables (and 0, and all of them);
    # data lengths are the ones the property ABI prescribes
    word = lambda cls: 'I' if cls == 32 else 'Q'
    bits = lambda table: [mk for mk, _t in table]
    props = []
    for cls, le, mname, m in ((64, True, 'EM_X86_64', EM['X86_64']), (32, True, 'EM_386', EM['I386'])):
        props.append((cls, le, mname, m, 'STACK_SIZE', 1, [struct.pack(e(le) + word(cls), v) for v in (0, 0x800000, 1)]))
        props.append((cls, le, mname, m, 'NO_COPY_ON_PROTECTED', 2, [b'']))
        for pname, pt, table in (('X86_FEATURE_1_AND', 0xc0000002, de._DESCR_NOTE_GNU_PROPERTY_X86_FEATURE_1_FLAGS),
                                 ('X86_ISA_1_NEEDED', 0xc0008002, de._DESCR_NOTE_GNU_PROPERTY_X86_ISA_1_FLAGS),
                                 ('X86_FEATURE_2_USED', 0xc0010001, de._DESCR_NOTE_GNU_PROPERTY_X86_FEATURE_2_FLAGS),
                                 ('X86_ISA_1_USED', 0xc0010002, de._DESCR_NOTE_GNU_PROPERTY_X86_ISA_1_FLAGS)):
            b = bits(table)
            allb = 0
            for x in b:
                allb |= x
            vals = [0] + b + ([allb] if len(b) > 1 else [])
            props.append((cls, le, mname, m, pname, pt, [struct.pack(e(le) + 'I', v) for v in vals]))
        for pname, pt in (('unnamed_generic', 3), ('unnamed_proc', 0xc0000f00), ('unnamed_user', 0xe0000001),
                          ('AARCH64_FEATURE_1_AND_on_x86', 0xc0000000)):
            props.append((cls, le, mname, m, pname, pt, [b'\x01\x02\x03\x04']))
    for mname, m, le, table in (('EM_AARCH64', EM['AARCH64'], True, de._DESCR_NOTE_GNU_PROPERTY_AARCH64_FEATURE_1_AND),
                                ('EM_RISCV', EM['RISCV'], True, de._DESCR_NOTE_GNU_PROPERTY_RISCV_FEATURE_1_AND),
                                ('EM_AARCH64', EM['AARCH64'], False, de._DESCR_NOTE_GNU_PROPERTY_AARCH64_FEATURE_1_AND)):
        b = bits(table)
        props.append((64, le, mname, m, 'AARCH64_FEATURE_1_AND', 0xc0000000,
                      [struct.pack(e(le) + 'I', v) for v in [0] + b + [sum(b)]]))
        props.append((64, le, mname, m, 'unnamed_proc', 0xc0000f00, [b'\x01\0\0\0']))
    for cls, le, mname, m, pname, pt, datas in props:
        for d in datas:
            desc = enc_prop(cls, le, pt, d)
            val = int.from_bytes(d, 'little' if le else 'big') if d else 0
            mq = ('m=%s|' % mname) if pt == 0xc0000000 else ''
            out.append(synth('-n', 'gnu_property|%s%s(0x%x)|value=0x%x' % (mq, pname, pt, val), r'.',
                             note_file(cls, le, m, [W.enc_note(le, b'GNU\0', desc, 5)],
                                       '.note.gnu.property', align=4 if cls == 32 else 8)))
    # two properties in one note, two notes in one section, two note sections
    for cls, le in ((64, True), (32, True)):
        m = EM['X86_64'] if cls == 64 else EM['I386']
        al = 4 if cls == 32 else 8
        desc = enc_prop(cls, le, 0xc0000002, struct.pack(e(le) + 'I', 3)) + enc_prop(cls, le, 0xc0008002, struct.pack(e(le) + 'I', 1))
        out.append(synth('-n', 'gnu_property|two_properties', r'.',
                         note_file(cls, le, m, [W.enc_note(le, b'GNU\0', desc, 5)], '.note.gnu.property', align=al)))
        two = [W.enc_note(le, b'GNU\0', struct.pack(e(le) + '4I', 0, 3, 2, 0), 1), W.enc_note(le, b'GNU\0', bytes(range(20)), 3)]
        out.append(synth('-n', 'notes|two_in_one_section', r'.', note_file(cls, le, m, two)))
        mm = note_file(cls, le, m, two[:1], '.note.ABI-tag')
        mm['sections'].insert(3, sec('.note.gnu.build-id', SHT_NOTE, SHF_ALLOC, addr=0x3000, align=4, data=two[1]))
        mm['shstrndx'] += 1
        out.append(synth('-n', 'notes|two_sections', r'.', mm))
        out.append(synth('-n', 'notes|none', r'.', elf_model(cls, le, m, [text_sec()])))
    return out


# ---- -r

def reloc_file(cls, le, machine, rtype, rela, mips64=False, e_flags=0):
    blob, offs = W.build_strtab(['c18sym'])
    syms = W.enc_sym(cls, le, 0, 0, 0, 0, 0, 0) + W.enc_sym(cls, le, offs['c18sym'], 0x1000, 4, 0x12, 0, 1)
    word = 4 if cls == 32 else 8
    rel = b''
    for off, sym, add in ((0xc18, 0, 0x20), (0xc1c, 1, 0x10)):
        if mips64:
            rel += W.enc_rel(cls, le, off, sym, rtype[0], add if rela else None, mips64=(0, rtype[2], rtype[1]))
        else:
            rel += W.enc_rel(cls, le, off, sym, rtype, add if rela else None)
    name = '.rela.text' if rela else '.rel.text'
    secs = [text_sec(), sec('.strtab', SHT_STRTAB, data=blob),
            sec('.symtab', SHT_SYMTAB, link=2, info=1, entsize=W.SYM_SIZE[cls], align=word, data=syms),
            sec(name, SHT_RELA if rela else SHT_REL, 0x40, link=3, info=1, entsize=(3 if rela else 2) * word, align=word, data=rel)]
    return elf_model(cls, le, machine, secs, e_flags=e_flags)


def reloc_cases():
    en, co, de = tables()
    out = []
    per = [('EM_386', EM['I386'], en.ENUM_RELOC_TYPE_i386, (32,), True),
           ('EM_X86_64', EM['X86_64'], en.ENUM_RELOC_TYPE_x64, (64,), True),
           ('EM_ARM', EM['ARM'], en.ENUM_RELOC_TYPE_ARM, (32,), None),
           ('EM_AARCH64', EM['AARCH64'], en.ENUM_RELOC_TYPE_AARCH64, (64,), None),
           ('EM_PPC64', EM['PPC64'], en.ENUM_RELOC_TYPE_PPC64, (64,), None),
           ('EM_PPC', EM['PPC'], en.ENUM_RELOC_TYPE_PPC, (32,), False),
           ('EM_S390', EM['S390'], en.ENUM_RELOC_TYPE_S390X, (64,), False),
           ('EM_MIPS', EM['MIPS'], en.ENUM_RELOC_TYPE_MIPS, (32, 64), None),
           ('EM_LOONGARCH', EM['LOONGARCH'], en.ENUM_RELOC_TYPE_LOONGARCH, (64,), True)]
    n = 0
    for mname, m, table, classes, fixed_le in per:
        codes = uniq_codes(table)
        top = max(c for c, _ in codes)
        codes = codes + [(top + 1, 'unnamed')]
        for code, name in codes:
            for cls in classes:
                if cls == 32 and code > 0xff:
                    continue
                for rela in (False, True):
                    le = fixed_le if fixed_le is not None else (n % 3 != 2)
                    n += 1
                    ef = 0x05000000 if m == EM['ARM'] else 0
                    if mname == 'EM_MIPS' and cls == 64:
                        other = codes[(n * 7) % (len(codes) - 1)][0]
                        rt = (code, other if code else 0, code if n % 2 else 0)
                        model = reloc_file(cls, le, m, rt, rela, mips64=True, e_flags=ef)
                        what = 'reloc|m=%s|%s(%d)' % (mname, name, code)
                    else:
                        model = reloc_file(cls, le, m, code, rela, e_flags=ef)
                        what = 'reloc|m=%s|%s(%d)' % (mname, name, code)
                    out.append(synth('-r', what, r'^0*c1[8c]\s', model))
    # two relocation sections over two symbol tables that use the same symbol numbers for different symbols (an --emit-relocs executable:
    # .rela.dyn -> .dynsym, .rela.text -> .symtab), in both orders
    for cls, m, rt in ((64, EM['X86_64'], 1), (32, EM['I386'], 1)):
        for order in (0, 1):
            le, word, rela = True, 4 if cls == 32 else 8, cls == 64
            b1, o1 = W.build_strtab(['c18sym', 'other'])
            b2, o2 = W.build_strtab(['c18dyn', 'c18sym'])
            nul = W.enc_sym(cls, le, 0, 0, 0, 0, 0, 0)
            symtab = nul + W.enc_sym(cls, le, o1['c18sym'], 0x1000, 4, 0x12, 0, 1) + W.enc_sym(cls, le, o1['other'], 0x1004, 4, 0x11, 0, 1)
            dynsym = nul + W.enc_sym(cls, le, o2['c18dyn'], 0x2008, 8, 0x12, 0, 1) + W.enc_sym(cls, le, o2['c18sym'], 0x3000, 4, 0x22, 0, 1)
            rel = b''.join(W.enc_rel(cls, le, 0xc18 + 4 * k, sy, rt, 0x10 * k if rela else None) for k, sy in enumerate((1, 2, 1)))
            rtyp, rnm = (SHT_RELA, '.rela') if rela else (SHT_REL, '.rel')
            esz = (3 if rela else 2) * word
            # indices: 1 .text, 2 .strtab, 3 .symtab, 4 .dynstr, 5 .dynsym, 6/7 the relocation sections
            rsecs = [sec(rnm + '.dyn', rtyp, 2, link=5, info=0, entsize=esz, align=word, data=rel),
                     sec(rnm + '.text', rtyp, 0x40, link=3, info=1, entsize=esz, align=word, data=rel)]
            secs = [text_sec(), sec('.strtab', SHT_STRTAB, data=b1), sec('.symtab', SHT_SYMTAB, link=2, info=1, entsize=W.SYM_SIZE[cls], align=word, data=symtab),
                    sec('.dynstr', SHT_STRTAB, 2, data=b2), sec('.dynsym', 11, 2, link=4, info=1, entsize=W.SYM_SIZE[cls], align=word, data=dynsym)]
            out.append(synth('-r', 'reloc|two-symbol-tables|c=%d|%s' % (cls, 'dyn-first' if order == 0 else 'text-first'), r'^0*c1[8c]\s',
                             elf_model(cls, le, m, secs + (rsecs if order == 0 else rsecs[::-1]))))
    # a machine the clone has no table for, and a file without relocations
    out.append(synth('-r', 'reloc|m=EM_SPARC|c=32|rela|no_table(1)', r'^0*c1[8c]\s', reloc_file(32, False, 2, 1, True)))
    out.append(synth('-r', 'reloc|none', r'^0*c1[8c]\s', elf_model(64, True, EM['X86_64'], [text_sec()])))
    return out


# ---- -V

def enc_verdef(le, version, flags, ndx, cnt, hsh, aux, nxt):
    return struct.pack(W.E(le) + 'HHHHIII', version, flags, ndx, cnt, hsh, aux, nxt)


def enc_verdaux(le, name, nxt):
    return struct.pack(W.E(le) + 'II', name, nxt)


def enc_verneed(le, version, cnt, file, aux, nxt):
    return struct.pack(W.E(le) + 'HHIII', version, cnt, file, aux, nxt)


def enc_vernaux(le, hsh, flags, other, name, nxt):
    return struct.pack(W.E(le) + 'IHHII', hsh, flags, other, name, nxt)


def version_file(cls, le, machine, def_flags, need_flags, with_versym_tag=True):
    """A small shared object: .dynstr .dynsym .gnu.version .gnu.version_d .gnu.version_r .dynamic, one PT_LOAD that maps
    the whole file at vaddr == file offset and a PT_DYNAMIC, so that GNU readelf can follow the DT_* addresses."""
    names = ['libc18.so.1', 'c18sym', 'C18VER_1.0', 'C18VER_2.0', 'C18NEED_1.0', 'libneed.so.2', 'c18und']
    blob, offs = W.build_strtab(names)
    word = 4 if cls == 32 else 8
    syms = (W.enc_sym(cls, le, 0, 0, 0, 0, 0, 0) + W.enc_sym(cls, le, offs['c18sym'], 0x40, 4, 0x12, 0, 1) +
            W.enc_sym(cls, le, offs['C18VER_1.0'], 0, 0, 0x11, 0, 0xfff1) + W.enc_sym(cls, le, offs['c18und'], 0, 0, 0x12, 0, 0))
    versym = struct.pack(W.E(le) + '4H', 0, 2, 1, 3)
    # definitions: index 1 (base, the file), index 2 with the flags under test and a parent; need: index 3
    vd = (enc_verdef(le, 1, 1, 1, 1, W.sysv_hash(b'libc18.so.1'), 20, 28) + enc_verdaux(le, offs['libc18.so.1'], 0) +
          enc_verdef(le, 1, def_flags, 2, 2, W.sysv_hash(b'C18VER_2.0'), 20, 0) + enc_verdaux(le, offs['C18VER_2.0'], 8) +
          enc_verdaux(le, offs['C18VER_1.0'], 0))
    vn = (enc_verneed(le, 1, 1, offs['libneed.so.2'], 16, 0) +
          enc_vernaux(le, W.sysv_hash(b'C18NEED_1.0'), need_flags, 3, offs['C18NEED_1.0'], 0))

    def dyn_bytes(addr):
        tags = [(1, offs['libneed.so.2']), (14, offs['libc18.so.1']), (5, addr[2]), (10, len(blob)), (6, addr[3]),
                (11, W.SYM_SIZE[cls]), (0x6ffffffc, addr[5]), (0x6ffffffd, 2), (0x6ffffffe, addr[6]), (0x6fffffff, 1)]
        if with_versym_tag:
            tags.append((0x6ffffff0, addr[4]))
        return b''.join(W.enc_dyn(cls, le, t, v) for t, v in tags) + W.enc_dyn(cls, le, 0, 0)

    def build_model(addr):
        secs = [sec('.text', SHT_PROGBITS, SHF_ALLOC | SHF_EXECINSTR, addr=addr[1], align=4, data=b'\x90\x90\x90\xc3', file_align=4),
                sec('.dynstr', SHT_STRTAB, SHF_ALLOC, addr=addr[2], data=blob),
                sec('.dynsym', SHT_DYNSYM, SHF_ALLOC, addr=addr[3], link=2, info=1, entsize=W.SYM_SIZE[cls], align=word, data=syms, file_align=8),
                sec('.gnu.version', SHT_GNU_versym, SHF_ALLOC, addr=addr[4], link=3, entsize=2, align=2, data=versym, file_align=2),
                sec('.gnu.version_d', SHT_GNU_verdef, SHF_ALLOC, addr=addr[5], link=2, info=2, align=word, data=vd, file_align=8),
                sec('.gnu.version_r', SHT_GNU_verneed, SHF_ALLOC, addr=addr[6], link=2, info=1, align=word, data=vn, file_align=8),
                sec('.dynamic', SHT_DYNAMIC, SHF_ALLOC | SHF_WRITE, addr=addr[7], link=2, entsize=W.DYN_SIZE[cls], align=word,
                    data=dyn_bytes(addr), file_align=8)]
        segs = [{'p_type': PT_LOAD, 'p_flags': 7, 'p_offset': 0, 'p_vaddr': 0, 'p_paddr': 0, 'p_filesz': ['file_len', 0],
                 'p_memsz': ['file_len', 0], 'p_align': 0x1000},
                {'p_type': PT_DYNAMIC, 'p_flags': 6, 'p_offset': ['sec_off', 7, 0], 'p_vaddr': ['sec_off', 7, 0],
                 'p_paddr': ['sec_off', 7, 0], 'p_filesz': ['sec_size', 7, 0], 'p_memsz': ['sec_size', 7, 0], 'p_align': word}]
        return elf_model(cls, le, machine, secs, segs, e_type=3)

    _d, R = W.build(build_model([0] * 8))
    return build_model([h['sh_offset'] for h in R['sh'][:8]])


def version_cases():
    out = []
    for cls, le in CELLS:
        m = EM['X86_64'] if cls == 64 else EM['I386']
        for f in (0, 1, 2, 3, 4, 5, 6, 7) if (cls, le) == (64, True) else (0, 2, 7):
            out.append(synth('-V', 'ver_flags|0x%x' % f, r'index: 2 ', version_file(cls, le, m, f, 0)))
            out.append(synth('-V', 'ver_flags|0x%x' % f, r'c18need', version_file(cls, le, m, 0, f)))
        out.append(synth('-V', 'ver_none|c=%d|le=%d' % (cls, le), r'.', elf_model(cls, le, m, [text_sec()])))
    for f in (8, 0x10, 0x8000, 0xffff, 9):
        out.append(synth('-V', 'ver_flags|0x%x' % f, r'index: 2 ', version_file(64, True, EM['X86_64'], f, 0)))
        out.append(synth('-V', 'ver_flags|0x%x' % f, r'c18need', version_file(64, True, EM['X86_64'], 0, f)))
    # the same sections under -s (versioned dynamic symbols) and -d
    for cls, le in ((64, True), (32, False)):
        m = EM['X86_64'] if cls == 64 else EM['I386']
        out.append(synth('-s', 'dynsym_versions|c=%d|le=%d' % (cls, le), r'c18', version_file(cls, le, m, 0, 0)))
    return out


# ---- --debug-dump=info : DW_TAG / DW_AT / DW_FORM / DW_LANG / DW_ATE / ... / DW_OP

DW_TAG_compile_unit, DW_TAG_variable, DW_TAG_base_type, DW_TAG_subprogram = 0x11, 0x34, 0x24, 0x2e
DW_AT_name, DW_AT_language, DW_AT_location, DW_AT_byte_size, DW_AT_encoding, DW_AT_type = 0x03, 0x13, 0x02, 0x0b, 0x3e, 0x49
DW_AT_low_pc, DW_AT_const_value, DW_AT_stmt_list, DW_AT_signature, DW_AT_decl_line = 0x11, 0x1c, 0x10, 0x69, 0x3b


def dw_elf(dwcase, cls=64, machine=None, extra=None):
    from vf.enc import dwarf as D
    w = D.InfoWriter(dwcase)
    secs = [text_sec()]
    sections = dict(w.sections)
    sections.update(extra or {})
    for name in sorted(sections):
        secs.append(sec(name, SHT_PROGBITS, 0x30 if name in ('.debug_str', '.debug_line_str') else 0,
                        entsize=1 if name in ('.debug_str', '.debug_line_str') else 0, data=sections[name]))
    return elf_model(cls, dwcase['le'], machine if machine is not None else (EM['X86_64'] if cls == 64 else EM['I386']), secs)


def dw_unit(child_abbrev, child_vals, version=4, fmt=32, addr_size=8, le=True, root_attrs=(), root_vals=(), aux=None, lang=1,
            grandchild=None):
    """One CU: root DW_TAG_compile_unit {name, language} + one child DIE (the entry under test, printed last)."""
    root = {'code': 1, 'tag': DW_TAG_compile_unit, 'children': True,
            'attrs': [[DW_AT_name, 'DW_FORM_string', None], [DW_AT_language, 'DW_FORM_udata', None]] + [list(a) for a in root_attrs]}
    tab = [root, dict(child_abbrev, code=2)]
    child = {'ab': 1, 'vals': list(child_vals), 'kids': []}
    if grandchild:      # the entry sits inside a subprogram that has a frame base (DW_OP_call_frame_cfa)
        tab.append({'code': 3, 'tag': DW_TAG_subprogram, 'children': True, 'attrs': [[0x40, 'DW_FORM_exprloc', None]]})
        child = {'ab': 2, 'vals': [{'b': b'\x9c'}], 'kids': [child]}
    unit = {'version': version, 'fmt': fmt, 'addr_size': addr_size, 'ut': 1, 'abtab': 0,
            'die': {'ab': 0, 'vals': [{'s': b'c18.c'}, {'v': lang}] + list(root_vals), 'kids': [child]}}
    if aux:
        unit['aux'] = aux
    return {'le': le, 'strs': [b'c18 string in .debug_str', b'second'], 'lstrs': [b'c18 line string'], 'abtabs': [tab], 'units': [unit]}


OP_SAMPLE = {'A': 0x1000, 'O': 0x0b, 'u1': 1, 'u2': 0x102, 'u4': 0x1020304, 'u8': 0x102030405060708, 's1': -2, 's2': -300,
             's4': -70000, 's8': -5000000000, 'U': 3, 'S': -4, 'B': b'\x01\x02', 'T': b'\x2a', 'E': [[0x31, []]]}


def dwarf_cases():
    core.use_repo()
    import elftools.dwarf.enums as den
    import elftools.dwarf.descriptions as dde
    import elftools.dwarf.constants as dco
    from elftools.dwarf.dwarf_expr import DW_OP_name2opcode
    from vf.enc import c12_expr as X
    out = []
    opt = '--debug-dump=info'
    mark = {'after': r'^\s*<1><'}
    for code, name in uniq_codes(den.ENUM_DW_TAG):
        if code == 0:
            continue
        out.append(synth(opt, 'dw_tag|%s(0x%x)' % (name, code), mark,
                         dw_elf(dw_unit({'tag': code, 'children': False, 'attrs': []}, []))))
    # attribute names: every DW_AT code with the form that fits it (expression for the location-like ones the clone
    # decodes as expressions, a small constant otherwise)
    exprlike = set(k for k, v in dde._EXTRA_INFO_DESCRIPTION_MAP.items() if v in (dde._location_list_extra, dde._data_member_location_extra))
    enumerated = ('DW_AT_inline', 'DW_AT_language', 'DW_AT_encoding', 'DW_AT_accessibility', 'DW_AT_visibility', 'DW_AT_virtuality',
                  'DW_AT_identifier_case', 'DW_AT_calling_convention', 'DW_AT_ordering')
    for code, name in uniq_codes(den.ENUM_DW_AT):
        if code == 0:
            continue
        first = name.split('/')[0]
        if any(n in exprlike for n in name.split('/')):
            ab, vals = {'tag': DW_TAG_variable, 'children': False, 'attrs': [[code, 'DW_FORM_exprloc', None]]}, [{'b': b'\x31'}]
        elif first in ('DW_AT_decimal_sign', 'DW_AT_defaulted', 'DW_AT_endianity', 'DW_AT_discr_list') or first in enumerated:
            continue     # constants GNU annotates from tables; the ones the clone has tables for are swept with their values below
        elif first == 'DW_AT_import':
            ab, vals = {'tag': 0x3a, 'children': False, 'attrs': [[code, 'DW_FORM_ref4', None]]}, [{'t': 0}]
        else:
            ab, vals = {'tag': DW_TAG_variable, 'children': False, 'attrs': [[code, 'DW_FORM_data1', None]]}, [{'v': 1}]
        out.append(synth(opt, 'dw_at|%s(0x%x)' % (name, code), mark, dw_elf(dw_unit(ab, vals))))
    # forms
    forms = []
    for fmt in (32, 64):
        for ver, f, at, spec in [
                (4, 'DW_FORM_addr', DW_AT_low_pc, {'v': 0x401000}), (4, 'DW_FORM_block2', DW_AT_const_value, {'b': b'\x01\x02\x03'}),
                (4, 'DW_FORM_block4', DW_AT_const_value, {'b': b'\x01\x02\x03'}), (4, 'DW_FORM_data2', DW_AT_byte_size, {'v': 0x1234}),
                (4, 'DW_FORM_data4', DW_AT_byte_size, {'v': 0x12345678}), (4, 'DW_FORM_data8', DW_AT_byte_size, {'v': 0x123456789abcdef0}),
                (4, 'DW_FORM_string', DW_AT_name, {'s': b'c18 inline string'}), (4, 'DW_FORM_block', DW_AT_const_value, {'b': b'\x01\x02\x03'}),
                (4, 'DW_FORM_block1', DW_AT_const_value, {'b': b'\x01\x02\x03'}), (4, 'DW_FORM_data1', DW_AT_byte_size, {'v': 0x12}),
                (4, 'DW_FORM_flag', 0x3f, {'v': 1}), (4, 'DW_FORM_flag', 0x3f, {'v': 0}), (4, 'DW_FORM_sdata', DW_AT_const_value, {'v': -5}),
                (4, 'DW_FORM_strp', DW_AT_name, {'si': 0}), (4, 'DW_FORM_udata', DW_AT_byte_size, {'v': 300}),
                (4, 'DW_FORM_ref_addr', DW_AT_type, {'tu': 0, 't': 0}), (4, 'DW_FORM_ref1', DW_AT_type, {'t': 0}),
                (4, 'DW_FORM_ref2', DW_AT_type, {'t': 0}), (4, 'DW_FORM_ref4', DW_AT_type, {'t': 0}), (4, 'DW_FORM_ref8', DW_AT_type, {'t': 0}),
                (4, 'DW_FORM_ref_udata', DW_AT_type, {'t': 0}), (4, 'DW_FORM_sec_offset', DW_AT_stmt_list, {'v': 0}),
                (4, 'DW_FORM_exprloc', DW_AT_location, {'b': b'\x31'}), (4, 'DW_FORM_flag_present', 0x3f, {}),
                (4, 'DW_FORM_ref_sig8', DW_AT_signature, {'v': 0x1122334455667788}),
                (4, 'DW_FORM_indirect', DW_AT_byte_size, {'chain': 1, 'form': 'DW_FORM_data2', 'val': {'v': 0x1234}}),
                (5, 'DW_FORM_data16', DW_AT_const_value, {'b': bytes(range(16))}), (5, 'DW_FORM_line_strp', DW_AT_name, {'si': 0}),
                (5, 'DW_FORM_implicit_const', DW_AT_decl_line, None),
                (5, 'DW_FORM_strx', DW_AT_name, {'i': 1}), (5, 'DW_FORM_strx1', DW_AT_name, {'i': 1}), (5, 'DW_FORM_strx2', DW_AT_name, {'i': 0}),
                (5, 'DW_FORM_strx3', DW_AT_name, {'i': 1}), (5, 'DW_FORM_strx4', DW_AT_name, {'i': 1}),
                (5, 'DW_FORM_addrx', DW_AT_low_pc, {'i': 1}), (5, 'DW_FORM_addrx1', DW_AT_low_pc, {'i': 0}), (5, 'DW_FORM_addrx2', DW_AT_low_pc, {'i': 1}),
                (5, 'DW_FORM_addrx3', DW_AT_low_pc, {'i': 1}), (5, 'DW_FORM_addrx4', DW_AT_low_pc, {'i': 1}),
                (3, 'DW_FORM_data4', DW_AT_byte_size, {'v': 0x12345678}), (2, 'DW_FORM_ref_addr', DW_AT_type, {'tu': 0, 't': 0}),
                (3, 'DW_FORM_strp', DW_AT_name, {'si': 1}), (5, 'DW_FORM_strp', DW_AT_name, {'si': 1}), (5, 'DW_FORM_exprloc', DW_AT_location, {'b': b'\x31'})]:
            forms.append((fmt, ver, f, at, spec))
    known_forms = set(k for k in den.ENUM_DW_FORM if isinstance(den.ENUM_DW_FORM[k], int))
    for fmt, ver, f, at, spec in forms:
        if f not in known_forms:
            continue
        ic = 42 if f == 'DW_FORM_implicit_const' else None
        ab = {'tag': DW_TAG_variable, 'children': False, 'attrs': [[at, f, ic]]}
        vals = [spec]
        root_attrs, root_vals, aux = [], [], None
        hdr = 8 if fmt == 32 else 16
        if f.startswith('DW_FORM_strx'):
            root_attrs, root_vals, aux = [[0x72, 'DW_FORM_sec_offset', None]], [{'v': hdr}], {'strx': [0, 1]}
        if f.startswith('DW_FORM_addrx'):
            root_attrs, root_vals, aux = [[0x73, 'DW_FORM_sec_offset', None]], [{'v': hdr}], {'addrx': [0x401000, 0x402000]}
        for asz, cls, le in ((8, 64, True), (4, 32, False)):
            if fmt == 64 and cls == 32:
                continue
            out.append(synth(opt, 'dw_form|%s' % f, mark,
                             dw_elf(dw_unit(ab, vals, version=ver, fmt=fmt, addr_size=asz, le=le, root_attrs=root_attrs,
                                            root_vals=root_vals, aux=aux), cls=cls)))
    # enumerated attribute values
    for code, name in uniq_codes(den.ENUM_DW_LANG):
        out.append(synth(opt, 'dw_lang|%s(0x%x)' % (name, code), {'after': r'dw_at_language'},
                         dw_elf(dw_unit({'tag': DW_TAG_variable, 'children': False, 'attrs': []}, [], lang=code))))
    for code, name in uniq_codes(den.ENUM_DW_ATE):
        ab = {'tag': DW_TAG_base_type, 'children': False, 'attrs': [[DW_AT_byte_size, 'DW_FORM_data1', None], [DW_AT_encoding, 'DW_FORM_data1', None]]}
        out.append(synth(opt, 'dw_ate|%s(0x%x)' % (name, code), mark, dw_elf(dw_unit(ab, [{'v': 4}, {'v': code}]))))
    for at, tname, table in ((0x32, 'dw_access', dde._DESCR_DW_ACCESS), (0x17, 'dw_vis', dde._DESCR_DW_VIS),
                             (0x4c, 'dw_virtuality', dde._DESCR_DW_VIRTUALITY), (0x42, 'dw_id_case', dde._DESCR_DW_ID_CASE),
                             (0x36, 'dw_cc', dde._DESCR_DW_CC), (0x20, 'dw_inl', dde._DESCR_DW_INL), (0x09, 'dw_ord', dde._DESCR_DW_ORD)):
        for code in sorted(table):
            ab = {'tag': DW_TAG_subprogram, 'children': False, 'attrs': [[at, 'DW_FORM_data1', None]]}
            out.append(synth(opt, '%s|%d' % (tname, code), mark, dw_elf(dw_unit(ab, [{'v': code}]))))
    # operations: every opcode the library names and the independent table can encode, inside the DW_AT_location of a
    # variable of a subprogram that has a frame base; register-based ones on every machine the clone has register names
    # for, and only for register numbers that its table names
    regtabs = {'EM_X86_64': dde._REG_NAMES_x64, 'EM_386': dde._REG_NAMES_x86, 'EM_AARCH64': dde._REG_NAMES_AArch64}
    ab = {'tag': DW_TAG_variable, 'children': False, 'attrs': [[DW_AT_location, 'DW_FORM_exprloc', None]]}
    for mname, m, cls, asz in (('EM_X86_64', EM['X86_64'], 64, 8), ('EM_386', EM['I386'], 32, 4), ('EM_AARCH64', EM['AARCH64'], 64, 8)):
        tab = regtabs[mname]
        for code in sorted(X.OPS):
            name, spec = X.OPS[code]
            if name not in DW_OP_name2opcode or 'X' in spec or 'W' in spec:
                continue
            regop = 0x50 <= code <= 0x8f
            if mname != 'EM_X86_64' and not regop:
                continue
            if regop and ((code - 0x50) % 32 >= len(tab) or tab[(code - 0x50) % 32] == '<none>'):
                continue
            vals = [OP_SAMPLE[k] for k in spec]
            if name in ('DW_OP_regx', 'DW_OP_bregx'):
                vals[0] = 33
            try:
                b, _exp = X.encode_op([code, vals], True, 32, asz)
            except X.EncodeError:
                continue
            what = 'dw_op|%s(0x%x)' % (name, code) if not regop else 'dw_op|m=%s|%s(0x%x)' % (mname, name, code)
            out.append(synth(opt, what, mark, dw_elf(dw_unit(ab, [{'b': b}], addr_size=asz, le=True, grandchild=True), cls=cls, machine=m)))
        # nested expressions (entry_value blocks) with several operations and with operations that refer to entries of the unit, in the
        # first unit (offset 0) and in a second one (the printed reference is unit offset + operand)
        if mname == 'EM_X86_64':
            nests = {'two-registers': [[0x50, []], [0x51, []]], 'regval_type': [[0xa5, [17, 0x0b]], [0x9f, []]], 'const_type': [[0xa4, [0x0b, b'\x2a']]],
                     'deref_type': [[0xa6, [4, 0x0b]]], 'convert': [[0xa8, [0x0b]], [0xa8, [0]]], 'GNU_regval_type': [[0xf5, [17, 0x0b]]],
                     'GNU_parameter_ref': [[0xfa, [0x0b]]], 'call2': [[0x98, [0x0b]]], 'nested-twice': [[0xa3, [[[0x50, []]]]], [0x23, [8]]]}
            for nname, nops in sorted(nests.items()):
                for outer in (0xa3, 0xf3):
                    try:
                        b, _exp = X.encode_op([outer, [nops]], True, 32, asz)
                    except X.EncodeError:
                        continue
                    for second in (False, True):
                        dw = dw_unit(ab, [{'b': b + b'\x9f'}], addr_size=asz, le=True, grandchild=True)
                        if second:
                            first = dw_unit({'tag': DW_TAG_variable, 'children': False, 'attrs': []}, [], addr_size=asz, le=True)
                            dw['abtabs'] = [dw['abtabs'][0], first['abtabs'][0]]
                            first['units'][0]['abtab'] = 1
                            dw['units'] = [first['units'][0], dw['units'][0]]
                        out.append(synth(opt, 'dw_op|nested|%s|outer=0x%x|%s-unit' % (nname, outer, 'second' if second else 'first'), mark,
                                         dw_elf(dw, cls=cls, machine=m)))
        # units of both DWARF formats in one file: an operand whose width follows the format (DW_OP_call_ref, [GNU_]implicit_pointer) is read
        # with the format of its own unit, whichever unit was dumped first
        if mname == 'EM_X86_64':
            for code in (0x9a, 0xa0, 0xf2):
                name, spec = X.OPS[code]
                if name not in DW_OP_name2opcode:
                    continue
                for f1, f2 in ((64, 32), (32, 64)):
                    try:
                        b, _exp = X.encode_op([code, [OP_SAMPLE[k] for k in spec]], True, f2, asz)
                    except X.EncodeError:
                        continue
                    dw = dw_unit(ab, [{'b': b + b'\x93\x08\x30\x9f\x93\x04'}], fmt=f2, addr_size=asz, le=True, grandchild=True)
                    first = dw_unit(ab, [{'b': b'\x30\x9f'}], fmt=f1, addr_size=asz, le=True, grandchild=True)
                    dw['abtabs'] = [dw['abtabs'][0], first['abtabs'][0]]
                    first['units'][0]['abtab'] = 1
                    dw['units'] = [first['units'][0], dw['units'][0]]
                    out.append(synth(opt, 'dw_op|mixed-formats|%s|%d-bit-unit-after-%d-bit-unit' % (name, f2, f1), mark, dw_elf(dw, cls=cls, machine=m)))
        # the register-name table itself, through DW_OP_regx
        for n, rname in enumerate(tab):
            if rname == '<none>' or n < 32:
                continue
            b, _exp = X.encode_op([0x90, [n]], True, 32, asz)
            out.append(synth(opt, 'dw_reg|m=%s|%d' % (mname, n), mark,
                             dw_elf(dw_unit(ab, [{'b': b}], addr_size=asz, le=True, grandchild=True), cls=cls, machine=m)))
    return out


# ---- --debug-dump=frames / frames-interp : every DW_CFA opcode the library names

def cfi_section(le, asz, cie_instrs, fde_instrs, version=1, code_align=1, data_align=-8, ra=16, pc=0x401000, size=0x100):
    """One CIE + one FDE of a .debug_frame section (DWARF v5 6.4.1, 7.24), 32-bit DWARF."""
    from vf.enc.leb import uleb, sleb
    bo = 'little' if le else 'big'

    def entry(body):
        body = bytes(body)
        body += b'\0' * (-(4 + len(body)) % asz)          # DW_CFA_nop padding to a multiple of the address size
        return len(body).to_bytes(4, bo) + body
    cie = b'\xff\xff\xff\xff' + bytes([version]) + b'\0'
    if version >= 4:
        cie += bytes([asz, 0])
    cie += uleb(code_align) + sleb(data_align) + (bytes([ra]) if version == 1 else uleb(ra)) + bytes(cie_instrs)
    out = entry(cie)
    fde = (0).to_bytes(4, bo) + pc.to_bytes(asz, bo) + size.to_bytes(asz, bo) + bytes(fde_instrs)
    return out + entry(fde)


def cfi_multi(le, asz, entries):
    """.debug_frame (32-bit DWARF, version-1 CIEs) with several CIEs and FDEs in the given order.  entries: ('cie', key, code_align,
    data_align, ra, instrs) | ('fde', key of its CIE, pc, size, instrs); an FDE may precede or follow any other entry - its CIE_pointer is
    the section offset of its CIE, wherever that lies."""
    from vf.enc.leb import uleb, sleb
    bo = 'little' if le else 'big'
    bodies = []
    for e in entries:
        if e[0] == 'cie':
            body = b'\xff\xff\xff\xff' + b'\x01\0' + uleb(e[2]) + sleb(e[3]) + bytes([e[4]]) + bytes(e[5])
        else:
            body = b'PTR!' + e[2].to_bytes(asz, bo) + e[3].to_bytes(asz, bo) + bytes(e[4])
        body += b'\0' * (-(4 + len(body)) % asz)
        bodies.append(body)
    offs, pos = {}, 0
    for e, b in zip(entries, bodies):
        if e[0] == 'cie':
            offs[e[1]] = pos
        pos += 4 + len(b)
    out = b''
    for e, b in zip(entries, bodies):
        if e[0] == 'fde':
            b = offs[e[1]].to_bytes(4, bo) + b[4:]
        out += len(b).to_bytes(4, bo) + b
    return out


def cfa_cases():
    core.use_repo()
    import elftools.dwarf.constants as dco
    from vf.enc.leb import uleb, sleb
    names = {}
    for k, v in vars(dco).items():
        if k.startswith('DW_CFA_') and isinstance(v, int):
            names.setdefault(v, []).append(k)
    out = []
    U, S = uleb, sleb
    expr = b'\x77\x08'          # DW_OP_breg7: 8
    adv = b'\x44'               # DW_CFA_advance_loc: 4
    for mname, m, cls, asz, le, da, ra, rA, rB, cfa_reg in (('EM_X86_64', EM['X86_64'], 64, 8, True, -8, 16, 3, 12, 7),
                                                           ('EM_386', EM['I386'], 32, 4, True, -4, 8, 3, 6, 4),
                                                           ('EM_AARCH64', EM['AARCH64'], 64, 8, True, -8, 30, 19, 20, 31)):
        def addr(v):
            return v.to_bytes(asz, 'little' if le else 'big')
        seqs = {
            0x40: adv, 0x80: adv + bytes([0x80 | rA]) + U(2), 0xc0: adv + bytes([0x80 | rA]) + U(2) + adv + bytes([0xc0 | rA]),
            0x00: adv + b'\0' + adv, 0x01: b'\x01' + addr(0x401010), 0x02: b'\x02\x10', 0x03: b'\x03' + (0x110).to_bytes(2, 'little'),
            0x04: b'\x04' + (0x10000).to_bytes(4, 'little'), 0x05: adv + b'\x05' + U(rA) + U(2),
            0x06: adv + b'\x05' + U(rA) + U(2) + adv + b'\x06' + U(rA), 0x07: adv + b'\x07' + U(rA), 0x08: adv + b'\x08' + U(rA),
            0x09: adv + b'\x09' + U(rA) + U(rB) + adv, 0x0a: adv + b'\x0a' + adv + b'\x0e' + U(32) + adv + b'\x0b',
            0x0b: adv + b'\x0a' + adv + b'\x0e' + U(48) + adv + b'\x0b' + adv, 0x0c: adv + b'\x0c' + U(rB) + U(16),
            0x0d: adv + b'\x0d' + U(rB), 0x0e: adv + b'\x0e' + U(16), 0x0f: adv + b'\x0f' + U(len(expr)) + expr,
            0x10: adv + b'\x10' + U(rA) + U(len(expr)) + expr, 0x11: adv + b'\x11' + U(rA) + S(-2), 0x12: adv + b'\x12' + U(rB) + S(-2),
            0x13: adv + b'\x13' + S(-2), 0x14: adv + b'\x14' + U(rA) + U(2), 0x15: adv + b'\x15' + U(rA) + S(-2),
            0x16: adv + b'\x16' + U(rA) + U(len(expr)) + expr, 0x2d: adv + b'\x2d', 0x2e: adv + b'\x2e' + U(16),
            0x2f: adv + b'\x2f' + U(rA) + U(2), 0x1d: b'\x1d' + (0x20).to_bytes(8, 'little'),
        }
        cie_instrs = b'\x0c' + U(cfa_reg) + U(-da) + bytes([0x80 | ra]) + U(1)
        info = dw_unit({'tag': DW_TAG_variable, 'children': False, 'attrs': []}, [], addr_size=asz, le=le)
        for code in sorted(names):
            if code not in seqs:
                continue
            if code == 0x2d and mname != 'EM_AARCH64':     # GNU_window_save is SPARC's; the clone describes the AArch64 meaning
                continue
            nm = '/'.join(sorted(names[code]))
            for ver in ((1, 3, 4) if (mname == 'EM_X86_64' and code in (0x80, 0x0c, 0x0f)) else (1,)):
                secbytes = cfi_section(le, asz, cie_instrs, seqs[code], version=ver, data_align=da, ra=ra)
                model = dw_elf(info, cls=cls, machine=m, extra={'.debug_frame': secbytes})
                for opt in ('--debug-dump=frames', '--debug-dump=frames-interp'):
                    out.append(synth(opt, 'dw_cfa|m=%s|%s(0x%x)' % (mname, nm, code) if code == 0x2d else 'dw_cfa|%s(0x%x)' % (nm, code),
                                     {'after': r'\bfde\b'}, model))
        # several CIEs that differ in every parameter an FDE takes from its CIE (return-address column, alignment factors, initial rules),
        # with the FDEs in every position relative to them: directly behind their CIE, behind the other CIE, in front of their CIE
        if mname != 'EM_AARCH64':
            cA = ('cie', 'A', 1, da, ra, cie_instrs)
            cB = ('cie', 'B', 4, 2 * da, rA, b'\x0c' + U(cfa_reg) + U(-2 * da) + bytes([0x80 | rA]) + U(1) + bytes([0x80 | rB]) + U(2))
            body = adv + b'\x0e' + U(16) + adv + bytes([0x80 | rB]) + U(3) + adv + bytes([0xc0 | rB])

            def fde(k, n):
                return ('fde', k, 0x401000 + 0x100 * n, 0x40, body)
            orders = {'own-cie-first': [cA, fde('A', 0), cB, fde('B', 1)], 'back-reference': [cA, fde('A', 0), cB, fde('B', 1), fde('A', 2)],
                      'both-cies-first': [cA, cB, fde('A', 0), fde('B', 1), fde('A', 2)], 'other-cie-between': [cA, cB, fde('A', 0)],
                      'swapped': [cB, cA, fde('B', 0), fde('A', 1), fde('B', 2)]}
            for oname, ents in sorted(orders.items()):
                model = dw_elf(info, cls=cls, machine=m, extra={'.debug_frame': cfi_multi(le, asz, ents)})
                for opt in ('--debug-dump=frames', '--debug-dump=frames-interp'):
                    out.append(synth(opt, 'dw_cfa|several-cies|%s' % oname, {'after': r'\bcie\b'}, model))
        # every ordered pair of location-changing instructions (the running location printed after "to" is carried state), then two rules
        if mname != 'EM_AARCH64':
            locops = [('set_loc', None), ('advance_loc', b'\x48'), ('advance_loc1', b'\x02\x10'), ('advance_loc2', b'\x03' + (0x110).to_bytes(2, 'little')),
                      ('advance_loc4', b'\x04' + (0x10000).to_bytes(4, 'little'))]
            for n1, b1 in locops:
                for n2, b2 in locops:
                    first = b1 if b1 is not None else b'\x01' + addr(0x401020)
                    second = b2 if b2 is not None else b'\x01' + addr(0x431000)
                    body = first + b'\x0e' + U(16) + second + b'\x0e' + U(24) + adv + b'\x0e' + U(32)
                    secbytes = cfi_section(le, asz, cie_instrs, body, version=1, data_align=da, ra=ra)
                    model = dw_elf(info, cls=cls, machine=m, extra={'.debug_frame': secbytes})
                    for opt in ('--debug-dump=frames', '--debug-dump=frames-interp'):
                        out.append(synth(opt, 'dw_cfa|sequence|%s>%s' % (n1, n2), {'after': r'\bfde\b'}, model))
    return out


# ---- -x / -p : dumps of full, empty and NOBITS sections, by name and by index (keys are the line classes, so that the
# random layer reports the same root cause under the same key)

def dump_cases():
    out = []
    for cls, le in CELLS:
        m = EM['X86_64'] if cls == 64 else EM['I386']
        big = (1 << (cls - 1)) + 0x1230
        secs = [sec('.text', SHT_PROGBITS, 6, addr=big, align=16, data=bytes(range(0x20, 0x20 + 37))),
                sec('.empty', SHT_PROGBITS, 2, addr=0x2000, data=b''),
                sec('.bss', SHT_NOBITS, 3, addr=0x3000, data=b'', size_override=0x40),
                sec('.strs', SHT_PROGBITS, 0x30, entsize=1, data=b'\0first\0second string\0\0x\0' + b'y' * 70 + b'\0tail'),
                sec('.one', SHT_PROGBITS, 2, addr=0xfff8, data=b'\x7f'),
                sec('.sixteen', SHT_PROGBITS, 2, addr=0x10, data=bytes(range(16)))]
        model = elf_model(cls, le, m, secs)
        for opt in ('-x.text', '-x.empty', '-x.bss', '-x.strs', '-x.one', '-x.sixteen', '-p.text', '-p.empty', '-p.bss', '-p.strs',
                    '-p.sixteen', '-x1', '-x2', '-x3', '-p2', '-p3', '-p4', '-x0', '-p.shstrtab', '-x.shstrtab'):
            out.append({'kind': 'synth', 'opt': opt, 'what': None, 'mark': None, 'model': model, 'family': 'dump'})
        # sections that share a name (COMDAT groups, -ffunction-sections objects), relocation sections against the first and the last of
        # them: a dump by number is about that section, a dump by name about whichever GNU readelf picks
        blob, offs = W.build_strtab(['c18sym'])
        syms = W.enc_sym(cls, le, 0, 0, 0, 0, 0, 0) + W.enc_sym(cls, le, offs['c18sym'], 0, 4, 0x12, 0, 2)
        word = 4 if cls == 32 else 8
        rela = cls == 64
        rel = W.enc_rel(cls, le, 4, 1, 1, 0x10 if rela else None)
        for target in (2, 4):
            secs = [text_sec(), sec('.dup', SHT_PROGBITS, 6, addr=0, align=4, data=bytes(range(0x41, 0x51))),
                    sec('.dup', SHT_PROGBITS, 6, addr=0, align=4, data=bytes(range(0x61, 0x71))),
                    sec('.dup', SHT_PROGBITS, 6, addr=0, align=4, data=b'third .dup\0' + bytes(5)),
                    sec('.strtab', SHT_STRTAB, data=blob),
                    sec('.symtab', SHT_SYMTAB, link=5, info=1, entsize=W.SYM_SIZE[cls], align=word, data=syms),
                    sec('.rela.dup' if rela else '.rel.dup', SHT_RELA if rela else SHT_REL, 0x40, link=6, info=target, entsize=(3 if rela else 2) * word, align=word, data=rel)]
            model2 = elf_model(cls, le, m, secs)
            for opt in ('-x1', '-x2', '-x3', '-x4', '-x.dup', '-p4', '-p.dup', '-x7'):
                out.append({'kind': 'synth', 'opt': opt, 'what': None, 'mark': None, 'model': model2, 'family': 'dump'})
    return out


def synth_cases(tier):
    out = []
    for f in (header_cases, section_cases, segment_cases, symbol_cases, dynamic_cases, note_cases, reloc_cases, version_cases,
              dwarf_cases, cfa_cases, dump_cases):
        out += f()
    return out


# ---------------------------------------------------------------------------
# (iii) random files: several entries combined, arbitrary numeric fields.  Only description-table entries on which the
# two tools agree in the sweep are drawn here (the table entries themselves are the sweep's job); what varies freely is
# everything numeric or structural: classes, byte orders, counts, addresses, sizes, alignments, names, payload bytes.

RND_MACHINES = [  # (e_machine, class, byte orders, e_flags) - flags chosen non-zero where a zero word is a listed finding
    (EM['X86_64'], 64, (True,), 0), (EM['I386'], 32, (True,), 0), (EM['ARM'], 32, (True, False), 0x05000200),
    (EM['AARCH64'], 64, (True, False), 0), (EM['MIPS'], 32, (True, False), 0x70001007), (EM['MIPS'], 64, (True, False), 0x80000007),
    (EM['PPC64'], 64, (True, False), 2), (EM['PPC'], 32, (False,), 0), (EM['S390'], 64, (False,), 0), (EM['RISCV'], 64, (True,), 5),
    (EM['X86_64'], 32, (True,), 0),
]
RND_SH_TYPES = [SHT_PROGBITS, SHT_PROGBITS, SHT_NOBITS, 14, 15, 16, SHT_STRTAB, SHT_NOTE]
RND_SH_FLAG_BITS = [0x1, 0x2, 0x4, 0x10, 0x20, 0x40, 0x80, 0x100, 0x200, 0x400, 0x80000000, 0x00100000]
RND_SEC_NAMES = ['.data', '.bss', '.rodata', '.init_array', '.tdata', '.tbss', '.note.c18', '.comment', '.x',
                 '.c18_a_long_section_name_xyz', '.exactly17charact', '.data.rel.ro', '.fini_array']
RND_P_TYPES = [0, 1, 1, 4, 5, 6, 7, 0x6474e550, 0x6474e551, 0x6474e552, 0x6474e553]
RND_SYM_NAMES = ['main', 'c18_symbol', 'x', '_ZN3c1818a_rather_long_mangled_nameEv', 'exactly_twenty_five_chars', 'data_start',
                 'twenty_six_characters_long', '__bss_start']
RND_DYN_TAGS = [3, 4, 5, 6, 7, 8, 9, 10, 11, 12, 13, 17, 18, 19, 21, 23, 25, 26, 27, 28, 32, 33, 2, 0x6ffffef5, 0x6ffffff0,
                0x6ffffff9, 0x6ffffffa, 0x6ffffffc, 0x6ffffffd, 0x6ffffffe, 0x6fffffff, 16, 22]
RND_ALIGNS = [0, 1, 2, 4, 8, 16, 0x40, 0x1000, 0x10000, 0x200000]


def rnd_word(ch, bits):
    return ch.word(bits)


def build_random(ch, tier):
    shape = ch.choice(['layout', 'layout', 'layout', 'dynamic', 'reloc', 'symbols'])
    machine, cls, les, e_flags = ch.choice(RND_MACHINES)
    le = ch.choice(list(les))
    word = 4 if cls == 32 else 8
    if shape == 'dynamic':
        n = ch.int(1, 10)
        tags = []
        for _ in range(n):
            t = ch.choice(RND_DYN_TAGS + [1, 14, 15, 29, 30, 0x6ffffffb, 20])
            if t != 1 and any(t == t0 for t0, _v in tags):
                continue        # only DT_NEEDED may occur more than once in a well-formed dynamic section
            if t in (1, 14, 15, 29):
                v = ('str', ch.choice(['libc18.so.1', 'libm.so.6', '$ORIGIN/../lib']))
            elif t == 30:
                v = ch.choice([1, 2, 4, 8, 0x10, 0x1f, 0xa])
            elif t == 0x6ffffffb:
                v = ch.choice([1, 0x8000001, 0x8, 0x421, 0x0fffffff])
            elif t == 20:
                v = ch.choice([7, 17])
            else:
                v = rnd_word(ch, cls)
            tags.append((t, v))
        model = dyn_model(cls, le, machine, tags, e_type=ch.choice([3, 3, 2]),
                          strings=('libc18.so.1', 'libm.so.6', '$ORIGIN/../lib'))
        model['e_flags'] = e_flags
        return {'kind': 'random', 'opt': ch.choice(['-d', '-d', '-d', '-l', '-e', '-h']), 'what': None, 'mark': None, 'model': model}
    if shape == 'reloc':
        nsym = ch.int(1, 4)
        names = [RND_SYM_NAMES[(k * 3 + nsym) % len(RND_SYM_NAMES)] for k in range(nsym)]
        blob, offs = W.build_strtab(names)
        syms = W.enc_sym(cls, le, 0, 0, 0, 0, 0, 0)
        for nm in names:
            syms += W.enc_sym(cls, le, offs[nm], rnd_word(ch, cls), ch.choice([0, 4, 8]), ch.choice([0x12, 0x11, 0x10, 0x02, 0x21]), 0,
                              ch.choice([0, 1, 1, 0xfff1]))
        # an unnamed STT_SECTION symbol: both tools print the section name instead
        syms += W.enc_sym(cls, le, 0, 0, 0, 0x03, 0, 1)
        secs = [text_sec(), sec('.strtab', SHT_STRTAB, data=blob),
                sec('.symtab', SHT_SYMTAB, link=2, info=1, entsize=W.SYM_SIZE[cls], align=word, data=syms)]
        mips64 = machine == EM['MIPS'] and cls == 64
        for k in range(ch.int(1, 2)):
            rela = ch.bool()
            rel = b''
            for _ in range(ch.int(1, 6)):
                t = ch.choice([1, 2])
                add = None
                if rela:
                    add = ch.choice([0, 1, 0x10, -1, -8, 0x7fffffff, -0x80000000]) if cls == 32 else \
                        ch.choice([0, 1, 0x10, -1, -8, 0x7fffffffffffffff, -0x8000000000000000, 0x12345678])
                symi = ch.int(0, nsym + 1)
                if mips64:
                    rel += W.enc_rel(cls, le, rnd_word(ch, cls), symi, t, add, mips64=(0, ch.choice([0, 1, 2]), ch.choice([0, 1, 2])))
                else:
                    rel += W.enc_rel(cls, le, rnd_word(ch, cls), symi, t, add)
            secs.append(sec(('.rela' if rela else '.rel') + ('.text' if k == 0 else '.data'), SHT_RELA if rela else SHT_REL, 0x40,
                            link=3, info=1, entsize=(3 if rela else 2) * word, align=word, data=rel))
        model = elf_model(cls, le, machine, secs, e_flags=e_flags)
        return {'kind': 'random', 'opt': ch.choice(['-r', '-r', '-r', '-s', '-S']), 'what': None, 'mark': None, 'model': model}
    # layout / symbols.  Extents of sections and segments stay inside the address space (start + size does not wrap)
    def half(v):
        return v >> 1
    nsec = ch.int(0, 5)
    names = ch.perm(RND_SEC_NAMES)[:nsec]
    secs = [sec('.text', SHT_PROGBITS, SHF_ALLOC | SHF_EXECINSTR, addr=half(rnd_word(ch, cls)), align=ch.choice([1, 4, 16]),
                data=ch.bytes(1, 70))]
    texty = []
    for nm in names:
        typ = ch.choice(RND_SH_TYPES)
        flags = 0
        for _ in range(ch.int(0, 3)):
            flags |= ch.choice(RND_SH_FLAG_BITS)
        kw = {}
        if typ == SHT_NOBITS:
            data = b''
            kw['size_override'] = half(rnd_word(ch, cls))
        elif typ == SHT_STRTAB:
            data = b'\0' + b'\0'.join(ch.choice([b'alpha', b'be ta', b'~[gamma]{}', b'', b'x' * 70]) for _ in range(ch.int(0, 4))) + b'\0'
        elif typ == SHT_NOTE:
            data = W.enc_note(le, b'GNU\0', ch.bytes(20), 3)
        elif ch.bool(0.4):      # text-like payload (the only kind that is string-dumped: printable ASCII and NULs)
            data = b'\0'.join(ch.choice([b'GCC: (c18) 12.2.0', b'a', b'', b'hello, world', b'%s: %d', b'abcd' * 9])
                               for _ in range(ch.int(1, 4))) + ch.choice([b'', b'\0'])
            texty.append(nm)
        else:
            data = ch.bytes(0, 60)
        if typ == SHT_STRTAB:
            texty.append(nm)
        secs.append(sec(nm, typ, flags, addr=half(rnd_word(ch, cls)) if (flags & SHF_ALLOC or ch.bool(0.2)) else 0,
                        link=ch.int(0, nsec + 2), info=ch.choice([0, 1, 3, 0xffff, 0x12345]), align=ch.choice(RND_ALIGNS),
                        entsize=ch.choice([0, 0, 1, 4, 8, 0x18, 0x100]), data=data, **kw))
    nsecs_total = 1 + len(secs) + 3      # null + user + strtab + symtab + shstrtab
    nsym = ch.int(0, 6) if shape == 'layout' else ch.int(3, 12)
    snames = [RND_SYM_NAMES[(k * 5 + nsym) % len(RND_SYM_NAMES)] + ('' if k < len(RND_SYM_NAMES) else str(k)) for k in range(nsym)]
    blob, offs = W.build_strtab(snames)
    syms = W.enc_sym(cls, le, 0, 0, 0, 0, 0, 0)
    for nm in snames:
        st_type = ch.choice([0, 1, 2, 3, 4, 5, 6])
        shndx = ch.choice(([0, 0xfff1, 0xfff2] if st_type != 3 else []) + list(range(1, 1 + len(secs))) * 2)
        size = ch.choice([0, 1, 8, 99999, 100000, 0x7fffffff, (1 << cls) - 1])
        syms += W.enc_sym(cls, le, 0 if (st_type == 3 and ch.bool()) else offs[nm], rnd_word(ch, cls), size,
                          (ch.choice([0, 1, 2]) << 4) | st_type, ch.choice([0, 1, 2, 3]), shndx)
    strtab_index = 1 + len(secs)
    secs.append(sec('.strtab', SHT_STRTAB, data=blob))
    secs.append(sec('.symtab', SHT_SYMTAB, link=strtab_index, info=1, entsize=W.SYM_SIZE[cls], align=word, data=syms))
    segs = []
    e_type = 1
    if ch.bool(0.6):
        e_type = 2
        for _ in range(ch.int(1, 4)):
            pt = ch.choice(RND_P_TYPES)
            if ch.bool(0.7):
                i = ch.int(1, len(secs))
                j = ch.int(i, min(len(secs), i + 2))
                delta = ch.choice([0, 0, 0, 1, -1])
                segs.append({'p_type': pt, 'p_flags': ch.int(0, 7), 'p_offset': ['sec_off', i, 0], 'p_vaddr': ['sec_addr', i, 0],
                             'p_paddr': ['sec_addr', i, 0],
                             'p_filesz': ['sec_off', j, 0] if False else ['sec_size', i, delta if secs[i - 1]['sh_type'] != SHT_NOBITS else 0],
                             'p_memsz': ['sec_size', i, max(delta, 0) + ch.choice([0, 0, 0x10])], 'p_align': ch.choice(RND_ALIGNS)})
            else:
                segs.append({'p_type': pt, 'p_flags': ch.int(0, 7), 'p_offset': half(rnd_word(ch, cls)), 'p_vaddr': half(rnd_word(ch, cls)),
                             'p_paddr': rnd_word(ch, cls), 'p_filesz': half(rnd_word(ch, cls)), 'p_memsz': half(rnd_word(ch, cls)),
                             'p_align': ch.choice(RND_ALIGNS + [(1 << cls) - 1])})
    model = elf_model(cls, le, machine, secs, segs, e_type=e_type, e_flags=e_flags, e_entry=rnd_word(ch, cls),
                      osabi=ch.choice([0, 0, 3, 9]), abiver=ch.choice([0, 0, 1]))
    dumpable = ['.text', '.shstrtab', '.strtab'] + names
    texty += ['.shstrtab', '.strtab']
    if shape == 'symbols':
        opt = '-s'
    else:
        k = ch.int(0, 9)
        opt = ['-h', '-S', '-S', '-l', '-l', '-e', '-s', '-x', '-p', '-x'][k]
        if opt in ('-x', '-p'):
            target = ch.choice(dumpable if opt == '-x' else texty)
            opt += target if ch.bool(0.8) else str(1 + ([s_['name'] for s_ in model['sections'][1:]].index(target)))
    return {'kind': 'random', 'opt': opt, 'what': None, 'mark': None, 'model': model}


# ---------------------------------------------------------------------------
# (i) corpus

def corpus_cases():
    P = proj()
    d = os.path.join(core.REPO, CORPUS_DIR)
    files = sorted(f for f in os.listdir(d) if os.path.splitext(f)[1] == '.elf')   # discover_testfiles()
    opts = list(P['options']) + [o for o in EXTRA_OPTIONS if o not in P['options']]
    return [{'kind': 'corpus', 'file': CORPUS_DIR + '/' + f, 'opt': o} for f in files for o in opts]


_SWEEP = {}


def sweep(tier):
    if tier not in _SWEEP:
        cases = corpus_cases() + synth_cases(tier)
        # two objects of different machines alive at once, debug dumps interleaved
        pairs = [('exe_simple64.elf', 'aarch64-pac-bti.elf'), ('exe_simple32.elf', 'exe_simple64.elf'), ('aarch64-pac-bti.elf', 'dwarf_gnuops4.so.elf'),
                 ('simple_armhf_gcc.o.elf', 'penalty_64_gcc.o.elf')]
        for a, b in pairs[:2 if tier == 'quick' else 4]:
            hist = [[0, 'frames-interp'], [1, 'frames-interp'], [0, 'frames-interp'], [0, 'frames'], [1, 'frames'], [0, 'frames'], [1, 'frames-interp'], [0, 'loc'], [1, 'loc'], [0, 'loc']]
            cases.append({'kind': 'pair', 'fileA': CORPUS_DIR + '/' + a, 'fileB': CORPUS_DIR + '/' + b, 'dumps': ['frames-interp', 'frames', 'loc'], 'history': hist})
        # interleave so that the 16 shards (case i goes to shard i % 16) get equal shares of the slow corpus dumps
        _SWEEP[tier] = cases
    return _SWEEP[tier]


def strategy(tier):
    @st.composite
    def rnd(draw):
        return build_random(HypChooser(draw), tier)
    return rnd()


def floors(ctx):
    out = []
    c = ctx.counters
    if not have_readelf() or c.get('oracle.absent'):
        out.append('deciding oracle %s is absent: nothing decided' % READELF)
        return out
    need = ['kind.corpus', 'kind.synth', 'nontrivial.corpus', 'nontrivial.synth', 'pairs.equal_whole', 'lines.compared']
    if c.get('random_cases'):
        need += ['kind.random', 'nontrivial.random']
    for k in need:
        if not c.get(k):
            out.append('counter %s is 0' % k)
    for t in ('e_machine', 'ei_osabi', 'e_type', 'e_flags', 'sh_type', 'sh_flags', 'p_type', 'p_flags', 'st_type', 'st_bind',
              'st_visibility', 'st_shndx', 'd_tag', 'dt_flags', 'dt_flags_1', 'note_abi_tag_os', 'note_type', 'gnu_property',
              'reloc', 'ver_flags', 'dw_tag', 'dw_at', 'dw_form', 'dw_lang', 'dw_ate', 'dw_op', 'dw_reg', 'dw_cfa', 'dump'):
        if not c.get('table.%s' % t):
            out.append('no synthesized file for table %s' % t)
    opts = [o for o in proj()['options'] if not o.startswith('-x') and not o.startswith('-p')] + ['-x', '-p'] + EXTRA_OPTIONS
    for o in opts:
        if not c.get('opt.%s' % o):
            out.append('option %s never compared' % o)
    decided = c.get('pairs.equal_whole', 0) + c.get('pairs.analysed_by_line', 0)
    if c.get('oracle.rc_nonzero', 0) * 20 > max(decided, 1):
        out.append('GNU readelf failed on %d pairs (more than 5%% of the %d decided ones): generator not well formed?'
                   % (c.get('oracle.rc_nonzero', 0), decided))
    return out


def evidence_extra(ctx):
    P = proj()
    skipped = sorted(k for k in ctx.counters if k.startswith('excluded.'))
    return {'external_oracles': {READELF: readelf_version() if have_readelf() else 'absent'},
            'options': list(P['options']) + EXTRA_OPTIONS, 'options_parsed_from_runner': P['options_from_runner'],
            'skipped': {k: ctx.counters[k] for k in skipped}}

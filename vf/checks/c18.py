"""C18 - the readelf clone (scripts/readelf.py) prints what GNU readelf prints.

    file (shipped corpus | synthesized by vf.enc.elf from one entry of a description table | random combination)
       --> /usr/bin/readelf <option> <file>                    (deciding oracle, stdout only, LC_ALL=C)
       --> ReadElf(file, StringIO).display_*()                 (the clone, in-process, same calls as its main())
       --> the project's own compare_output() (test/run_readelf_tests.py, loaded by path from the tree under test)

The two outputs are first compared as a whole by compare_output.  Only when that fails are they aligned line by
line (difflib on whitespace-free lower-case lines) and compare_output is re-run after neutralising each reported
line, so that every differing line is classified on its own: outside the envelope (clone says <unknown>),
oracle-does-not-know (GNU says <unknown>/unrecognized/unsupported), a documented 2.40-vs-2.41 effect, or a
discrepancy, which is bucketed by (option, table entry that produced the line) for the marked line of a
synthesized file and by (option, class of line) otherwise.
"""
import io
import os
import re
import ast
import sys
import atexit
import shutil
import struct
import difflib
import inspect
import tempfile
import subprocess
import importlib.util

from hypothesis import strategies as st

from vf import core
from vf.enc import elf as W
from vf.choose import RndChooser, HypChooser

ID = 'C18'
READELF = '/usr/bin/readelf'
CORPUS_DIR = 'test/testfiles_for_readelf'

RULE = ('(i) every non-empty *.elf of test/testfiles_for_readelf x the option list parsed out of '
        'test/run_readelf_tests.py (+ -h, -l, -S on their own), minus exactly the exclusions coded in that runner and the '
        'documented binutils-2.40 effects; (ii) one tiny ELF file per entry of the clone\'s description tables '
        '(every ENUM_E_MACHINE / ENUM_EI_OSABI / e_type / e_version value, e_flags values per decoded machine, every sh_type '
        'of every per-machine enum, every sh_flags bit, every p_type per machine, all p_flags values, symbol type / bind '
        '/ visibility / st_shndx values, every d_tag per machine and OS ABI, every DT_FLAGS / DT_FLAGS_1 / DT_MIPS_FLAGS bit, '
        'DT_PLTREL values, GNU note types / ABI-tag OS values / GNU property types and bits, every relocation type of the 9 '
        'described machines as REL and RELA, version flag combinations), written by the independent writer vf.enc.elf in both classes '
        'and byte orders where the format allows, compared under the matching option; (iii) random files combining several '
        'table entries (sections, segments, symbols, dynamic tags, relocations) compared under -h/-S/-l/-e/-s/-d/-r/-x/-p. The clone is run '
        'in-process exactly as its main() does, GNU readelf as a subprocess; outputs are compared with the project\'s '
        'compare_output, then line by line for bucketing. Non-trivial: a (file, option) pair in which >= 3 non-header '
        'lines (lines containing a digit and not ending in ":") were compared. Distinct by SHA-1 of file bytes + option.')
N = {'quick': 400, 'thorough': 20000}

ASSUMPTIONS = [
    'the deciding oracle is /usr/bin/readelf = GNU binutils 2.40 (the project pins 2.41); only stdout is compared, '
    'stderr (warnings) of both tools is ignored like in the project runner; a pair for which GNU readelf exits non-zero '
    'is counted (oracle.rc_nonzero) and not decided',
    'project exclusions applied verbatim from run_test_on_file: dwarf_debug_types.elf x frames/frames-interp/aranges; '
    '"core" in the file name x -n; dwarf_v4cie x frames-interp/aranges; -A/--arch-specific only for "-eabi-" files',
    '2.40 effect (not decided): --debug-dump=loc / =Ranges on files that contain .debug_loclists / .debug_rnglists '
    '(2.40 prints an older, incompatible layout); counted as excluded.v240.lists',
    '2.40 effect (not decided): the --debug-dump options on EM_LOONGARCH relocatable objects (2.40 cannot apply the '
    'ADD/SUB relocations of the debug sections); counted as excluded.v240.loongarch_debug',
    'envelope: a differing line in which the clone prints "<unknown>" or "unrecognized" is outside the envelope '
    '(counted envelope.clone_unknown); a differing line in which GNU readelf prints "<unknown", "unrecognized" or '
    '"unsupported" while the clone prints a name is oracle-does-not-know (counted envelope.oracle_unknown); neither is compared',
    'synthesized files are well formed for what the option reads: typed sections carry a valid (possibly empty) payload, the '
    'right sh_entsize and sh_link; dynamic strings live in a section named .dynstr; every file has a section header table',
    'synthesized -n files are not core files (the project excludes core notes); synthesized symbol tables keep st_shndx '
    'either special or < e_shnum; relocation types are only generated when they fit the r_info type field of the class',
    'empty corpus files (many_sections.o.elf is emptied in this tree) are skipped and counted',
    'in-process run resets elftools.dwarf.descriptions._MACHINE_ARCH and _DWARF_EXPR_DUMPER_CACHE before every file, '
    'which is the state a fresh `python scripts/readelf.py` process starts with',
]

DEFAULT_OPTIONS = [
    '-e', '-d', '-s', '-n', '-r', '-x.text', '-p.shstrtab', '-V',
    '--debug-dump=info', '--debug-dump=decodedline',
    '--debug-dump=frames', '--debug-dump=frames-interp',
    '--debug-dump=aranges', '--debug-dump=pubtypes',
    '--debug-dump=pubnames', '--debug-dump=loc',
    '--debug-dump=Ranges', '--arch-specific',
]
EXTRA_OPTIONS = ['-h', '-l', '-S']

MAX_LINE_FINDINGS = 25      # per (file, option): stop classifying after this many differing lines
NEUTRAL = 'c18 neutralised line'

# ---------------------------------------------------------------------------
# project pieces, loaded by path from the tree under test

_P = {}


def _load_by_path(path, name):
    spec = importlib.util.spec_from_file_location(name, path)
    mod = importlib.util.module_from_spec(spec)
    spec.loader.exec_module(mod)
    return mod


def proj():
    """-> dict(compare_output, ReadElf, options, dwarf_descr)"""
    if _P:
        return _P
    core.use_repo()
    repo = core.REPO
    testdir = os.path.join(repo, 'test')
    saved_path = list(sys.path)
    saved_utils = sys.modules.get('utils')
    try:
        sys.path.insert(0, testdir)
        sys.modules.pop('utils', None)
        rrt = _load_by_path(os.path.join(testdir, 'run_readelf_tests.py'), 'c18_run_readelf_tests')
        clone = _load_by_path(os.path.join(repo, 'scripts', 'readelf.py'), 'c18_readelf_clone')
    finally:
        sys.path[:] = saved_path
        sys.modules.pop('utils', None)
        if saved_utils is not None:
            sys.modules['utils'] = saved_utils
    try:
        rrt.testlog.handlers[:] = []
    except Exception:
        pass
    opts = None
    try:
        tree = ast.parse(inspect.getsource(rrt.run_test_on_file))
        for node in ast.walk(tree):
            if (isinstance(node, ast.Assign) and len(node.targets) == 1 and isinstance(node.targets[0], ast.Name)
                    and node.targets[0].id == 'options' and isinstance(node.value, ast.List)):
                v = ast.literal_eval(node.value)
                if len(v) > 1 and all(isinstance(x, str) for x in v):
                    opts = v
                    break
    except Exception:
        opts = None
    import elftools.dwarf.descriptions as dd
    _P.update(compare_output=rrt.compare_output, ReadElf=clone.ReadElf, clone_mod=clone,
              options=list(opts or DEFAULT_OPTIONS), options_from_runner=opts is not None, dwarf_descr=dd)
    return _P


def project_exclusion(filename, option):
    """Transcription of the skips in run_test_on_file (test/run_readelf_tests.py); returns a reason or None."""
    if filename.endswith('dwarf_debug_types.elf') and option in ('--debug-dump=frames', '--debug-dump=frames-interp',
                                                                  '--debug-dump=aranges'):
        return 'dwarf_debug_types'
    if 'core' in filename and option == '-n':
        return 'core_notes'
    if 'dwarf_v4cie' in filename and option in ('--debug-dump=frames-interp', '--debug-dump=aranges'):
        return 'dwarf_v4cie'
    if option in ('-A', '--arch-specific') and '-eabi-' not in filename:
        return 'arch_specific_non_eabi'
    return None


# ---------------------------------------------------------------------------
# a minimal independent look at a file (for the version-effect exclusions and bucket qualifiers)

def peek(data):
    """-> dict(cls, le, e_type, e_machine, osabi, e_flags, names=set of section names) or None"""
    if len(data) < 52 or data[:4] != b'\x7fELF' or data[4] not in (1, 2) or data[5] not in (1, 2):
        return None
    cls = 32 if data[4] == 1 else 64
    e = '<' if data[5] == 1 else '>'
    try:
        if cls == 32:
            (e_type, e_machine, _v, _entry, _phoff, shoff, flags, _eh, _phes, _phn, shes, shn, shstr) = \
                struct.unpack_from(e + 'HHIIIIIHHHHHH', data, 16)
        else:
            (e_type, e_machine, _v, _entry, _phoff, shoff, flags, _eh, _phes, _phn, shes, shn, shstr) = \
                struct.unpack_from(e + 'HHIQQQIHHHHHH', data, 16)
    except struct.error:
        return None
    names = set()
    try:
        if shoff and shn and shstr < shn and shes >= (40 if cls == 32 else 64):
            def shdr(i):
                if cls == 32:
                    f = struct.unpack_from(e + '10I', data, shoff + i * shes)
                else:
                    f = struct.unpack_from(e + 'IIQQQQIIQQ', data, shoff + i * shes)
                return f
            so, ss = shdr(shstr)[4], shdr(shstr)[5]
            tab = data[so:so + ss]
            for i in range(shn):
                n = shdr(i)[0]
                end = tab.find(b'\0', n)
                if 0 <= n < len(tab) and end >= 0:
                    names.add(tab[n:end].decode('latin-1'))
    except struct.error:
        pass
    return dict(cls=cls, le=(e == '<'), e_type=e_type, e_machine=e_machine, osabi=data[7], e_flags=flags, names=names)


EM_LOONGARCH = 258


def version_exclusion(info, option):
    """2.40-vs-2.41 effects that make a (file, option) pair undecidable on this image."""
    if info is None:
        return None
    if option == '--debug-dump=loc' and ('.debug_loclists' in info['names'] or '.debug_loclists.dwo' in info['names']):
        return 'lists'
    if option == '--debug-dump=Ranges' and ('.debug_rnglists' in info['names'] or '.debug_rnglists.dwo' in info['names']):
        return 'lists'
    if option.startswith('--debug-dump=') and info['e_machine'] == EM_LOONGARCH and info['e_type'] == 1:
        return 'loongarch_debug'
    return None


# ---------------------------------------------------------------------------
# running the two tools

def run_clone(path, option):
    """Same calls as main() of scripts/readelf.py makes for `option`.  -> text (raises what the clone raises)."""
    P = proj()
    dd = P['dwarf_descr']
    dd._MACHINE_ARCH = None
    if hasattr(dd, '_DWARF_EXPR_DUMPER_CACHE'):
        dd._DWARF_EXPR_DUMPER_CACHE.clear()
    out = io.StringIO()
    saved_err = sys.stderr
    sys.stderr = io.StringIO()
    try:
        with open(path, 'rb') as f:
            r = P['ReadElf'](f, out)
            if option == '-e':
                r.display_file_header()
                r.display_section_headers(show_heading=False)
                r.display_program_headers(show_heading=False)
            elif option == '-h':
                r.display_file_header()
            elif option == '-S':
                r.display_section_headers(show_heading=True)
            elif option == '-l':
                r.display_program_headers(show_heading=True)
            elif option == '-d':
                r.display_dynamic_tags()
            elif option == '-s':
                r.display_symbol_tables()
            elif option == '-n':
                r.display_notes()
            elif option == '-r':
                r.display_relocations()
            elif option == '-V':
                r.display_version_info()
            elif option in ('-A', '--arch-specific'):
                r.display_arch_specific()
            elif option.startswith('-x'):
                r.display_hex_dump(option[2:])
            elif option.startswith('-p'):
                r.display_string_dump(option[2:])
            elif option.startswith('--debug-dump='):
                r.display_debug_dump(option[len('--debug-dump='):])
            else:
                raise core.HarnessError('unmapped option %r' % option)
    finally:
        sys.stderr = saved_err
    return out.getvalue()


def have_readelf():
    return os.path.isfile(READELF) and os.access(READELF, os.X_OK)


_VER = {}


def readelf_version():
    if 'v' not in _VER:
        try:
            r = subprocess.run([READELF, '--version'], stdout=subprocess.PIPE, stderr=subprocess.PIPE,
                               env=dict(os.environ, LC_ALL='C'))
            _VER['v'] = r.stdout.decode('latin-1').splitlines()[0].strip()
        except Exception:
            _VER['v'] = 'absent'
    return _VER['v']


def run_gnu(path, option):
    r = subprocess.run([READELF, option, path], stdout=subprocess.PIPE, stderr=subprocess.PIPE,
                       env=dict(os.environ, LC_ALL='C'))
    return r.returncode, r.stdout.decode('latin-1')


_TMP = {}


def tmp_path():
    if 'd' not in _TMP or _TMP.get('pid') != os.getpid():
        d = tempfile.mkdtemp(prefix='vf_c18_')
        _TMP['d'], _TMP['pid'] = d, os.getpid()
        atexit.register(shutil.rmtree, d, True)
    return os.path.join(_TMP['d'], 'synth.bin')


# ---------------------------------------------------------------------------
# line handling

def prep(s):
    # identical to prepare_lines() inside the project's compare_output
    return [line for line in s.lower().splitlines() if line.strip()]


def squeeze(line):
    return ''.join(line.split())


def is_nonheader(line):
    return (not line.rstrip().endswith(':')) and any(ch.isdigit() for ch in line)


_RE_MISMATCH = re.compile(r'Mismatch on line #(\d+):')
_CLONE_UNKNOWN = ('<unknown>', 'unrecognized')
_GNU_UNKNOWN = ('<unknown', 'unrecognized', 'unsupported')


def lineclass(opt, g, c):
    """Class of a line (lower case; g = GNU's, c = the clone's; one may be None)."""
    l = g if g is not None else c
    s = l.strip()
    o = opt
    if o in ('-h', '-e') or o == '-S' or o == '-l':
        if o in ('-h', '-e'):
            m = re.match(r"^\s{2}([a-z][a-z/ '\-]*?):", l)
            if m and not s.startswith('['):
                return 'header.' + m.group(1).replace(' ', '_')
            if s == 'elf header:':
                return 'header.title'
        if s.startswith('there are') or s.startswith('there is'):
            if 'section header' in s:
                return 'sections.heading'
            if 'program header' in s:
                return 'segments.heading.count'
            if 'no sections' in s:
                return 'sections.none'
            return 'heading'
        if s.startswith('elf file type is'):
            return 'segments.heading.filetype'
        if s.startswith('entry point'):
            return 'segments.heading.entry'
        if s.startswith('section header'):
            return 'sections.title'
        if s.startswith('program headers:'):
            return 'segments.title'
        if s.startswith('[nr]') or s.startswith('size ') and 'entsize' in s:
            return 'sections.columns'
        if s.startswith('type ') and 'offset' in s or s.startswith('filesiz'):
            return 'segments.columns'
        if re.match(r'^\[\s*\d+\]', s):
            return 'sections.entry'
        if s.startswith('key to flags') or '(write)' in s or '(link order)' in s or '(compressed)' in s or \
                'processor specific' in s or '(mbind)' in s or '(large)' in s or '(purecode)' in s:
            return 'sections.key'
        if s.startswith('[requesting program interpreter'):
            return 'segments.interp'
        if s.startswith('section to segment mapping') or s.startswith('segment sections'):
            return 'segments.mapping.title'
        if re.match(r'^\d\d(\s|$)', s):
            return 'segments.mapping'
        if re.match(r'^[0-9a-f]{16}\s+[0-9a-f]{16}', s):
            return 'entry2'
        if re.match(r'^[a-z_+<>0-9:]+\s+0x[0-9a-f]+\s+0x[0-9a-f]+', s):
            return 'segments.entry'
        return 'line'
    if o == '-s':
        if s.startswith('symbol table'):
            return 'heading'
        if s.startswith('num:'):
            return 'columns'
        if re.match(r'^\d+:', s):
            return 'entry'
        return 'line'
    if o == '-d':
        if s.startswith('dynamic section at'):
            return 'heading'
        if s.startswith('tag '):
            return 'columns'
        if re.match(r'^0x[0-9a-f]+\s+\(', s):
            return 'entry'
        if s.startswith('there is no dynamic'):
            return 'none'
        return 'line'
    if o == '-n':
        if s.startswith('displaying notes'):
            return 'heading'
        if s.startswith('owner'):
            return 'columns'
        if re.match(r'^\S+\s+0x[0-9a-f]{8}\s', s):
            return 'note'
        return 'detail'
    if o == '-r':
        if s.startswith('relocation section'):
            return 'heading'
        if s.startswith('offset'):
            return 'columns'
        if s.startswith('type2:') or s.startswith('type3:'):
            return 'entry2'
        if re.match(r'^[0-9a-f]+\s+[0-9a-f]+\s', s):
            return 'entry'
        if s.startswith('there are no relocations'):
            return 'none'
        return 'line'
    if o == '-V':
        if 'section' in s and 'contains' in s:
            return 'heading'
        if s.startswith('addr:'):
            return 'addr'
        if re.match(r'^[0-9a-f]{3}:', s):
            return 'versym'
        if 'rev:' in s:
            return 'verdef'
        if 'parent' in s:
            return 'verdaux'
        if 'file:' in s:
            return 'verneed'
        if 'name:' in s and 'flags:' in s:
            return 'vernaux'
        if s.startswith('no version information'):
            return 'none'
        return 'line'
    if o.startswith('-x') or o.startswith('-p'):
        if 'dump of section' in s:
            return 'heading'
        if re.match(r'^0x[0-9a-f]+\s', s):
            return 'row'
        if re.match(r'^\[\s*[0-9a-f]+\]', s):
            return 'string'
        return 'line'
    if o.startswith('--debug-dump='):
        m = re.search(r'\b(dw_(?:at|cfa|op|tag|form|lne|lns)_[a-z0-9_]+)', s)
        if m:
            return m.group(1)
        if re.match(r'^<\d+><[0-9a-f]+>', s):
            return 'die'
        if s.endswith(':'):
            return 'heading'
        return 'line'
    if o in ('-A', '--arch-specific'):
        m = re.match(r'^"?(tag_[a-z0-9_]+)', s)
        if m:
            return m.group(1)
        return 'line'
    return 'line'


def optkey(opt):
    if opt.startswith('-x'):
        return '-x'
    if opt.startswith('-p'):
        return '-p'
    return opt


EM_NAMES = {0: 'NONE', 3: '386', 8: 'MIPS', 20: 'PPC', 21: 'PPC64', 22: 'S390', 40: 'ARM', 62: 'X86_64', 105: 'MSP430',
            183: 'AARCH64', 243: 'RISCV', 258: 'LOONGARCH'}


def header_bucket(cl, info):
    """ELF-header lines are a function of single header fields: name the field value, not the file."""
    if info is None:
        return cl
    m = EM_NAMES.get(info['e_machine'], str(info['e_machine']))
    if cl == 'header.machine':
        return 'e_machine|%s' % m
    if cl == 'header.os/abi':      # GNU names values below 64 independently of the machine
        return 'ei_osabi|%d' % info['osabi'] if info['osabi'] < 64 else 'ei_osabi|m=%s|%d' % (m, info['osabi'])
    if cl == 'header.type':
        return 'e_type|0x%x' % info['e_type']
    if cl == 'header.flags':
        return 'e_flags|m=%s|0x%x' % (m, info['e_flags'])
    return cl


def compare(ctx, case, opt, gnu_out, clone_out, what=None, mark=None, tag='', info=None):
    """Compare the two outputs; record buckets.  -> number of compared non-header lines."""
    cmp_out = proj()['compare_output']
    ok, msg = cmp_out(gnu_out, clone_out)
    g, c = prep(gnu_out), prep(clone_out)
    ko = optkey(opt)
    if ok:
        ctx.count('pairs.equal_whole')
        ctx.count('lines.compared', len(g))
        return sum(1 for l in g if is_nonheader(l))
    ctx.count('pairs.analysed_by_line')
    nfind = 0
    # 1. alignment when the line counts differ
    if len(g) != len(c):
        gs, cs = [squeeze(l) for l in g], [squeeze(l) for l in c]
        if len(g) * len(c) > 4000 * 4000:
            ctx.fail('%s|line_count' % ko, '%s %s: %d lines from GNU readelf, %d from the clone (too large to align)'
                     % (tag, opt, len(g), len(c)), case)
            return 0
        sm = difflib.SequenceMatcher(None, gs, cs, autojunk=False)
        g2, c2 = [], []
        for op, i1, i2, j1, j2 in sm.get_opcodes():
            if op == 'equal':
                g2 += g[i1:i2]
                c2 += c[j1:j2]
                continue
            k = min(i2 - i1, j2 - j1)
            g2 += g[i1:i1 + k]
            c2 += c[j1:j1 + k]
            for l in g[i1 + k:i2]:
                nfind += 1
                if nfind <= MAX_LINE_FINDINGS:
                    ctx.count('lines.missing')
                    ctx.fail('%s|missing|%s' % (ko, lineclass(opt, l, None)),
                             '%s %s: line printed by GNU readelf only: %r' % (tag, opt, l), case)
            for l in c[j1 + k:j2]:
                nfind += 1
                if nfind <= MAX_LINE_FINDINGS:
                    ctx.count('lines.extra')
                    ctx.fail('%s|extra|%s' % (ko, lineclass(opt, None, l)),
                             '%s %s: line printed by the clone only: %r' % (tag, opt, l), case)
        g, c = g2, c2
    # 2. project comparison, neutralising one reported line at a time
    compared = len(g)
    rounds = 0
    while True:
        ok, msg = cmp_out('\n'.join(g), '\n'.join(c))
        if ok:
            break
        m = _RE_MISMATCH.search(msg)
        if not m:
            raise core.HarnessError('compare_output gave an unexpected message: %r' % msg[:200])
        i = int(m.group(1))
        lg, lc = g[i], c[i]
        compared -= 1
        if any(t in lc for t in _CLONE_UNKNOWN):
            ctx.count('envelope.clone_unknown|%s' % ko)
        elif any(t in lg for t in _GNU_UNKNOWN):
            ctx.count('envelope.oracle_unknown|%s' % ko)
            if what:
                ctx.count('skip.oracle_unknown|%s|%s' % (ko, what))
        else:
            nfind += 1
            cl = lineclass(opt, lg, lc)
            on_mark = False
            if mark is not None:
                lo = i
                if cl.endswith('entry2'):
                    lo = max(0, i - 2)
                for k in range(lo, i + 1):
                    if re.search(mark, g[k]) or re.search(mark, c[k]):
                        on_mark = True
            if cl.startswith('header.'):
                bucket = '%s|%s' % ('-h' if ko == '-e' else ko, header_bucket(cl, info))
            elif on_mark and what:
                bucket = '%s|%s' % (ko, what)
            else:
                bucket = '%s|%s' % (ko, cl)
            ctx.count('lines.differ')
            ctx.fail(bucket, '%s %s: GNU readelf %r, the clone %r' % (tag, opt, lg, lc), case)
        g[i] = c[i] = NEUTRAL
        rounds += 1
        if nfind >= MAX_LINE_FINDINGS or rounds > 400:
            ctx.count('pairs.truncated_analysis')
            break
    ctx.count('lines.compared', max(compared, 0))
    return sum(1 for l in g if l != NEUTRAL and is_nonheader(l))


# ---------------------------------------------------------------------------
# run_case

def run_case(ctx, case):
    P = proj()
    if not have_readelf():
        ctx.count('oracle.absent')
        ctx.case(core.dumps(case), False)
        return
    opt = case['opt']
    kind = case['kind']
    if kind == 'corpus':
        rel = case['file']
        path = os.path.join(core.REPO, rel)
        ctx.count('kind.corpus')
        if not os.path.isfile(path):
            raise core.HarnessError('corpus file missing: %s' % path)
        if os.path.getsize(path) == 0:
            ctx.count('excluded.empty_file')
            ctx.case(core.dumps(case), False)
            return
        why = project_exclusion(os.path.basename(rel), opt)
        if why:
            ctx.count('excluded.project.%s' % why)
            ctx.case(core.dumps(case), False)
            return
        with open(path, 'rb') as f:
            data = f.read()
        tag = os.path.basename(rel)
        what = mark = None
    else:
        data, _R = W.build(case['model'])
        path = tmp_path()
        with open(path, 'wb') as f:
            f.write(data)
        ctx.count('kind.%s' % kind)
        what, mark = case.get('what'), case.get('mark')
        tag = '%s[%s]' % (kind, what or '')
        if what:
            ctx.count('table.%s' % what.split('|')[0])
    info = peek(data)
    why = version_exclusion(info, opt)
    if why:
        ctx.count('excluded.v240.%s' % why)
        ctx.case(core.dumps(case), False)
        return
    key = core.digest(data, opt)
    rc, gnu_out = run_gnu(path, opt)
    if rc != 0:
        ctx.count('oracle.rc_nonzero')
        ctx.count('oracle.rc_nonzero|%s' % optkey(opt))
        ctx.case(key, False)
        return
    try:
        clone_out = run_clone(path, opt)
    except core.HarnessError:
        raise
    except Exception as e:  # what main() would turn into "ELF error" + exit 1, or a traceback
        ctx.count('clone.exception')
        ctx.fail_exc('clone.exception|%s%s' % (optkey(opt), ('|' + what) if what else ''), e, case, extra=tag)
        ctx.case(key, False)
        return
    ctx.count('opt.%s' % optkey(opt))
    n = compare(ctx, case, opt, gnu_out, clone_out, what=what, mark=mark, tag=tag, info=info)
    if n >= 3:
        ctx.count('nontrivial.%s' % kind)
    ctx.case(key, n >= 3, {'kind': kind, 'opt': opt, 'what': what or case.get('file'), 'lines': n,
                           'file_hex': data[:96].hex() if kind != 'corpus' else None})


# ---------------------------------------------------------------------------
# (ii) synthesized files: one per entry of the clone's description tables

CELLS = [(64, True), (32, True), (64, False), (32, False)]

# hand-written machine numbers (gABI / psABI registries), used for the files the sweep builds
EM = dict(NONE=0, I386=3, MIPS=8, PPC=20, PPC64=21, S390=22, ARM=40, X86_64=62, AARCH64=183, RISCV=243, LOONGARCH=258)

SHT_NULL, SHT_PROGBITS, SHT_SYMTAB, SHT_STRTAB, SHT_RELA, SHT_HASH, SHT_DYNAMIC, SHT_NOTE, SHT_NOBITS, SHT_REL = range(10)
SHT_DYNSYM, SHT_SYMTAB_SHNDX, SHT_RELR = 11, 18, 19
SHT_GNU_HASH, SHT_GNU_verdef, SHT_GNU_verneed, SHT_GNU_versym = 0x6ffffff6, 0x6ffffffd, 0x6ffffffe, 0x6fffffff
SHT_SUNW_LDYNSYM, SHT_SUNW_syminfo = 0x6ffffff3, 0x6ffffffc
SHT_PROC_ATTRIBUTES = 0x70000003
PT_LOAD, PT_DYNAMIC = 1, 2
SHF_WRITE, SHF_ALLOC, SHF_EXECINSTR = 1, 2, 4


def sec(name, typ, flags=0, addr=0, link=0, info=0, align=1, entsize=0, data=b'', **kw):
    d = dict(name=name, sh_type=typ, sh_flags=flags, sh_addr=addr, sh_link=link, sh_info=info, sh_addralign=align,
             sh_entsize=entsize, data=data)
    d.update(kw)
    return d


def elf_model(cls, le, machine, secs, segs=(), e_type=1, osabi=0, e_flags=0, e_entry=0, abiver=0, e_version=1,
              ei_version=1):
    sections = [dict(name='', sh_type=0, data=None)] + list(secs) + [sec('.shstrtab', SHT_STRTAB)]
    return {'cls': cls, 'le': le, 'osabi': osabi, 'abiver': abiver, 'ei_version': ei_version, 'e_type': e_type,
            'e_machine': machine, 'e_version': e_version, 'e_entry': e_entry, 'e_flags': e_flags,
            'sections': sections, 'segments': list(segs), 'shstrndx': len(sections) - 1}


def text_sec():
    return sec('.text', SHT_PROGBITS, SHF_ALLOC | SHF_EXECINSTR, addr=0x1000, align=4, data=b'\x90\x90\x90\xc3')


def synth(opt, what, mark, model):
    return {'kind': 'synth', 'opt': opt, 'what': what, 'mark': mark, 'model': model}


def tables():
    """The clone's tables (names -> codes), imported from the tree under test."""
    core.use_repo()
    import elftools.elf.enums as en
    import elftools.elf.constants as co
    import elftools.elf.descriptions as de
    return en, co, de


def enum_items(d):
    return sorted(((k, v) for k, v in d.items() if isinstance(v, int) and not k.startswith('_')), key=lambda kv: (kv[1], kv[0]))


def uniq_codes(d):
    """[(code, 'NAME1/NAME2')] sorted by code"""
    by = {}
    for k, v in enum_items(d):
        by.setdefault(v, []).append(k)
    return [(v, '/'.join(sorted(ks))) for v, ks in sorted(by.items())]


# ---- -h

def header_cases():
    en, co, de = tables()
    out = []
    n = 0
    for code, name in uniq_codes(en.ENUM_E_MACHINE):
        cls, le = CELLS[n % 4]
        n += 1
        out.append(synth('-h', 'e_machine|%s(%d)' % (name, code), r'^\s*machine:',
                         elf_model(cls, le, code, [text_sec()])))
    osabi_machines = [('EM_X86_64', EM['X86_64']), ('EM_ARM', EM['ARM']), ('EM_MSP430', 105)]
    for code, name in uniq_codes(en.ENUM_EI_OSABI):
        for mname, m in osabi_machines:
            cls, le = (32, True) if m == EM['ARM'] else (64, True)
            out.append(synth('-h', 'ei_osabi|m=%s|%s(%d)' % (mname, name, code), r'^\s*os/abi:',
                             elf_model(cls, le, m, [text_sec()], osabi=code,
                                       e_flags=0x05000000 if m == EM['ARM'] else 0)))
    for code, name in uniq_codes(en.ENUM_E_TYPE) + [(0xfe00, 'ET_LOOS'), (0xfeff, 'ET_HIOS'), (5, 'unassigned'), (0xff80, 'proc')]:
        if code == 3:
            continue   # ET_DYN: see dyn_type_cases (needs a dynamic section to be well formed)
        cls, le = CELLS[n % 4]
        n += 1
        out.append(synth('-h', 'e_type|%s(0x%x)' % (name, code), r'^\s*type:',
                         elf_model(cls, le, EM['X86_64'], [text_sec()], e_type=code)))
    # ET_DYN with a dynamic section, with and without DF_1_PIE, and (well formed, too) without any dynamic section
    for pie in (False, True):
        for cls, le in ((64, True), (32, False)):
            out.append(synth('-h', 'e_type|ET_DYN(3)|pie=%d' % pie, r'^\s*type:', dyn_model(
                cls, le, EM['X86_64'] if cls == 64 else EM['I386'], [(0x6ffffffb, 0x08000001 if pie else 1)], e_type=3,
                with_segment=True)))
    out.append(synth('-h', 'e_type|ET_DYN(3)|no_dynamic_section', r'^\s*type:',
                     elf_model(64, True, EM['X86_64'], [text_sec()], e_type=3)))
    for ev in (0, 1):
        out.append(synth('-h', 'e_version|%d' % ev, r'^\s*version:', elf_model(64, True, EM['X86_64'], [text_sec()], e_version=ev)))
    for ev in (0, 1):
        out.append(synth('-h', 'ei_version|%d' % ev, r'^\s*version:', elf_model(32, True, EM['I386'], [text_sec()], ei_version=ev)))
    for abiver in (0, 1, 255):
        out.append(synth('-h', 'ei_abiversion|%d' % abiver, r'^\s*abi version:', elf_model(64, False, EM['PPC64'], [text_sec()], abiver=abiver)))
    # e_flags: the values of the library's own E_FLAGS / E_FLAGS_MASKS constants per machine (the clone's envelope), alone
    # and - for ARM, whose flags are only decoded under EABI version 5 - together with EF_ARM_EABI_VER5, plus a few
    # typical combinations of those constants; 0 for every machine
    def consts(prefixes):
        vals = set()
        for klass in (co.E_FLAGS, co.E_FLAGS_MASKS):
            for k, v in vars(klass).items():
                if isinstance(v, int) and k.startswith(prefixes) and 'MASK' not in k and \
                        k not in ('EF_MIPS_ARCH', 'EF_RISCV_FLOAT_ABI', 'EFM_MIPS_ABI'):
                    vals.add(v)
        return sorted(vals)
    ef = []
    armc = consts(('EF_ARM_',))
    arm = set([0] + armc + [v | 0x05000000 for v in armc if v < 0x01000000] + [0x05800400, 0x05400200])
    ef += [('EM_ARM', EM['ARM'], 32, v) for v in sorted(arm)]
    ef += [('EM_PPC64', EM['PPC64'], 64, v) for v in sorted(set([0] + consts(('EF_PPC64_',))))]
    mips = set([0] + consts(('EF_MIPS_', 'EFM_MIPS_')) + [0x70001007, 0x80000027, 0x50001105, 0x10000001, 0x60000024])
    ef += [('EM_MIPS', EM['MIPS'], 32, v) for v in sorted(mips)]
    ef += [('EM_MIPS', EM['MIPS'], 64, v) for v in (0, 0x80000007, 0x20000024, 0x60000001)]
    riscv = set([0] + consts(('EF_RISCV_',)) + [5, 0x1b, 3])
    ef += [('EM_RISCV', EM['RISCV'], 64, v) for v in sorted(riscv)]
    ef += [('EM_RISCV', EM['RISCV'], 32, v) for v in (0, 1, 9)]
    la = set([0] + consts(('EF_LOONGARCH_',)) + [0x41, 0x42, 0x43])
    ef += [('EM_LOONGARCH', EM['LOONGARCH'], 64, v) for v in sorted(la)]
    ef += [('EM_LOONGARCH', EM['LOONGARCH'], 32, v) for v in (0, 0x41)]
    ef += [('EM_X86_64', EM['X86_64'], 64, v) for v in (0, 1, 0xffffffff)]
    ef += [('EM_AARCH64', EM['AARCH64'], 64, v) for v in (0, 1)]
    ef += [('EM_386', EM['I386'], 32, v) for v in (0, 0x80000000)]
    for mname, m, cls, v in ef:
        out.append(synth('-h', 'e_flags|m=%s|c=%d|0x%x' % (mname, cls, v), r'^\s*flags:',
                         elf_model(cls, True, m, [text_sec()], e_flags=v)))
    return out


# ---- -S

def strtab_symtab(cls, le, names=()):
    """-> [.strtab, .symtab] with a null symbol only (+ names as global NOTYPE symbols in section 1)"""
    blob, offs = W.build_strtab(list(names))
    syms = W.enc_sym(cls, le, 0, 0, 0, 0, 0, 0)
    for nm in names:
        syms += W.enc_sym(cls, le, offs[nm], 0x1000, 0, 0x10, 0, 1)
    return blob, offs, syms


def sh_payload(cls, le, typ, machine_name):
    """Well-formed minimal payload for a section of the given type in the -S file, whose fixed neighbours are
    [1]=target  [2]=.strtab  [3]=.symtab(link 2)  -> dict(link, info, entsize, data, align)"""
    word = 4 if cls == 32 else 8
    symsz, dynsz = W.SYM_SIZE[cls], W.DYN_SIZE[cls]
    if typ in (SHT_SYMTAB, SHT_DYNSYM, SHT_SUNW_LDYNSYM):
        return dict(link=2, info=1, entsize=symsz, data=W.enc_sym(cls, le, 0, 0, 0, 0, 0, 0), align=word)
    if typ == SHT_STRTAB:
        return dict(data=b'\0c18\0')
    if typ == SHT_RELA:
        return dict(link=3, info=0, entsize=3 * word, data=b'', align=word)
    if typ == SHT_REL:
        return dict(link=3, info=0, entsize=2 * word, data=b'', align=word)
    if typ == SHT_RELR:
        return dict(entsize=word, data=b'', align=word)
    if typ == SHT_HASH:
        return dict(link=3, entsize=4, data=W.enc_sysv_hash(le, [b''], 1), align=word)
    if typ == SHT_GNU_HASH:
        return dict(link=3, data=W.enc_gnu_hash(cls, le, [b''], 1, 1, 1, 0), align=word)
    if typ == SHT_DYNAMIC:
        return dict(link=2, entsize=dynsz, data=W.enc_dyn(cls, le, 0, 0), align=word)
    if typ == SHT_NOTE:
        return dict(data=W.enc_note(le, b'GNU\0', b'\x01' * 20, 3), align=4)
    if typ == SHT_SYMTAB_SHNDX:
        return dict(link=3, entsize=4, data=struct.pack(W.E(le) + 'I', 0), align=4)
    if typ == SHT_GNU_versym:
        return dict(link=3, entsize=2, data=struct.pack(W.E(le) + 'H', 0), align=2)
    if typ in (SHT_GNU_verdef, SHT_GNU_verneed):
        return dict(link=2, info=0, data=b'', align=word)
    if typ == SHT_SUNW_syminfo:
        return dict(link=3, entsize=4, data=b'\0\0\0\0', align=4)
    if typ == SHT_PROC_ATTRIBUTES and machine_name in ('EM_ARM', 'EM_RISCV'):
        vendor = b'aeabi\0' if machine_name == 'EM_ARM' else b'riscv\0'
        sub = b'\x01' + struct.pack(W.E(le) + 'I', 5)
        return dict(data=b'A' + struct.pack(W.E(le) + 'I', 4 + len(vendor) + len(sub)) + vendor + sub)
    if typ == SHT_NOBITS:
        return dict(data=b'', size_override=0x20)
    return dict(data=b'\x00\x01\x02\x03\x04\x05\x06\x07')


def section_file(cls, le, machine, mname, typ, flags, osabi=0):
    p = sh_payload(cls, le, typ, mname)
    extra = {}
    if 'size_override' in p:
        extra['size_override'] = p['size_override']
    blob, offs, syms = strtab_symtab(cls, le)
    target = sec('.c18t', typ, flags, addr=0xc18000 if flags & SHF_ALLOC else 0, link=p.get('link', 0),
                 info=p.get('info', 0), align=p.get('align', 1), entsize=p.get('entsize', 0), data=p['data'], **extra)
    secs = [target, sec('.strtab', SHT_STRTAB, data=blob),
            sec('.symtab', SHT_SYMTAB, link=2, info=1, entsize=W.SYM_SIZE[cls], align=4 if cls == 32 else 8, data=syms)]
    return elf_model(cls, le, machine, secs, osabi=osabi, e_flags=0x05000000 if machine == EM['ARM'] else 0)


def section_cases():
    en, co, de = tables()
    out = []
    per_machine = [('EM_386', EM['I386'], en.ENUM_SH_TYPE_BASE), ('EM_X86_64', EM['X86_64'], en.ENUM_SH_TYPE_AMD64),
                   ('EM_ARM', EM['ARM'], en.ENUM_SH_TYPE_ARM), ('EM_AARCH64', EM['AARCH64'], en.ENUM_SH_TYPE_AARCH64),
                   ('EM_MIPS', EM['MIPS'], en.ENUM_SH_TYPE_MIPS), ('EM_RISCV', EM['RISCV'], en.ENUM_SH_TYPE_RISCV)]
    natural = {'EM_386': 32, 'EM_X86_64': 64, 'EM_ARM': 32, 'EM_AARCH64': 64, 'EM_MIPS': 32, 'EM_RISCV': 64}
    base_codes = set(v for _k, v in enum_items(en.ENUM_SH_TYPE_BASE))
    n = 0
    for mname, m, table in per_machine:
        for code, name in uniq_codes(table):
            if mname not in ('EM_386', 'EM_X86_64') and code in base_codes and code < 0x60000000 and code not in (0, 1):
                continue    # the generic low codes are exercised on the two x86 machines (both classes)
            classes = (32, 64) if (mname in ('EM_386', 'EM_X86_64', 'EM_MIPS') or code >= 0x70000000) else (natural[mname],)
            if mname == 'EM_386':
                classes = (32,)
            if mname == 'EM_X86_64':
                classes = (64,)
            for cls in classes:
                le = (n % 3 != 2) if mname in ('EM_ARM', 'EM_MIPS') else True
                n += 1
                out.append(synth('-S', 'sh_type|m=%s|c=%d|%s(0x%x)' % (mname, cls, name, code), r'\.c18t',
                                 section_file(cls, le, m, mname, code, 0)))
    # unnamed codes next to the named ranges: the fall-through texts of describe_sh_type
    for mname, m, cls in (('EM_X86_64', EM['X86_64'], 64), ('EM_ARM', EM['ARM'], 32)):
        for code in (12, 13, 20, 0x5fffffff, 0x60000001, 0x6fffff00, 0x6ffffff4, 0x6ffffff8, 0x6ffffffb, 0x70000000,
                     0x70000005, 0x7fffffff, 0x80000001):
            out.append(synth('-S', 'sh_type|m=%s|c=%d|unnamed(0x%x)' % (mname, cls, code), r'\.c18t',
                             section_file(cls, True, m, mname, code, 0)))
    # flags: every bit alone (bits >= 32 exist in ELF64 only), on PROGBITS; plus combinations
    combos = [0, 3, 6, 7, 0x30, 0x32, 0x42, 0x82, 0x202, 0x403, 0x802, 0x0ff00000, 0xf0000000, 0x80000000, 0x80000002,
              0x70000000, 0xffffffff, 0x7ff, 0x10000002, 0x20000000, 0x40000000, 0x01000000, 0x00100000]
    for mname, m in (('EM_X86_64', EM['X86_64']), ('EM_ARM', EM['ARM']), ('EM_386', EM['I386'])):
        for cls in ((64,) if mname == 'EM_X86_64' else (32,)):
            bits = [1 << b for b in range(cls)]
            for v in bits + combos:
                if mname != 'EM_X86_64' and v not in combos and v < 0x100000 and mname == 'EM_386':
                    pass
                out.append(synth('-S', 'sh_flags|m=%s|c=%d|0x%x' % (mname, cls, v), r'\.c18t',
                                 section_file(cls, True, m, mname, SHT_PROGBITS, v)))
    # numeric columns of one entry: link/info/align/entsize/size/offset widths
    for cls, le in CELLS:
        big = (1 << cls) - 1
        for i, (addr, size, es, lk, inf, al) in enumerate([
                (0, 0, 0, 0, 0, 0), (0x1234, 0x10, 1, 2, 3, 4), (big, 0x123456, 0xff, 3, 0xffff, 0x1000),
                (0x80000000, 0xfffff, 0x100, 2, 0x10000, 1 << (cls - 1)), (0xabcdef, 0x7654321, 0x18, 1, 999, 16)]):
            t = sec('.c18t', SHT_NOBITS, 3, addr=addr, link=lk, info=inf, align=al, entsize=es, data=b'', size_override=size)
            out.append(synth('-S', 'sh_numeric|c=%d|le=%d|row=%d' % (cls, le, i), r'\.c18t',
                             elf_model(cls, le, EM['X86_64'] if cls == 64 else EM['I386'], [t, sec('.b', SHT_PROGBITS, data=b'x'), sec('.c', SHT_PROGBITS, data=b'y')])))
    # long / odd section names
    for nm in ('.c18t_a_rather_long_section_name', '.c18t.exactly17ch', '.c18t.sixteen_ch', '.c18t\x01ctl'):
        t = sec(nm, SHT_PROGBITS, 2, addr=0x2000, data=b'abcd')
        for cls in (32, 64):
            out.append(synth('-S', 'sh_name|c=%d|len=%d' % (cls, len(nm)), r'\.c18t',
                             elf_model(cls, True, EM['X86_64'] if cls == 64 else EM['I386'], [t])))
    return out


# ---- -l

def segment_file(cls, le, machine, p_type, p_flags, e_type=2):
    blob = b'/lib/ld-c18.so.1\0'
    secs = [text_sec(), sec('.c18d', SHT_PROGBITS, SHF_ALLOC, addr=0xc18000, align=1, data=blob)]
    segs = [
        {'p_type': PT_LOAD, 'p_flags': 5, 'p_offset': ['sec_off', 1, 0], 'p_vaddr': 0x1000, 'p_paddr': 0x1000,
         'p_filesz': ['sec_size', 1, 0], 'p_memsz': ['sec_size', 1, 0], 'p_align': 0x1000},
        {'p_type': p_type, 'p_flags': p_flags, 'p_offset': ['sec_off', 2, 0], 'p_vaddr': 0xc18000, 'p_paddr': 0xc18000,
         'p_filesz': ['sec_size', 2, 0], 'p_memsz': ['sec_size', 2, 0], 'p_align': 1},
    ]
    return elf_model(cls, le, machine, secs, segs, e_type=e_type, e_entry=0x1000,
                     e_flags=0x05000000 if machine == EM['ARM'] else 0)


def segment_cases():
    en, co, de = tables()
    out = []
    per_machine = [('EM_386', EM['I386'], en.ENUM_P_TYPE_BASE, 32), ('EM_X86_64', EM['X86_64'], en.ENUM_P_TYPE_BASE, 64),
                   ('EM_ARM', EM['ARM'], en.ENUM_P_TYPE_ARM, 32), ('EM_AARCH64', EM['AARCH64'], en.ENUM_P_TYPE_AARCH64, 64),
                   ('EM_MIPS', EM['MIPS'], en.ENUM_P_TYPE_MIPS, 32), ('EM_MIPS', EM['MIPS'], en.ENUM_P_TYPE_MIPS, 64),
                   ('EM_RISCV', EM['RISCV'], en.ENUM_P_TYPE_RISCV, 64), ('EM_RISCV', EM['RISCV'], en.ENUM_P_TYPE_RISCV, 32)]
    base_codes = set(v for _k, v in enum_items(en.ENUM_P_TYPE_BASE))
    n = 0
    for mname, m, table, cls in per_machine:
        codes = uniq_codes(table)
        if mname in ('EM_386', 'EM_X86_64'):
            codes += [(8, 'unnamed'), (0x60000001, 'unnamed'), (0x6474e554, 'unnamed'), (0x6464e550, 'unnamed'),
                      (0x65a3dbe6, 'unnamed'), (0x65a41be6, 'unnamed'), (0x6ffffffa, 'unnamed'), (0x6ffffffb, 'unnamed'),
                      (0x70000000, 'unnamed'), (0x70000001, 'unnamed'), (0x7fffffff, 'unnamed'), (0x80000000, 'unnamed'),
                      (0xffffffff, 'unnamed')]
        for code, name in codes:
            if mname not in ('EM_386', 'EM_X86_64') and code in base_codes and code not in (1,):
                continue
            le = (n % 3 != 2) if mname in ('EM_ARM', 'EM_MIPS') else True
            n += 1
            out.append(synth('-l', 'p_type|m=%s|c=%d|%s(0x%x)' % (mname, cls, name, code), r'c18000',
                             segment_file(cls, le, m, code, 4)))
    for cls, le in CELLS:
        m = EM['X86_64'] if cls == 64 else EM['I386']
        for fl in list(range(8)) + [8, 0x00100000, 0x0ff00000, 0x10000000, 0xf0000000, 0xffffffff, 0xfffffff8]:
            out.append(synth('-l', 'p_flags|c=%d|le=%d|0x%x' % (cls, le, fl), r'c18000', segment_file(cls, le, m, PT_LOAD, fl)))
    # count wording and numeric columns
    for cls in (32, 64):
        m = EM['X86_64'] if cls == 64 else EM['I386']
        big = (1 << cls) - 1
        one = elf_model(cls, True, m, [text_sec()], [{'p_type': PT_LOAD, 'p_flags': 5, 'p_offset': ['sec_off', 1, 0], 'p_vaddr': 0xc18000,
                        'p_paddr': 0xc18000, 'p_filesz': 4, 'p_memsz': 4, 'p_align': 4}], e_type=2, e_entry=0xc18000)
        out.append(synth('-l', 'ph_count|c=%d|n=1' % cls, r'c18000', one))
        for i, (off, va, pa, fs, ms, al) in enumerate([(0, 0xc18000, 0, 0, 0, 0), (0x123456, 0xc18000, big, 0x100000, 0x1234567, 0x10000),
                                                      (big, 0xc18000, 0x80000000, big, big, big), (1, 0xc18000, 2, 0xfffff, 0xffffff, 1 << (cls - 1))]):
            segs = [{'p_type': PT_LOAD, 'p_flags': 6, 'p_offset': off, 'p_vaddr': va, 'p_paddr': pa, 'p_filesz': fs, 'p_memsz': ms, 'p_align': al},
                    {'p_type': PT_LOAD, 'p_flags': 5, 'p_offset': ['sec_off', 1, 0], 'p_vaddr': 0x1000, 'p_paddr': 0x1000,
                     'p_filesz': ['sec_size', 1, 0], 'p_memsz': ['sec_size', 1, 0], 'p_align': 0x1000}]
            out.append(synth('-l', 'ph_numeric|c=%d|row=%d' % (cls, i), r'c18000', elf_model(cls, cls == 64, m, [text_sec()], segs, e_type=2, e_entry=big)))
        # no sections / no segments
        out.append(synth('-l', 'ph_none|c=%d' % cls, r'c18000', elf_model(cls, True, m, [text_sec()], [], e_type=1)))
    return out


# ---- -s

def symbol_file(cls, le, machine, st_info, st_other, st_shndx, value=0xc18, size=8, osabi=0, name='c18sym', dyn=False,
                shndx_table=None):
    blob, offs = W.build_strtab([name])
    syms = W.enc_sym(cls, le, 0, 0, 0, 0, 0, 0) + W.enc_sym(cls, le, offs[name], value, size, st_info, st_other, st_shndx)
    word = 4 if cls == 32 else 8
    secs = [text_sec(), sec('.dynstr' if dyn else '.strtab', SHT_STRTAB, data=blob),
            sec('.dynsym' if dyn else '.symtab', SHT_DYNSYM if dyn else SHT_SYMTAB, SHF_ALLOC if dyn else 0, link=2, info=1,
                entsize=W.SYM_SIZE[cls], align=word, data=syms)]
    if shndx_table is not None:
        secs.append(sec('.symtab_shndx', SHT_SYMTAB_SHNDX, link=3, entsize=4, align=4,
                        data=struct.pack(W.E(le) + '2I', *shndx_table)))
    return elf_model(cls, le, machine, secs, osabi=osabi, e_flags=0x05000000 if machine == EM['ARM'] else 0)


def symbol_cases():
    en, co, de = tables()
    out = []
    tnames = dict((v, k) for k, v in reversed(enum_items(en.ENUM_ST_INFO_TYPE)))
    bnames = dict((v, k) for k, v in reversed(enum_items(en.ENUM_ST_INFO_BIND)))
    vnames = dict((v, k) for k, v in reversed(enum_items(en.ENUM_ST_VISIBILITY)))
    machines = [('EM_X86_64', EM['X86_64'], 64, 0), ('EM_ARM', EM['ARM'], 32, 0), ('EM_386', EM['I386'], 32, 3)]
    for mname, m, cls, osabi in machines:
        for t in range(16):
            out.append(synth('-s', 'st_type|m=%s|osabi=%d|%s(%d)' % (mname, osabi, tnames.get(t, 'unnamed'), t), r'c18sym',
                             symbol_file(cls, True, m, (1 << 4) | t, 0, 1, osabi=osabi)))
        for b in range(16):
            out.append(synth('-s', 'st_bind|m=%s|osabi=%d|%s(%d)' % (mname, osabi, bnames.get(b, 'unnamed'), b), r'c18sym',
                             symbol_file(cls, True, m, (b << 4) | 1, 0, 1, osabi=osabi)))
    for mname, m, cls in (('EM_X86_64', EM['X86_64'], 64), ('EM_386', EM['I386'], 32)):
        for v in range(8):
            out.append(synth('-s', 'st_visibility|m=%s|%s(%d)' % (mname, vnames.get(v, 'unnamed'), v), r'c18sym',
                             symbol_file(cls, cls == 64, m, 0x12, v, 1)))
    for mname, m, cls in (('EM_PPC64', EM['PPC64'], 64), ('EM_X86_64', EM['X86_64'], 64)):
        for hi in range(1, 8):
            out.append(synth('-s', 'st_other_local|m=%s|0x%x' % (mname, hi << 5), r'c18sym',
                             symbol_file(cls, mname != 'EM_PPC64' or hi % 2 == 0, m, 0x12, hi << 5, 1)))
        for v in (0x08, 0x10, 0x18, 0x1b):
            out.append(synth('-s', 'st_other_reserved|m=%s|0x%x' % (mname, v), r'c18sym', symbol_file(cls, True, m, 0x12, v, 1)))
    sh = [(0, 'SHN_UNDEF'), (1, 'index'), (3, 'index_last'), (0xfff1, 'SHN_ABS'), (0xfff2, 'SHN_COMMON'), (0xff00, 'SHN_LOPROC'),
          (0xff01, 'proc'), (0xff02, 'proc'), (0xff1f, 'SHN_HIPROC'), (0xff20, 'SHN_LOOS'), (0xff3f, 'SHN_HIOS'), (0xff40, 'reserved'),
          (0xfff0, 'reserved')]
    for mname, m, cls in (('EM_X86_64', EM['X86_64'], 64), ('EM_MIPS', EM['MIPS'], 32), ('EM_386', EM['I386'], 32)):
        for code, name in sh:
            out.append(synth('-s', 'st_shndx|m=%s|%s(0x%x)' % (mname, name, code), r'c18sym',
                             symbol_file(cls, True, m, 0x11, 0, code)))
    for cls, le in CELLS:
        m = EM['X86_64'] if cls == 64 else EM['I386']
        out.append(synth('-s', 'st_shndx|c=%d|le=%d|SHN_XINDEX(0xffff)' % (cls, le), r'c18sym',
                         symbol_file(cls, le, m, 0x11, 0, 0xffff, shndx_table=[0, 1])))
        big = (1 << cls) - 1
        for i, (val, size) in enumerate([(0, 0), (big, 99999), (0x1234, 100000), (1 << (cls - 1), big), (7, 1234567)]):
            out.append(synth('-s', 'st_numeric|c=%d|le=%d|row=%d' % (cls, le, i), r'c18sym',
                             symbol_file(cls, le, m, 0x12, 0, 1, value=val, size=size)))
        out.append(synth('-s', 'st_section_sym|c=%d|le=%d' % (cls, le), r'^\s*1:',
                         symbol_file(cls, le, m, 0x03, 0, 1, value=0, size=0, name='')))
        out.append(synth('-s', 'dynsym|c=%d|le=%d' % (cls, le), r'c18sym', symbol_file(cls, le, m, 0x12, 0, 1, dyn=True)))
    for nm in ('c18sym_with_a_name_of_more_than_25_characters', 'c18sym_exactly_25_chars__', 'c18sym\x01\x1f', 'c18sym@plt'):
        out.append(synth('-s', 'st_name|len=%d' % len(nm), r'c18sym', symbol_file(64, True, EM['X86_64'], 0x12, 0, 1, name=nm)))
    return out


# ---- -d

def dyn_model(cls, le, machine, tags, osabi=0, e_type=3, with_segment=False, strings=('libc18.so.1',)):
    """tags: [(tag, val | ('str', name))]; DT_NULL is appended."""
    blob, offs = W.build_strtab(list(strings))
    dyn = b''
    for t, v in tags:
        if isinstance(v, (tuple, list)):
            v = offs[v[1]]
        dyn += W.enc_dyn(cls, le, t if t < (1 << 63) else t - (1 << 64), v)
    dyn += W.enc_dyn(cls, le, 0, 0)
    word = 4 if cls == 32 else 8
    secs = [text_sec(), sec('.dynstr', SHT_STRTAB, SHF_ALLOC, addr=0x2000, data=blob),
            sec('.dynamic', SHT_DYNAMIC, SHF_ALLOC | SHF_WRITE, addr=0x3000, link=2, entsize=W.DYN_SIZE[cls], align=word, data=dyn)]
    segs = []
    if with_segment:
        segs = [{'p_type': PT_LOAD, 'p_flags': 5, 'p_offset': 0, 'p_vaddr': 0, 'p_paddr': 0, 'p_filesz': ['file_len', 0],
                 'p_memsz': ['file_len', 0], 'p_align': 0x1000},
                {'p_type': PT_DYNAMIC, 'p_flags': 6, 'p_offset': ['sec_off', 3, 0], 'p_vaddr': 0x3000, 'p_paddr': 0x3000,
                 'p_filesz': ['sec_size', 3, 0], 'p_memsz': ['sec_size', 3, 0], 'p_align': word}]
    return elf_model(cls, le, machine, secs, segs, e_type=e_type, osabi=osabi, e_flags=0x05000000 if machine == EM['ARM'] else 0)


STRING_TAGS = (1, 14, 15, 29, 0x7ffffffd, 0x7fffffff, 0x6ffffefa, 0x6ffffefb, 0x6ffffefc, 0x6000000d, 0x6000000f)


def dynamic_cases():
    en, co, de = tables()
    out = []
    ctxs = [('generic', EM['X86_64'], 0, en.ENUM_D_TAG_COMMON, (64, 32)),
            ('EM_MIPS', EM['MIPS'], 0, en.ENUM_D_TAG_MIPS, (32, 64)),
            ('EM_AARCH64', EM['AARCH64'], 0, en.ENUM_D_TAG_AARCH64, (64,)),
            ('solaris', EM['X86_64'], 6, en.ENUM_D_TAG_SOLARIS, (64,))]
    n = 0
    for cname, m, osabi, table, classes in ctxs:
        for code, name in uniq_codes(table):
            if code == 0:
                continue
            for cls in classes:
                mm = m if not (cname == 'generic' and cls == 32) else EM['I386']
                le = (n % 4 != 3) if cname == 'EM_MIPS' else True
                n += 1
                val = ('str', 'libc18.so.1') if code in STRING_TAGS else 0x1c18
                if code == 20:
                    val = 7
                out.append(synth('-d', 'd_tag|%s|c=%d|%s(0x%x)' % (cname, cls, name, code), r'^\s*0x0*%x\s' % code,
                                 dyn_model(cls, le, mm, [(code, val)], osabi=osabi)))
    for code in (39, 0x60000001, 0x6ffffdf4, 0x6ffffffd - 0x100, 0x70000000, 0x70000001, 0x7ffffffe):
        out.append(synth('-d', 'd_tag|generic|c=64|unnamed(0x%x)' % code, r'^\s*0x0*%x\s' % code,
                         dyn_model(64, True, EM['X86_64'], [(code, 0x1c18)])))
    fl = [v for v, _n in uniq_codes(en.ENUM_DT_FLAGS)]
    for v in [0] + fl + [0x20, 0x1f, 0x3, 0x80000000]:
        out.append(synth('-d', 'dt_flags|0x%x' % v, r'^\s*0x0*1e\s', dyn_model(64, True, EM['X86_64'], [(30, v)])))
    fl1 = [v for v, _n in uniq_codes(en.ENUM_DT_FLAGS_1)]
    for v in [0] + fl1 + [0x10000000, 0x80000000, 0x3, 0x08000001, 0x0fffffff]:
        out.append(synth('-d', 'dt_flags_1|0x%x' % v, r'^\s*0x0*6ffffffb\s', dyn_model(64, True, EM['X86_64'], [(0x6ffffffb, v)], e_type=2)))
    rh = sorted(set(v for k, v in vars(co.RH_FLAGS).items() if k.startswith('RHF_')))
    for v in rh + [0x8000, 0x3, 0x7fff]:
        for cls in (32,):
            out.append(synth('-d', 'dt_mips_flags|0x%x' % v, r'^\s*0x0*70000005\s', dyn_model(cls, False, EM['MIPS'], [(0x70000005, v)])))
    for v in (7, 17, 0, 5):
        out.append(synth('-d', 'dt_pltrel|%d' % v, r'^\s*0x0*14\s', dyn_model(64, True, EM['X86_64'], [(20, v)])))
    # value formats of the size/count style tags in both classes + several entries
    for cls, le in CELLS:
        m = EM['X86_64'] if cls == 64 else EM['I386']
        big = (1 << cls) - 1
        tags = [(1, ('str', 'libc18.so.1')), (2, 0x18), (10, big), (11, 24), (0x6ffffff9, 3), (0x6ffffffd, 1), (12, big), (25, 0)]
        out.append(synth('-d', 'dyn_mixed|c=%d|le=%d' % (cls, le), r'^\s*0x', dyn_model(cls, le, m, tags)))
        out.append(synth('-d', 'dyn_none|c=%d|le=%d' % (cls, le), r'^\s*0x', elf_model(cls, le, m, [text_sec()])))
    return out


# ---- -n

def note_file(cls, le, machine, notes, secname='.note.c18', align=4, e_type=1):
    data = b''.join(notes)
    secs = [text_sec(), sec(secname, SHT_NOTE, SHF_ALLOC, addr=0x2000, align=align, data=data)]
    return elf_model(cls, le, machine, secs, e_type=e_type)


def enc_prop(cls, le, ptype, data):
    al = 4 if cls == 32 else 8
    b = struct.pack(W.E(le) + 'II', ptype, len(data)) + data
    return b + b'\0' * (-len(b) % al)


def note_cases():
    en, co, de = tables()
    out = []
    e = W.E
    for cls, le in ((64, True), (32, False)):
        m = EM['X86_64'] if cls == 64 else EM['I386']
        for code, name in uniq_codes(en.ENUM_NOTE_ABI_TAG_OS) + [(6, 'unnamed'), (0x100, 'unnamed')]:
            desc = struct.pack(e(le) + '4I', code, 2, 6, 32)
            out.append(synth('-n', 'note_abi_tag_os|c=%d|%s(%d)' % (cls, name, code), r'.',
                             note_file(cls, le, m, [W.enc_note(le, b'GNU\0', desc, 1)], '.note.ABI-tag')))
        out.append(synth('-n', 'note_type|c=%d|NT_GNU_HWCAP(2)' % cls, r'.',
                         note_file(cls, le, m, [W.enc_note(le, b'GNU\0', struct.pack(e(le) + 'II', 1, 2) + b'\0hw\0', 2)])))
        for blen in (20, 16, 8, 1, 0, 33):
            out.append(synth('-n', 'note_type|c=%d|NT_GNU_BUILD_ID(3)|len=%d' % (cls, blen), r'.',
                             note_file(cls, le, m, [W.enc_note(le, b'GNU\0', bytes(range(0xa0, 0xa0 + blen)), 3)], '.note.gnu.build-id')))
        out.append(synth('-n', 'note_type|c=%d|NT_GNU_GOLD_VERSION(4)' % cls, r'.',
                         note_file(cls, le, m, [W.enc_note(le, b'GNU\0', b'gold 1.18\0', 4)], '.note.gnu.gold-version')))
        for t in (0, 6, 0x100, 0xffffffff):
            out.append(synth('-n', 'note_type|c=%d|GNU|unnamed(0x%x)' % (cls, t), r'.',
                             note_file(cls, le, m, [W.enc_note(le, b'GNU\0', b'\x01\x02\x03\x04', t)])))
        for owner in (b'c18owner\0', b'Android\0', b'FreeBSD\0', b'stapsdt\0', b'Go\0', b'XYZ\0'):
            for t in (1, 3, 5):
                d = struct.pack(e(le) + 'I', 0x18) + b'r25\0' + b'\0' * 8 if owner == b'Android\0' else b'\xc1\x80\x00\x01'
                out.append(synth('-n', 'note_owner|c=%d|%s|type=%d' % (cls, owner[:-1].decode(), t), r'.',
                                 note_file(cls, le, m, [W.enc_note(le, owner, d, t)])))
    # GNU properties
    word = lambda cls: 'I' if cls == 32 else 'Q'
    props = []
    for cls, le, mname, m in ((64, True, 'EM_X86_64', EM['X86_64']), (32, True, 'EM_386', EM['I386'])):
        props.append((cls, le, mname, m, 'STACK_SIZE', 1, [struct.pack(e(le) + word(cls), v) for v in (0, 0x800000, 1)] + [b'\x01\x02']))
        props.append((cls, le, mname, m, 'NO_COPY_ON_PROTECTED', 2, [b'', b'\x01\0\0\0']))
        for pname, pt, nbits in (('X86_FEATURE_1_AND', 0xc0000002, 6), ('X86_ISA_1_NEEDED', 0xc0008002, 6),
                                 ('X86_FEATURE_2_USED', 0xc0010001, 12), ('X86_ISA_1_USED', 0xc0010002, 6)):
            vals = [0] + [1 << b for b in range(nbits)] + [3, 0x3f, 0x80000000]
            props.append((cls, le, mname, m, pname, pt, [struct.pack(e(le) + 'I', v) for v in vals] + [b'\x01\0']))
        for pname, pt in (('unnamed_generic', 3), ('unnamed_proc', 0xc0000001), ('unnamed_user', 0xe0000001), ('unnamed_x86_compat', 0xc0000000)):
            props.append((cls, le, mname, m, pname, pt, [b'\x01\x02\x03\x04', b'']))
    for mname, m, le in (('EM_AARCH64', EM['AARCH64'], True), ('EM_RISCV', EM['RISCV'], True), ('EM_AARCH64', EM['AARCH64'], False)):
        props.append((64, le, mname, m, 'AARCH64_FEATURE_1_AND', 0xc0000000,
                      [struct.pack(e(le) + 'I', v) for v in (0, 1, 2, 3, 4, 8, 0x80000000, 7)] + [b'\x01']))
        props.append((64, le, mname, m, 'unnamed_proc', 0xc0000001, [b'\x01\0\0\0']))
    for cls, le, mname, m, pname, pt, datas in props:
        for d in datas:
            desc = enc_prop(cls, le, pt, d)
            out.append(synth('-n', 'gnu_property|m=%s|c=%d|le=%d|%s(0x%x)|data=%s' % (mname, cls, le, pname, pt, d.hex() or '-'), r'.',
                             note_file(cls, le, m, [W.enc_note(le, b'GNU\0', desc, 5, align=4 if cls == 32 else 8)],
                                       '.note.gnu.property', align=4 if cls == 32 else 8)))
    # two properties in one note, two notes in one section, two note sections
    for cls, le in ((64, True), (32, True)):
        m = EM['X86_64'] if cls == 64 else EM['I386']
        al = 4 if cls == 32 else 8
        desc = enc_prop(cls, le, 0xc0000002, struct.pack(e(le) + 'I', 3)) + enc_prop(cls, le, 0xc0008002, struct.pack(e(le) + 'I', 1))
        out.append(synth('-n', 'gnu_property|c=%d|two_properties' % cls, r'.',
                         note_file(cls, le, m, [W.enc_note(le, b'GNU\0', desc, 5, align=al)], '.note.gnu.property', align=al)))
        two = [W.enc_note(le, b'GNU\0', struct.pack(e(le) + '4I', 0, 3, 2, 0), 1), W.enc_note(le, b'GNU\0', bytes(range(20)), 3)]
        out.append(synth('-n', 'notes|c=%d|two_in_one_section' % cls, r'.', note_file(cls, le, m, two)))
        mm = note_file(cls, le, m, two[:1], '.note.ABI-tag')
        mm['sections'].insert(3, sec('.note.gnu.build-id', SHT_NOTE, SHF_ALLOC, addr=0x3000, align=4, data=two[1]))
        mm['shstrndx'] += 1
        out.append(synth('-n', 'notes|c=%d|two_sections' % cls, r'.', mm))
        out.append(synth('-n', 'notes|c=%d|none' % cls, r'.', elf_model(cls, le, m, [text_sec()])))
    return out


# ---- -r

def reloc_file(cls, le, machine, rtype, rela, mips64=False, e_flags=0):
    blob, offs = W.build_strtab(['c18sym'])
    syms = W.enc_sym(cls, le, 0, 0, 0, 0, 0, 0) + W.enc_sym(cls, le, offs['c18sym'], 0x1000, 4, 0x12, 0, 1)
    word = 4 if cls == 32 else 8
    rel = b''
    for off, sym, add in ((0xc18, 0, 0x20), (0xc1c, 1, 0x10)):
        if mips64:
            rel += W.enc_rel(cls, le, off, sym, rtype[0], add if rela else None, mips64=(0, rtype[2], rtype[1]))
        else:
            rel += W.enc_rel(cls, le, off, sym, rtype, add if rela else None)
    name = '.rela.text' if rela else '.rel.text'
    secs = [text_sec(), sec('.strtab', SHT_STRTAB, data=blob),
            sec('.symtab', SHT_SYMTAB, link=2, info=1, entsize=W.SYM_SIZE[cls], align=word, data=syms),
            sec(name, SHT_RELA if rela else SHT_REL, 0x40, link=3, info=1, entsize=(3 if rela else 2) * word, align=word, data=rel)]
    return elf_model(cls, le, machine, secs, e_flags=e_flags)


def reloc_cases():
    en, co, de = tables()
    out = []
    per = [('EM_386', EM['I386'], en.ENUM_RELOC_TYPE_i386, (32,), True),
           ('EM_X86_64', EM['X86_64'], en.ENUM_RELOC_TYPE_x64, (64,), True),
           ('EM_ARM', EM['ARM'], en.ENUM_RELOC_TYPE_ARM, (32,), None),
           ('EM_AARCH64', EM['AARCH64'], en.ENUM_RELOC_TYPE_AARCH64, (64,), None),
           ('EM_PPC64', EM['PPC64'], en.ENUM_RELOC_TYPE_PPC64, (64,), None),
           ('EM_PPC', EM['PPC'], en.ENUM_RELOC_TYPE_PPC, (32,), False),
           ('EM_S390', EM['S390'], en.ENUM_RELOC_TYPE_S390X, (64,), False),
           ('EM_MIPS', EM['MIPS'], en.ENUM_RELOC_TYPE_MIPS, (32, 64), None),
           ('EM_LOONGARCH', EM['LOONGARCH'], en.ENUM_RELOC_TYPE_LOONGARCH, (64,), True)]
    n = 0
    for mname, m, table, classes, fixed_le in per:
        codes = uniq_codes(table)
        top = max(c for c, _ in codes)
        codes = codes + [(top + 1, 'unnamed')]
        for code, name in codes:
            for cls in classes:
                if cls == 32 and code > 0xff:
                    continue
                for rela in (False, True):
                    le = fixed_le if fixed_le is not None else (n % 3 != 2)
                    n += 1
                    ef = 0x05000000 if m == EM['ARM'] else 0
                    if mname == 'EM_MIPS' and cls == 64:
                        other = codes[(n * 7) % (len(codes) - 1)][0]
                        rt = (code, other if code else 0, code if n % 2 else 0)
                        model = reloc_file(cls, le, m, rt, rela, mips64=True, e_flags=ef)
                        what = 'reloc|m=%s|c=%d|%s|%s(%d)+type2=%d+type3=%d' % (mname, cls, 'rela' if rela else 'rel', name, code, rt[1], rt[2])
                    else:
                        model = reloc_file(cls, le, m, code, rela, e_flags=ef)
                        what = 'reloc|m=%s|c=%d|%s|%s(%d)' % (mname, cls, 'rela' if rela else 'rel', name, code)
                    out.append(synth('-r', what, r'^0*c1[8c]\s', model))
    # a machine the clone has no table for, and a file without relocations
    out.append(synth('-r', 'reloc|m=EM_SPARC|c=32|rela|no_table(1)', r'^0*c1[8c]\s', reloc_file(32, False, 2, 1, True)))
    out.append(synth('-r', 'reloc|none', r'^0*c1[8c]\s', elf_model(64, True, EM['X86_64'], [text_sec()])))
    return out


# ---- -V

def enc_verdef(le, version, flags, ndx, cnt, hsh, aux, nxt):
    return struct.pack(W.E(le) + 'HHHHIII', version, flags, ndx, cnt, hsh, aux, nxt)


def enc_verdaux(le, name, nxt):
    return struct.pack(W.E(le) + 'II', name, nxt)


def enc_verneed(le, version, cnt, file, aux, nxt):
    return struct.pack(W.E(le) + 'HHIII', version, cnt, file, aux, nxt)


def enc_vernaux(le, hsh, flags, other, name, nxt):
    return struct.pack(W.E(le) + 'IHHII', hsh, flags, other, name, nxt)


def version_file(cls, le, machine, def_flags, need_flags, with_versym_tag=True):
    names = ['libc18.so.1', 'c18sym', 'C18VER_1.0', 'C18VER_2.0', 'C18NEED_1.0', 'libneed.so.2']
    blob, offs = W.build_strtab(names)
    word = 4 if cls == 32 else 8
    syms = (W.enc_sym(cls, le, 0, 0, 0, 0, 0, 0) + W.enc_sym(cls, le, offs['c18sym'], 0x1000, 4, 0x12, 0, 1) +
            W.enc_sym(cls, le, offs['C18VER_1.0'], 0, 0, 0x11, 0, 0xfff1))
    versym = struct.pack(W.E(le) + '3H', 0, 2, 3)
    # definitions: index 1 (base, the file), index 2 with the flags under test and a parent
    vd = (enc_verdef(le, 1, 1, 1, 1, W.sysv_hash(b'libc18.so.1'), 20, 28) + enc_verdaux(le, offs['libc18.so.1'], 0) +
          enc_verdef(le, 1, def_flags, 2, 2, W.sysv_hash(b'C18VER_2.0'), 20, 0) + enc_verdaux(le, offs['C18VER_2.0'], 8) +
          enc_verdaux(le, offs['C18VER_1.0'], 0))
    vn = (enc_verneed(le, 1, 1, offs['libneed.so.2'], 16, 0) +
          enc_vernaux(le, W.sysv_hash(b'C18NEED_1.0'), need_flags, 3, offs['C18NEED_1.0'], 0))
    tags = [(0x6ffffffc, 0x4000), (0x6ffffffd, 2), (0x6ffffffe, 0x5000), (0x6fffffff, 1)]
    if with_versym_tag:
        tags.insert(0, (0x6ffffff0, 0x3000))
    dyn = b''.join(W.enc_dyn(cls, le, t, v) for t, v in tags) + W.enc_dyn(cls, le, 0, 0)
    secs = [text_sec(),
            sec('.dynstr', SHT_STRTAB, SHF_ALLOC, addr=0x2000, data=blob),
            sec('.dynsym', SHT_DYNSYM, SHF_ALLOC, addr=0x2800, link=2, info=1, entsize=W.SYM_SIZE[cls], align=word, data=syms),
            sec('.gnu.version', SHT_GNU_versym, SHF_ALLOC, addr=0x3000, link=3, entsize=2, align=2, data=versym),
            sec('.gnu.version_d', SHT_GNU_verdef, SHF_ALLOC, addr=0x4000, link=2, info=2, align=word, data=vd),
            sec('.gnu.version_r', SHT_GNU_verneed, SHF_ALLOC, addr=0x5000, link=2, info=1, align=word, data=vn),
            sec('.dynamic', SHT_DYNAMIC, SHF_ALLOC | SHF_WRITE, addr=0x6000, link=2, entsize=W.DYN_SIZE[cls], align=word, data=dyn)]
    return elf_model(cls, le, machine, secs, e_type=3)


def version_cases():
    out = []
    for cls, le in CELLS:
        m = EM['X86_64'] if cls == 64 else EM['I386']
        for f in (0, 1, 2, 3, 4, 5, 6, 7) if (cls, le) == (64, True) else (0, 2, 7):
            out.append(synth('-V', 'ver_flags|c=%d|le=%d|verdef=0x%x' % (cls, le, f), r'index: 2 ', version_file(cls, le, m, f, 0)))
            out.append(synth('-V', 'ver_flags|c=%d|le=%d|vernaux=0x%x' % (cls, le, f), r'c18need', version_file(cls, le, m, 0, f)))
        out.append(synth('-V', 'ver_none|c=%d|le=%d' % (cls, le), r'.', elf_model(cls, le, m, [text_sec()])))
    for f in (8, 0x10, 0x8000, 0xffff, 9):
        out.append(synth('-V', 'ver_flags|c=64|le=1|verdef=0x%x' % f, r'index: 2 ', version_file(64, True, EM['X86_64'], f, 0)))
        out.append(synth('-V', 'ver_flags|c=64|le=1|vernaux=0x%x' % f, r'c18need', version_file(64, True, EM['X86_64'], 0, f)))
    # the same sections under -s (versioned dynamic symbols) and -d
    for cls, le in ((64, True), (32, False)):
        m = EM['X86_64'] if cls == 64 else EM['I386']
        out.append(synth('-s', 'dynsym_versions|c=%d|le=%d' % (cls, le), r'c18', version_file(cls, le, m, 0, 0)))
    return out


def synth_cases(tier):
    out = []
    for f in (header_cases, section_cases, segment_cases, symbol_cases, dynamic_cases, note_cases, reloc_cases, version_cases):
        out += f()
    return out


# ---------------------------------------------------------------------------
# (i) corpus

def corpus_cases():
    P = proj()
    d = os.path.join(core.REPO, CORPUS_DIR)
    files = sorted(f for f in os.listdir(d) if os.path.splitext(f)[1] == '.elf')   # discover_testfiles()
    opts = list(P['options']) + [o for o in EXTRA_OPTIONS if o not in P['options']]
    return [{'kind': 'corpus', 'file': CORPUS_DIR + '/' + f, 'opt': o} for f in files for o in opts]


def sweep(tier):
    return corpus_cases() + synth_cases(tier)


def strategy(tier):
    return st.sampled_from(corpus_cases())


def floors(ctx):
    out = []
    if not have_readelf() or ctx.counters.get('oracle.absent'):
        out.append('deciding oracle %s is absent: nothing decided' % READELF)
    return out

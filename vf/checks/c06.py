"""C06 - call-frame information is parsed and interpreted per DWARF / .eh_frame rules."""
from vf.enc import dwarf as D
from vf.enc.leb import uleb, sleb
from vf.ref import cfi as REF
from vf.choose import RndChooser, composite_from

ID = 'C06'
RULE = ('.debug_frame sections (CIE versions 1/3/4, DWARF32/64, address size 4/8 = config default, CIEs and FDEs in any '
        'interleaving incl. FDE before its CIE and shared CIEs, nop padding) and .eh_frame sections (augmentation strings over "", '
        '"zR", "zL", "zP", "zS" and their combinations in any order, pointer encodings absptr/uleb128/sleb128/u|sdata2/4/8 x '
        '{absolute, pcrel}, any section address, optional zero terminator) with instruction streams over every DW_CFA opcode the '
        'library lists, arbitrary operands, code alignment 1..16, data alignment -16..16 (magnitude different from the code factor), '
        'registers 0..300, balanced remember/restore to depth 6, opaque expression blocks. Oracle: entry list/kinds/headers/'
        'augmentation/pointers/CIE links/instruction split = the model; decoded table = reference interpreter transcribed from '
        'DWARF v5 6.4. Non-trivial: an FDE whose table has >=2 rows and >=3 rule kinds, or any _sf/val_/expression/restore/'
        'remember opcode, or a non-absptr pointer encoding. Distinct by SHA-1 of the section bytes + configuration.')
N = {'quick': 2000, 'thorough': 150000}
ASSUMPTIONS = ['advances are >= 1 location unit, set_loc moves forward; CIE initial instructions contain no advance/restore; def_cfa_register/'
               'def_cfa_offset[_sf] only follow a register+offset CFA rule; remember/restore are balanced',
               'v4 CIE address_size equals the configured default address size (which is what the library uses); in .eh_frame only CIEs may use the extended (64-bit) length: for an extended-length FDE the meaning of the CIE pointer is not agreed on (LSB: relative to the field; binutils 2.40: field+4; the library: field-4) and nothing emits such entries',
               'pointer values are chosen so that pc-relative results stay inside [0, 2^(8*address size)); LEB128-encoded pointers are written with a fixed padded width',
               'a final row that has neither a CFA rule nor any register rule may be omitted by the library; reg_order only needs to contain every register that has a rule in some row',
               'the value of a personality pointer is compared raw (as encoded), its pc-relative/indirect modifiers are not interpreted by the API']

ENC_BASIC = {0x00: 'absptr', 0x01: 'uleb128', 0x02: 'udata2', 0x03: 'udata4', 0x04: 'udata8', 0x09: 'sleb128', 0x0a: 'sdata2', 0x0b: 'sdata4', 0x0c: 'sdata8'}
KIND_BY_OP = {'undefined': 'UNDEFINED', 'same_value': 'SAME_VALUE'}


class Unencodable(Exception):
    """the drawn pointer value cannot be represented in the drawn encoding at the offset the layout gave it
    (only known after layout); the case is dropped and counted"""


def enc_ptr(le, A, enc, v):
    """basic encoding of value v (already made relative by the caller) -> bytes, fixed width for LEB"""
    b = enc & 0x0f
    lo, hi = ptr_range(A, enc)
    if not lo <= v <= hi:
        raise Unencodable('%#x in encoding %#x' % (v, enc))
    if b == 0x00:
        return D.u(le, A, v)
    if b in (0x02, 0x03, 0x04):
        return D.u(le, {2: 2, 3: 4, 4: 8}[b], v)
    if b in (0x0a, 0x0b, 0x0c):
        n = {0xa: 2, 0xb: 4, 0xc: 8}[b]
        assert -(1 << (8 * n - 1)) <= v < (1 << (8 * n - 1)), (enc, v)
        return D.u(le, n, v)
    W = 10
    if b == 0x01:
        e = uleb(v)
        return uleb(v, W - len(e)) if len(e) < W else e
    if b == 0x09:
        e = sleb(v)
        return sleb(v, W - len(e)) if len(e) < W else e
    raise ValueError(enc)


def ptr_range(A, enc):
    b = enc & 0x0f
    if b == 0:
        return 0, (1 << (8 * A)) - 1
    if b == 1:
        return 0, (1 << 62)
    if b in (2, 3, 4):
        return 0, (1 << (8 * {2: 2, 3: 4, 4: 8}[b])) - 1
    if b == 9:
        return -(1 << 62), (1 << 62)
    n = {0xa: 2, 0xb: 4, 0xc: 8}[b]
    return -(1 << (8 * n - 1)), (1 << (8 * n - 1)) - 1


def enc_ops(le, A, ops):
    out = bytearray()
    for op in ops:
        k = op[0]
        if k == 'advance_loc':
            assert 0 <= op[1] < 64
            out.append(0x40 | op[1])
        elif k == 'offset':
            assert 0 <= op[1] < 64
            out.append(0x80 | op[1])
            out += uleb(op[2])
        elif k == 'restore':
            out.append(0xc0 | op[1])
        else:
            out.append(REF.EXTENDED[k])
            if k == 'set_loc':
                out += D.u(le, A, op[1])
            elif k == 'advance_loc1':
                out += D.u(le, 1, op[1])
            elif k == 'advance_loc2':
                out += D.u(le, 2, op[1])
            elif k == 'advance_loc4':
                out += D.u(le, 4, op[1])
            elif k in ('offset_extended', 'register', 'def_cfa', 'val_offset'):
                out += uleb(op[1]) + uleb(op[2])
            elif k in ('restore_extended', 'undefined', 'same_value', 'def_cfa_register', 'def_cfa_offset', 'GNU_args_size'):
                out += uleb(op[1])
            elif k == 'def_cfa_offset_sf':
                out += sleb(op[1])
            elif k == 'def_cfa_expression':
                out += uleb(len(op[1])) + bytes(op[1])
            elif k in ('expression', 'val_expression'):
                out += uleb(op[1]) + uleb(len(op[2])) + bytes(op[2])
            elif k in ('offset_extended_sf', 'def_cfa_sf', 'val_offset_sf'):
                out += uleb(op[1]) + sleb(op[2])
    return bytes(out)


def build_section(case):
    """-> (bytes, [expected entry dict])"""
    le, A, eh = case['le'], case['addr_size'], case['kind'] == 'eh_frame'
    ents = case['entries']
    sec_addr = case.get('sec_addr', 0)
    # pass 1: sizes (independent of pointer values)
    bodies = []
    for e in ents:
        O = 4 if e['fmt'] == 32 else 8
        ilen = 4 if e['fmt'] == 32 else 12
        ops = enc_ops(le, A, e['ops']) + b'\0' * e.get('pad', 0)
        if e['t'] == 'cie':
            h = bytearray()
            h += bytes([e['version']]) + bytes(e['aug']) + b'\0'
            if e['version'] >= 4:
                h += bytes([A, 0])
            h += uleb(e['caf']) + sleb(e['daf'])
            h += bytes([e['rar']]) if e['version'] == 1 else uleb(e['rar'])
            augdata = b''
            if eh and e['aug'][:1] == b'z':
                for ch in e['aug'][1:]:
                    c = bytes([ch])
                    if c == b'L':
                        augdata += bytes([e['lsda_enc']])
                    elif c == b'R':
                        augdata += bytes([e['fde_enc']])
                    elif c == b'P':
                        augdata += bytes([e['pers'][0]]) + enc_ptr(le, A, e['pers'][0], e['pers'][1])
                # bytes beyond the fields the letters announce: the declared length exists so that a reader can skip what it does not know
                augdata += bytes(e.get('aug_slack', b''))
                h += uleb(len(augdata), e.get('aug_len_pad', 0)) + augdata
            bodies.append({'ilen': ilen, 'O': O, 'pre': bytes(h), 'ops': ops, 'augdata': augdata, 'size': ilen + O + len(h) + len(ops)})
        else:
            cie = ents[e['cie']]
            if eh:
                fenc = cie['fde_enc'] if (cie['aug'][:1] == b'z' and b'R' in cie['aug']) else 0
                lenc = cie['lsda_enc'] if (cie['aug'][:1] == b'z' and b'L' in cie['aug']) else 0xff
                n_loc = len(enc_ptr(le, A, fenc, 0))
                n_aug = 0
                if cie['aug'][:1] == b'z':
                    n_lsda = (len(enc_ptr(le, A, lenc, 0)) if lenc != 0xff else 0) + len(e.get('aug_slack', b''))
                    n_aug = len(uleb(n_lsda, e.get('aug_len_pad', 0))) + n_lsda
                size = ilen + O + 2 * n_loc + n_aug + len(ops)
                bodies.append({'ilen': ilen, 'O': O, 'ops': ops, 'size': size, 'fenc': fenc, 'lenc': lenc, 'n_loc': n_loc})
            else:
                bodies.append({'ilen': ilen, 'O': O, 'ops': ops, 'size': ilen + O + 2 * A + len(ops)})
    offs = []
    pos = 0
    for b in bodies:
        offs.append(pos)
        pos += b['size']
    out = bytearray()
    exp = []
    for i, (e, b) in enumerate(zip(ents, bodies)):
        O, ilen = b['O'], b['ilen']
        length = b['size'] - ilen
        rec = D.initial_length(le, e['fmt'], length)
        x = {'t': e['t'], 'offset': offs[i], 'length': length, 'ops': e['ops']}
        if e['t'] == 'cie':
            cid = 0 if eh else ((1 << (8 * O)) - 1)
            rec += D.u(le, O, cid) + b['pre'] + b['ops']
            x.update(CIE_id=cid, version=e['version'], augmentation=bytes(e['aug']), caf=e['caf'], daf=e['daf'], rar=e['rar'], augdata=b['augdata'],
                     aug=e)
        else:
            ci = e['cie']
            cie = ents[ci]
            x['cie_index'] = ci
            if eh:
                ptr_field = offs[i] + ilen
                cp = ptr_field - offs[ci]
                rec += D.u(le, O, cp)
                loc_field = offs[i] + ilen + O
                fenc, lenc = b['fenc'], b['lenc']
                loc = e['loc']
                if e.get('loc_rel') is not None and (fenc & 0x70) == 0x10:
                    loc = sec_addr + loc_field + e['loc_rel']       # the case fixes the encoded displacement, not the address
                rel = loc - (sec_addr + loc_field) if (fenc & 0x70) == 0x10 else loc
                rec += enc_ptr(le, A, fenc, rel) + enc_ptr(le, A, fenc & 0x0f, e['range'])
                augb = b''
                lsda = None
                if cie['aug'][:1] == b'z':
                    slack = bytes(e.get('aug_slack', b''))
                    if lenc != 0xff:
                        lsda_field = offs[i] + len(rec) + len(uleb(len(enc_ptr(le, A, lenc, 0)) + len(slack), e.get('aug_len_pad', 0)))
                        lsda = e['lsda']
                        if e.get('lsda_rel') is not None and (lenc & 0x70) == 0x10:
                            lsda = sec_addr + lsda_field + e['lsda_rel']
                        lrel = lsda - (sec_addr + lsda_field) if (lenc & 0x70) == 0x10 else lsda
                        augb = enc_ptr(le, A, lenc, lrel)
                    augb += slack
                    rec += uleb(len(augb), e.get('aug_len_pad', 0)) + augb
                rec += b['ops']
                x.update(CIE_pointer=cp, loc=loc, range=e['range'], lsda=lsda, augdata=augb, fenc=fenc, lenc=lenc)
            else:
                rec += D.u(le, O, offs[ci]) + D.u(le, A, e['loc']) + D.u(le, A, e['range']) + b['ops']
                x.update(CIE_pointer=offs[ci], loc=e['loc'], range=e['range'], lsda=None, augdata=b'')
        assert len(rec) == b['size'], (len(rec), b['size'], e['t'])
        out += rec
        exp.append(x)
    if eh and case.get('terminator'):
        exp.append({'t': 'zero', 'offset': len(out)})
        out += b'\0\0\0\0'
    return bytes(out), exp


# ---------------------------------------------------------------------------

def canon_block(v):
    return bytes(v) if isinstance(v, (bytes, bytearray, list, tuple)) else v


def exp_instr(op):
    k = op[0]
    if k == 'advance_loc':
        return 0x40 | op[1], [op[1]]
    if k == 'offset':
        return 0x80 | op[1], [op[1], op[2]]
    if k == 'restore':
        return 0xc0 | op[1], [op[1]]
    code = REF.EXTENDED[k]
    args = [canon_block(a) for a in op[1:]]
    return code, args


def run_case(ctx, case):
    le, A, eh = case['le'], case['addr_size'], case['kind'] == 'eh_frame'
    try:
        data, exp = build_section(case)
    except Unencodable:
        ctx.count('gen.unencodable-pointer')
        return
    name = '.eh_frame' if eh else '.debug_frame'
    try:
        di = D.make_dwarfinfo({name: data}, le, A, addresses={name: case.get('sec_addr', 0)})
        entries = di.EH_CFI_entries() if eh else di.CFI_entries()
    except Exception as e:  # noqa
        hint = _aug_hint(case)
        ctx.fail_exc('entries|%s%s' % (case['kind'], hint), e, case)
        _register(ctx, case, data, exp, False)
        return
    if len(entries) != len(exp):
        ctx.fail('entries|count', 'encoded %d entries, parsed %d' % (len(exp), len(entries)), case)
    states = {}       # entry index -> (rows, final State) for CIEs
    nt = False
    for i, (g, x) in enumerate(zip(entries, exp)):
        tname = type(g).__name__
        if tname != {'cie': 'CIE', 'fde': 'FDE', 'zero': 'ZERO'}[x['t']]:
            ctx.fail('entry|kind', 'entry %d at %d: encoded %s parsed as %s' % (i, x['offset'], x['t'], tname), case)
            continue
        if g.offset != x['offset']:
            ctx.fail('entry|offset', 'entry %d: expected %d got %r' % (i, x['offset'], g.offset), case)
            continue
        if x['t'] == 'zero':
            ctx.count('entry.zero')
            continue
        h = g.header
        if h['length'] != x['length']:
            ctx.fail('entry|length', 'entry %d: expected %d got %r' % (i, x['length'], h['length']), case)
        if x['t'] == 'cie':
            for k, v in (('CIE_id', x['CIE_id']), ('version', x['version']), ('augmentation', x['augmentation']), ('code_alignment_factor', x['caf']),
                         ('data_alignment_factor', x['daf']), ('return_address_register', x['rar'])):
                if h[k] != v:
                    ctx.fail('cie|header|%s' % k, 'entry %d (version %d): encoded %r decoded %r' % (i, x['version'], v, h[k]), case)
            if x['version'] >= 4 and (h.get('address_size') != A or h.get('segment_size') != 0):
                ctx.fail('cie|header|v4-sizes', 'version 4 CIE in %s: address_size / segment_size encoded %d / 0, decoded %r / %r' % (
                    '.eh_frame' if eh else '.debug_frame', A, h.get('address_size'), h.get('segment_size')), case)
            if eh:
                if bytes(g.augmentation_bytes) != x['augdata']:
                    ctx.fail('cie|augmentation_bytes', 'aug %r: expected %r got %r' % (x['augmentation'], x['augdata'], g.augmentation_bytes), case)
                e = x['aug']
                ad = g.augmentation_dict
                if e['aug'][:1] == b'z':
                    if ad.get('length') != len(x['augdata']):
                        ctx.fail('cie|augmentation_dict|length', 'expected %d got %r' % (len(x['augdata']), ad.get('length')), case)
                    if b'R' in e['aug'] and ad.get('FDE_encoding') != e['fde_enc']:
                        ctx.fail('cie|augmentation_dict|FDE_encoding', 'aug %r expected %#x got %r' % (e['aug'], e['fde_enc'], ad.get('FDE_encoding')), case)
                    if b'L' in e['aug'] and ad.get('LSDA_encoding') != e['lsda_enc']:
                        ctx.fail('cie|augmentation_dict|LSDA_encoding', 'aug %r expected %#x got %r' % (e['aug'], e['lsda_enc'], ad.get('LSDA_encoding')), case)
                    if b'P' in e['aug']:
                        p = ad.get('personality')
                        if p is None or p.encoding != e['pers'][0] or p.function != e['pers'][1]:
                            ctx.fail('cie|augmentation_dict|personality|enc=%s' % ENC_BASIC.get(e['pers'][0] & 0xf), 'expected %r got %r' % (e['pers'], p), case)
                ctx.count('aug.%s' % (e['aug'].decode() or 'empty'))
        else:
            if h['CIE_pointer'] != x['CIE_pointer']:
                ctx.fail('fde|header|CIE_pointer', 'entry %d: expected %d got %r' % (i, x['CIE_pointer'], h['CIE_pointer']), case)
            enc_tag = ('enc=%s%s' % (ENC_BASIC[x['fenc'] & 0xf], '+pcrel' if x['fenc'] & 0x10 else '')) if eh else 'debug_frame'
            if h['initial_location'] != x['loc']:
                ctx.fail('fde|initial_location|%s' % enc_tag, 'entry %d: expected %#x got %r' % (i, x['loc'], h['initial_location']), case)
            if h['address_range'] != x['range']:
                ctx.fail('fde|address_range|%s' % enc_tag, 'entry %d: expected %#x got %r' % (i, x['range'], h['address_range']), case)
            ci = x['cie_index']
            if g.cie is None or g.cie.offset != exp[ci]['offset']:
                ctx.fail('fde|cie-link|offset', 'entry %d: CIE expected at %d, got %r' % (i, exp[ci]['offset'], g.cie and g.cie.offset), case)
            elif ci < len(entries) and g.cie is not entries[ci]:
                ctx.fail('fde|cie-link|identity', 'entry %d: fde.cie is not the entry object at index %d' % (i, ci), case)
            if eh:
                if bytes(g.augmentation_bytes or b'') != x['augdata']:
                    ctx.fail('fde|augmentation_bytes', 'expected %r got %r' % (x['augdata'], g.augmentation_bytes), case)
                if g.lsda_pointer != x['lsda']:
                    ltag = 'none' if x['lsda'] is None else 'enc=%s%s' % (ENC_BASIC[x['lenc'] & 0xf], '+pcrel' if x['lenc'] & 0x10 else '')
                    ctx.fail('fde|lsda_pointer|%s' % ltag, 'entry %d: expected %r got %r' % (i, x['lsda'], g.lsda_pointer), case)
                if x['fenc'] != 0 or (x['lenc'] not in (0, 0xff)):
                    nt = True
                ctx.count('fde.enc.%s%s' % (ENC_BASIC[x['fenc'] & 0xf], '+pcrel' if x['fenc'] & 0x10 else ''))
                if x['lsda'] is not None:
                    ctx.count('fde.lsda.%s%s' % (ENC_BASIC[x['lenc'] & 0xf], '+pcrel' if x['lenc'] & 0x10 else ''))
        # instruction split
        want = [exp_instr(op) for op in x['ops']] + [(0, [])] * case['entries'][i].get('pad', 0)
        got = [(ins.opcode, [canon_block(a) if isinstance(a, (list, tuple)) else a for a in ins.args]) for ins in g.instructions]
        if got != want:
            k = next((j for j, (a, b) in enumerate(zip(got, want)) if a != b), min(len(got), len(want)))
            opn = x['ops'][k][0] if k < len(x['ops']) else 'nop-padding'
            ctx.fail('instructions|%s' % opn, 'entry %d instr %d (%s): expected %r got %r' % (
                i, k, opn, want[k] if k < len(want) else None, got[k] if k < len(got) else None), case)
            continue
        for op in x['ops']:
            ctx.count('op.' + op[0])
        # decoded table
        e = case['entries'][i]
        if x['t'] == 'cie':
            rows, fin = REF.run(e['ops'], e['caf'], e['daf'], 0, REF.State(), None)
            states[i] = fin
        else:
            cie_e = case['entries'][x['cie_index']]
            cfin = states.get(x['cie_index'])
            if cfin is None:
                _, cfin = REF.run(cie_e['ops'], cie_e['caf'], cie_e['daf'], 0, REF.State(), None)
                states[x['cie_index']] = cfin
            rows, fin = REF.run(e['ops'], cie_e['caf'], cie_e['daf'], x['loc'], cfin, cfin)
        try:
            dec = g.get_decoded()
        except Exception as ex:  # noqa
            kinds = {op[0] for op in e['ops']}
            hint = 'restore' if kinds & {'restore', 'restore_extended'} else 'other'
            ctx.fail_exc('table|%s|%s' % (x['t'], hint), ex, case)
            continue
        _cmp_table(ctx, x['t'], i, dec, rows, case)
        kinds = {op[0] for op in e['ops']}
        rk = {v[0] for r in rows for v in r['regs'].values()} | {r['cfa'][0] for r in rows if r['cfa']}
        if x['t'] == 'fde' and ((len(rows) >= 2 and len(rk) >= 3) or any(k.endswith('_sf') or k.startswith('val_') or 'expression' in k or
                                                                          k.startswith('restore') or k == 'remember_state' for k in kinds)):
            nt = True
    _register(ctx, case, data, exp, nt)


def _aug_hint(case):
    augs = sorted({bytes(e['aug']).decode() or 'empty' for e in case['entries'] if e['t'] == 'cie'})
    if case['kind'] != 'eh_frame':
        return ''
    noR = [a for a in augs if 'R' not in a]
    return '|cie-without-R' if noR else ''


def _register(ctx, case, data, exp, nt):
    ctx.count('sec.%s.a%d.%s' % (case['kind'], case['addr_size'], 'le' if case['le'] else 'be'))
    for e in case['entries']:
        if e['t'] == 'cie':
            ctx.count('cie.v%d.%d' % (e['version'], e['fmt']))
        if e.get('aug_slack'):
            ctx.count('aug-data-longer-than-known-fields.%s' % e['t'])
        if e.get('aug_len_pad') or len(e.get('aug_slack', b'')) >= 120:
            ctx.count('aug-length-longer-than-one-byte.%s' % e['t'])
        if e.get('lsda_rel') is not None or e.get('loc_rel') is not None:
            ctx.count('pcrel-pointer-given-by-displacement')
    if any(e['t'] == 'fde' and e['cie'] > i for i, e in enumerate(case['entries'])):
        ctx.count('fde-before-cie')
    ctx.case((case['kind'], case['le'], case['addr_size'], case.get('sec_addr', 0), data), nt,
             {'kind': case['kind'], 'le': case['le'], 'addr_size': case['addr_size'], 'sec_addr': case.get('sec_addr', 0),
              'entries': [(e['t'], e.get('aug', b'') and bytes(e.get('aug', b'')).decode(), len(e['ops'])) for e in case['entries']],
              'first_ops': case['entries'][-1]['ops'][:6] if case['entries'] else [], 'hex': data[:64].hex()})


def _cmp_table(ctx, kind, idx, dec, rows, case):
    table = list(dec.table)
    # the library may omit a last row that carries neither a CFA rule nor a register rule
    if len(table) == len(rows) - 1 and rows[-1]['cfa'] is None and not rows[-1]['regs']:
        rows = rows[:-1]
    if len(table) != len(rows):
        last = rows[-1]
        why = 'cfa-expression-only-final-row' if (len(table) == len(rows) - 1 and last['cfa'] and last['cfa'][0] == 'expr' and not last['regs']) else 'count'
        ctx.fail('table|%s|rows|%s' % (kind, why), 'entry %d: reference %d rows, decoded %d' % (idx, len(rows), len(table)), case)
        if why == 'count':
            return
    seen_regs = set()
    for j, (g, r) in enumerate(zip(table, rows)):
        if g.get('pc') != r['pc']:
            ctx.fail('table|%s|pc' % kind, 'entry %d row %d: expected pc %#x got %r' % (idx, j, r['pc'], g.get('pc')), case)
            return
        cfa = g.get('cfa')
        want = r['cfa']
        gexpr = None if cfa is None or cfa.expr is None else bytes(cfa.expr)
        if want is None:
            bad = cfa is not None and (cfa.reg is not None or gexpr is not None)
        elif want[0] == 'reg':
            bad = cfa is None or cfa.reg != want[1] or cfa.offset != want[2] or gexpr is not None
        else:
            bad = cfa is None or gexpr != want[1]
        if bad:
            what = 'undefined' if want is None else want[0]
            part = ''
            if want and want[0] == 'reg' and cfa is not None and gexpr is None:
                part = '|offset' if cfa.reg == want[1] else '|reg'
            ctx.fail('table|%s|cfa|%s%s|writer=%s' % (kind, what, part, r['wcfa']), 'entry %d row %d: CFA expected %r got %r' % (idx, j, want, cfa), case)
            return
        gregs = {k: v for k, v in g.items() if k not in ('pc', 'cfa')}
        if set(gregs) != set(r['regs']):
            diff = sorted(set(gregs) ^ set(r['regs']))
            w = r['wregs'].get(diff[0], 'inherited')
            ctx.fail('table|%s|reg-set|%s|writer=%s' % (kind, 'extra' if diff[0] in gregs else 'missing', w),
                     'entry %d row %d: registers with rules expected %r got %r' % (idx, j, sorted(r['regs']), sorted(gregs)), case)
            return
        for reg, (rkind, arg) in r['regs'].items():
            gr = gregs[reg]
            garg = bytes(gr.arg) if isinstance(gr.arg, (list, tuple)) else gr.arg
            if gr.type != rkind or garg != arg:
                ctx.fail('table|%s|rule|%s|%s|writer=%s' % (kind, rkind, 'kind' if gr.type != rkind else 'arg', r['wregs'].get(reg, 'inherited')),
                         'entry %d row %d reg %d: expected (%s, %r) got (%s, %r)' % (idx, j, reg, rkind, arg, gr.type, gr.arg), case)
                return
        seen_regs |= set(r['regs'])
    missing = seen_regs - set(dec.reg_order)
    if missing:
        ctx.fail('table|%s|reg_order' % kind, 'entry %d: registers %r have rules but are not in reg_order %r' % (idx, sorted(missing), dec.reg_order), case)


# ---------------------------------------------------------------------------
# generator

def _expr(ch):
    """an opaque expression block: mostly a few bytes, sometimes one whose ULEB128 length needs two or three bytes"""
    if not ch.bool(0.12):
        return ch.bytes(0, 12)
    n = ch.choice([127, 128, 129, 255, 256, 300, 16383, 16384])
    k = ch.int(0, 255)
    return bytes((k + 7 * i) & 0xff for i in range(n))


def gen_ops(ch, A, caf, in_cie, cfa_kind, maxn, pc, regs_pool):
    """-> (ops, final cfa kind).  cfa_kind in (None, 'reg', 'expr')."""
    ops = []
    stack = []
    n = ch.int(0, maxn)
    for _ in range(n):
        k = ch.int(0, 27)
        r = ch.choice(regs_pool)
        if k == 0 and not in_cie:
            ops.append(['advance_loc', ch.choice([1, 1, 2, 63, ch.int(1, 63)])])
        elif k == 1 and not in_cie:
            ops.append([ch.choice(['advance_loc1', 'advance_loc2', 'advance_loc4']), 1])
            w = {'advance_loc1': 8, 'advance_loc2': 16, 'advance_loc4': 32}[ops[-1][0]]
            ops[-1][1] = ch.choice([1, 255, (1 << w) - 1, ch.int(1, (1 << w) - 1)]) if w > 8 else ch.choice([1, 255, ch.int(1, 255)])
        elif k == 2 and not in_cie:
            ops.append(['set_loc', None])       # filled below (needs current pc)
        elif k == 3:
            ops.append(['offset', r % 64, ch.choice([0, 1, 2, 127, 128, ch.int(0, 70000)])])
        elif k == 4:
            ops.append(['offset_extended', r, ch.choice([0, 1, 8, 128, ch.int(0, 70000)])])
        elif k == 5:
            ops.append(['offset_extended_sf', r, ch.choice([0, 1, -1, -8, 63, 64, -64, -65, ch.int(-70000, 70000)])])
        elif k == 6:
            ops.append(['val_offset', r, ch.choice([0, 1, 16, ch.int(0, 70000)])])
        elif k == 7:
            ops.append(['val_offset_sf', r, ch.choice([0, -1, 2, -64, ch.int(-70000, 70000)])])
        elif k == 8:
            ops.append(['register', r, ch.choice(regs_pool)])
        elif k == 9:
            ops.append(['undefined', r])
        elif k == 10:
            ops.append(['same_value', r])
        elif k == 11:
            ops.append(['expression', r, _expr(ch)])
        elif k == 12:
            ops.append(['val_expression', r, _expr(ch)])
        elif k == 13:
            ops.append(['def_cfa', r, ch.choice([0, 8, 16, 128, ch.int(0, 70000)])])
            cfa_kind = 'reg'
        elif k == 14:
            ops.append(['def_cfa_sf', r, ch.choice([0, 1, -1, 2, -2, 8, -8, 64, -65, ch.int(-70000, 70000)])])
            cfa_kind = 'reg'
        elif k == 15 and cfa_kind == 'reg':
            ops.append(['def_cfa_register', r])
        elif k == 16 and cfa_kind == 'reg':
            ops.append(['def_cfa_offset', ch.choice([0, 8, 127, 128, ch.int(0, 70000)])])
        elif k == 17 and cfa_kind == 'reg':
            ops.append(['def_cfa_offset_sf', ch.choice([0, 1, -1, 3, -64, ch.int(-70000, 70000)])])
        elif k == 18:
            ops.append(['def_cfa_expression', _expr(ch)])
            cfa_kind = 'expr'
        elif k == 19 and not in_cie:
            ops.append([ch.choice(['restore', 'restore_extended']), r])
            if ops[-1][0] == 'restore':
                ops[-1][1] = r % 64
        elif k == 20 and len(stack) < 6:
            ops.append(['remember_state'])
            stack.append(cfa_kind)
        elif k == 21 and stack:
            ops.append(['restore_state'])
            cfa_kind = stack.pop()
        elif k == 22:
            ops.append(['nop'])
        elif k == 23:
            ops.append(['negate_ra_state'])
        elif k == 24:
            ops.append(['GNU_args_size', ch.choice([0, 16, 200])])
        elif k >= 25 and not in_cie:
            ops.append(['advance_loc', ch.int(1, 8)])
    while stack and ch.bool(0.7):
        ops.append(['restore_state'])
        cfa_kind = stack.pop()
    # fill set_loc targets (strictly forward)
    for op in ops:
        if op[0] in ('advance_loc', 'advance_loc1', 'advance_loc2', 'advance_loc4'):
            pc += op[1] * caf
        elif op[0] == 'set_loc':
            pc = pc + ch.choice([1, 4, 0x100, ch.int(1, 0x1000)])
            op[1] = pc
    if pc >= (1 << (8 * A)):        # keep locations representable: drop set_loc/large advances
        ops = [op for op in ops if op[0] not in ('set_loc', 'advance_loc2', 'advance_loc4')]
    return ops, cfa_kind


AUGS = [b'', b'zR', b'zL', b'zP', b'zS', b'zRL', b'zLR', b'zPR', b'zRP', b'zPLR', b'zRS', b'zSR', b'zPL', b'zLPRS', b'z']
FDE_ENCS = [0x00, 0x01, 0x02, 0x03, 0x04, 0x09, 0x0a, 0x0b, 0x0c]


def build_case(ch, tier, kind=None):
    kind = kind or ch.choice(['debug_frame', 'eh_frame'])
    eh = kind == 'eh_frame'
    le = ch.bool()
    A = ch.choice([4, 8])
    case = {'le': le, 'addr_size': A, 'kind': kind, 'sec_addr': ch.choice([0, 0x1000, 0x400000, ch.int(0, 1 << 30)]) if eh else 0,
            'terminator': eh and ch.bool(0.5)}
    ncie = ch.choice([1, 1, 2, 3])
    cies = []
    regs_pool = [0, 1, 7, 16, 63, 64, 127, 128, 300] if ch.bool(0.7) else [ch.int(0, 300) for _ in range(4)]
    maxn = ch.choice([3, 8, 20, 60 if tier == 'quick' else 400])
    for _ in range(ncie):
        caf = ch.choice([1, 1, 2, 4, ch.int(1, 16)])
        daf = ch.choice([-8, -4, 8, 3, -3, ch.int(-16, 16)])
        while daf == 0 or abs(daf) == caf:
            daf = daf - 1 if daf <= 0 else daf + 1
        e = {'t': 'cie', 'fmt': ch.choice([32, 32, 32, 64]) if eh else ch.choice([32, 32, 64]), 'version': ch.choice([1, 3, 1, 3, 4]) if eh else ch.choice([1, 3, 4]),
             'aug': ch.choice(AUGS) if eh else b'', 'caf': caf, 'daf': daf, 'rar': ch.choice([0, 16, 30, 127, 128 if ch.bool() else 14, 255]),
             'pad': ch.choice([0, 0, 1, 3, 7])}
        if e['version'] == 1:
            e['rar'] = min(e['rar'], 255)
        if eh:
            e['fde_enc'] = ch.choice(FDE_ENCS) | ch.choice([0, 0, 0x10])
            e['lsda_enc'] = ch.choice(FDE_ENCS) | ch.choice([0, 0, 0x10])
            if ch.bool(0.1):
                e['lsda_enc'] = 0xff      # DW_EH_PE_omit: 'L' is declared but the entries carry no LSDA pointer
            penc = ch.choice(FDE_ENCS) | ch.choice([0, 0x10, 0x80, 0x90])
            lo, hi = ptr_range(A, penc)
            e['pers'] = [penc, ch.choice([0, 1, hi, lo, ch.int(lo, hi)])]
            if e['aug'][:1] == b'z' and ch.bool(0.25):
                e['aug_slack'] = ch.choice([b'\x07\x05', b'\0', ch.bytes(1, 6), ch.bytes(120, 135)])
            if e['aug'][:1] == b'z' and ch.bool(0.2):
                e['aug_len_pad'] = ch.choice([1, 2])        # the length is a ULEB128: redundant groups and values >= 128 make it longer than one byte
        ops, ck = gen_ops(ch, A, caf, True, None, ch.choice([0, 2, 6]), 0, regs_pool)
        e['ops'] = ops
        e['_ck'] = ck
        cies.append(e)
    nfde = ch.choice([0, 1, 2, 3, 5])
    fdes = []
    for _ in range(nfde):
        ci = ch.int(0, ncie - 1)
        cie = cies[ci]
        # .eh_frame: the extended (64-bit) length is a property of each entry; CIEs may carry it, FDEs of either kind of CIE stay 32-bit
        # (for an extended-length FDE there is no agreed meaning of the CIE pointer: the LSB text says relative to the field, binutils 2.40
        # computes from field + 4, the library from field - 4; nothing emits such entries - see ASSUMPTIONS)
        e = {'t': 'fde', 'fmt': 32 if eh else ch.choice([32, 32, 64]), '_cie': ci, 'pad': ch.choice([0, 0, 2, 5])}
        fenc = cie.get('fde_enc', 0) if (eh and cie['aug'][:1] == b'z' and b'R' in cie['aug']) else 0
        lo, hi = ptr_range(A, fenc & 0x0f) if eh else (0, (1 << (8 * A)) - 1)
        hi = min(hi, (1 << (8 * A)) - 1, (1 << 62))
        if eh and fenc & 0x10:
            # pc-relative: keep |loc - (sec_addr + field offset)| encodable and loc inside the address space
            base = case['sec_addr']
            span = min(hi, 0x7000) if (fenc & 0xf) in (2, 0xa) else min(hi, 1 << 28)
            loc = base + ch.int(0x800 if lo >= 0 else 0, span) if lo >= 0 else max(0, base + ch.int(-min(-lo, span, base), span))
        else:
            loc = ch.choice([0, 0x1000, max(lo, 0), hi // 2, ch.int(max(lo, 0), hi)])
        rhi = ptr_range(A, fenc & 0x0f)[1] if eh else (1 << (8 * A)) - 1
        rlo = ptr_range(A, fenc & 0x0f)[0] if eh else 0
        e['loc'] = loc
        e['range'] = ch.choice([0, 1, 0x40, min(rhi, 0xffff), ch.int(0, min(rhi, 1 << 30))])
        lenc = cie.get('lsda_enc', 0xff) if (eh and cie['aug'][:1] == b'z' and b'L' in cie['aug']) else 0xff
        if lenc != 0xff:
            llo, lhi = ptr_range(A, lenc & 0x0f)
            if lenc & 0x10:
                base = case['sec_addr']
                span = min(lhi, 0x7000) if (lenc & 0xf) in (2, 0xa) else min(lhi, 1 << 28)
                e['lsda'] = base + ch.int(0x800, span) if llo >= 0 else max(0, base + ch.int(-min(-llo, span, base), span))
            else:
                e['lsda'] = ch.choice([0, 1, max(llo, 0), min(lhi, (1 << (8 * A)) - 1), ch.int(max(llo, 0), min(lhi, (1 << (8 * A)) - 1, 1 << 62))])
        else:
            e['lsda'] = None
        if eh and cie['aug'][:1] == b'z':
            if ch.bool(0.2):
                e['aug_slack'] = ch.choice([b'\x07\x05', b'\0', ch.bytes(1, 6), ch.bytes(120, 135)])
            if ch.bool(0.2):
                e['aug_len_pad'] = ch.choice([1, 2])
            # pc-relative pointers given by their encoded displacement (0: the pointer designates its own field)
            if lenc != 0xff and lenc & 0x10 and ch.bool(0.3):
                e['lsda_rel'] = ch.choice([0, 0, 1, 8, 0x40])
        ops, _ = gen_ops(ch, A, cie['caf'], False, cie['_ck'], maxn, loc, regs_pool)
        e['ops'] = ops
        if eh and fenc & 0x10 and ch.bool(0.15) and not any(op[0] == 'set_loc' for op in ops):
            e['loc_rel'] = ch.choice([0, 0, 4, 0x40])
        fdes.append(e)
    # order: eh_frame keeps each CIE before its FDEs; debug_frame any interleaving
    if eh:
        order = []
        for ci, c in enumerate(cies):
            order.append(c)
        entries = list(cies)
        for f in fdes:
            entries.append(f)
        if ch.bool(0.5):
            # interleave: place each FDE at a random position after its CIE
            entries = list(cies)
            for f in fdes:
                pos = ch.int(entries.index(cies[f['_cie']]) + 1, len(entries))
                entries.insert(pos, f)
    else:
        entries = ch.perm(cies + fdes)
    for e in entries:
        if e['t'] == 'fde':
            e['cie'] = next(i for i, x in enumerate(entries) if x is cies[e['_cie']])
    for e in entries:
        e.pop('_cie', None)
        e.pop('_ck', None)
    case['entries'] = entries
    return case


strategy = composite_from(build_case)


def sweep(tier):
    cases = []
    k = 0
    single = [['offset', 5, 3], ['offset_extended', 200, 129], ['offset_extended_sf', 200, -129], ['val_offset', 9, 5], ['val_offset_sf', 9, -5],
              ['register', 3, 300], ['undefined', 128], ['same_value', 64], ['expression', 7, b'\x91\x08'], ['val_expression', 7, b''],
              ['def_cfa', 7, 16], ['def_cfa_sf', 7, -3], ['def_cfa_register', 6], ['def_cfa_offset', 200], ['def_cfa_offset_sf', -7],
              ['def_cfa_expression', b'\x77\x08\x06'], ['restore', 5], ['restore_extended', 200], ['nop'], ['negate_ra_state'], ['GNU_args_size', 32],
              ['advance_loc1', 255], ['advance_loc2', 0x1234], ['advance_loc4', 0x12345], ['set_loc', None], ['remember_state']]
    for kind in ('debug_frame', 'eh_frame'):
        for A in (4, 8):
            for le in (True, False):
                for (caf, daf) in ((1, -8), (4, -4 - 1), (2, 3), (16, -16 + 1)):
                    for fmt in ((32, 64) if kind == 'debug_frame' else (32,)):
                        augs = [b''] if kind == 'debug_frame' else AUGS
                        for ai, aug in enumerate(augs):
                            k += 1
                            ch = RndChooser(60000 + k)
                            fenc = FDE_ENCS[k % len(FDE_ENCS)] | (0x10 if k % 2 else 0)
                            lenc = FDE_ENCS[(k // 2) % len(FDE_ENCS)] | (0x10 if (k // 3) % 2 else 0)
                            if k % 7 == 3:
                                lenc = 0xff   # DW_EH_PE_omit
                            cie = {'t': 'cie', 'fmt': fmt, 'version': (1, 3, 4)[k % 3] if kind == 'debug_frame' else (1, 3, 1, 3, 4)[k % 5], 'aug': aug, 'caf': caf, 'daf': daf,
                                   'rar': 16, 'pad': k % 4, 'fde_enc': fenc, 'lsda_enc': lenc, 'pers': [0x03 | (0x90 if k % 2 else 0), 0x1234],
                                   'ops': [['def_cfa', 7, 8], ['offset', 16, 1], ['offset_extended', 200, 2]]}
                            cie2 = dict(cie, ops=[], pad=0)           # a CIE without any initial rule
                            cie3 = dict(cie, ops=[['def_cfa_expression', b'\x77\x08']], pad=0)    # CFA given by an expression only
                            sec_addr = 0x400000 if kind == 'eh_frame' else 0
                            base_loc = 0x401000
                            fdes = []
                            for j, op in enumerate(single):
                                op = list(op)
                                ops = [['advance_loc', 1], op, ['advance_loc', 2], ['def_cfa', 7, 24] if op[0] == 'def_cfa_expression' else ['def_cfa_offset', 24], ['advance_loc', 1]]
                                if op[0] == 'set_loc':
                                    op[1] = base_loc + j * 0x100 + 0x40
                                if op[0] == 'remember_state':
                                    ops = [['advance_loc', 1], ['remember_state'], ['def_cfa', 3, 99], ['offset', 4, 4], ['advance_loc', 1], ['restore_state'], ['advance_loc', 3], ['nop']]
                                fdes.append({'t': 'fde', 'fmt': fmt, 'cie': 0, 'loc': base_loc + j * 0x100, 'range': 0x80, 'lsda': base_loc + 0x5000 + j, 'ops': ops, 'pad': j % 3})
                            # restore in an FDE whose CIE has no initial rules; expression-only entries
                            fdes.append({'t': 'fde', 'fmt': fmt, 'cie': 1, 'loc': base_loc + 0x4000, 'range': 4, 'lsda': base_loc + 0x6000,
                                         'ops': [['def_cfa', 7, 8], ['offset', 5, 2], ['advance_loc', 1], ['restore', 5], ['advance_loc', 1]], 'pad': 0})
                            fdes.append({'t': 'fde', 'fmt': fmt, 'cie': 2, 'loc': base_loc + 0x4100, 'range': 4, 'lsda': base_loc + 0x6100, 'ops': [], 'pad': 0})
                            fdes.append({'t': 'fde', 'fmt': fmt, 'cie': 1, 'loc': base_loc + 0x4200, 'range': 4, 'lsda': base_loc + 0x6200,
                                         'ops': [['def_cfa_expression', b'\x70\x00'], ['advance_loc', 1], ['nop']], 'pad': 0})
                            entries = [cie, cie2, cie3] + fdes
                            if kind == 'eh_frame' and (fenc & 0xf) in (2, 0xa) and not (fenc & 0x10):
                                for f in fdes:
                                    f['loc'] &= 0x7fff
                            if kind == 'eh_frame' and (lenc & 0xf) in (2, 0xa) and not (lenc & 0x10):
                                for f in fdes:
                                    f['lsda'] &= 0x7fff
                            if kind == 'eh_frame' and (fenc & 0xf) in (2, 0xa) and (fenc & 0x10):
                                sec_addr = base_loc - 0x100
                            if kind == 'eh_frame' and (lenc & 0xf) in (2, 0xa) and (lenc & 0x10):
                                for f in fdes:
                                    f['lsda'] = sec_addr + 0x900 + (f['lsda'] & 0xff)
                            if kind == 'debug_frame' and k % 2:
                                # FDEs first, CIEs last (forward CIE pointers)
                                entries = fdes + [cie, cie2, cie3]
                                for f in fdes:
                                    f['cie'] += len(fdes)
                            cases.append({'le': le, 'addr_size': A, 'kind': kind, 'sec_addr': sec_addr, 'terminator': bool(k % 2), 'entries': entries})
    return cases


def floors(ctx):
    c = ctx.counters
    out = []
    for k in list(REF.EXTENDED) + list(REF.PRIMARY):
        if c['op.' + k] == 0:
            out.append('opcode never decoded: ' + k)
    for a in AUGS:
        if c['aug.%s' % (a.decode() or 'empty')] == 0:
            out.append('augmentation never generated: %r' % a)
    for enc in ENC_BASIC.values():
        if c['fde.enc.' + enc] == 0 or c['fde.enc.' + enc + '+pcrel'] == 0:
            out.append('FDE pointer encoding never exercised: ' + enc)
    for k in ('cie.v1.32', 'cie.v3.32', 'cie.v4.32', 'cie.v4.64', 'fde-before-cie', 'entry.zero', 'aug-data-longer-than-known-fields.cie',
              'aug-data-longer-than-known-fields.fde', 'pcrel-pointer-given-by-displacement', 'aug-length-longer-than-one-byte.cie',
              'aug-length-longer-than-one-byte.fde'):
        if c[k] == 0:
            out.append('no case with ' + k)
    for kind in ('debug_frame', 'eh_frame'):
        for A in (4, 8):
            for e in ('le', 'be'):
                if c['sec.%s.a%d.%s' % (kind, A, e)] == 0:
                    out.append('cell never exercised %s/a%d/%s' % (kind, A, e))
    return out

"""C05 - line-number programs execute to the rows the DWARF state machine prescribes."""
import zlib
from vf import streams
from vf.enc import dwarf as D
from vf.enc import lineprog as LP
from vf.ref import lineprog as REF
from vf.choose import RndChooser, composite_from

ID = 'C05'
RULE = ('1-4 line-number programs per .debug_line (version 2-5 x DWARF32/64 x address size 4/8 x byte order; opcode_base 1..255 so '
        'that standard opcodes become special and unknown standard opcodes with declared operand counts exist; line_range 1..255, '
        'line_base -128..127, min_inst_length 1..8, max_ops 1..8; v5 directory/file entry formats over path/directory_index/timestamp/'
        'size/MD5 in forms string/line_strp/strp/udata/data1-16/block) with opcode sequences of 0..300 (thorough 3000) standard, '
        'extended (define_file, set_discriminator, unknown length-skipped) and special opcodes, non-minimal LEB128 operands, several '
        'sequences per program; each program is reached through a generated CU whose DW_AT_stmt_list designates it. Oracle: header '
        'tables = model; rows = reference state machine transcribed from DWARF v5 6.2.5; decode extent = declared extent. Non-trivial: '
        'a sequence with >=5 rows from >=3 opcode classes, or non-default header parameters (opcode_base != 13, max_ops > 1, '
        'min_inst > 1). Distinct by SHA-1 of .debug_line + .debug_info.')
N = {'quick': 2500, 'thorough': 80000}
ASSUMPTIONS = ['header_length designates the first opcode; in 15 % of the programs it covers 1..8 bytes behind the tables (a consumer starts where the field says); program format/address size equal those of the referencing CU',
               'every sequence ends with DW_LNE_end_sequence; addresses stay below 2^63; rows are compared as unbounded integers, and the line register '
               'is not compared in programs where the reference machine drives it negative (counted as out-of-domain)',
               'DW_LNE_define_file only in versions 2-4; known standard opcodes keep their standard operand counts in standard_opcode_lengths',
               'is_stmt is compared as a truth value']

FIELDS = ('address', 'op_index', 'file', 'line', 'column', 'is_stmt', 'basic_block', 'end_sequence', 'prologue_end',
          'epilogue_begin', 'isa', 'discriminator')
WRITES = {'sp': ('address', 'op_index', 'line'), 'advance_pc': ('address', 'op_index'), 'advance_line': ('line',), 'set_file': ('file',),
          'set_column': ('column',), 'negate_stmt': ('is_stmt',), 'set_basic_block': ('basic_block',), 'const_add_pc': ('address', 'op_index'),
          'fixed_advance_pc': ('address', 'op_index'), 'set_prologue_end': ('prologue_end',), 'set_epilogue_begin': ('epilogue_begin',),
          'set_isa': ('isa',), 'set_address': ('address', 'op_index'), 'set_discriminator': ('discriminator',)}


def build_sections(case):
    le = case['le']
    lstr_sec, lstr_offs = D.pool(case.get('lstrs', []), b'')
    str_sec, str_offs = D.pool(case.get('strs', []), b'\0')
    sup_offs = D.pool(case.get('sup_strs', []), b'\0\0\0')[1]
    line = bytearray()
    offs = []
    for p in case['progs']:
        offs.append(len(line))
        line += LP.enc_program(le, p, lstr_offs, str_offs, sup_offs)
    # one CU per entry of case['cus'] = program index; the version of the referring unit is independent of the table's
    units = []
    for k, pi in enumerate(case['cus']):
        p = case['progs'][pi]
        ver = case['cu_vers'][k] if case.get('cu_vers') else p['version']
        form = 'DW_FORM_sec_offset' if ver >= 4 else ('DW_FORM_data4' if p['fmt'] == 32 else 'DW_FORM_data8')
        units.append({'version': ver, 'fmt': p['fmt'], 'addr_size': p['addr_size'], 'ut': 1, 'abtab': len(units), 'dwo_id': 0, 'sig': 0,
                      'die': {'ab': 0, 'vals': [{'s': b'cu'}, {'v': offs[pi]}], 'kids': []}, '_form': form})
    abtabs = [[{'code': 1, 'tag': 0x11, 'children': False, 'attrs': [[0x03, 'DW_FORM_string', None], [0x10, un.pop('_form'), None]]}] for un in units]
    w = D.InfoWriter({'le': le, 'strs': case.get('strs', []), 'lstrs': case.get('lstrs', []), 'abtabs': abtabs, 'units': units, 'tunits': []})
    secs = dict(w.sections)
    secs['.debug_line'] = bytes(line)
    secs['.debug_str'] = str_sec
    if case.get('lstrs'):
        secs['.debug_line_str'] = lstr_sec
    return secs, offs


def expected_v5_entries(case, p, fmtkey, entkey):
    out = []
    for ent in p[entkey]:
        d = {}
        for (ct, form), v in zip(p[fmtkey], ent):
            name = {1: 'DW_LNCT_path', 2: 'DW_LNCT_directory_index', 3: 'DW_LNCT_timestamp', 4: 'DW_LNCT_size', 5: 'DW_LNCT_MD5',
                    0x2001: 'DW_LNCT_LLVM_source', 0x2002: 'DW_LNCT_LLVM_is_MD5'}[ct]
            if form == 'DW_FORM_line_strp':
                v = bytes(case['lstrs'][v])
            elif form == 'DW_FORM_strp':
                v = bytes(case['strs'][v])
            elif form in ('DW_FORM_strp_sup', 'DW_FORM_GNU_strp_alt'):
                v = bytes(case['sup_strs'][v])
            elif form in ('DW_FORM_data16', 'DW_FORM_block'):
                v = list(v)
            elif form == 'DW_FORM_string':
                v = bytes(v)
            d[name] = v
        out.append(d)
    return out


def canon(v):
    if isinstance(v, (bytes, bytearray)):
        return bytes(v)
    if isinstance(v, (list, tuple)):
        return [canon(x) for x in v]
    return v


def run_far(ctx, case):
    """The first program of a generated case (64-bit format), decoded once at offset 0 of an ordinary .debug_line and once at an offset
    beyond 2**31 / 2**32 of a sparse one, designated by an 8-byte DW_FORM_sec_offset: both must decode to the same header and rows and
    the extent must move with the program."""
    import io
    from vf import dump
    from vf.enc.sparse import SparseStream
    from elftools.dwarf.dwarfinfo import DWARFInfo, DebugSectionDescriptor, DwarfConfig
    base = case['inner']
    le, far = base['le'], case['far']
    p = dict(base['progs'][0], fmt=64)
    lstr_sec, lstr_offs = D.pool(base.get('lstrs', []), b'')
    str_sec, str_offs = D.pool(base.get('strs', []), b'\0')
    prog = LP.enc_program(le, p, lstr_offs, str_offs, D.pool(base.get('sup_strs', []), b'\0\0\0')[1])
    A, ver = p['addr_size'], max(p['version'], 3)
    ab = bytes([1, 0x11, 0, 0x03, 0x08, 0x10, 0x17 if ver >= 4 else 0x07, 0, 0, 0])

    def info(off):
        body = b'\x01cu\0' + D.u(le, 8, off)
        rest = D.u(le, 2, ver) + (bytes([1, A]) + D.u(le, 8, 0) if ver >= 5 else D.u(le, 8, 0) + bytes([A])) + body
        return D.initial_length(le, 64, len(rest)) + rest

    def mk(line_stream, line_size, off):
        kw = {arg: None for arg in D.SECTION_ARGS.values()}
        for name, arg, data in (('.debug_info', 'debug_info_sec', info(off)), ('.debug_abbrev', 'debug_abbrev_sec', ab), ('.debug_str', 'debug_str_sec', str_sec),
                                ('.debug_line_str', 'debug_line_str_sec', lstr_sec)):
            kw[arg] = DebugSectionDescriptor(stream=io.BytesIO(data), name=name, global_offset=0, size=len(data), address=0)
        kw['debug_line_sec'] = DebugSectionDescriptor(stream=line_stream, name='.debug_line', global_offset=0, size=line_size, address=0)
        return DWARFInfo(config=DwarfConfig(little_endian=le, machine_arch='x64', default_address_size=A), **kw)
    tag = 'far|offset=%#x' % far
    try:
        near = mk(io.BytesIO(prog), len(prog), 0)
        lp0 = near.line_program_for_CU(next(near.iter_CUs()))
        d0 = dump.line_program(lp0)
        fard = mk(SparseStream(far + len(prog), {far: prog}), far + len(prog), far)
        lp1 = fard.line_program_for_CU(next(fard.iter_CUs()))
        d1 = dump.line_program(lp1)
        if d0 != d1:
            ctx.fail(tag + '|decoded-differently', 'the program decodes to %d entries at offset 0 and to %d at offset %#x (or header / rows differ)' % (len(d0[1]), len(d1[1]), far), case)
        if (lp1.program_start_offset - lp0.program_start_offset, lp1.program_end_offset - lp0.program_end_offset) != (far, far) or lp1.program_end_offset != far + len(prog):
            ctx.fail(tag + '|extent', 'extent [%#x,%#x) at offset 0, [%#x,%#x) at offset %#x' % (
                lp0.program_start_offset, lp0.program_end_offset, lp1.program_start_offset, lp1.program_end_offset, far), case)
    except Exception as e:  # noqa
        ctx.fail_exc(tag, e, case)
    ctx.count('far.programs')
    ctx.case(('far', far, prog), True, {'far': far, 'version': p['version'], 'n_ops': len(p['ops'])})


def run_case(ctx, case):
    if case.get('far'):
        return run_far(ctx, case)
    secs, offs = build_sections(case)
    try:
        di = D.make_dwarfinfo(secs, case['le'], case['progs'][0]['addr_size'])
        cus = list(di.iter_CUs())
        if case.get('sup_strs'):
            # the supplementary object file (attached the way ELFFile.get_dwarf_info does): its .debug_str holds the strp_sup strings,
            # its .debug_line_str and the main file's tables hold different bytes at the same offsets
            sup_str = D.pool(case['sup_strs'], b'\0\0\0')[0]
            di.supplementary_dwarfinfo = D.make_dwarfinfo({'.debug_str': sup_str, '.debug_line_str': bytes((b ^ 0x20) if b else 0 for b in sup_str) + b'\0',
                                                           '.debug_info': b'', '.debug_abbrev': b'\0'}, case['le'], case['progs'][0]['addr_size'])
            ctx.count('sup.attached')
    except Exception as e:  # noqa
        ctx.fail_exc('open', e, case)
        return
    nt = False
    plain = {}
    line_sec = secs['.debug_line']
    for cu, pi in zip(cus, case['cus']):
        p = case['progs'][pi]
        end = offs[pi + 1] if pi + 1 < len(offs) else len(line_sec)
        hdrp = {'min_inst': p['min_inst'], 'max_ops': p['max_ops'] if p['version'] >= 4 else 1, 'default_is_stmt': p['default_is_stmt'],
                'line_base': p['line_base'], 'line_range': p['line_range'], 'opcode_base': p['opcode_base']}
        tag = 'v%d' % p['version']
        if cu['version'] != p['version']:
            ctx.count('unit.version-differs-from-table')
        if p['version'] >= 5 and len({f for c_, f in p.get('file_format', []) if c_ in (1, 0x2001) and f != 'DW_FORM_string'}) >= 2:
            ctx.count('v5.two-string-columns-of-different-forms')
        try:
            lp = di.line_program_for_CU(cu)
        except Exception as e:  # noqa
            ctx.fail_exc('header|%s' % tag, e, case)
            continue
        if lp is None:
            ctx.fail('program-for-CU|none', 'CU at %d' % cu.cu_offset, case)
            continue
        h = lp.header
        O = 4 if p['fmt'] == 32 else 8
        exp_hdr = {'version': p['version'], 'unit_length': end - offs[pi] - (4 if p['fmt'] == 32 else 12),
                   'minimum_instruction_length': p['min_inst'], 'default_is_stmt': p['default_is_stmt'], 'line_base': p['line_base'],
                   'line_range': p['line_range'], 'opcode_base': p['opcode_base'],
                   'maximum_operations_per_instruction': hdrp['max_ops']}
        for k, v in exp_hdr.items():
            try:
                if h[k] != v:
                    ctx.fail('header|field|%s' % k, 'program %d (version %d): encoded %r decoded %r' % (pi, p['version'], v, h[k]), case)
            except Exception as e:  # noqa
                ctx.fail('header|missing|%s' % k, repr(e), case)
        if list(h['standard_opcode_lengths']) != list(p['std_lengths']):
            ctx.fail('header|standard_opcode_lengths', 'encoded %r decoded %r' % (p['std_lengths'], list(h['standard_opcode_lengths'])), case)
        if lp.program_end_offset != end:
            ctx.fail('extent|program_end_offset', 'expected %d got %r' % (end, lp.program_end_offset), case)
        ops_len = len(LP.enc_ops(case['le'], p['addr_size'], p['opcode_base'], p['std_lengths'], p['ops']))
        if p.get('hdr_slack'):
            ctx.count('header.slack-behind-tables')
        exp_hl = (end - ops_len) - (offs[pi] + (4 if p['fmt'] == 32 else 12) + 2 + (2 if p['version'] >= 5 else 0) + O)
        if h['header_length'] != exp_hl:
            ctx.fail('header|field|header_length', 'program %d: encoded %d decoded %r' % (pi, exp_hl, h['header_length']), case)
        if lp.program_start_offset != end - ops_len:
            ctx.fail('extent|program_start_offset|%s' % tag, 'expected %d got %r' % (end - ops_len, lp.program_start_offset), case)
            continue
        if p['version'] >= 5:
            if h['address_size'] != p['addr_size'] or h['segment_selector_size'] != 0:
                ctx.fail('header|v5|address_size', 'got %r/%r' % (h['address_size'], h['segment_selector_size']), case)
            for fmtkey, entkey, hk in (('dir_format', 'dirs5', 'directories'), ('file_format', 'files5', 'file_names')):
                exp = expected_v5_entries(case, p, fmtkey, entkey)
                got = [dict((k, canon(v)) for k, v in dict(e).items()) for e in (h[hk] or [])]
                if got != [dict((k, canon(v)) for k, v in e.items()) for e in exp]:
                    forms = ','.join(f for _, f in p[fmtkey])
                    ctx.fail('header|v5|%s' % hk, 'forms %s: expected %r got %r' % (forms, exp[:2], got[:2]), case)
            expd = expected_v5_entries(case, p, 'dir_format', 'dirs5')
            if expd and any('DW_LNCT_path' in e for e in expd):
                if [canon(x) for x in (h['include_directory'] or [])] != [e.get('DW_LNCT_path') for e in expd]:
                    ctx.fail('header|v5|include_directory-compat', 'got %r' % (h['include_directory'],), case)
            expf = expected_v5_entries(case, p, 'file_format', 'files5')
            if expf:
                gotf = [(canon(f.name), f.dir_index, f.mtime, f.length) for f in (h['file_entry'] or [])]
                want = [(e.get('DW_LNCT_path'), e.get('DW_LNCT_directory_index'), e.get('DW_LNCT_timestamp'), e.get('DW_LNCT_size')) for e in expf]
                if gotf != want:
                    ctx.fail('header|v5|file_entry-compat', 'expected %r got %r' % (want[:2], gotf[:2]), case)
        else:
            # (a missing table is a finding to report, not a reason for the harness to stop)
            if h['include_directory'] is None or [bytes(d) for d in h['include_directory']] != [bytes(d) for d in p['dirs']]:
                ctx.fail('header|include_directory', 'encoded %r decoded %r' % (p['dirs'], h['include_directory'] and list(h['include_directory'])), case)
        # rows
        rows, deffiles = REF.run(hdrp, p['ops'])
        try:
            entries = lp.get_entries()
        except Exception as e:  # noqa
            kinds = sorted({op[0] for op in p['ops']})
            hint = 'unk_std' if any(op[0] == 'unk_std' for op in p['ops']) else ('define_file' if any(op[0] == 'define_file' for op in p['ops']) else 'other')
            ctx.fail_exc('decode|%s|%s' % (tag if hint == 'define_file' else 'any', hint), e, case, extra='op kinds %s' % kinds)
            continue
        if p['version'] < 5:
            want = [(bytes(n), d, m, l) for (n, d, m, l) in p['files']] + [(bytes(f[0]), f[1], f[2], f[3]) for f in deffiles]
            gotf = [(bytes(f.name), f.dir_index, f.mtime, f.length) for f in (h['file_entry'] or [])]
            if gotf != want:
                ctx.fail('header|file_entry', 'expected %r got %r' % (want[:3], gotf[:3]), case)
        got_rows = [e.state for e in entries if e.state is not None]
        plain[pi] = _canon_entries(entries)
        if len(got_rows) != len(rows):
            ctx.fail('rows|count', 'program %d: reference machine emits %d rows, decoded %d' % (pi, len(rows), len(got_rows)), case)
        neg = any(r['line'] < 0 for r in rows)
        if neg:
            ctx.count('out_of_domain.negative_line')
        # per-row writer tracking for narrow buckets
        writers = _writers(p['ops'])
        skip_until_seq_end = False
        for i, (g, r) in enumerate(zip(got_rows, rows)):
            if skip_until_seq_end:
                if r['end_sequence']:
                    skip_until_seq_end = False
                continue
            for f in FIELDS:
                if f == 'line' and neg:
                    continue
                gv = getattr(g, f, None)
                ev = r[f]
                same = (bool(gv) == bool(ev)) if isinstance(ev, bool) else (gv == ev)
                if not same:
                    rk, wr = writers[i]
                    ctx.fail('row|%s|row=%s|writer=%s%s' % (f, rk, wr.get(f, 'initial'), '|max_ops>1' if hdrp['max_ops'] > 1 and f in ('address', 'op_index') else ''),
                             'program %d row %d (%s): field %s expected %r got %r; header %r' % (pi, i, rk, f, ev, gv, hdrp), case)
                    skip_until_seq_end = not r['end_sequence']
                    break
        # classification
        seqs = _sequences(p['ops'])
        if any(nr >= 5 and len(classes) >= 3 for nr, classes in seqs) or p['opcode_base'] != 13 or hdrp['max_ops'] > 1 or p['min_inst'] > 1:
            nt = True
        ctx.count('prog.v%d.%d.a%d.%s' % (p['version'], p['fmt'], p['addr_size'], 'le' if case['le'] else 'be'))
        ctx.count('rows', len(rows))
        for op in p['ops']:
            ctx.count('op.' + op[0])
        if p['opcode_base'] < 13:
            ctx.count('hdr.opcode_base<13')
        if p['opcode_base'] > 13:
            ctx.count('hdr.opcode_base>13')
        if hdrp['max_ops'] > 1:
            ctx.count('hdr.max_ops>1')
    # A decode that fails for a reason outside the program (a transient read error the caller catches) may be repeated: the repetition
    # answers as the undisturbed decode did.  One read of the .debug_line stream fails once, somewhere inside the first get_entries().
    if plain and not case.get('sup_strs') and zlib.crc32(line_sec) % 3 == 0:
        try:
            di2 = D.make_dwarfinfo(secs, case['le'], case['progs'][0]['addr_size'], stream_cls=streams.FaultOnce)
            for k2, (cu2, pi) in enumerate(zip(di2.iter_CUs(), case['cus'])):
                if pi not in plain:
                    continue
                lp2 = di2.line_program_for_CU(cu2)
                st2 = di2.debug_line_sec.stream
                st2.arm(1 + (zlib.crc32(line_sec) // 3 + 7 * k2) % max(2, min(60, 2 * len(plain[pi]))))
                try:
                    first = _canon_entries(lp2.get_entries())
                    failed = False
                except Exception:  # noqa   (the library reports the read error as its own parse error)
                    first, failed = None, st2.faults > 0
                    if not failed:
                        raise
                st2.disarm()
                if failed:
                    ctx.count('transient-fault.first-decode-failed')
                    again = _canon_entries(lp2.get_entries())
                    if again != plain[pi]:
                        ctx.fail('decode|repeated-after-a-failed-attempt', 'program %d: the undisturbed decode yields %d entries; get_entries() repeated after an attempt that a read error interrupted yields %d%s' % (
                            pi, len(plain[pi]), len(again), '' if len(again) != len(plain[pi]) else ' (different ones)'), case)
                elif first != plain[pi]:
                    ctx.fail('decode|on-another-stream-object', 'program %d: %d entries expected, %d decoded' % (pi, len(plain[pi]), len(first)), case)
        except Exception as e:  # noqa
            ctx.fail_exc('decode|repeated-after-a-failed-attempt', e, case)
    ctx.case((secs['.debug_line'], secs['.debug_info']), nt,
             {'le': case['le'], 'progs': [{k: p[k] for k in ('version', 'fmt', 'addr_size', 'min_inst', 'max_ops', 'line_base', 'line_range', 'opcode_base')}
                                          for p in case['progs']], 'n_ops': [len(p['ops']) for p in case['progs']],
              'first_ops': case['progs'][0]['ops'][:8], 'debug_line_hex': secs['.debug_line'][:64].hex()})


def _canon_entries(entries):
    return [(e.command, e.is_extended, repr(e.args), None if e.state is None else tuple(getattr(e.state, f, None) for f in FIELDS)) for e in entries]


def _writers(ops):
    """for each emitted row: (row kind, {field: kind of the last op that wrote it since the sequence start})"""
    out = []
    cur = {}
    for op in ops:
        k = op[0]
        for f in WRITES.get(k, ()):
            cur[f] = k
        if k in ('sp', 'copy', 'end_sequence'):
            if k == 'end_sequence':
                cur['end_sequence'] = 'end_sequence'
            out.append(({'sp': 'special', 'copy': 'copy', 'end_sequence': 'end_sequence'}[k], dict(cur)))
            for f in ('basic_block', 'prologue_end', 'epilogue_begin', 'discriminator'):
                cur.pop(f, None)
            if k == 'end_sequence':
                cur = {}
    return out


def _sequences(ops):
    out = []
    nr, classes = 0, set()
    for op in ops:
        classes.add('special' if op[0] == 'sp' else op[0])
        if op[0] in ('sp', 'copy', 'end_sequence'):
            nr += 1
        if op[0] == 'end_sequence':
            out.append((nr, classes))
            nr, classes = 0, set()
    return out


# ---------------------------------------------------------------------------

V5_FORMS = {1: ['DW_FORM_string', 'DW_FORM_line_strp', 'DW_FORM_strp'], 2: ['DW_FORM_udata', 'DW_FORM_data1', 'DW_FORM_data2'],
            3: ['DW_FORM_udata', 'DW_FORM_data4', 'DW_FORM_data8', 'DW_FORM_block'], 4: ['DW_FORM_udata', 'DW_FORM_data1', 'DW_FORM_data2', 'DW_FORM_data4', 'DW_FORM_data8'],
            5: ['DW_FORM_data16'],
            # vendor content types the library names: a second string-valued column (its form is independent of the path's) and a flag
            0x2001: ['DW_FORM_string', 'DW_FORM_line_strp', 'DW_FORM_strp'], 0x2002: ['DW_FORM_data1', 'DW_FORM_udata']}


def v5_value(ch, case, form):
    if form == 'DW_FORM_string':
        return ch.choice([b'a.c', b'', b'dir/x', b'n' * 70])
    if form == 'DW_FORM_line_strp':
        return ch.int(0, len(case['lstrs']) - 1)
    if form == 'DW_FORM_strp':
        return ch.int(0, len(case['strs']) - 1)
    if form in ('DW_FORM_strp_sup', 'DW_FORM_GNU_strp_alt'):
        return ch.int(0, len(case['sup_strs']) - 1)
    if form == 'DW_FORM_udata':
        return ch.choice([0, 1, 127, 128, ch.word(32)])
    if form.startswith('DW_FORM_data') and form != 'DW_FORM_data16':
        return ch.word(8 * int(form[12:]))
    if form == 'DW_FORM_data16':
        return ch.bytes(16)
    if form == 'DW_FORM_block':
        return ch.bytes(0, 9)
    raise ValueError(form)


def build_prog(ch, tier, case, cell=None):
    ver = cell[0] if cell else ch.choice([2, 3, 4, 5])
    fmt = cell[1] if cell else ch.choice([32, 32, 64])
    A = cell[2] if cell else ch.choice([4, 8])
    opcode_base = ch.choice([13, 13, 10, 1, 2, 4, 9, 12, 14, 17, 30, 255, ch.int(1, 255)])
    std_lengths = (REF.STD_LENGTHS + [ch.int(0, 3) for _ in range(300)])[:opcode_base - 1]
    p = {'version': ver, 'fmt': fmt, 'addr_size': A, 'min_inst': ch.choice([1, 1, 2, 4, 8, ch.int(1, 8)]),
         'max_ops': ch.choice([1, 1, 1, 2, 4, 8]) if ver >= 4 else 1, 'default_is_stmt': ch.choice([1, 1, 0, 0, 255]),
         'line_base': ch.choice([-5, -5, -3, -1, 0, 1, -128, 127, ch.int(-128, 127)]), 'line_range': ch.choice([14, 14, 12, 1, 2, 255, ch.int(1, 255)]),
         'opcode_base': opcode_base, 'std_lengths': std_lengths}
    if ch.bool(0.15):
        p['hdr_slack'] = ch.choice([b'\0', bytes(3), b'\x01', ch.bytes(1, 8), b'\x00\x01\x01'])
    if ver >= 5:
        for fmtkey, entkey, cts in (('dir_format', 'dirs5', [1]), ('file_format', 'files5', [1, 2, 3, 4, 5, 0x2001, 0x2002])):
            use = [1] + [c for c in cts[1:] if ch.bool(0.5)]
            use = ch.perm(use) if ch.bool(0.3) else use
            formats = [[c, ch.choice(V5_FORMS[c] + (['DW_FORM_strp_sup', 'DW_FORM_GNU_strp_alt'] if c == 1 and case.get('sup_strs') else []))] for c in use]
            if ch.int(0, 9) == 0:
                formats = []
            n = ch.choice([0, 1, 2, 5]) if formats else 0     # an entry without DW_LNCT_path is not well-formed
            p[fmtkey] = formats
            p[entkey] = [[v5_value(ch, case, f) for (_, f) in formats] for _ in range(n)]
    else:
        p['dirs'] = [ch.choice([b'/usr/include', b'src', b'd' * 64, 'ü'.encode()]) for _ in range(ch.int(0, 3))]
        p['files'] = [[ch.choice([b'a.c', b'b.h', b'x' * 65]), ch.int(0, 3), ch.choice([0, 127, 128, ch.word(32)]), ch.choice([0, 5, ch.word(32)])] for _ in range(ch.int(0, 4))]
    # opcode sequences
    maxn = ch.choice([0, 3, 10, 40, 300 if tier == 'quick' else 3000])
    ops = []
    avail_std = [k for k, c in REF.STD.items() if c < opcode_base]
    unk_std = list(range(13, opcode_base))
    nseq = ch.choice([1, 1, 2, 3]) if maxn else 0
    for s in range(nseq):
        if ch.bool(0.8):
            ops.append(['set_address', ch.choice([0, 0x1000, 0x400000, ch.word(8 * A - 1) if A == 4 else ch.word(62)])])
        if ch.bool(0.3) and 'advance_line' in avail_std:
            ops.append(['advance_line', ch.int(0, 5000), 0])
        n = ch.int(0, maxn // nseq)
        for _ in range(n):
            k = ch.int(0, 19)
            if k <= 7 and opcode_base <= 255:
                ops.append(['sp', ch.choice([opcode_base, 255, ch.int(opcode_base, 255)])])
            elif k <= 14 and avail_std:
                kind = ch.choice(avail_std)
                if kind in ('advance_pc', 'set_file', 'set_column', 'set_isa'):
                    ops.append([kind, ch.choice([0, 1, 2, 127, 128, ch.int(0, 70000)]), ch.choice([0, 0, 0, 1, 2])])
                elif kind == 'advance_line':
                    ops.append([kind, ch.choice([0, 1, -1, 63, 64, -64, -65, ch.int(-300, 3000)]), ch.choice([0, 0, 0, 1, 2])])
                elif kind == 'fixed_advance_pc':
                    ops.append([kind, ch.choice([0, 1, 0xffff, ch.int(0, 0xffff)])])
                else:
                    ops.append([kind])
            elif k == 15 and unk_std:
                code = ch.choice(unk_std)
                ops.append(['unk_std', code, [ch.choice([0, 1, 128, ch.word(32)]) for _ in range(std_lengths[code - 1])]])
            elif k == 16:
                ops.append(['set_discriminator', ch.choice([0, 1, 127, 128, ch.word(32)]), ch.choice([0, 0, 1])])
            elif k == 17:
                ops.append(['unk_ext', ch.choice([5, 0x80, 0xff, 0x7f, ch.int(5, 255)]), ch.bytes(0, ch.choice([0, 1, 8, 200])), ch.choice([0, 0, 1])])
            elif k == 18 and ver < 5:
                ops.append(['define_file', ch.choice([b'gen.c', b'', b'y' * 70]) or b'z', ch.int(0, 3), ch.choice([0, 300]), ch.choice([0, 70000])])
            elif k == 19:
                ops.append(['set_address', ch.word(8 * A - 1)])
        ops.append(['end_sequence'])
    p['ops'] = ops
    return p


def build_case(ch, tier, cells=None):
    # the two string sections are separate number spaces: the pools are laid out so that the SAME offsets (1, 6) designate different
    # strings in .debug_str ('str0', '') and in .debug_line_str ('/cwd', 'x')
    case = {'le': ch.bool(), 'strs': [b'str0', b'', b's' * 66], 'lstrs': [b'', b'/cwd', b'x', b'main.c', b'l' * 64]}
    if ch.bool(0.3):
        case['sup_strs'] = [b'/sup/dir', b'sup_file.c', b'', b'S' * 65]      # a supplementary object file is attached
    n = len(cells) if cells else ch.choice([1, 1, 2, 3, 4])
    case['progs'] = [build_prog(ch, tier, case, cells[i] if cells else None) for i in range(n)]
    cus = ch.perm(list(range(n)))
    if ch.bool(0.3):
        cus.append(ch.int(0, n - 1))      # two CUs sharing one program (cache)
    case['cus'] = cus
    # a unit and the line table it designates need not have the same version (a DWARF 5 unit over a version 3 table is common)
    case['cu_vers'] = [case['progs'][pi]['version'] if ch.bool(0.6) else ch.choice([2, 3, 4, 5]) for pi in cus]
    return case


strategy = composite_from(build_case)


def sweep(tier):
    """every opcode in every cell with header-parameter variations; boundary operands"""
    cases = []
    k = 0
    for ver in (2, 3, 4, 5):
        for fmt in (32, 64):
            for A in (4, 8):
                for le in (True, False):
                    for (min_inst, max_ops, line_base, line_range, opcode_base) in ((1, 1, -5, 14, 13), (4, 1, -3, 12, 10), (2, 4, -1, 4, 13), (1, 3, 0, 1, 16), (8, 8, -128, 255, 13)):
                        k += 1
                        ch = RndChooser(50000 + k)
                        case = {'le': le, 'strs': [b'str0', b''], 'lstrs': [b'', b'/cwd', b'x', b'main.c']}
                        p = build_prog(ch, tier, case, (ver, fmt, A))
                        if ver < 4:
                            max_ops = 1
                        p.update(min_inst=min_inst, max_ops=max_ops, line_base=line_base, line_range=line_range, opcode_base=opcode_base,
                                 std_lengths=(REF.STD_LENGTHS + [2, 0, 1])[:opcode_base - 1], default_is_stmt=k % 2)
                        ops = [['set_address', 0x1000]]
                        for kind, code in sorted(REF.STD.items(), key=lambda kv: kv[1]):
                            if code >= opcode_base:
                                continue
                            for val in (0, 1, 127, 128, 0xffff):
                                if kind in ('advance_pc', 'set_file', 'set_column', 'set_isa'):
                                    ops.append([kind, val, val % 2])
                                elif kind == 'advance_line':
                                    ops.append([kind, val, 0])
                                    ops.append([kind, -(val // 2), 1])
                                elif kind == 'fixed_advance_pc':
                                    ops.append([kind, val])
                                else:
                                    ops.append([kind])
                                    break
                            ops.append(['sp', opcode_base + (code * 17) % (256 - opcode_base)])
                            ops.append(['copy'] if opcode_base > 1 else ['sp', 255])
                        for code in range(13, opcode_base):
                            ops.append(['unk_std', code, [300] * p['std_lengths'][code - 1]])
                            ops.append(['sp', 200])
                        ops += [['set_discriminator', 7], ['sp', 255], ['unk_ext', 0x80, b'\x01\x02\x03'], ['sp', opcode_base]]
                        if ver < 5:
                            ops += [['define_file', b'late.c', 1, 2, 3], ['sp', 254]]
                        ops += [['negate_stmt'], ['end_sequence']] if opcode_base > 6 else [['end_sequence']]
                        ops += [['set_address', 0x2000], ['sp', 250], ['const_add_pc'], ['sp', 251], ['end_sequence']] if opcode_base > 8 else []
                        p['ops'] = ops
                        case['progs'] = [p]
                        case['cus'] = [0]
                        if k % 2:
                            case['cu_vers'] = [5 if ver < 5 else 4]
                        cases.append(case)
    # the 64-bit format programs of the sweep again, at .debug_line offsets that need more than 31 / 32 bits
    fars = (0x7ffffff0, 0x80000000, 0xfffffff0, 1 << 32, (1 << 44) + 3)
    k = 0
    for c in list(cases):
        if c['progs'][0]['fmt'] == 64 and not c.get('sup_strs'):
            k += 1
            if k % (8 if tier == 'quick' else 2) == 0:
                cases.append({'far': fars[(k // 8) % len(fars)], 'inner': c})
    return cases


def floors(ctx):
    c = ctx.counters
    out = []
    for k in list(REF.STD) + ['sp', 'unk_std', 'unk_ext', 'define_file', 'set_discriminator', 'set_address', 'end_sequence']:
        if c['op.' + k] == 0:
            out.append('opcode never generated: ' + k)
    for k in ('hdr.opcode_base<13', 'hdr.opcode_base>13', 'hdr.max_ops>1', 'unit.version-differs-from-table', 'sup.attached', 'far.programs', 'v5.two-string-columns-of-different-forms'):
        if c[k] == 0:
            out.append('no program with ' + k)
    for ver in (2, 3, 4, 5):
        for fmt in (32, 64):
            for A in (4, 8):
                for e in ('le', 'be'):
                    if c['prog.v%d.%d.a%d.%s' % (ver, fmt, A, e)] == 0:
                        out.append('cell never exercised v%d/%d/a%d/%s' % (ver, fmt, A, e))
    return out

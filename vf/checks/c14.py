"""C14 - note sections / note segments yield every note exactly once; known descriptors are decoded to
their encoded fields; stab records are enumerated exactly.

model (semantic fields) --own struct.pack encoder--> note extent --vf.enc.elf.build--> ELF file
    --> ELFFile -> NoteSection.iter_notes / NoteSegment.iter_notes / StabSection.iter_stabs --> compare with the model

Texts the oracle is written from
  * gABI 4.1 ch.5 "Note Section": namesz/descsz/type are 4-byte words; name is a NUL-terminated string and namesz
    counts the terminator; namesz==0 => no name; padding to 4-byte alignment after name and after desc is NOT
    included in namesz/descsz; "a program must recognize both the name and the type to recognize a descriptor".
  * LSB / glibc csu/abi-note.S: owner "GNU", type 1, descsz 16 = 4 words (os, major, minor, subminor).
  * linux-abi draft (H.J. Lu) "Program Property Note": owner "GNU", type 5; descriptor = array of
    {pr_type:4, pr_datasz:4, pr_data, pr_padding to 4 (ELFCLASS32) / 8 (ELFCLASS64)}; GNU_PROPERTY_STACK_SIZE data is
    one native word; x86/AArch64 *_FEATURE_1_AND / ISA words are 4 bytes; GNU_PROPERTY_NO_COPY_ON_PROTECTED has no data.
  * Linux include/linux/elfcore.h struct elf_prpsinfo (owner "CORE", type 3) and fs/binfmt_elf.c fill_files_note
    (owner "CORE", type 0x46494c45): long count, long page_size, count x {start,end,file_ofs}, count NUL-terminated names.
    __kernel_uid_t is 16 bits on the 32-bit ports arm, cris, frv, i386, m32r, m68k, mn10300, s390(31 bit), sh, sparc
    (bfd: elf_external_linux_prpsinfo32_ugid16, descsz 124) and 32 bits elsewhere (ugid32, descsz 128; LP64: 136).
  * binutils bfd/stabs.c / gdb stabs manual: 12-byte records {n_strx:4, n_type:1, n_other:1, n_desc:2, n_value:4}
    for both ELF classes.
"""
import io
import struct

from hypothesis import strategies as st

from vf import usage, streams
from vf.enc import elf as W
from vf.choose import RndChooser, HypChooser

ID = 'C14'
RULE = ('A model of a note extent (0..12 notes (sweep: up to 10 per extent, every namesz 0..9 x descsz 0..9 residue '
        'pair); owners None/empty/ASCII/latin-1 of 0..39 bytes; descriptors 0..200 bytes; kinds: raw with '
        'known/unknown owner+type, GNU ABI tag, build id, gold version, GNU property list (stack size, no-copy, '
        'x86/AArch64 feature words, unknown types with arbitrary data; 4/8-byte element padding by class), '
        'CORE NT_PRPSINFO (per class and uid-width machine set), CORE NT_FILE with 0..5 mappings; optional '
        'header-only final note) is encoded by an independent struct.pack encoder with 4-byte padding, embedded '
        'by the independent ELF writer as SHT_NOTE section, PT_NOTE segment or both over the same bytes, for both '
        'classes and byte orders, ET_CORE and other e_type values, and decoded with iter_notes; an optional .stab '
        'section with 0..50 records is decoded with iter_stabs. Every field of every yielded note/stab is compared '
        'with the model. Non-trivial: >=2 notes of which at least one has namesz%4!=0 or descsz%4!=0, or a '
        'header-only final note, or a property list with >=2 properties. Distinct by SHA-1 of the encoded file.')
N = {'quick': 3000, 'thorough': 200000}
ASSUMPTIONS = [
    'note entries use 4-byte words and 4-byte padding in both ELF classes whatever the alignment fields of the section / segment '
    'header say (sh_addralign / p_align drawn from 0, 1, 2, 4, 8, 16, 0x1000); extents actually *encoded* with the gABI-64 '
    '8-byte words or with binutils\' 8-byte padding are outside the property ("the standard 4-byte padding")',
    'every note is well formed: n_namesz counts exactly one terminating NUL and the name has no embedded NUL; the last '
    'note is padded like the others, so the notes tile the extent exactly; no trailing filler after the last note',
    'GNU ABI tag descsz == 16; gold version string without NUL; every property (incl. the last) is padded to 4/8, '
    'STACK_SIZE data is one native word, feature words named by the library are 4 bytes, NO_COPY_ON_PROTECTED has no data; '
    'property types that no registry assigns (generic/user ranges) carry arbitrary data of 0..24 bytes, unnamed types inside '
    'the ranges reserved for 4-byte words carry exactly 4 bytes; both are expected as int type + raw bytes (an integer '
    'datum is also accepted if the library does name the type)',
    'NT_PRPSINFO/NT_FILE descriptors are generated only with owner "CORE" in ET_CORE files and have exactly the kernel '
    'layout; ELF32 NT_PRPSINFO only for machines whose uid width is known from the kernel headers (x32/ILP32 ABIs excluded)',
    'a note whose type number collides with a decoded kind but whose owner differs (gABI: name AND type identify a '
    'descriptor) is generated as the family "collision"; only its owner/type/raw bytes/offset/size and the absence of '
    'an exception are checked, never n_desc',
    'n_type / abi_os / pr_type reported as a string are accepted iff the library table of the expected context maps '
    'that string to the encoded integer; the codes the library dispatches on must be reported by their elf.h names',
    '.stab sections have a size that is a multiple of 12',
]

ET_CORE = 4
SHT_NOTE, SHT_PROGBITS, SHT_STRTAB = 7, 1, 3
PT_NOTE, PT_LOAD = 4, 1
NT_FILE = 0x46494c45

# hand-written from glibc elf.h (checked against vf.registry in selftest())
MUST_NTYPE = {False: {1: 'NT_GNU_ABI_TAG', 3: 'NT_GNU_BUILD_ID', 4: 'NT_GNU_GOLD_VERSION', 5: 'NT_GNU_PROPERTY_TYPE_0'},
              True: {3: 'NT_PRPSINFO', NT_FILE: 'NT_FILE'}}
MUST_ABI_OS = {0: 'ELF_NOTE_OS_LINUX', 1: 'ELF_NOTE_OS_GNU', 2: 'ELF_NOTE_OS_SOLARIS2', 3: 'ELF_NOTE_OS_FREEBSD'}
PR_STACK, PR_NOCOPY = 1, 2
PR_WORDS = {0xc0000002: 'GNU_PROPERTY_X86_FEATURE_1_AND', 0xc0008002: 'GNU_PROPERTY_X86_ISA_1_NEEDED',
            0xc0010001: 'GNU_PROPERTY_X86_FEATURE_2_USED', 0xc0010002: 'GNU_PROPERTY_X86_ISA_1_USED',
            0xc0000000: 'GNU_PROPERTY_AARCH64_FEATURE_1_AND'}
X86_WORDS = (0xc0000002, 0xc0008002, 0xc0010001, 0xc0010002)
M_X86, M_AARCH64, M_RISCV = (3, 62), (183,), (243,)


def word_status(machine, t):
    """Processor-specific property types mean something only on their own processor.
    'strict': the type is defined for this machine -> must be named as in elf.h and decoded as a 32-bit integer;
    'word':   RISC-V 0xc0000000 (GNU_PROPERTY_RISCV_FEATURE_1_AND, same value and width as the AArch64 one; absent from
              the vendored elf.h) -> 4-byte word, name-or-int, integer or raw bytes accepted;
    'loose':  the number is not assigned for this machine -> any self-consistent report is accepted."""
    if t in X86_WORDS and machine in M_X86:
        return 'strict'
    if t == 0xc0000000 and machine in M_AARCH64:
        return 'strict'
    if t == 0xc0000000 and machine in M_RISCV:
        return 'word'
    return 'loose'


def words_for(machine):
    if machine in M_X86:
        return list(X86_WORDS)
    if machine in M_AARCH64 + M_RISCV:
        return [0xc0000000]
    return sorted(PR_WORDS)


# property types no registry assigns (generic range below GNU_PROPERTY_UINT32_AND_LO, user range): arbitrary data
PR_UNKNOWN_POOL = [3, 4, 0x7f, 0x100, 0xffff, 0x12345678, 0xafffffff, 0xe0000000, 0xe0001234, 0xfffffffe, 0xffffffff]
# types inside ranges that the linux-abi / x86 psABI reserve for 4-byte words (UINT32_AND/OR, x86 UINT32_*), not named
# by the library: generated with a 4-byte datum only
PR_UNKNOWN_W4_POOL = [0xb0000000, 0xb0000001, 0xb0007fff, 0xb0008000, 0xb0008001, 0xc0000003, 0xc0008000, 0xc0008001,
                      0xc0010000]

# e_machine values (glibc elf.h; EM_CYGNUS_FRV 0x5441 from binutils include/elf/common.h)
UG16 = (3, 40, 4, 22, 42, 2, 89, 76, 88, 0x5441)     # i386 arm m68k s390 sh sparc mn10300 cris m32r frv
UG32 = (8, 20, 243, 15)                               # mips ppc riscv parisc
M64 = (62, 183, 22, 21, 8, 243)
M_ANY = (62, 183, 3, 40, 8, 243, 20, 22, 0, 0x1234)

_lib = None


def lib():
    global _lib
    if _lib is None:
        from elftools.elf.elffile import ELFFile
        from elftools.elf import enums as EN

        class L:
            pass
        L.ELFFile = ELFFile
        L.ntype = {False: {k: v for k, v in EN.ENUM_NOTE_N_TYPE.items() if isinstance(v, int)},
                   True: {k: v for k, v in EN.ENUM_CORE_NOTE_N_TYPE.items() if isinstance(v, int)}}
        L.abi_os = {k: v for k, v in EN.ENUM_NOTE_ABI_TAG_OS.items() if isinstance(v, int)}
        L.pr_type = {k: v for k, v in EN.ENUM_NOTE_GNU_PROPERTY_TYPE.items() if isinstance(v, int)}
        _lib = L
    return _lib


# ---------------------------------------------------------------------------
# encoder (independent: struct.pack only)

def E(le):
    return '<' if le else '>'


def pad4(n):
    return (n + 3) // 4 * 4


def ugid_bits(cls, machine):
    """16 / 32 / None (not known to this oracle)."""
    if cls == 64:
        return 32
    if machine in UG16:
        return 16
    if machine in UG32:
        return 32
    return None


def enc_prop(cls, le, p):
    k = p['pk']
    if k == 'stack':
        data = struct.pack(E(le) + ('I' if cls == 32 else 'Q'), p['v'])
    elif k == 'nocopy':
        data = b''
    elif k == 'word':
        data = struct.pack(E(le) + 'I', p['v'])
    else:
        data = bytes(p['d'])
    al = 4 if cls == 32 else 8
    return struct.pack(E(le) + 'II', p['t'], len(data)) + data + b'\0' * (-len(data) % al)


def enc_psinfo(cls, le, bits, f):
    e = E(le)
    out = struct.pack(e + 'B1sBB', f['state'], bytes(f['sname']), f['zomb'], f['nice'])
    if cls == 64:
        out += b'\0' * 4 + struct.pack(e + 'Q', f['flag'])
    else:
        out += struct.pack(e + 'I', f['flag'])
    out += struct.pack(e + ('HH' if bits == 16 else 'II'), f['uid'], f['gid'])
    out += struct.pack(e + '4I', f['pid'], f['ppid'], f['pgrp'], f['sid'])
    assert len(f['fname']) == 16 and len(f['psargs']) == 80
    out += bytes(f['fname']) + bytes(f['psargs'])
    assert len(out) == {(32, 16): 124, (32, 32): 128, (64, 32): 136}[(cls, bits)]
    return out


def enc_ntfile(cls, le, page, maps):
    w = E(le) + ('I' if cls == 32 else 'Q')
    out = struct.pack(w, len(maps)) + struct.pack(w, page)
    for s, e_, o, _fn in maps:
        out += struct.pack(w, s) + struct.pack(w, e_) + struct.pack(w, o)
    for _s, _e, _o, fn in maps:
        assert b'\0' not in fn
        out += bytes(fn) + b'\0'
    return out


def note_triple(cls, le, machine, n):
    """model note -> (owner bytes without NUL | None, type, descriptor bytes)"""
    k = n['k']
    if k == 'raw':
        return (None if n['name'] is None else bytes(n['name'])), n['type'], bytes(n['desc'])
    if k == 'abi':
        return b'GNU', 1, struct.pack(E(le) + '4I', n['os'], *n['ver'])
    if k == 'bid':
        return b'GNU', 3, bytes(n['id'])
    if k == 'gold':
        return b'GNU', 4, bytes(n['s'])
    if k == 'prop':
        return b'GNU', 5, b''.join(enc_prop(cls, le, p) for p in n['props'])
    if k == 'psinfo':
        bits = ugid_bits(cls, machine) or 32
        return b'CORE', 3, enc_psinfo(cls, le, bits, n['f'])
    if k == 'file':
        return b'CORE', NT_FILE, enc_ntfile(cls, le, n['page'], n['maps'])
    raise ValueError(k)


def enc_note(le, name, ntype, desc, fill=0):
    # fill: value of the padding bytes behind the name's terminator and behind the descriptor (the gABI counts neither in n_namesz /
    # n_descsz and does not say what they hold; consumers take the name up to its terminator)
    if name is None:
        nm = b''
    else:
        assert b'\0' not in name
        nm = name + b'\0'
    out = struct.pack(E(le) + 'III', len(nm), len(desc), ntype)
    out += nm + bytes([fill]) * (-len(nm) % 4)
    out += desc + bytes([fill]) * (-len(desc) % 4)
    return out


def enc_stab(le, rec):
    return struct.pack(E(le) + 'IBBHI', *rec)


def treatment(core, name, ntype, kind):
    """How must n_desc be judged?  'bytes' (raw descriptor), one of the decoded kinds, 'collision' (foreign owner on
    a type number the library decodes), 'skip' (ill-formed for its (owner,type): never generated)."""
    if not core:
        if name == b'GNU' and ntype in (1, 3, 4, 5):
            want = {1: 'abi', 3: 'bid', 4: 'gold', 5: 'prop'}[ntype]
            return want if kind == want else 'skip'
        return 'bytes'
    if ntype in (3, NT_FILE):
        want = 'psinfo' if ntype == 3 else 'file'
        if name == b'CORE':
            return want if kind == want else 'skip'
        return 'collision'
    return 'bytes'


def expected_notes(case):
    cls, le, machine, core = case['cls'], case['le'], case['e_machine'], case['e_type'] == ET_CORE
    out = []
    blob = b''
    for n in case['notes']:
        name, ntype, desc = note_triple(cls, le, machine, n)
        enc = enc_note(le, name, ntype, desc, case.get('padfill', 0))
        namesz = 0 if name is None else len(name) + 1
        out.append({'m': n, 'name': name, 'namesz': namesz, 'type': ntype, 'desc': desc, 'rel': len(blob),
                    'size': 12 + pad4(namesz) + pad4(len(desc)), 'treat': treatment(core, name, ntype, n['k'])})
        assert len(enc) == out[-1]['size']
        blob += enc
    return out, blob


def build_file(case):
    """-> (file bytes, R, {'sec': index|None, 'seg': index|None, 'carrier': index, 'stab': index|None})"""
    cls, le = case['cls'], case['le']
    exp, blob = expected_notes(case)
    lay = case.get('lay', {})
    view = case['view']
    secs = [{'name': '', 'sh_type': 0}]
    carrier = {'name': '.note.x' if view != 'seg' else '.rodata', 'sh_type': SHT_NOTE if view != 'seg' else SHT_PROGBITS,
               'sh_flags': 2, 'sh_addr': lay.get('addr', 0x400000), 'sh_addralign': 4, 'data': blob, 'file_align': 4}
    if lay.get('unaligned'):
        # a note extent need not start on a 4-byte file offset (sh_addralign 1: objcopy --add-section, hand-written assembly): the
        # padding of names and descriptors counts from the start of the extent, not from the start of the file
        carrier.update(sh_addralign=1, file_align=1)
    if lay.get('walign') is not None:
        # the alignment *fields* of the headers are header values like any other: names and descriptors are padded to 4 bytes
        # whatever sh_addralign / p_align say (property text: "the standard 4-byte padding"), e.g. 8 or 16 on a 64-bit file
        carrier['sh_addralign'] = lay['walign']
    decoy = {'name': '.data', 'sh_type': SHT_PROGBITS, 'sh_flags': 3, 'sh_addr': 0x600000, 'sh_addralign': 1,
             'data': bytes(lay.get('decoy', b'\x01\x02\x03'))}
    secs.append(decoy)
    ci = len(secs)
    secs.append(carrier)
    si = None
    if case.get('stabs') is not None:
        si = len(secs)
        secs.append({'name': '.stab', 'sh_type': SHT_PROGBITS, 'sh_entsize': 12, 'sh_addralign': 4, 'file_align': 4,
                     'sh_addr': lay.get('stab_addr', 0), 'data': b''.join(enc_stab(le, r) for r in case['stabs'])})
        secs.append({'name': '.stabstr', 'sh_type': SHT_STRTAB, 'data': b'\0stabs\0'})
    shstr = len(secs)
    secs.append({'name': '.shstrtab', 'sh_type': SHT_STRTAB, 'data': b''})
    segs = []
    gi = None
    if view != 'sec':
        segs.append({'p_type': PT_LOAD, 'p_flags': 4, 'p_offset': 0, 'p_vaddr': 0x400000, 'p_paddr': 0x400000,
                     'p_filesz': ['file_len', 0], 'p_memsz': ['file_len', 0], 'p_align': 0x1000})
        gi = len(segs)
        segs.append({'p_type': PT_NOTE, 'p_flags': 4, 'p_offset': ['sec_off', ci, 0],
                     'p_vaddr': lay.get('p_vaddr', 0), 'p_paddr': lay.get('p_paddr', 0),
                     'p_filesz': ['sec_size', ci, 0], 'p_memsz': lay.get('p_memsz', 0),
                     'p_align': 4 if lay.get('walign') is None else lay['walign']})
    payload_ids = [i for i, s in enumerate(secs) if s.get('data') is not None]
    others = [i for i in payload_ids if i != ci]
    if lay.get('at_end', False):
        order = (['ph'] if segs else []) + ['sh'] + others + [ci]
        tail = 0
    else:
        order = (['ph'] if segs else []) + [i for i in payload_ids if i < ci] + [ci] + [i for i in payload_ids if i > ci] + ['sh']
        tail = lay.get('tail', 0)
    m = {'cls': cls, 'le': le, 'e_type': case['e_type'], 'e_machine': case['e_machine'], 'osabi': lay.get('osabi', 0),
         'sections': secs, 'segments': segs, 'shstrndx': shstr, 'order': order,
         'gaps': {str(ci): 4 * lay.get('gap4', 0) + (lay.get('unaligned') or 0)}, 'tail': tail}
    data, R = W.build(m)
    return data, R, exp, blob, {'sec': ci if view != 'seg' else None, 'seg': gi, 'carrier': ci, 'stab': si}


# ---------------------------------------------------------------------------
# oracle

def _isint(x):
    return isinstance(x, int) and not isinstance(x, bool)


def check_code(ctx, what, got, enc, table, must, case, where):
    """name-or-int rule."""
    if _isint(got):
        if got != enc:
            ctx.fail('%s|raw-int-differs' % what, '%s: encoded %#x reported %#x' % (where, enc, got), case)
            return False
        if enc in must:
            ctx.fail('%s|standard-code-not-named|%#x' % (what, enc), '%s: %#x must be reported as %s' % (where, enc, must[enc]), case)
            return False
        return True
    if not isinstance(got, str):
        ctx.fail('%s|bad-type' % what, '%s: %r' % (where, got), case)
        return False
    if enc in must:
        if got != must[enc]:
            ctx.fail('%s|wrong-name|%#x' % (what, enc), '%s: encoded %#x reported %r expected %r' % (where, enc, got, must[enc]), case)
            return False
        return True
    if table.get(got) != enc:
        ctx.fail('%s|name-for-other-code' % what, '%s: encoded %#x reported %r (table says %r)' % (where, enc, got, table.get(got)), case)
        return False
    return True


def _get(ctx, obj, key, bucket, case, where):
    try:
        return True, obj[key]
    except Exception as e:  # noqa
        ctx.fail('%s|missing-field|%s' % (bucket, key), '%s: %r' % (where, e), case)
        return False, None


def cmp_field(ctx, obj, key, exp, bucket, case, where):
    ok, g = _get(ctx, obj, key, bucket, case, where)
    if ok and (g != exp or type(g) is not type(exp)):
        ctx.fail('%s|%s' % (bucket, key), '%s: %s encoded %r decoded %r' % (where, key, exp, g), case)
        return False
    return ok


PS_FIELDS = ('pr_state', 'pr_sname', 'pr_zomb', 'pr_nice', 'pr_flag', 'pr_uid', 'pr_gid', 'pr_pid', 'pr_ppid', 'pr_pgrp',
             'pr_sid', 'pr_fname', 'pr_psargs')


def psinfo_expect(f):
    return {'pr_state': f['state'], 'pr_sname': bytes(f['sname']), 'pr_zomb': f['zomb'], 'pr_nice': f['nice'],
            'pr_flag': f['flag'], 'pr_uid': f['uid'], 'pr_gid': f['gid'], 'pr_pid': f['pid'], 'pr_ppid': f['ppid'],
            'pr_pgrp': f['pgrp'], 'pr_sid': f['sid'], 'pr_fname': bytes(f['fname']), 'pr_psargs': bytes(f['psargs'])}


def psinfo_other_width(cls, le, desc, bits):
    """What a decoder using the OTHER uid width would report for the same bytes (ELF32 only) - used only to give the
    'wrong uid width for this machine' root cause one narrow bucket instead of one per field."""
    e = E(le)
    ob = 32 if bits == 16 else 16
    need = 124 if ob == 16 else 128
    buf = desc + b'\0' * max(0, need - len(desc))
    st, sn, zo, ni, fl = struct.unpack_from(e + 'B1sBBI', buf, 0)
    if ob == 16:
        uid, gid = struct.unpack_from(e + 'HH', buf, 8)
        p = 12
    else:
        uid, gid = struct.unpack_from(e + 'II', buf, 8)
        p = 16
    pid, ppid, pgrp, sid = struct.unpack_from(e + '4I', buf, p)
    return {'pr_state': st, 'pr_sname': sn, 'pr_zomb': zo, 'pr_nice': ni, 'pr_flag': fl, 'pr_uid': uid, 'pr_gid': gid,
            'pr_pid': pid, 'pr_ppid': ppid, 'pr_pgrp': pgrp, 'pr_sid': sid}


def check_desc(ctx, case, x, got, where):
    """x: expected note record; got: library note.  Compares n_desc according to x['treat']."""
    L = lib()
    cls, le, machine = case['cls'], case['le'], case['e_machine']
    t = x['treat']
    m = x['m']
    if t in ('collision', 'skip'):
        ctx.count('ndesc.unchecked.' + t)
        return
    ok, d = _get(ctx, got, 'n_desc', 'note', case, where)
    if not ok:
        return
    if t == 'bytes':
        if d != x['desc'] or not isinstance(d, bytes):
            ctx.fail('desc|raw-bytes', '%s: owner %r type %#x: n_desc %r, descriptor bytes %r' % (where, x['name'], x['type'], d, x['desc']), case)
        return
    if t == 'abi':
        ok, g = _get(ctx, d, 'abi_os', 'desc|abi', case, where)
        if ok:
            check_code(ctx, 'desc|abi|abi_os', g, m['os'], L.abi_os, MUST_ABI_OS, case, where)
        for key, v in zip(('abi_major', 'abi_minor', 'abi_tiny'), m['ver']):
            cmp_field(ctx, d, key, v, 'desc|abi', case, where)
        return
    if t == 'bid':
        exp = bytes(m['id']).hex()
        if d != exp:
            ctx.fail('desc|build-id', '%s: encoded %r decoded %r' % (where, exp, d), case)
        return
    if t == 'gold':
        exp = bytes(m['s']).decode('latin-1')
        if d != exp:
            ctx.fail('desc|gold-version', '%s: encoded %r decoded %r' % (where, exp, d), case)
        return
    if t == 'prop':
        try:
            props = list(d)
        except Exception as e:  # noqa
            ctx.fail('desc|prop|not-a-list', '%s: %r' % (where, d), case)
            return
        if len(props) != len(m['props']):
            ctx.fail('desc|prop|count', '%s: encoded %d properties, decoded %d' % (where, len(m['props']), len(props)), case)
        for j, (p, g) in enumerate(zip(m['props'], props)):
            w = '%s prop[%d]' % (where, j)
            k = p['pk']
            if k == 'stack':
                data_exp, dsz, must = p['v'], cls // 8, {PR_STACK: 'GNU_PROPERTY_STACK_SIZE'}
            elif k == 'nocopy':
                data_exp, dsz, must = b'', 0, {PR_NOCOPY: 'GNU_PROPERTY_NO_COPY_ON_PROTECTED'}
            elif k == 'word':
                data_exp, dsz = p['v'], 4
                must = {p['t']: PR_WORDS[p['t']]} if word_status(machine, p['t']) == 'strict' else {}
                ctx.count('prop.word.' + word_status(machine, p['t']))
                if must:
                    ctx.count('prop.word.strict.%#x' % p['t'])
            else:
                data_exp, dsz, must = bytes(p['d']), len(p['d']), {}
            ok, gt = _get(ctx, g, 'pr_type', 'desc|prop', case, w)
            named = False
            if ok:
                check_code(ctx, 'desc|prop|pr_type', gt, p['t'], L.pr_type, must, case, w)
                named = isinstance(gt, str)
            cmp_field(ctx, g, 'pr_datasz', dsz, 'desc|prop', case, w)
            ok, gd = _get(ctx, g, 'pr_data', 'desc|prop', case, w)
            if ok:
                good = gd == data_exp and type(gd) is type(data_exp)
                if not good and k == 'unk' and named and dsz in (4, 8) and _isint(gd):
                    # the library knows a name for a type this oracle treats as unknown: integer decoding accepted
                    good = gd == struct.unpack(E(le) + ('I' if dsz == 4 else 'Q'), data_exp)[0]
                if not good and k == 'word' and word_status(machine, p['t']) != 'strict' and isinstance(gd, bytes):
                    # number not assigned for this e_machine: the 4 raw bytes are an equally faithful report
                    good = gd == struct.pack(E(le) + 'I', data_exp)
                if not good:
                    ctx.fail('desc|prop|pr_data|%s' % k, '%s: type %#x datasz %d encoded %r decoded %r' % (w, p['t'], dsz, data_exp, gd), case)
        return
    if t == 'psinfo':
        bits = ugid_bits(cls, machine)
        if bits is None:
            ctx.count('ndesc.unchecked.unknown-ugid-width')
            return
        exp = psinfo_expect(m['f'])
        bad = []
        for key in PS_FIELDS:
            try:
                g = d[key]
            except Exception as e:  # noqa
                bad.append((key, 'missing'))
                continue
            if g != exp[key] or type(g) is not type(exp[key]):
                bad.append((key, g))
        if bad:
            if cls == 32:
                alt = psinfo_other_width(cls, le, x['desc'], bits)
                try:
                    same = all(d[k] == v for k, v in alt.items())
                except Exception:  # noqa
                    same = False
                if same:
                    ctx.fail('desc|prpsinfo|wrong-ugid-width|elf32|e_machine=%#x' % machine,
                             '%s: kernel ABI has %d-bit pr_uid/pr_gid for this machine; fields decoded as with %d-bit: %r'
                             % (where, bits, 48 - bits, bad[:4]), case)
                    return
            for key, g in bad:
                ctx.fail('desc|prpsinfo|%s' % key, '%s: %s encoded %r decoded %r (ELF%d, ugid %d bits)' % (where, key, exp[key], g, cls, bits), case)
        return
    if t == 'file':
        maps = m['maps']
        cmp_field(ctx, d, 'num_map_entries', len(maps), 'desc|nt_file', case, where)
        cmp_field(ctx, d, 'page_size', m['page'], 'desc|nt_file', case, where)
        ok, ents = _get(ctx, d, 'Elf_Nt_File_Entry', 'desc|nt_file', case, where)
        if ok:
            if len(ents) != len(maps):
                ctx.fail('desc|nt_file|entry-count', '%s: encoded %d decoded %d' % (where, len(maps), len(ents)), case)
            for j, (mp, g) in enumerate(zip(maps, ents)):
                for key, v in zip(('vm_start', 'vm_end', 'page_offset'), mp[:3]):
                    cmp_field(ctx, g, key, v, 'desc|nt_file|entry', case, '%s map[%d]' % (where, j))
        ok, fns = _get(ctx, d, 'filename', 'desc|nt_file', case, where)
        if ok:
            exp = [bytes(mp[3]) for mp in maps]
            if list(fns) != exp:
                ctx.fail('desc|nt_file|filenames', '%s: encoded %r decoded %r' % (where, exp, list(fns)), case)
        return
    raise AssertionError(t)


def walk(ctx, case, view, obj, exp, base, extent, flen):
    """Iterate one view, compare with the model.  Returns the list of plain dict snapshots that were yielded."""
    core = case['e_type'] == ET_CORE
    L = lib()
    got = []
    exc = None
    try:
        for n in obj.iter_notes():
            got.append(n)
            if len(got) > len(exp) + 4:
                break
    except Exception as e:  # noqa
        exc = e
    if exc is not None:
        i = len(got)
        x = exp[i] if i < len(exp) else None
        if (x is not None and x['treat'] == 'psinfo' and case['cls'] == 32 and ugid_bits(32, case['e_machine']) == 16
                and flen - (base + x['rel'] + 12 + pad4(x['namesz']) + len(x['desc'])) < 4):
            # same root cause as the non-raising form below: the 124-byte ugid16 descriptor is parsed with the 128-byte
            # ugid32 layout, which runs past the end of the file when fewer than 4 bytes follow the descriptor
            ctx.fail('desc|prpsinfo|wrong-ugid-width|elf32|e_machine=%#x' % case['e_machine'],
                     '%s note[%d]: kernel ABI has 16-bit pr_uid/pr_gid for this machine (descsz 124); the descriptor ends %d '
                     'bytes before EOF and parsing raised %s: %s' % (view, i, flen - (base + x['rel'] + x['size']),
                                                                     type(exc).__name__, str(exc)[:120]), case)
        elif x is not None and x['treat'] == 'collision':
            ctx.fail('walk|owner-ignored-in-dispatch|%s|exception' % MUST_NTYPE[True][x['type']],
                     '%s note[%d]: ET_CORE note owner %r type %#x descsz %d is not a CORE note (gABI: name AND type '
                     'identify a descriptor) but is parsed as one; iteration aborts with %s: %s'
                     % (view, i, x['name'], x['type'], len(x['desc']), type(exc).__name__, str(exc)[:120]), case)
        else:
            ctx.fail_exc('iter_notes', exc, case, extra='(%s view, after %d of %d notes)' % (view, i, len(exp)))
    synced = True
    for i, (x, g) in enumerate(zip(exp, got)):
        where = '%s note[%d]' % (view, i)
        ok1 = cmp_field(ctx, g, 'n_offset', base + x['rel'], 'note', case, where)
        if not ok1:
            synced = False
            break
        cmp_field(ctx, g, 'n_namesz', x['namesz'], 'note', case, where)
        cmp_field(ctx, g, 'n_descsz', len(x['desc']), 'note', case, where)
        ok, gn = _get(ctx, g, 'n_name', 'note', case, where)
        if ok:
            en = None if x['name'] is None else x['name'].decode('latin-1')
            if gn != en:
                ctx.fail('note|n_name', '%s: owner bytes %r (namesz %d) decoded %r expected %r' % (where, x['name'], x['namesz'], gn, en), case)
        ok, gt = _get(ctx, g, 'n_type', 'note', case, where)
        if ok:
            check_code(ctx, 'note|n_type|%s' % ('core' if core else 'noncore'), gt, x['type'], L.ntype[core], MUST_NTYPE[core], case, where)
        cmp_field(ctx, g, 'n_descdata', x['desc'], 'note', case, where)
        ok2 = cmp_field(ctx, g, 'n_size', x['size'], 'note', case, where)
        check_desc(ctx, case, x, g, where)
        if not ok2:
            synced = False
            break
    if exc is None and synced:
        if len(got) != len(exp):
            last = exp[-1] if exp else None
            if len(got) == len(exp) - 1 and last is not None and last['namesz'] == 0 and len(last['desc']) == 0:
                ctx.fail('walk|header-only-final-note-not-yielded',
                         '%s: extent of %d bytes holds %d notes, the last one is a bare 12-byte header (namesz=descsz=0, '
                         'type %#x) ending exactly at the extent end; iter_notes yielded only %d' % (view, extent, len(exp), last['type'], len(got)), case)
            elif len(got) < len(exp):
                ctx.fail('walk|notes-missing', '%s: encoded %d notes, yielded %d' % (view, len(exp), len(got)), case)
            else:
                ctx.fail('walk|extra-notes', '%s: encoded %d notes, yielded %d or more' % (view, len(exp), len(got)), case)
        else:
            try:
                total = sum(g['n_size'] for g in got)
            except Exception:  # noqa
                total = None
            if total != extent:
                ctx.fail('walk|tiling', '%s: sum of n_size %r != extent size %d' % (view, total, extent), case)
    return got, exc


def snapshot(n):
    def conv(v):
        if hasattr(v, 'items') and not isinstance(v, (bytes, str)):
            return {k: conv(w) for k, w in v.items()}
        if isinstance(v, (list, tuple)):
            return [conv(w) for w in v]
        return v
    return conv(n)


STAB_FIELDS = ('n_strx', 'n_type', 'n_other', 'n_desc', 'n_value')


def check_stabs(ctx, case, ef, R, si):
    recs = case['stabs']
    try:
        sec = ef.get_section(si)
    except Exception as e:  # noqa
        ctx.fail_exc('stab|get_section', e, case)
        return
    if type(sec).__name__ != 'StabSection':
        ctx.fail('stab|class', 'section .stab PROGBITS is a %s' % type(sec).__name__, case)
        return
    base = R['sh'][si]['sh_offset']
    got = []
    try:
        for s in sec.iter_stabs():
            got.append(s)
            if len(got) > len(recs) + 4:
                break
    except Exception as e:  # noqa
        ctx.fail_exc('iter_stabs', e, case, extra='(after %d of %d records)' % (len(got), len(recs)))
        return
    if len(got) != len(recs):
        ctx.fail('stab|count', 'encoded %d records, yielded %d%s' % (len(recs), len(got), '+' if len(got) > len(recs) else ''), case)
    for i, (r, g) in enumerate(zip(recs, got)):
        where = 'stab[%d]' % i
        for key, v in zip(STAB_FIELDS, r):
            cmp_field(ctx, g, key, v, 'stab|field', case, where)
        cmp_field(ctx, g, 'n_offset', base + 12 * i, 'stab', case, where)


def run_case(ctx, case):
    L = lib()
    data, R, exp, blob, ix = build_file(case)     # exceptions here are harness errors
    core = case['e_type'] == ET_CORE
    view = case['view']
    try:
        st0, skind = streams.pick(data)        # BytesIO, minimal read/seek/tell object, memory map or real file
        ctx.count('stream.' + skind)
        ef = L.ELFFile(st0)
    except Exception as e:  # noqa
        ctx.fail_exc('open', e, case)
        _register(ctx, case, exp, data)
        return
    base = R['sh'][ix['carrier']]['sh_offset']
    results = {}
    if ix['sec'] is not None:
        try:
            sec = ef.get_section(ix['sec'])
            if type(sec).__name__ != 'NoteSection':
                ctx.fail('section|class', 'SHT_NOTE section is a %s' % type(sec).__name__, case)
            else:
                results['sec'] = walk(ctx, case, 'section', sec, exp, base, len(blob), len(data))
        except Exception as e:  # noqa
            ctx.fail_exc('get_section', e, case)
    if ix['seg'] is not None:
        try:
            seg = ef.get_segment(ix['seg'])
            if type(seg).__name__ != 'NoteSegment':
                ctx.fail('segment|class', 'PT_NOTE segment is a %s' % type(seg).__name__, case)
            else:
                results['seg'] = walk(ctx, case, 'segment', seg, exp, base, len(blob), len(data))
        except Exception as e:  # noqa
            ctx.fail_exc('get_segment', e, case)
    if 'sec' in results and 'seg' in results:
        (a, ea), (b, eb) = results['sec'], results['seg']
        sa, sb = [snapshot(n) for n in a], [snapshot(n) for n in b]
        if sa != sb or (ea is None) != (eb is None):
            k = next((i for i, (p, q) in enumerate(zip(sa, sb)) if p != q), min(len(sa), len(sb)))
            ctx.fail('views-differ', 'section view yields %d notes, segment view %d; first difference at index %d: %r vs %r'
                     % (len(sa), len(sb), k, sa[k] if k < len(sa) else None, sb[k] if k < len(sb) else None), case)
        ctx.count('views.compared')
    if base % 4:
        ctx.count('extent.offset-not-multiple-of-4')
    # the same walks consumed step by step, with the stream moved, a nested walk started and another question asked between two steps
    for v, obj in (('section', ef.get_section(ix['sec']) if 'sec' in results else None), ('segment', ef.get_segment(ix['seg']) if 'seg' in results else None)):
        if obj is None or results[v[:3]][1] is not None:
            continue
        try:
            again = usage.stepwise(obj.iter_notes, usage.disturber(ef.stream, obj.iter_notes, (lambda: obj.data()[:4], lambda: ef.get_section(0).name)))
            if [snapshot(n) for n in again] != [snapshot(n) for n in results[v[:3]][0]]:
                ctx.fail('walk|interleaved-with-other-stream-use', '%s view: a plain loop yields %d notes; stepping through iter_notes() with seeks, a nested walk and data() '
                         'in between yields %d (or different ones)' % (v, len(results[v[:3]][0]), len(again)), case)
            if len(again) >= 2:
                ctx.count('walk.stepwise')
        except Exception as e:  # noqa
            ctx.fail_exc('walk|interleaved-with-other-stream-use', e, case, extra='(%s view)' % v)
    if ix['stab'] is not None:
        check_stabs(ctx, case, ef, R, ix['stab'])
        try:
            sec = ef.get_section(ix['stab'])
            if type(sec).__name__ == 'StabSection':
                plain = [snapshot(dict(x)) if hasattr(x, 'items') else x for x in sec.iter_stabs()]
                stepped = [snapshot(dict(x)) if hasattr(x, 'items') else x for x in usage.stepwise(sec.iter_stabs, usage.disturber(ef.stream, sec.iter_stabs, (lambda: ef.get_section(0).name,)))]
                if plain != stepped:
                    ctx.fail('stab|interleaved-with-other-stream-use', 'a plain loop yields %d records, a step-by-step walk with seeks in between %d (or different ones)' % (len(plain), len(stepped)), case)
                if len(plain) >= 2:
                    ctx.count('stab.stepwise')
        except Exception as e:  # noqa
            ctx.fail_exc('stab|interleaved-with-other-stream-use', e, case)
    _register(ctx, case, exp, data)


def _register(ctx, case, exp, data):
    cls, le, core = case['cls'], case['le'], case['e_type'] == ET_CORE
    ctx.count('cell.%d%s.%s' % (cls, 'le' if le else 'be', 'core' if core else 'other'))
    ctx.count('view.' + case['view'])
    ctx.count('notes.%s' % (len(exp) if len(exp) < 3 else '3+'))
    resid = 0
    for x in exp:
        ctx.count('kind.' + x['m']['k'])
        ctx.count('treat.' + x['treat'])
        ctx.count('namesz%%4=%d' % (x['namesz'] % 4))
        ctx.count('descsz%%4=%d' % (len(x['desc']) % 4))
        if x['namesz'] == 0:
            ctx.count('namesz=0')
        if x['name'] is not None and any(c >= 0x80 for c in x['name']):
            ctx.count('name.non-ascii')
        if x['namesz'] % 4 or len(x['desc']) % 4:
            resid += 1
        if x['m']['k'] == 'prop':
            for p in x['m']['props']:
                ctx.count('prop.' + p['pk'])
            if len(x['m']['props']) >= 2:
                ctx.count('prop.multi')
            if len(x['m']['props']) == 0:
                ctx.count('prop.empty')
        if x['treat'] == 'psinfo':
            ctx.count('psinfo.elf%d.ugid%s' % (cls, ugid_bits(cls, case['e_machine'])))
        if x['treat'] == 'file':
            ctx.count('file.maps.%d' % min(len(x['m']['maps']), 2))
    hdr_only_final = bool(exp) and exp[-1]['namesz'] == 0 and len(exp[-1]['desc']) == 0
    if hdr_only_final:
        ctx.count('final.header-only')
    multi = any(x['m']['k'] == 'prop' and len(x['m']['props']) >= 2 for x in exp)
    if case.get('stabs') is not None:
        ctx.count('stabs.sections')
        ctx.count('stabs.records', len(case['stabs']))
        if not case['stabs']:
            ctx.count('stabs.empty')
    if case.get('lay', {}).get('at_end'):
        ctx.count('layout.extent-at-eof')
    nt = (len(exp) >= 2 and resid >= 1) or hdr_only_final or multi
    ctx.case(data, nt, {'cls': cls, 'le': le, 'e_type': case['e_type'], 'e_machine': case['e_machine'], 'view': case['view'],
                        'notes': [[x['m']['k'], x['namesz'], len(x['desc']), x['type']] for x in exp][:12],
                        'stabs': None if case.get('stabs') is None else len(case['stabs']),
                        'extent_hex': b''.join(enc_note(le, x['name'], x['type'], x['desc']) for x in exp)[:96].hex()})


# ---------------------------------------------------------------------------
# generators

NAME_POOL = [b'GNU', b'CORE', b'LINUX', b'FreeBSD', b'stapsdt', b'Go', b'Android', b'Xen', b'', b'X', b'GN', b'GNUX',
             b'gnu', b'\xe9t\xe9', b'\xff', b'NetBSD-CORE', b'.note.very.long.owner.name.0123456789']
TYPE_POOL = [0, 1, 2, 3, 4, 5, 6, 7, 0x100, 0x101, 0x202, NT_FILE, 0x53494749, 0x46e62b7f, 0x80000000, 0xffffffff]


def nonul(ch, lo, hi):
    b = ch.bytes(lo, hi)
    return bytes(c if c else 0x41 for c in b)


def gen_psinfo(ch):
    def s(n):
        b = nonul(ch, 0, n)
        return b + b'\0' * (n - len(b))
    return {'state': ch.int(0, 255), 'sname': ch.choice([b'R', b'S', b'Z', b'\0', b'\xff']), 'zomb': ch.int(0, 255),
            'nice': ch.int(0, 255), 'flag': None, 'uid': None, 'gid': None, 'pid': ch.word(32), 'ppid': ch.word(32),
            'pgrp': ch.word(32), 'sid': ch.word(32), 'fname': s(16), 'psargs': s(80)}


def gen_prop(ch, cls, machine):
    k = ch.choice(['stack', 'nocopy', 'word', 'word', 'unk', 'unk'])
    if k == 'stack':
        return {'pk': k, 't': PR_STACK, 'v': ch.word(cls)}
    if k == 'nocopy':
        return {'pk': k, 't': PR_NOCOPY}
    if k == 'word':
        return {'pk': k, 't': ch.choice(words_for(machine)), 'v': ch.word(32)}
    if machine in M_AARCH64 and ch.int(0, 3) == 0:
        # processor-specific properties that are not 4-byte words: AArch64 0xc0000001 (PAUTH ABI: platform and version, 2 x 8 bytes); and
        # neighbours of the named numbers with data of any length (an unknown type is reported with all of its bytes)
        return {'pk': k, 't': ch.choice([0xc0000001, 0xc0000001, 0xc0000002, 0xc0000004, 0xc0008002]), 'd': ch.bytes(ch.choice([16, 16, 8, 12, 24]))}
    if ch.int(0, 3) == 0:
        return {'pk': k, 't': ch.choice(PR_UNKNOWN_W4_POOL), 'd': ch.bytes(4)}
    return {'pk': k, 't': ch.choice(PR_UNKNOWN_POOL), 'd': ch.bytes(ch.choice([0, 1, 3, 4, 5, 8, 9, 12, 16, ch.int(0, 24)]))}


def gen_note(ch, cls, core, allow_collision, machine):
    k = ch.int(0, 19)
    if k <= 8:
        kind = 'raw'
    elif k <= 15:
        kind = ch.choice(['psinfo', 'file', 'file'] if core else ['abi', 'bid', 'gold', 'prop', 'prop'])
    else:   # the other context's kinds: they must come back as plain bytes
        kind = ch.choice(['abi', 'bid', 'gold', 'prop'] if core else ['psinfo', 'file'])
    if kind == 'psinfo' and ugid_bits(cls, machine) is None:
        kind = 'file'      # uid width of this ELF32 machine is not known to the oracle
    if kind == 'raw':
        nk = ch.int(0, 9)
        if nk == 0:
            name = None
        elif nk <= 5:
            name = ch.choice(NAME_POOL)
        else:
            name = nonul(ch, ch.choice([0, 1, 2, 3, 4, 5, 6, 7]), ch.choice([7, 7, 39]))
        t = ch.choice(TYPE_POOL + [ch.word(32)])
        dl = ch.choice([0, 0, 1, 2, 3, 4, 5, 6, 7, 8, 16, ch.int(0, 200)])
        n = {'k': 'raw', 'name': name, 'type': t, 'desc': ch.bytes(dl)}
        tr = treatment(core, name, t, 'raw')
        if tr == 'skip' or (tr == 'collision' and not allow_collision):
            n['type'] = t + 0x20
        return n
    if kind == 'abi':
        return {'k': kind, 'os': ch.choice([0, 0, 1, 2, 3, 4, 5, 6, 0xffffffff, ch.word(32)]), 'ver': [ch.word(32), ch.word(32), ch.word(32)]}
    if kind == 'bid':
        return {'k': kind, 'id': ch.bytes(ch.choice([0, 1, 8, 16, 20, 20, 21, 32, ch.int(0, 64)]))}
    if kind == 'gold':
        return {'k': kind, 's': ch.choice([b'gold 1.16', b'gold 1.11', b'', nonul(ch, 0, 30)])}
    if kind == 'prop':
        return {'k': kind, 'props': [gen_prop(ch, cls, machine) for _ in range(ch.choice([0, 1, 1, 2, 3, ch.int(0, 8)]))]}
    if kind == 'psinfo':
        return {'k': kind, 'f': gen_psinfo(ch)}
    if kind == 'file':
        nm = ch.choice([0, 1, 2, ch.int(0, 5)])
        return {'k': kind, 'page': ch.choice([1, 4096, 0x10000, ch.word(cls)]),
                'maps': [[ch.word(cls), ch.word(cls), ch.word(cls),
                          ch.choice([b'/lib/libc.so.6', b'', b'/tmp/\xe9', nonul(ch, 0, 40)])] for _ in range(nm)]}
    raise ValueError(kind)


def finish_psinfo(ch, case):
    """uid/gid/flag widths depend on class and machine: fill them once the machine is fixed."""
    cls = case['cls']
    bits = ugid_bits(cls, case['e_machine']) or 32
    for n in case['notes']:
        if n['k'] == 'psinfo':
            f = n['f']
            f['flag'] = ch.word(cls)
            f['uid'] = ch.choice([0, 1000, (1 << bits) - 1, ch.word(bits)])
            f['gid'] = ch.choice([0, 1000, (1 << bits) - 1, ch.word(bits)])


def gen_layout(ch, cls):
    return {'gap4': ch.choice([0, 0, 1, 2, 5]), 'at_end': ch.bool(0.4), 'tail': ch.choice([0, 0, 3, 16]),
            'decoy': ch.bytes(0, 9), 'addr': ch.word(cls) & ~3, 'p_vaddr': ch.word(cls), 'p_paddr': ch.word(cls),
            'p_memsz': ch.choice([0, 0, 1, ch.word(cls)]), 'stab_addr': ch.word(cls) & ~3,
            'osabi': ch.choice([0, 0, 3, 9]), 'unaligned': ch.choice([0, 0, 0, 1, 2, 3]),
            'walign': ch.choice([None, None, None, 0, 1, 2, 8, 8, 16, 0x1000])}


def gen_stabs(ch):
    n = ch.choice([0, 1, 2, 3, ch.int(0, 50)])
    blob = ch.bytes(12 * n)           # one draw; the bytes are only a source of field VALUES (fixed LE reading)
    return [list(struct.unpack_from('<IBBHI', blob, 12 * i)) for i in range(n)]


def build_case(ch, tier):
    cls = ch.choice([32, 64])
    le = ch.bool()
    core = ch.bool()
    e_type = ET_CORE if core else ch.choice([0, 1, 2, 3, 2, 3, 5, 0xfe00, 0xff00, 0xffff])
    if ch.int(0, 3) == 0:
        machine = ch.choice(M_ANY)                       # incl. ELF32 machines without a known uid width, unknown codes
    else:
        machine = ch.choice((UG16 + UG32 + UG32 + (3, 3, 40)) if cls == 32 else (M64 + (62, 62, 183)))
    nn = ch.choice([0, 1, 1, 2, 2, 3, 4, ch.int(0, 12)])
    allow_collision = core and ch.int(0, 7) == 0
    notes = [gen_note(ch, cls, core, allow_collision, machine) for _ in range(nn)]
    if ch.int(0, 3) == 0:
        notes.append({'k': 'raw', 'name': None, 'type': ch.choice(TYPE_POOL), 'desc': b''})
    case = {'cls': cls, 'le': le, 'e_type': e_type, 'e_machine': machine, 'view': ch.choice(['sec', 'seg', 'both', 'both']),
            'notes': notes, 'stabs': gen_stabs(ch) if ch.int(0, 3) == 0 else None, 'lay': gen_layout(ch, cls)}
    if ch.int(0, 3) == 0:
        case['padfill'] = ch.choice([0xaa, 0xff, 0x41, 1])
    finish_psinfo(ch, case)
    return case


class FastHyp(HypChooser):
    """HypChooser with memoised strategy objects (building a fresh one_of/integers strategy per draw dominated the
    run time); the drawn distributions are the same."""
    _ints, _words, _bins = {}, {}, {}

    def int(self, lo, hi):
        s = self._ints.get((lo, hi))
        if s is None:
            s = self._ints[(lo, hi)] = st.integers(lo, hi)
        return self.draw(s)

    def choice(self, seq):
        return seq[self.int(0, len(seq) - 1)]

    def bool(self, p=0.5):
        return self.int(0, 999) < p * 1000

    def bytes(self, lo, hi=None):
        hi = lo if hi is None else hi
        s = self._bins.get((lo, hi))
        if s is None:
            s = self._bins[(lo, hi)] = st.binary(min_size=lo, max_size=hi)
        return self.draw(s)

    def word(self, bits):
        s = self._words.get(bits)
        if s is None:
            s = self._words[bits] = st.one_of(
                st.sampled_from([0, 1, (1 << bits) - 1, 1 << (bits - 1), (1 << (bits - 1)) - 1]),
                st.integers(0, min(255, (1 << bits) - 1)), st.integers(0, min(0xffff, (1 << bits) - 1)),
                st.integers(0, (1 << bits) - 1))
        return self.draw(s)


def strategy(tier):
    @st.composite
    def s(draw):
        return build_case(FastHyp(draw), tier)
    return s()


def _mk(cls, le, core, view, notes, machine=None, stabs=None, lay=None, e_type=None, ch=None):
    if machine is None:
        machine = 62 if cls == 64 else 3
    case = {'cls': cls, 'le': le, 'e_type': (ET_CORE if core else 2) if e_type is None else e_type, 'e_machine': machine,
            'view': view, 'notes': notes, 'stabs': stabs, 'lay': lay or {'gap4': 1, 'at_end': False, 'tail': 3, 'p_vaddr': 0x1234,
                                                                         'p_memsz': 1, 'addr': 0x400100}}
    if (len(notes) + cls // 32 + le + core) % 3 == 0:
        case['padfill'] = (0xaa, 0x41, 0xff)[len(notes) % 3]
    if ch is not None:
        finish_psinfo(ch, case)
    return case


def sweep(tier):
    cases = []
    ch = RndChooser(1414)
    HO = lambda t=0: {'k': 'raw', 'name': None, 'type': t, 'desc': b''}   # noqa: E731  header-only note
    cells = [(cls, le, core) for cls in (32, 64) for le in (True, False) for core in (False, True)]
    views = ('sec', 'seg', 'both')
    # A. every (namesz, descsz) residue pair, in every cell x view; the last note of each extent differs
    for ci, (cls, le, core) in enumerate(cells):
        for vi, view in enumerate(views):
            for namesz in range(0, 10):
                notes = []
                for descsz in range(0, 10):
                    name = None if namesz == 0 else bytes(0x41 + (k + descsz) % 26 for k in range(namesz - 1))
                    t = TYPE_POOL[(namesz + descsz) % len(TYPE_POOL)]
                    if treatment(core, name, t, 'raw') != 'bytes':
                        t += 0x20
                    notes.append({'k': 'raw', 'name': name, 'type': t, 'desc': bytes((17 * k + descsz + 1) & 0xff for k in range(descsz))})
                rot = (namesz + ci + vi) % 10
                notes = notes[rot:] + notes[:rot]
                cases.append(_mk(cls, le, core, view, notes, lay={'gap4': namesz % 3, 'at_end': namesz % 2 == 0, 'tail': 0,
                                                                  'p_vaddr': 0x77, 'p_memsz': namesz, 'addr': 0x400000 + 4 * namesz,
                                                                  'walign': (None, 8, 0, 16, 1)[namesz % 5]}))
            # every owner of the pool (empty, latin-1, long, near-misses of 'GNU') x a rotating type; a collision-free extent
            notes = []
            for k, name in enumerate(NAME_POOL + [bytes(range(1, 40)), bytes(range(0x80, 0xa7))]):
                t = TYPE_POOL[(k + ci + vi) % len(TYPE_POOL)]
                if treatment(core, name, t, 'raw') != 'bytes':
                    t += 0x20
                notes.append({'k': 'raw', 'name': name, 'type': t, 'desc': bytes(range(k % 7))})
            cases.append(_mk(cls, le, core, view, notes))
            # extents around the header-only note and the empty extent
            X = {'k': 'raw', 'name': b'X', 'type': 0x101, 'desc': b'\x01\x02\x03'}
            for k, notes in enumerate(([], [HO()], [X, HO(7)], [HO(), X], [HO(1), HO(2)], [X], [X, X, HO(0xffffffff)])):
                cases.append(_mk(cls, le, core, view, [dict(n) for n in notes], lay={'gap4': k % 2, 'at_end': k % 2 == 1, 'tail': 5,
                                                                                    'p_vaddr': 3, 'p_memsz': 0, 'addr': 0x1000}))
    # B. typed kinds in every cell, boundary values
    for ci, (cls, le, core) in enumerate(cells):
        view = views[ci % 3]
        M = (1 << cls) - 1
        gnu = [{'k': 'abi', 'os': o, 'ver': v} for o, v in ((0, [2, 6, 32]), (1, [0, 0, 0]), (2, [0xffffffff, 1, 0x80000000]),
                                                           (3, [1, 2, 3]), (4, [9, 9, 9]), (5, [0, 1, 0]), (6, [1, 1, 1]), (0xffffffff, [0, 0, 0]))]
        gnu += [{'k': 'bid', 'id': bytes(range(1, n + 1))} for n in (0, 1, 2, 3, 4, 8, 16, 20, 21, 32, 64)]
        gnu += [{'k': 'gold', 's': s} for s in (b'gold 1.16', b'', b'g', b'go', b'gol', b'gold', b'gold \xe9\xff')]
        props = [{'pk': 'stack', 't': 1, 'v': v} for v in (0, 1, 0x100000, M)]
        props += [{'pk': 'nocopy', 't': 2}]
        props += [{'pk': 'word', 't': t, 'v': v} for t in sorted(PR_WORDS) for v in (0, 3, 0x80000001, 0xffffffff)]
        props += [{'pk': 'unk', 't': t, 'd': bytes(range(0x30, 0x30 + (i * 5) % 13))} for i, t in enumerate(PR_UNKNOWN_POOL)]
        props += [{'pk': 'unk', 't': t, 'd': bytes((i + 1, 0, 0x80, 0xff))} for i, t in enumerate(PR_UNKNOWN_W4_POOL)]
        props += [{'pk': 'unk', 't': 0xe0000001, 'd': bytes(range(1, n + 1))} for n in range(0, 18)]
        gnu += [{'k': 'prop', 'props': []}]
        gnu += [{'k': 'prop', 'props': [dict(p)]} for p in props]
        for n in (2, 3, 5, 8):
            for r in range(3):
                gnu.append({'k': 'prop', 'props': [dict(ch.choice(props)) for _ in range(n)]})
        gnu.append({'k': 'prop', 'props': [dict(p) for p in props]})
        for i in range(0, len(gnu), 6):
            mach = (62, 183, 243, 3, 8)[(i // 6) % 5]
            chunk = []
            for n in gnu[i:i + 6]:
                n = dict(n)
                if n['k'] == 'prop':       # processor-specific words follow the machine of this file
                    n['props'] = [dict(p, t=(p['t'] if p['t'] in words_for(mach) else words_for(mach)[j % len(words_for(mach))]))
                                  if p['pk'] == 'word' else dict(p) for j, p in enumerate(n['props'])]
                chunk.append(n)
            if (i // 6) % 3 == 0:
                chunk.append(HO(5))
            cases.append(_mk(cls, le, core, views[(ci + i // 6) % 3], chunk, machine=mach,
                             e_type=None if core else (0, 1, 2, 3, 0xfe00, 0xffff)[(i // 6) % 6],
                             lay={'gap4': (i // 6) % 3, 'at_end': (i // 6) % 2 == 0, 'tail': 0, 'p_vaddr': 1, 'p_memsz': 0, 'addr': 0x2000}))
        # every processor-specific feature word on its own processor (strict), on RISC-V, and on a foreign one (loose)
        for mi, mach in enumerate((62, 3, 183, 243, 8)):
            ws = words_for(mach)
            plist = [{'pk': 'word', 't': t, 'v': (1, 0x80000000, 0xffffffff, 3, 0)[(k + mi) % 5]} for k, t in enumerate(ws)]
            if mach == 183:
                plist.append({'pk': 'unk', 't': 0xc0000001, 'd': bytes(range(0x10, 0x20))})
                # the numbers are processor-specific: what names an x86 word elsewhere is an unknown property here, of any size
                plist += [{'pk': 'unk', 't': t, 'd': bytes(range(0x41, 0x41 + n))}
                          for k, t in enumerate(X86_WORDS) for n in ((8, 12, 16, 24)[k % 4], (16, 24, 8, 12)[k % 4])]
            cases.append(_mk(cls, le, core, views[(ci + mi) % 3], [{'k': 'prop', 'props': plist}, {'k': 'prop', 'props': plist[::-1] + plist}],
                             machine=mach, lay={'gap4': mi % 2, 'at_end': mi % 2 == 0, 'tail': 0, 'p_vaddr': 0, 'p_memsz': 0, 'addr': 0x3000}))
        # core kinds, every machine of both uid-width sets (ELF32) / the 64-bit list (ELF64)
        machines = (UG16 + UG32) if cls == 32 else M64
        for mi, mach in enumerate(machines):
            ps = [{'k': 'psinfo', 'f': gen_psinfo(ch)} for _ in range(2)]
            fl = [{'k': 'file', 'page': (1, 4096, M)[k % 3],
                   'maps': [[ch.word(cls), ch.word(cls), (0, 1, M)[j % 3], (b'/lib/x86_64-linux-gnu/libc-2.23.so', b'', b'a', b'/\xe9\xff')[(j + k) % 4]]
                            for j in range(k)]} for k in range(0, 6)]
            notes = [ps[0], fl[mi % 6], {'k': 'raw', 'name': b'CORE', 'type': 1, 'desc': bytes(range(7))}, ps[1], fl[(mi + 3) % 6]]
            if mi % 2:
                notes.append(HO(6))
            c = _mk(cls, le, core, views[(ci + mi) % 3], notes, machine=mach, ch=ch,
                    lay={'gap4': mi % 2, 'at_end': mi % 3 == 0, 'tail': 1, 'p_vaddr': 0, 'p_memsz': 0, 'addr': 0})
            cases.append(c)
            cases.append(_mk(cls, le, core, views[(ci + mi + 1) % 3], [dict(n) for n in fl], machine=mach,
                             lay={'gap4': 0, 'at_end': mi % 2 == 0, 'tail': 0, 'p_vaddr': 0, 'p_memsz': 0, 'addr': 0}))
    # C. ET_CORE: foreign owner on a type number that the library decodes (gABI: owner and type together identify it)
    for ci, (cls, le, core) in enumerate(cells):
        if not core:
            continue
        for k, (name, t, desc) in enumerate(((b'GNU', 3, bytes(range(20))), (b'XYZ', 3, b'\x01\x02\x03\x04'), (None, 3, b''),
                                             (b'FOO', NT_FILE, b'\x05\0\0\0\x05\0\0\0'), (b'LINUX', NT_FILE, b''))):
            for at_end in (True, False):
                X = {'k': 'raw', 'name': b'CORE', 'type': 6, 'desc': b'\x01\x02\x03\x04\x05'}
                cases.append(_mk(cls, le, True, views[(ci + k) % 3], [X, {'k': 'raw', 'name': name, 'type': t, 'desc': desc}],
                                 lay={'gap4': 0, 'at_end': at_end, 'tail': 600, 'decoy': bytes(200), 'p_vaddr': 0, 'p_memsz': 0, 'addr': 0}))
    # D. stabs
    for ci, (cls, le, core) in enumerate(cells):
        for n in (0, 1, 2, 3, 50):
            recs = [[(0, 1, 0xffffffff, 0x80000000)[i % 4] if i < 4 else ch.word(32), (0, 0x64, 0xff, 0x80)[i % 4], (1, 0, 0xff, 0x7f)[i % 4],
                     (0, 0xffff, 0x8000, 0x1234)[i % 4], ch.word(32)] for i in range(n)]
            cases.append(_mk(cls, le, core, views[(ci + n) % 3], [{'k': 'raw', 'name': b'ab', 'type': 9, 'desc': b'z'}], stabs=recs,
                             lay={'gap4': n % 2, 'at_end': False, 'tail': 0, 'p_vaddr': 5, 'p_memsz': 0, 'addr': 0x40, 'stab_addr': 0x1230}))
    return cases


def floors(ctx):
    c = ctx.counters
    need = ['cell.%d%s.%s' % (cls, o, k) for cls in (32, 64) for o in ('le', 'be') for k in ('core', 'other')]
    need += ['view.sec', 'view.seg', 'view.both', 'views.compared', 'notes.0', 'notes.1', 'notes.3+',
             'kind.raw', 'kind.abi', 'kind.bid', 'kind.gold', 'kind.prop', 'kind.psinfo', 'kind.file',
             'treat.bytes', 'treat.abi', 'treat.bid', 'treat.gold', 'treat.prop', 'treat.psinfo', 'treat.file', 'treat.collision',
             'namesz=0', 'name.non-ascii', 'final.header-only', 'prop.multi', 'prop.empty', 'prop.stack', 'prop.nocopy', 'prop.word',
             'prop.unk', 'psinfo.elf32.ugid16', 'psinfo.elf32.ugid32', 'psinfo.elf64.ugid32', 'file.maps.0', 'file.maps.2',
             'stabs.sections', 'stabs.records', 'stabs.empty', 'layout.extent-at-eof', 'extent.offset-not-multiple-of-4', 'walk.stepwise',
             'stream.minimal', 'stream.mmap', 'stream.file']
    need += ['prop.word.strict.%#x' % t for t in sorted(PR_WORDS)] + ['prop.word.word', 'prop.word.loose']
    need += ['namesz%%4=%d' % r for r in range(4)] + ['descsz%%4=%d' % r for r in range(4)]
    return ['no case with ' + k for k in need if c[k] == 0]


def selftest():
    """development aid: constants vs the vendored registries."""
    from vf import registry
    r = registry.elf_names()
    for core in (False, True):
        for v, nm in MUST_NTYPE[core].items():
            assert v in r[nm], nm
    for v, nm in MUST_ABI_OS.items():
        assert v in r[nm], nm
    for v, nm in PR_WORDS.items():
        assert v in r[nm], nm
    assert 1 in r['GNU_PROPERTY_STACK_SIZE'] and 2 in r['GNU_PROPERTY_NO_COPY_ON_PROTECTED']
    for nm, v in (('EM_386', 3), ('EM_ARM', 40), ('EM_68K', 4), ('EM_S390', 22), ('EM_SH', 42), ('EM_SPARC', 2),
                  ('EM_MN10300', 89), ('EM_CRIS', 76), ('EM_M32R', 88), ('EM_MIPS', 8), ('EM_PPC', 20), ('EM_RISCV', 243),
                  ('EM_PARISC', 15)):
        assert v in r[nm], nm
    return True
